package auth

import (
	"net/http"
	"net/http/httptest"
	"net/url"
	"reflect"
	"strings"
	"testing"

	"github.com/volatiletech/authboss/v3"
	"github.com/volatiletech/authboss/v3/defaults"
	"github.com/volatiletech/authboss/v3/mocks"
)

type loginObservation struct {
	Code    int
	Header  http.Header
	Body    string
	Session map[string]string
	Cookies map[string]string
}

// failedLogin posts one login against a fresh authboss instance (auth module
// with the default router, responder, redirector and body reader) and reports
// what the client can see. The only account in storage was created through
// OAuth2 and never chose a password, so its password column is empty.
func failedLogin(t *testing.T, json bool, pid, password string) loginObservation {
	t.Helper()

	ab := authboss.New()
	storer := mocks.NewServerStorer()
	storer.Users["social@example.com"] = &mocks.User{
		Email:          "social@example.com",
		Password:       "",
		Confirmed:      true,
		OAuth2Provider: "google",
		OAuth2UID:      "1234567",
	}
	session := mocks.NewClientRW()
	cookies := mocks.NewClientRW()

	renderer := defaults.JSONRenderer{}
	ab.Config.Storage.Server = storer
	ab.Config.Storage.SessionState = session
	ab.Config.Storage.CookieState = cookies
	ab.Config.Core.ViewRenderer = renderer
	ab.Config.Core.Router = defaults.NewRouter()
	ab.Config.Core.ErrorHandler = defaults.NewErrorHandler(mocks.Logger{})
	ab.Config.Core.Responder = defaults.NewResponder(renderer)
	ab.Config.Core.Redirector = defaults.NewRedirector(renderer, authboss.FormValueRedirect)
	ab.Config.Core.BodyReader = defaults.NewHTTPBodyReader(json, false)
	ab.Config.Core.Logger = mocks.Logger{}
	ab.Config.Paths.AuthLoginOK = "/home"

	// Hasher is left alone: authboss.Init installs the stock bcrypt hasher.
	if err := ab.Init("auth"); err != nil {
		t.Fatal(err)
	}

	var r *http.Request
	if json {
		body := `{"email":"` + pid + `","password":"` + password + `"}`
		r = httptest.NewRequest("POST", "/login", strings.NewReader(body))
		r.Header.Set("Content-Type", "application/json")
	} else {
		form := url.Values{"email": {pid}, "password": {password}}
		r = httptest.NewRequest("POST", "/login", strings.NewReader(form.Encode()))
		r.Header.Set("Content-Type", "application/x-www-form-urlencoded")
	}

	w := httptest.NewRecorder()
	ab.LoadClientStateMiddleware(ab.Config.Core.Router).ServeHTTP(w, r)

	return loginObservation{
		Code:    w.Code,
		Header:  w.Result().Header,
		Body:    w.Body.String(),
		Session: session.ClientValues,
		Cookies: cookies.ClientValues,
	}
}

// A failed password login must not tell an account that exists from one that
// does not, whatever the stored state of the existing account is.
func TestFailedLoginForPasswordlessAccountLooksLikeUnknownAccount(t *testing.T) {
	for _, mode := range []struct {
		name string
		json bool
	}{{"form", false}, {"json", true}} {
		t.Run(mode.name, func(t *testing.T) {
			unknown := failedLogin(t, mode.json, "nobody@example.com", "Tr0ub4dor&3")
			known := failedLogin(t, mode.json, "social@example.com", "Tr0ub4dor&3")

			if unknown.Code != http.StatusOK || !strings.Contains(unknown.Body, "Invalid Credentials") {
				t.Fatalf("unknown account: expected the invalid credentials page, got %+v", unknown)
			}
			if !reflect.DeepEqual(unknown, known) {
				t.Errorf("responses differ, account existence is revealed\nunknown: %+v\nknown:   %+v", unknown, known)
			}
		})
	}
}
