package recover

import (
	"context"
	"net/http/httptest"
	"net/url"
	"reflect"
	"testing"
	"time"

	"github.com/volatiletech/authboss/v3"
	"github.com/volatiletech/authboss/v3/mocks"
)

// patchStorer behaves like the common ORM "update the columns that carry a
// value" call: Load hands out copies, Save writes back only the fields of the
// user that are not the zero value of their type.
type patchStorer struct {
	rows map[string]mocks.User
}

func (p *patchStorer) Load(_ context.Context, key string) (authboss.User, error) {
	row, ok := p.rows[key]
	if !ok {
		return nil, authboss.ErrUserNotFound
	}
	return &row, nil
}

func (p *patchStorer) Save(_ context.Context, user authboss.User) error {
	u := user.(*mocks.User)
	row, ok := p.rows[u.Email]
	if !ok {
		return authboss.ErrUserNotFound
	}

	dst := reflect.ValueOf(&row).Elem()
	src := reflect.ValueOf(u).Elem()
	for i := 0; i < src.NumField(); i++ {
		if !src.Field(i).IsZero() {
			dst.Field(i).Set(src.Field(i))
		}
	}

	p.rows[u.Email] = row
	return nil
}

func (p *patchStorer) LoadByRecoverSelector(_ context.Context, selector string) (authboss.RecoverableUser, error) {
	for _, row := range p.rows {
		if row.RecoverSelector == selector {
			row := row
			return &row, nil
		}
	}
	return nil, authboss.ErrUserNotFound
}

func TestDemoUsedRecoverLinkStaysDead(t *testing.T) {
	const pid = "jane@example.com"

	ab := authboss.New()
	bodyReader := &mocks.BodyReader{}
	mailer := &mocks.Emailer{}
	renderer := &mocks.Renderer{}
	responder := &mocks.Responder{}
	redirector := &mocks.Redirector{}
	storer := &patchStorer{rows: map[string]mocks.User{
		pid: {Email: pid, Password: "original-hash"},
	}}

	ab.Paths.RecoverOK = "/recover/ok"
	ab.Modules.MailNoGoroutine = true
	ab.Config.Core.BodyReader = bodyReader
	ab.Config.Core.Logger = mocks.Logger{}
	ab.Config.Core.Hasher = mocks.Hasher{}
	ab.Config.Core.Mailer = mailer
	ab.Config.Core.MailRenderer = renderer
	ab.Config.Core.Redirector = redirector
	ab.Config.Core.Responder = responder
	ab.Config.Storage.SessionState = mocks.NewClientRW()
	ab.Config.Storage.Server = storer

	rec := &Recover{ab}

	// The user asks for a recovery link.
	bodyReader.Return = &mocks.Values{PID: pid}
	if err := rec.StartPost(httptest.NewRecorder(), mocks.Request("POST")); err != nil {
		t.Fatal(err)
	}

	mailed, err := url.Parse(renderer.Data[DataRecoverURL].(string))
	if err != nil {
		t.Fatal(err)
	}
	token := mailed.Query().Get(FormValueToken)
	if len(token) == 0 {
		t.Fatal("no token was mailed")
	}

	// The user follows it and sets a new password.
	bodyReader.Return = &mocks.Values{Token: token, Password: "first-new-password"}
	if err := rec.EndPost(httptest.NewRecorder(), mocks.Request("POST")); err != nil {
		t.Fatal(err)
	}
	if redirector.Options.RedirectPath != ab.Paths.RecoverOK {
		t.Fatal("the genuine recovery did not go through")
	}

	afterFirst := storer.rows[pid].Password
	hasher := mocks.Hasher{}
	if err := hasher.CompareHashAndPassword(afterFirst, "first-new-password"); err != nil {
		t.Fatal("the genuine recovery did not set the password:", err)
	}

	// Somebody who got hold of the same mail submits the link a second time,
	// well within the link's original validity.
	time.Sleep(5 * time.Millisecond)
	redirector.Options = authboss.RedirectOptions{}
	responder.Page, responder.Data = "", nil

	bodyReader.Return = &mocks.Values{Token: token, Password: "attacker-password"}
	if err := rec.EndPost(httptest.NewRecorder(), mocks.Request("POST")); err != nil {
		t.Fatal(err)
	}

	if got := storer.rows[pid].Password; got != afterFirst {
		t.Error("a recovery link that was already used changed the password a second time")
	}
	if redirector.Options.RedirectPath == ab.Paths.RecoverOK {
		t.Error("a recovery link that was already used was reported as a success")
	}
	if _, ok := responder.Data[authboss.DataValidation]; !ok {
		t.Error("the second use of the link should be answered with the invalid token error")
	}
}
