package sms2fa

import (
	"context"
	"net/http"
	"net/http/httptest"
	"testing"

	"github.com/volatiletech/authboss/v3"
	"github.com/volatiletech/authboss/v3/auth"
	"github.com/volatiletech/authboss/v3/mocks"
	"github.com/volatiletech/authboss/v3/remember"
)

type c07Sender struct{ last string }

func (s *c07Sender) Send(_ context.Context, _, text string) error {
	s.last = text
	return nil
}

type c07World struct {
	ab         *authboss.Authboss
	bodyReader *mocks.BodyReader
	session    *mocks.ClientStateRW
	cookies    *mocks.ClientStateRW
	storer     *mocks.ServerStorer
	sender     *c07Sender
	sms        *SMS
	auth       *auth.Auth
}

func c07Setup() *c07World {
	w := &c07World{
		ab:         authboss.New(),
		bodyReader: &mocks.BodyReader{},
		session:    mocks.NewClientRW(),
		cookies:    mocks.NewClientRW(),
		storer:     mocks.NewServerStorer(),
		sender:     &c07Sender{},
	}

	w.ab.Config.Paths.AuthLoginOK = "/login/ok"
	w.ab.Config.Core.BodyReader = w.bodyReader
	w.ab.Config.Core.Logger = mocks.Logger{}
	w.ab.Config.Core.Hasher = mocks.Hasher{}
	w.ab.Config.Core.Responder = &mocks.Responder{}
	w.ab.Config.Core.Redirector = &mocks.Redirector{}
	w.ab.Config.Storage.SessionState = w.session
	w.ab.Config.Storage.CookieState = w.cookies
	w.ab.Config.Storage.Server = w.storer

	w.sms = &SMS{Authboss: w.ab, Sender: w.sender}
	w.ab.Events.Before(authboss.EventAuthHijack, w.sms.HijackAuth)
	w.auth = &auth.Auth{Authboss: w.ab}

	return w
}

// request serves one request of the (single) browser through the remember
// middleware and flushes the client state.
func (w *c07World) request(t *testing.T, fn func(http.ResponseWriter, *http.Request) error) {
	t.Helper()

	resp := w.ab.NewResponse(httptest.NewRecorder())
	r, err := w.ab.LoadClientState(resp, mocks.Request("POST"))
	if err != nil {
		t.Fatal(err)
	}

	h := remember.Middleware(w.ab)(http.HandlerFunc(func(rw http.ResponseWriter, r *http.Request) {
		if err := fn(rw, r); err != nil {
			t.Fatal(err)
		}
	}))
	h.ServeHTTP(resp, r)
	resp.WriteHeader(http.StatusOK)
}

func TestC07FullLoginWithSMSClearsHalfAuth(t *testing.T) {
	w := c07Setup()

	pass, err := mocks.Hasher{}.GenerateHash("hunter2")
	if err != nil {
		t.Fatal(err)
	}
	user := &mocks.User{Email: "test@test.com", Password: pass, SMSPhoneNumber: "555-0100"}
	w.storer.Users[user.Email] = user

	// The user was remembered earlier; the session is gone, the cookie is not.
	hash, token, err := remember.GenerateToken(user.Email)
	if err != nil {
		t.Fatal(err)
	}
	w.storer.RMTokens[user.Email] = []string{hash}
	w.cookies.ClientValues[authboss.CookieRemember] = token

	// 1. any request: the cookie logs the user in, half-authed
	w.request(t, func(http.ResponseWriter, *http.Request) error { return nil })
	if w.session.ClientValues[authboss.SessionKey] != user.Email || w.session.ClientValues[authboss.SessionHalfAuthKey] != "true" {
		t.Fatalf("setup: the cookie did not create a half-authed session: %v", w.session.ClientValues)
	}

	// 2. a sensitive page sends the user to the login form: password step
	w.bodyReader.Return = mocks.Values{PID: user.Email, Password: "hunter2"}
	w.request(t, w.auth.LoginPost)
	code := w.session.ClientValues[SessionSMSSecret]
	if len(code) == 0 || code != w.sender.last {
		t.Fatalf("setup: no sms code was sent: %v", w.session.ClientValues)
	}

	// 3. second factor
	w.bodyReader.Return = mocks.Values{Code: code}
	validate := &SMSValidator{SMS: w.sms, Page: PageSMSValidate}
	w.request(t, validate.Post)

	if w.session.ClientValues[authboss.SessionKey] != user.Email || w.session.ClientValues[authboss.Session2FA] != "sms" {
		t.Fatalf("setup: the two factor login did not complete: %v", w.session.ClientValues)
	}

	// 4. the session is the result of a full login now, not of a cookie
	if v, ok := w.session.ClientValues[authboss.SessionHalfAuthKey]; ok {
		t.Errorf("password and sms code were given, yet the session still carries halfauth=%q", v)
	}
	w.request(t, func(_ http.ResponseWriter, r *http.Request) error {
		if !authboss.IsFullyAuthed(r) {
			t.Error("the fully logged in user is still treated as half-authed")
		}
		return nil
	})
}
