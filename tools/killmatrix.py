#!/usr/bin/env python3
"""Thorough tier: kill matrix. Evidence about the CHECKER, not about /repo.

usage: killmatrix.py <property id|all> <repo dir> <out dir>

For every seeded property-breaking change under /verif/seeded and every re-introduced repaired defect under
/verif/regress, a scratch copy of <repo dir> (the CURRENT tree, so an edited tree is respected) is made under
$TMPDIR, the patch applied if it still applies, and the property's static check run on the copy. The result
(seed -> caught / missed / patch does not apply) is merged into <out>/evidence/<id>.json under
coverage.kill_matrix. A missed seed is recorded, never reported as a VIOLATION, and never changes the exit
status: this script always exits 0. No repository code is executed.
"""
import json, os, shutil, subprocess, sys, tempfile, concurrent.futures as cf

prop, repo, out = sys.argv[1], sys.argv[2], sys.argv[3]
HERE = os.path.dirname(os.path.dirname(os.path.abspath(__file__)))
BIN = os.path.join(HERE, 'bin', 'abcheck')
ENV = dict(os.environ, GOFLAGS='-mod=mod', GOPROXY='off', GOSUMDB='off', GOTOOLCHAIN='local')
ENV.pop('GOWORK', None)

seeds = []
for root in ('seeded', 'regress'):
    d = os.path.join(HERE, root)
    if not os.path.isdir(d):
        continue
    for sid in sorted(os.listdir(d)):
        p = os.path.join(d, sid, 'patch.diff')
        if os.path.exists(p):
            meta = {}
            try:
                meta = json.load(open(os.path.join(d, sid, 'meta.json')))
            except Exception:
                pass
            seeds.append((root + '/' + sid, p, meta.get('property', '?')))

props = [prop] if prop != 'all' else sorted({s[2] for s in seeds if s[2] != '?'})


def one(seed):
    sid, patch, own = seed
    tmp = tempfile.mkdtemp(prefix='km-')
    try:
        r2 = os.path.join(tmp, 'repo')
        o2 = os.path.join(tmp, 'out')
        os.makedirs(o2)
        shutil.copytree(repo, r2, ignore=shutil.ignore_patterns('.git'))
        kf = os.path.join(HERE, 'KNOWN_FINDINGS.txt')
        if os.path.exists(kf):
            shutil.copy(kf, o2)
        p = subprocess.run('patch -p1 -s --no-backup-if-mismatch < ' + patch, cwd=r2, shell=True, capture_output=True, text=True)
        if p.returncode != 0:
            return sid, own, None
        r = subprocess.run([BIN, '-property', ','.join(props), '-tier', 'quick', '-repo', r2, '-out', o2], env=ENV, capture_output=True, text=True)
        hits = sorted({l.split()[1].split('=')[1] for l in r.stdout.splitlines() if l.startswith('VIOLATION')})
        return sid, own, hits
    finally:
        shutil.rmtree(tmp, ignore_errors=True)


# per property: its own seeds and the re-introduced defects (the full cross matrix over all
# seeds is what tools/runmut.py prints; it takes a minute per property and adds nothing here)
if prop != 'all':
    seeds = [s for s in seeds if s[2] == prop or s[0].startswith('regress/')]
with cf.ThreadPoolExecutor(8) as ex:
    res = list(ex.map(one, seeds))

for pid in props:
    rows, caught, own_total, own_caught, skipped = [], 0, 0, 0, 0
    for sid, own, hits in res:
        if hits is None:
            skipped += 1
            rows.append({'seed': sid, 'breaks': own, 'result': 'patch does not apply to the current tree (skipped)'})
            continue
        hit = pid in hits
        if own == pid:
            own_total += 1
            own_caught += int(hit)
        if hit:
            caught += 1
        if own == pid or hit:
            rows.append({'seed': sid, 'breaks': own, 'result': 'caught' if hit else 'MISSED'})
    ev_path = os.path.join(out, 'evidence', pid + '.json')
    try:
        ev = json.load(open(ev_path))
    except Exception:
        continue
    ev['coverage']['kill_matrix'] = {
        'what': 'seeded property-breaking changes (independent sub-agents; /verif/seeded) and re-introduced repaired defects (/verif/regress), applied to a scratch copy of the current tree and analysed statically; evidence about the checker only',
        'seeds_total': len(res), 'seeds_skipped_patch_does_not_apply': skipped,
        'seeds_breaking_this_property': own_total, 'of_those_caught': own_caught,
        'seeds_of_other_properties_also_flagged_here': caught - own_caught,
        'rows': rows,
    }
    json.dump(ev, open(ev_path, 'w'), indent=1)
    print(f'kill matrix {pid}: {own_caught}/{own_total} seeds of this property caught, {caught - own_caught} seeds of other properties also flagged, {skipped} skipped')
sys.exit(0)
