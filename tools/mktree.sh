#!/bin/sh
# usage: mktree.sh <seed-id> [seeddir]  -> /tmp/mt-<seed-id>/repo with the patch applied (scratch; remove after use)
S=$1; D=${2:-/verif/seeded}
T=/tmp/mt-$S; rm -rf $T; mkdir -p $T/out
rsync -a --exclude .git /repo/ $T/repo/
cp /verif/KNOWN_FINDINGS.txt $T/out/
(cd / && git apply --unsafe-paths --directory=$T/repo $D/$S/patch.diff) || (cd $T/repo && patch -p1 -s < $D/$S/patch.diff)
echo $T
