#!/usr/bin/env python3
"""Run the checker against seeded mutants in scratch copies of /repo (never touches /repo).

usage: runmut.py [-p C01,C02|all] [seed ids...]     default: all seeds, all implemented properties
Prints, per mutant, which properties report a VIOLATION.
"""
import json, os, shutil, subprocess, sys, tempfile, concurrent.futures as cf
ENV = dict(os.environ, GOFLAGS='-mod=mod', GOPROXY='off', GOSUMDB='off', GOTOOLCHAIN='local')
ENV.pop('GOWORK', None)
args = sys.argv[1:]
props = 'all'
tier = 'quick'
while args and args[0].startswith('-'):
    if args[0] == '-p': props = args[1]; args = args[2:]
    elif args[0] == '-t': tier = args[1]; args = args[2:]
    else: break
SEEDDIR = os.environ.get('SEEDDIR', '/verif/seeded')
seeds = args or sorted(os.listdir(SEEDDIR))
def one(sid):
    d = os.path.join(SEEDDIR, sid)
    if not os.path.exists(os.path.join(d, 'patch.diff')): return sid, None, ''
    tmp = tempfile.mkdtemp(prefix='ms-', dir='/tmp')
    try:
        repo = os.path.join(tmp, 'repo'); out = os.path.join(tmp, 'out'); os.makedirs(out)
        shutil.copytree('/repo', repo, ignore=shutil.ignore_patterns('.git'))
        if os.path.exists('/verif/KNOWN_FINDINGS.txt'): shutil.copy('/verif/KNOWN_FINDINGS.txt', out)
        p = subprocess.run(['git', 'apply', '--unsafe-paths', '--directory=' + repo, os.path.join(d, 'patch.diff')], cwd='/', capture_output=True, text=True)
        if p.returncode != 0:
            p = subprocess.run('patch -p1 -s < ' + os.path.join(d, 'patch.diff'), cwd=repo, shell=True, capture_output=True, text=True)
            if p.returncode != 0: return sid, None, 'patch failed: ' + p.stdout + p.stderr
        r = subprocess.run([os.environ.get('ABCHECK', '/verif/bin/abcheck'), '-property', props, '-tier', tier, '-repo', repo, '-out', out], env=ENV, capture_output=True, text=True)
        hits = sorted({l.split()[1].split('=')[1] for l in r.stdout.splitlines() if l.startswith('VIOLATION')})
        detail = [l for l in r.stdout.splitlines() if l.startswith('violated') or l.startswith('UNDECIDED')]
        if r.returncode not in (0, 1): detail.append('EXIT %d: ' % r.returncode + r.stdout[-300:] + r.stderr[-300:]); hits = ['EXIT%d' % r.returncode] + hits
        return sid, hits, '\n'.join('      ' + x[:260] for x in detail[:6])
    finally:
        shutil.rmtree(tmp, ignore_errors=True)
with cf.ThreadPoolExecutor(8) as ex:
    res = list(ex.map(one, seeds))
caught = 0
for sid, hits, detail in res:
    meta = {}
    try: meta = json.load(open(os.path.join(SEEDDIR, sid, 'meta.json')))
    except Exception: pass
    own = meta.get('property', '?')
    if hits is None: print(f'{sid:10s} ERROR {detail}'); continue
    mark = 'CAUGHT' if hits else 'missed'
    if hits: caught += 1
    print(f'{sid:10s} [{own}] {mark:6s} {",".join(hits)}')
    if detail and os.environ.get('V'): print(detail)
print(f'{caught}/{len(res)} caught')
