#!/bin/sh
# Assemble DESIGN.md from its parts and the generated appendix tables.
# REUSE_SEEDED / REUSE_REGRESS / REUSE_REFACTORS=<file> take the output of an earlier tools/runmut.py run
# (made with the same checker build) instead of running the three corpora again.
cd "$(dirname "$0")/.."
python3 - <<'PY'
import json,os,re,glob,subprocess
def table_c():
    res={}
    for env,dirn in (({}, 'seeded'),({'SEEDDIR':'/verif/regress'},'regress')):
        reuse=os.environ.get('REUSE_'+dirn.upper())
        out=open(reuse).read() if reuse else subprocess.run(['./tools/runmut.py'],env=dict(os.environ,**env),capture_output=True,text=True).stdout
        for l in out.splitlines():
            m=re.match(r'(\S+)\s+\[(\S+)\]\s+(CAUGHT|missed)\s*(\S*)',l)
            if m: res[dirn+'/'+m.group(1)]=(m.group(3),m.group(4))
    rows=[]
    for d in ('seeded','regress'):
        for sid in sorted(os.listdir(d)):
            try: meta=json.load(open(f'{d}/{sid}/meta.json'))
            except Exception: continue
            s=(meta.get('summary') or '').replace('\n',' ').replace('|','/')
            s=s[:230]+('…' if len(s)>230 else '')
            need=(meta.get('needs_to_manifest') or '').replace('\n',' ').replace('|','/')
            need=need[:150]+('…' if len(need)>150 else '')
            c=res.get(d+'/'+sid,('?',''))
            rows.append(f"| {d}/{sid} | {meta.get('property')} | {s} | {need} | {c[1] if c[0]=='CAUGHT' else '**missed**'} |")
    return '\n'.join(rows)
def table_d():
    reuse=os.environ.get('REUSE_REFACTORS')
    out=open(reuse).read() if reuse else subprocess.run(['./tools/runmut.py'],env=dict(os.environ,SEEDDIR='/verif/refactors'),capture_output=True,text=True).stdout
    res={}
    for l in out.splitlines():
        m=re.match(r'(\S+)\s+\[(\S+)\]\s+(CAUGHT|missed)\s*(\S*)',l)
        if m: res[m.group(1)]=(m.group(3),m.group(4))
    rows=[]
    for d in sorted(glob.glob('refactors/*/meta.json')):
        m=json.load(open(d)); s=(m.get('summary') or '').replace('\n',' ').replace('|','/')
        c=res.get(m['id'],('?',''))
        rows.append(f"| {m['id']} | {s[:240]}{'…' if len(s)>240 else ''} | {'silent' if c[0]=='missed' else '**ALARM** '+c[1]} |")
    return '\n'.join(rows)
doc=open('DESIGN.head.md').read()+'\n'+open('DESIGN.mid.md').read()+'\n'+open('DESIGN.tail.md').read()
doc+=table_c()+'\n\n## Appendix D. Behaviour-preserving refactorings (every check must stay silent)\n\nFrom independent sub-agents asked for realistic, behaviour-preserving refactorings of one area each; each patch applies to `/repo` HEAD, builds and passes the unedited suite (`tools/collect_refactors.py`). Last column: result of running all twenty quick checks on the patched tree.\n\n| patch | refactoring | result |\n|---|---|---|\n'+table_d()+'\n'
open('DESIGN.md','w').write(doc)
print(len(doc),'bytes')
PY
