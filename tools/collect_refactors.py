#!/usr/bin/env python3
"""Confirm behaviour-preserving refactoring patches delivered by sub-agents and file them under /verif/refactors/.
usage: collect_refactors.py <agent worktree> <prefix>    e.g. /tmp/ref/R07 R07
Each patch must apply to /repo HEAD, build and pass the whole existing suite (checked in a scratch copy)."""
import json, os, shutil, subprocess, sys, tempfile
ENV = dict(os.environ, GOFLAGS='-mod=mod', GOPROXY='off', GOSUMDB='off', GOTOOLCHAIN='local'); ENV.pop('GOWORK', None)
wt, prefix = sys.argv[1], sys.argv[2]
base = os.path.join(wt, 'REFACTOR')
for r in sorted(os.listdir(base)):
    p = os.path.join(base, r, 'patch.diff')
    if not os.path.exists(p): continue
    sid = f'{prefix}-{r}'
    tmp = tempfile.mkdtemp(prefix='cr-', dir='/tmp')
    try:
        repo = os.path.join(tmp, 'repo')
        shutil.copytree('/repo', repo, ignore=shutil.ignore_patterns('.git'))
        a = subprocess.run('patch -p1 -s --no-backup-if-mismatch < ' + p, cwd=repo, shell=True, capture_output=True, text=True)
        if a.returncode != 0:
            print(sid, 'PATCH DOES NOT APPLY'); continue
        t = subprocess.run('go build ./... && go test -vet=off -count=1 ./... 2>&1 | tail -20', cwd=repo, shell=True, env=ENV, capture_output=True, text=True)
        if t.returncode != 0 or 'FAIL' in t.stdout:
            print(sid, 'SUITE FAILS', t.stdout[-400:]); continue
        dst = os.path.join('/verif/refactors', sid); os.makedirs(dst, exist_ok=True)
        shutil.copy(p, os.path.join(dst, 'patch.diff'))
        note = ''
        if os.path.exists(os.path.join(base, r, 'note.txt')):
            note = open(os.path.join(base, r, 'note.txt')).read()
        json.dump({'id': sid, 'property': 'none', 'summary': note.strip(), 'origin': 'independent sub-agent asked for behaviour-preserving refactorings; applies to /repo HEAD, builds, existing suite passes (checked by tools/collect_refactors.py)', 'expected': 'every check stays silent'}, open(os.path.join(dst, 'meta.json'), 'w'), indent=1)
        print(sid, 'ok')
    finally:
        shutil.rmtree(tmp, ignore_errors=True)
