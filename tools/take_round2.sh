#!/bin/sh
# usage: take_round2.sh C11   -> confirm /tmp/mut17/C11/MUTANTS/m* into /verif/seeded/C11-r17m*, then run the checks on them
P=$1
ids=""
for m in 1 2 3; do d=/tmp/mut17/$P/MUTANTS/m$m; [ -d $d ] || continue; python3 /verif/tools/confirm_mutant.py $d $P-r17m$m 2>&1 | tail -1 | cut -c1-300; [ -d /verif/seeded/$P-r17m$m ] && ids="$ids $P-r17m$m"; done
[ -n "$ids" ] && V=1 /verif/tools/runmut.py $ids | cut -c1-330
