#!/usr/bin/env python3
"""Confirm a seeded mutant delivered by a sub-agent and file it under /verif/seeded/<id>/.

usage: confirm_mutant.py <mutant dir (with patch.diff, meta.json, demo files)> <seed id>

Checks, in a scratch git worktree of /repo (removed afterwards):
  1. patch applies to HEAD; go build ./... ok; the whole existing suite passes with the patch
  2. with the patch: the demonstration FAILS
  3. without the patch: the demonstration PASSES
"""
import json, os, shutil, subprocess, sys, tempfile

ENV = dict(os.environ, GOFLAGS='-mod=mod', GOPROXY='off', GOSUMDB='off', GOTOOLCHAIN='local')
ENV.pop('GOWORK', None)

def run(cmd, cwd, ok=None):
    p = subprocess.run(cmd, cwd=cwd, shell=True, env=ENV, stdout=subprocess.PIPE, stderr=subprocess.STDOUT, text=True)
    return p.returncode, p.stdout

def main():
    src, sid = sys.argv[1], sys.argv[2]
    meta = json.load(open(os.path.join(src, 'meta.json')))
    wt = tempfile.mkdtemp(prefix='cm-', dir='/tmp')
    os.rmdir(wt)
    rc, out = run(f'git -C /repo worktree add --detach {wt} HEAD -q', '/')
    assert rc == 0, out
    res = {'ran': []}
    try:
        patch = os.path.abspath(os.path.join(src, 'patch.diff'))
        rc, out = run(f'git apply --check {patch} && git apply {patch}', wt)
        res['ran'].append(f'git apply patch.diff -> rc={rc}')
        if rc != 0:
            print('PATCH DOES NOT APPLY', out); return 1
        rc, out = run('go build ./... && go test -vet=off -count=1 ./... 2>&1 | tail -25', wt)
        suite_ok = rc == 0 and 'FAIL' not in out
        res['ran'].append(f'with patch: go build ./... && go test -vet=off -count=1 ./... -> {"pass" if suite_ok else "FAIL"}')
        if not suite_ok:
            print('SUITE FAILS WITH PATCH', out); return 1
        demo = meta.get('demo_files', {})
        for f, dest in demo.items():
            d = dest
            if d.endswith('/') or os.path.isdir(os.path.join(wt, d)):
                d = os.path.join(d, os.path.basename(f).lstrip('_'))
            os.makedirs(os.path.dirname(os.path.join(wt, d)) or wt, exist_ok=True)
            shutil.copy(os.path.join(src, f), os.path.join(wt, d))
            demo[f] = d
        cmd = meta['demo_cmd']
        rc1, out1 = run(cmd, wt)
        res['ran'].append(f'with patch: {cmd} -> rc={rc1} ({"fails as required" if rc1 != 0 else "PASSES (bad)"})')
        run(f'git apply -R {patch}', wt)
        rc2, out2 = run(cmd, wt)
        res['ran'].append(f'without patch: {cmd} -> rc={rc2} ({"passes as required" if rc2 == 0 else "FAILS (bad)"})')
        if rc1 == 0 or rc2 != 0:
            print('DEMO DOES NOT DISCRIMINATE', rc1, rc2, out1[-1500:], out2[-1500:]); return 1
        # the demo must fail by assertion, not by build error
        if '[build failed]' in out1 or 'cannot find package' in out1:
            print('DEMO BUILD FAILS', out1[-1500:]); return 1
        dst = os.path.join('/verif/seeded', sid)
        os.makedirs(dst, exist_ok=True)
        shutil.copy(patch, os.path.join(dst, 'patch.diff'))
        for f, d in demo.items():
            shutil.copy(os.path.join(src, f), os.path.join(dst, os.path.basename(f).lstrip('_')))
        m = {
            'id': sid,
            'property': meta.get('property'),
            'summary': meta.get('summary'),
            'needs_to_manifest': meta.get('needs_to_manifest'),
            'files_changed': meta.get('files_changed'),
            'demo_files': {os.path.basename(f).lstrip('_'): d for f, d in demo.items()},
            'demo_cmd': cmd,
            'confirmed_by': 'tools/confirm_mutant.py in a scratch worktree of /repo HEAD ' + subprocess.check_output('git -C /repo rev-parse --short HEAD', shell=True, text=True).strip(),
            'what_was_run': res['ran'],
            'demo_failure_excerpt': out1[-600:],
            'origin': 'independent sub-agent given only the property text',
        }
        json.dump(m, open(os.path.join(dst, 'meta.json'), 'w'), indent=1)
        print('CONFIRMED', sid)
        return 0
    finally:
        run(f'git -C /repo worktree remove --force {wt}', '/')
        shutil.rmtree(wt, ignore_errors=True)

sys.exit(main())
