#!/bin/sh
# usage: rebase_patches.sh <old-commit> <fix.diff> <dir> <id>...   Re-express corpus patches made against <old-commit>
# on /repo HEAD after a fix: commit: old tree + patch + fix, diffed against HEAD. Patches the fix conflicts with are left alone and listed.
OLD=$1; FIX=$2; DIR=$3; shift 3
WT=$(mktemp -d /tmp/rebase-XXXX); rmdir $WT
git -C /repo worktree add --detach $WT $OLD -q || exit 1
for id in "$@"; do
  p=/verif/$DIR/$id/patch.diff
  git -C $WT reset -q; git -C $WT checkout -q -- . ; git -C $WT clean -fdq
  if ! (cd $WT && (git apply $p 2>/dev/null || patch -p1 -s --no-backup-if-mismatch < $p >/dev/null 2>&1)); then echo "$id: does not apply to $OLD"; continue; fi
  if ! (cd $WT && (git apply $FIX 2>/dev/null || patch -p1 -s -F3 --no-backup-if-mismatch < $FIX >/dev/null 2>&1)); then echo "$id: CONFLICT with the fix"; find $WT -name '*.rej' -o -name '*.orig' | xargs rm -f; continue; fi
  (cd $WT && git add -A -N . && git diff HEAD_NEW_PLACEHOLDER 2>/dev/null >/dev/null; git diff $(git -C /repo rev-parse HEAD) -- . > $p.new) && mv $p.new $p && echo "$id: rebased"
done
git -C $WT checkout -q -- . ; git -C /repo worktree remove --force $WT
