#!/usr/bin/env python3
"""Generate /verif/MANIFEST.json from the table below. Run after adding a property's rules.

A property is claimed iff the checker has rules for it (internal/rules/all.go) AND it has an entry in CLAIMS.
"""
import json, re, os, sys

HERE = os.path.dirname(os.path.dirname(os.path.abspath(__file__)))
impl = set(re.findall(r'"(C\d+)":', open(os.path.join(HERE, 'checker/internal/rules/all.go')).read()))

COMMON_NOTE = ("Trusted base: go/types and go/ssa of golang.org/x/tools v0.29.0, the anchor/credential tables in "
               "/verif/checker/internal/rules, and DESIGN.md's rule definitions. The check is a static necessary-condition "
               "check on /repo's current source: PASS means every enumerated obligation is discharged, not that the "
               "behavioural property is proved. Not decided: ")

# id -> (technique, what the check decides, what it does not decide, DESIGN section)
CLAIMS = {
 'C01': ("edge-dominance (credential gate) + backward value slice (identity binding) over go/ssa, who-may-write over all packages",
         "every write of session[uid] in any package is dominated by the success edge of a credential check and writes the identity that check was about; hijack fires are behind a check; pending-2FA keys are written only by hijack handlers and read only after CurrentUser()==ErrUserNotFound; uid is deleted only by logout/expiry",
         "cryptographic strength, storage returning the right user, currency of one-time secrets (C12/C05)"),
 'C02': ("edge-dominance on event outcomes, event-wiring table, guarded-exit and must-pass-through (session invariant) over go/ssa",
         "first-factor issuance sites are dominated by the not-handled outcome of FireBefore(EventAuthHijack); 2FA packages register hijack handlers that decline only for users without the factor; the SMS code is re-issued or deleted whenever the pending account or enrolment number changes; session-held secrets are presence-checked before comparison",
         "TOTP window arithmetic, SMS delivery, limiter timing"),
 'C03': ("veto coverage matrix (edge-dominance x event wiring), guarded-exit, dominance of next.ServeHTTP",
         "each interactive issuance site is gated by a Before event on which lock and confirm register their veto; veto handlers and middlewares pass only under !IsLocked / GetConfirmed of the current user; restarted confirmation marks the account unconfirmed",
         "handler-order effects, storage freshness"),
 'C04': ("must-pass-through on failure edges with path-sensitive boolean pruning, normalised-comparison matching, mutation-then-save",
         "every failed password/OTP/2FA check passes FireAfter(EventAuthFail); lock's wiring, flag constants, the window/threshold comparisons and lock-instant expressions, and saving of every counter mutation; every completion of the lock-state routine (failed attempt assumed) passes PutAttemptCount, PutLastAttempt and Save, every completion of Unlock resets and saves; the password reaches the hasher as submitted at every call site",
         "the counting automaton over histories and clocks"),
 'C05': ("all-of edge-dominance gates on every mutation, codec agreement (encoders, split offsets) between token writer and readers, mutation-then-save",
         "every user mutation/save in confirm.Get and recover.EndPost is gated by decode, size, selector look-up, constant-time verifier compare (and expiry); selector/verifier are cleared with constants and saved; generator and parsers agree on encodings and the split point",
         "hash collision resistance; the per-bit quantifier is reduced to 'full-length constant-time compare'"),
 'C06': ("backward slice of PutPassword arguments, must-pass-through from Save to the revocation event / DelRememberTokens, wiring",
         "stored password is the Hasher's output of the submitted one; recover-end fires the event remember listens on and propagates its error; UpdatePassword always saves and revokes remember tokens (no success exit before Save); the revocation handler's subject is the context user only; the default body reader hands secret fields on verbatim; hasher passes the password bytes unmodified to bcrypt",
         "bcrypt semantics"),
 'C07': ("edge-dominance, instruction ordering, must-pass-through to DelCookie, codec offset agreement (linear forms), wiring",
         "cookie issued only under GetShouldRemember; Authenticate uses, then mints, then writes uid+halfauth+new cookie; unusable cookies are deleted; reader splits where the writer put the separator; oauth2 pass-along params are reset per flow; the token is issued for the context user only; logout removes the cookie; password recovery revokes the tokens",
         "atomicity of UseRememberToken under races (integrator)"),
 'C08': ("truth-table enumeration of the middleware decision chain over the SSA CFG, switch-table exhaustiveness, dataflow of the redirect target",
         "all assignments of requirement/auth bits and LoadCurrentUser outcomes reach exactly the specified outcome call; fail() covers every MWRespondOnFailure constant; redirect target is path(+mount)+?query, query never passes through path cleaning; an empty session pid is ErrUserNotFound without a storage look-up; GetSession hands ClientState.Get through unaltered",
         "URL escaping by net/url"),
 'C09': ("must-pass-through on the expired edge, context-value slice, whitelist gate in stateHider, codec/compare structure, event wiring",
         "expired branch deletes and hides the session (nil PID/user, hider with exact whitelist lookup); live branch refreshes unconditionally; stamp and parse use one layout; every login fires a stamped After event on every completing path; the response writer flushes queued changes before any status/body, for every status",
         "clock arithmetic at the threshold, request sequences"),
 'C10': ("must-pass-through in Logout, method table, key inventory over all packages",
         "logout deletes all (minus whitelist) + uid/halfauth/last_action + rm cookie unconditionally after the before-event; route registered on exactly the configured method and the default router serves each table only for its own method; library hooks on EventLogout do not depend on a loadable user; client-state events are flushed in queue order",
         "integrator's WriteState honouring DelAll"),
 'C11': ("typestate of ClientStateResponseWriter (hasWritten) by dominance, who-may-write on the event queues, family pairing",
         "flush precedes every underlying write on every path and is guarded by !hasWritten, which is set before any WriteState; only setState appends, to the queue of its own family; queues are delivered unmodified; every Put/Del/DelAll API call queues its event on every returning path; the default responders write through the ResponseWriter on every successful completion",
         "Hijack/ResponseController paths"),
 'C12': ("must-pass-through consume+save before issuance, removal-at-matched-index shape, normalised comparison for the OTP limit",
         "OTP / recovery code / SMS code / TOTP last-code consumption is saved (or deleted) before the session is written; the matched OTP is the one removed; at most maxOTPs; the TOTP replay guard compares and records the code in the form the validator validates it (the validator's trimming is read from the dependency's source)",
         "that hashes match only issued values"),
 'C13': ("route-table extraction (partial evaluation of Setup), edge-dominance proof gates, session pairing, presence rule",
         "every enrol/remove/regenerate route is behind the full-auth middleware (and the e-mail wrap when required); enabling/removing is gated by a code check; a recovery code cannot stand in for the enrolment code; e-mail authorisation requires a present token and is spent on completion; current user precedes pending PID; Localizef falls back to default texts",
         "possession of the phone"),
 'C14': ("edge-dominance gates, must-pass-through to DelSession(state), slices for state/provider, codec agreement of the PID format",
         "callback requires a present session state equal to the submitted one, spends it before anything else can exit, binds provider and uid; Start stores what it sends; PID parse demands exactly three segments",
         "injectivity for arbitrary uid strings"),
 'C15': ("taint analysis (sources: redirect parameters; sinks: Location/location/RedirectPath) with sanitiser recognition and sibling agreement",
         "every flow from a client-supplied return target to a redirect sink passes the guard; the value sent is the value the guard examined; both redirector modes agree; no handler follows the parameter where its sibling response does not",
         "adequacy of the guard over all URL spellings beyond the known finding"),
 'C16': ("structural equality of response call sites, control-dependence on the secret-dependent flag, no client-visible effect before the veto point",
         "locked-account answer is produced by one routine with no effect dependent on password correctness; unknown-user and known-user answers are structurally identical call sites; mail delivery errors are not handed back by recover start",
         "byte equality of rendered bodies, timing"),
 'C17': ("interprocedural taint (secrets -> log/storage sinks) with hash sanitisers, recipient binding, whitelist table",
         "no submitted or generated secret reaches a logger, error text, Put* or storer argument unhashed; no log call carries a query-bearing part of the URL; the request's shared data object is not written by the mail/response paths; mailed tokens go to the user's own addresses; the register whitelist excludes the password",
         "what integrator Put*/loggers do"),
 'C18': ("error-discipline rule on every backend call (must-pass-through to a nil test), panic-operand slice, save-before-success",
         "every storage/hasher/renderer/sender error is tested or returned before any exit; no panic on a backend error outside the documented middlewares; consumption is saved before the session",
         "behaviour per injected fault value"),
 'C19': ("edge-dominance gates in register.Post, wiring, whitelist control-dependence, comparison table of Rules.Errors, decision-tree evaluation of the character classifier",
         "Create is gated by validation and hashing, stores the hash, duplicate path has no issuance/storer call; issuance gated by Create nil and register event not handled; confirm's handler always takes over; every rule of every field is evaluated, also for absent fields; the character classifier's decision tree agrees with the reference classes on U+0000-U+24FF and samples; the reader hands the password on verbatim",
         "regexp/Unicode class semantics"),
 'C20': ("effect analysis: stores to shared state reachable from request-time entry points (VTA call graph), unsafe-use of non-concurrency-safe objects, go-statement arguments",
         "no request-time code writes instance-wide or package-level state; non-concurrency-safe objects held by any configured component are used under a mutex; mutable package-level objects are not handed on; pooled objects are fully reset; mailers emit one Write per mail; goroutines receive only immutable data",
         "races inside integrator components or the standard library"),
}

checks, na = [], []
for i in range(1, 21):
    pid = 'C%02d' % i
    if pid in impl and pid in CLAIMS:
        tech, does, doesnt = CLAIMS[pid]
        checks.append({
            'property_id': pid,
            'quick_cmd': f'./check {pid} quick',
            'thorough_cmd': f'./check {pid} thorough',
            'evidence_file': f'/verif/evidence/{pid}.json',
            'replay_cmd_template': f'./check {pid} quick   # re-evaluates every obligation on the current tree; the replay file {{path}} names the failing rule|function|construct',
            'engine': 'abcheck',
            'technique': 'static analysis: ' + tech,
            'level_claimed': {
                'category': 'other',
                'text': 'Static necessary-condition check decided on the type-checked go/ssa program of /repo on every run: ' + does + '. It reports the specific construct (file:line, function, rule) that breaks an obligation. This is the right level because the clauses decided are visible in the shape of the code on every path, which tests cannot enumerate; the behavioural remainder is declared not decided.',
                'design_ref': f'DESIGN.md section 4, {pid}',
            },
            'level_note': COMMON_NOTE + doesnt + '.',
        })
    else:
        na.append({'property_id': pid, 'reason': 'check under construction in this round (rules designed in DESIGN.md section 4; not yet registered)'})

m = {
    'version': 1,
    'setup_cmd': 'cd /verif/checker && GOFLAGS=-mod=mod GOPROXY=off GOSUMDB=off GOTOOLCHAIN=local go build -o /verif/bin/abcheck ./cmd/abcheck',
    'hooks': {
        'guard': 'verif',
        'enable': 'none: the checks read /repo source only; nothing is instrumented and no hook exists',
        'baseline_off_cmd': 'cd /repo && GOFLAGS=-mod=mod GOPROXY=off GOSUMDB=off go test -vet=off -count=1 ./...',
        'source_commits': [],
        'add_only': True,
    },
    'engines': [{
        'name': 'abcheck', 'path': '/verif/checker',
        'serves_properties': [c['property_id'] for c in checks],
        'kind_free_text': 'repository-specific static analyser on go/packages + go/ssa (dominator-based edge facts, must-pass-through search with boolean path pruning, backward value slices, event-wiring and route tables)',
    }],
    'checks': checks,
    'not_applicable': na,
    'notes': 'All checks are static (no authboss code is executed). Known findings and repaired defects: /verif/KNOWN_FINDINGS.txt. Seeded property-breaking changes used to test the checks both ways: /verif/seeded/. `./check <id> thorough` adds lifting depth 3 and the kill matrix over /verif/seeded (evidence about the checker only).',
}
json.dump(m, open(os.path.join(HERE, 'MANIFEST.json'), 'w'), indent=1)
print('claimed:', [c['property_id'] for c in checks])
