#!/bin/sh
# usage: take_round.sh <round> C11   -> confirm /tmp/mut<round>/C11/MUTANTS/m* into /verif/seeded/C11-r<round>m*, then run the checks on them
N=$1; P=$2
ids=""
for m in 1 2 3; do d=/tmp/mut$N/$P/MUTANTS/m$m; [ -d $d ] || continue; python3 /verif/tools/confirm_mutant.py $d $P-r${N}m$m 2>&1 | tail -1 | cut -c1-300; [ -d /verif/seeded/$P-r${N}m$m ] && ids="$ids $P-r${N}m$m"; done
[ -n "$ids" ] && V=1 /verif/tools/runmut.py $ids | cut -c1-330
