#!/usr/bin/env python3
"""Calibration only: run mechanical mutants (tools/gomut) through build, test suite and abcheck.
usage: gomut_run.py <mutdir> <results.jsonl> [workers]"""
import json, os, shutil, subprocess, sys, concurrent.futures as cf, threading
ENV = dict(os.environ, GOFLAGS='-mod=mod', GOPROXY='off', GOSUMDB='off', GOTOOLCHAIN='local'); ENV.pop('GOWORK', None)
mutdir, outp = sys.argv[1], sys.argv[2]
workers = int(sys.argv[3]) if len(sys.argv) > 3 else 8
done = set()
if os.path.exists(outp):
    for l in open(outp): done.add(json.loads(l)['id'])
ids = [d for d in sorted(os.listdir(mutdir)) if d not in done]
lock = threading.Lock(); local = threading.local(); counter = [0]
def one(mid):
    if not hasattr(local, 'dir'):
        with lock:
            counter[0] += 1; local.dir = f'/tmp/gm/w{counter[0]}'
        os.makedirs(local.dir, exist_ok=True)
    w = local.dir; repo = w + '/repo'; out = w + '/out'
    subprocess.run(['rsync', '-a', '--delete', '--exclude', '.git', '/repo/', repo + '/'], check=True)
    os.makedirs(out, exist_ok=True); shutil.copy('/verif/KNOWN_FINDINGS.txt', out)
    d = os.path.join(mutdir, mid)
    desc = open(d + '/desc.txt').read().split('\n')
    rel = desc[1].strip()
    shutil.copy(os.path.join(d, rel), os.path.join(repo, rel))
    res = {'id': mid, 'desc': desc[0], 'file': rel}
    b = subprocess.run('go build ./... 2>&1 | tail -3', cwd=repo, shell=True, env=ENV, capture_output=True, text=True)
    if b.stdout.strip():
        res['status'] = 'nobuild'
    else:
        t = subprocess.run('go test -vet=off -count=1 ./... 2>&1 | tail -30', cwd=repo, shell=True, env=ENV, capture_output=True, text=True, timeout=600)
        if 'FAIL' in t.stdout or 'panic' in t.stdout:
            res['status'] = 'killed'
        else:
            r = subprocess.run(['/verif/bin/abcheck', '-property', 'all', '-repo', repo, '-out', out], env=ENV, capture_output=True, text=True)
            hits = sorted({l.split()[1].split('=')[1] for l in r.stdout.splitlines() if l.startswith('VIOLATION')})
            res['status'] = 'survived'; res['hits'] = hits; res['rc'] = r.returncode
            res['rules'] = sorted({l.split('|')[0].split()[-1] for l in r.stdout.splitlines() if l.startswith('violated') or l.startswith('UNDECIDED: C')})[:12]
    with lock:
        open(outp, 'a').write(json.dumps(res) + '\n')
    return res
with cf.ThreadPoolExecutor(workers) as ex:
    for i, r in enumerate(ex.map(one, ids)):
        if i % 100 == 0: print(i, r['id'], r['status'], flush=True)
