#!/usr/bin/env python3
"""Prepare a mutation round: one scratch worktree of /repo per property under /tmp/mut<N>/Cxx with a TASK.md
(property text + the round's emphasis; nothing else from /verif).   usage: mkround.py <N> <emphasis-file>"""
import json, os, subprocess, sys
n, emph = sys.argv[1], open(sys.argv[2]).read().strip()
with_anchors = len(sys.argv) > 3 and sys.argv[3] == '--anchors'
def anchors_text(p):
    """the property's own quantifier and anchors (part of the given property record), rendered as text"""
    if not with_anchors:
        return ''
    out = []
    q = p.get('quantifier') or {}
    if q.get('text'):
        out.append('It is meant to hold ' + q['text'] + '.')
    a = p.get('anchors') or {}
    if a.get('files'):
        out.append('The property record names these source files as the places it lives in: ' + ', '.join(a['files']) + '.')
    if a.get('state'):
        out.append('State it talks about: ' + '; '.join(f"{x.get('name')} ({x.get('meaning')}; {x.get('where')})" for x in a['state']) + '.')
    if a.get('mechanism'):
        out.append('Mechanisms that establish it: ' + '; '.join(f"{x.get('name')} [{x.get('where')}]" for x in a['mechanism']) + '.')
    return '\n\n' + '\n\n'.join(out)
base = f'/tmp/mut{n}'
os.makedirs(base, exist_ok=True)
for l in open('/verif/properties.jsonl'):
    p = json.loads(l); pid = p['id']; wt = f'{base}/{pid}'
    if not os.path.exists(wt):
        subprocess.run(['git', '-C', '/repo', 'worktree', 'add', '--detach', wt, 'HEAD', '-q'], check=True)
    text = p.get('statement') or p.get('description')
    open(f'{wt}/TASK.md', 'w').write(f'''# Task

You are in a scratch git worktree of the Go library volatiletech/authboss (module github.com/volatiletech/authboss/v3): {wt}. Work ONLY inside this directory. The sandbox is offline; before every go command run:

    export GOFLAGS=-mod=mod GOPROXY=off GOSUMDB=off GOTOOLCHAIN=local; unset GOWORK

Do not use `git stash` (the stash is shared with other worktrees of the same repository); undo changes with `git apply -R <patch>` or `git checkout -- .`.

The library is supposed to have this property:

> **{p.get('title','')}** — {text}{anchors_text(p)}

Produce THREE independent, realistic source changes ("mutants") to the library (non-test .go files, not the mocks package), each of which

1. still compiles (`go build ./...`) and still passes the complete existing test suite unedited (`go test -vet=off -count=1 ./...`),
2. BREAKS the property above for some input, configuration, storage behaviour, fault or sequence of requests — it must need something specific to manifest (an unusual input, a particular interleaving or history, a fault on one particular call, a multi-step sequence, a non-default but legitimate configuration), so that casual testing would not notice,
3. looks like something that could plausibly slip through code review. No comments that give it away, no dead code, no obviously malicious code.

{emph}

For each mutant i = 1..3 deliver, under `{wt}/MUTANTS/m<i>/`:

* `patch.diff` — `git diff` of the change against the clean tree (must apply with `git apply` from the repository root; library files only),
* a demonstration: one Go test file (named `*_test.go`, any name not clashing with existing files) that FAILS with the patch applied and PASSES on the unmodified code when copied into the package directory named in meta.json and run with the command in meta.json. The demonstration drives the real library code (real modules, the mocks package and/or small in-test fakes are fine) and asserts the property's observable behaviour,
* `meta.json`: {{"property": "{pid}", "summary": "<which file/function, what was changed, why it breaks the property>", "needs_to_manifest": "<the specific input / sequence / fault / configuration needed>", "files_changed": ["..."], "demo_files": {{"<demo file name in this directory>": "<destination path relative to repo root, e.g. auth/x_demo_test.go>"}}, "demo_cmd": "go test -vet=off -count=1 -run <TestName> ./<pkg>/"}}.

Also create `{wt}/MUTANTS/go.mod` containing the single line `module mutants` (so that the files under MUTANTS do not take part in `go build ./...` of the repository).

Verify each mutant yourself, both ways: apply the patch, build, run the full suite WITHOUT the demo file present (must pass), copy the demo file to its destination and run demo_cmd (must fail because of an assertion, not a build error); then `git checkout -- .`, and run demo_cmd again on the clean code (must pass); remove the demo file from the package directory. At the end `git status` must show only `MUTANTS/` and `TASK.md` as untracked and no modified files. Reply with a short description of the three mutants and your verification results.
''')
print('prepared', base)
