#!/usr/bin/env python3
"""Second pass of tools/rebase_patches.sh for patches the textual fix conflicts with: old tree + patch, then the
fix 66c0280 is re-done semantically in totp2fa/totp.go (every `x := y.GetCode()` becomes strings.TrimSpace(...),
"strings" imported), the result must build, and is diffed against /repo HEAD.  usage: rebase_semantic.py <old> <dir> <id>..."""
import os, re, subprocess, sys, tempfile
ENV = dict(os.environ, GOFLAGS='-mod=mod', GOPROXY='off', GOSUMDB='off', GOTOOLCHAIN='local'); ENV.pop('GOWORK', None)
old, d, ids = sys.argv[1], sys.argv[2], sys.argv[3:]
wt = tempfile.mkdtemp(prefix='rebs-', dir='/tmp'); os.rmdir(wt)
subprocess.run(['git', '-C', '/repo', 'worktree', 'add', '--detach', wt, old, '-q'], check=True)
head = subprocess.run(['git', '-C', '/repo', 'rev-parse', 'HEAD'], capture_output=True, text=True).stdout.strip()
for i in ids:
    p = f'/verif/{d}/{i}/patch.diff'
    subprocess.run('git reset -q && git checkout -q -- . && git clean -fdq', cwd=wt, shell=True)
    if subprocess.run(f'git apply {p} 2>/dev/null || patch -p1 -s --no-backup-if-mismatch < {p}', cwd=wt, shell=True, capture_output=True).returncode != 0:
        print(i, 'does not apply to', old); continue
    f = os.path.join(wt, 'otp/twofactor/totp2fa/totp.go')
    s = open(f).read()
    s2, n = re.subn(r'(?<!TrimSpace\()\b(\w+)\.GetCode\(\)', r'strings.TrimSpace(\1.GetCode())', s)
    if n == 0: print(i, 'NO GetCode() read found'); continue
    if '"strings"' not in s2: s2 = s2.replace('import (\n', 'import (\n\t"strings"\n', 1)
    open(f, 'w').write(s2)
    subprocess.run(['gofmt', '-w', f], env=ENV)
    b = subprocess.run('go build ./... ', cwd=wt, shell=True, env=ENV, capture_output=True, text=True)
    if b.returncode != 0: print(i, 'DOES NOT BUILD', b.stderr[-200:]); continue
    subprocess.run('git add -A -N .', cwd=wt, shell=True)
    out = subprocess.run(['git', 'diff', head, '--', '.'], cwd=wt, capture_output=True, text=True).stdout
    open(p, 'w').write(out); print(i, 'rebased semantically,', n, 'reads')
subprocess.run('git reset -q && git checkout -q -- . && git clean -fdq', cwd=wt, shell=True)
subprocess.run(['git', '-C', '/repo', 'worktree', 'remove', '--force', wt])
