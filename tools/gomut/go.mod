module gomut

go 1.23
