// gomut enumerates small syntactic mutants of the non-test, non-mock Go files
// of a repository (for calibrating the static checks; never used by a check).
//
// usage: gomut <repo> <outdir>   -> outdir/<id>/{file (relative path preserved), desc.txt}
package main

import (
	"bytes"
	"fmt"
	"go/ast"
	"go/format"
	"go/parser"
	"go/token"
	"os"
	"path/filepath"
	"strings"
)

var ror = map[token.Token]token.Token{token.EQL: token.NEQ, token.NEQ: token.EQL, token.LSS: token.LEQ, token.LEQ: token.LSS, token.GTR: token.GEQ, token.GEQ: token.GTR, token.LAND: token.LOR, token.LOR: token.LAND}

func main() {
	repo, out := os.Args[1], os.Args[2]
	n := 0
	filepath.Walk(repo, func(path string, info os.FileInfo, err error) error {
		if err != nil || info.IsDir() {
			if info != nil && info.IsDir() && (info.Name() == "mocks" || info.Name() == ".git" || info.Name() == "MUTANTS") {
				return filepath.SkipDir
			}
			return nil
		}
		if !strings.HasSuffix(path, ".go") || strings.HasSuffix(path, "_test.go") || strings.HasSuffix(path, "stringers.go") {
			return nil
		}
		rel, _ := filepath.Rel(repo, path)
		src, _ := os.ReadFile(path)
		// count candidate sites first, then re-parse per mutant (simplest way to get a fresh tree)
		fset := token.NewFileSet()
		f, err := parser.ParseFile(fset, path, src, parser.ParseComments)
		if err != nil {
			return nil
		}
		sites := collect(f)
		for i := range sites {
			fs2 := token.NewFileSet()
			f2, _ := parser.ParseFile(fs2, path, src, parser.ParseComments)
			s2 := collect(f2)
			if i >= len(s2) {
				continue
			}
			desc := s2[i].apply()
			if desc == "" {
				continue
			}
			var buf bytes.Buffer
			if err := format.Node(&buf, fs2, f2); err != nil {
				continue
			}
			if bytes.Equal(buf.Bytes(), src) {
				continue
			}
			n++
			id := fmt.Sprintf("M%04d", n)
			d := filepath.Join(out, id)
			os.MkdirAll(filepath.Join(d, filepath.Dir(rel)), 0o755)
			os.WriteFile(filepath.Join(d, rel), buf.Bytes(), 0o644)
			pos := fs2.Position(s2[i].pos)
			os.WriteFile(filepath.Join(d, "desc.txt"), []byte(fmt.Sprintf("%s:%d %s in %s\n%s\n", rel, pos.Line, desc, s2[i].fn, rel)), 0o644)
		}
		return nil
	})
	fmt.Println(n, "mutants")
}

type site struct {
	pos   token.Pos
	fn    string
	apply func() string
}

func collect(f *ast.File) []site {
	var out []site
	for _, d := range f.Decls {
		fd, ok := d.(*ast.FuncDecl)
		if !ok || fd.Body == nil {
			continue
		}
		name := fd.Name.Name
		if fd.Recv != nil && len(fd.Recv.List) > 0 {
			var b bytes.Buffer
			format.Node(&b, token.NewFileSet(), fd.Recv.List[0].Type)
			name = "(" + b.String() + ")." + name
		}
		var visitBlock func(list *[]ast.Stmt)
		visitBlock = func(list *[]ast.Stmt) {
			for i := range *list {
				idx := i
				st := (*list)[idx]
				switch x := st.(type) {
				case *ast.ExprStmt:
					if _, isCall := x.X.(*ast.CallExpr); isCall {
						out = append(out, site{x.Pos(), name, func() string {
							(*list)[idx] = &ast.EmptyStmt{Semicolon: x.Pos(), Implicit: false}
							return "SDL delete call statement " + short(x.X)
						}})
					}
				case *ast.DeferStmt:
					out = append(out, site{x.Pos(), name, func() string {
						(*list)[idx] = &ast.EmptyStmt{Semicolon: x.Pos()}
						return "SDL delete defer " + short(x.Call)
					}})
				case *ast.IfStmt:
					// error-check removal: if <cond> { return ... } without else
					if x.Else == nil && len(x.Body.List) == 1 {
						if _, isRet := x.Body.List[0].(*ast.ReturnStmt); isRet && x.Init == nil {
							out = append(out, site{x.Pos(), name, func() string {
								(*list)[idx] = &ast.EmptyStmt{Semicolon: x.Pos()}
								return "RET delete guarded return if " + short(x.Cond)
							}})
						}
					}
				case *ast.AssignStmt:
					// x = y (plain assignment of a single value, not a definition): delete
					if x.Tok == token.ASSIGN && len(x.Lhs) == 1 {
						out = append(out, site{x.Pos(), name, func() string {
							(*list)[idx] = &ast.EmptyStmt{Semicolon: x.Pos()}
							return "SDL delete assignment " + short(x.Lhs[0]) + " = " + short(x.Rhs[0])
						}})
					}
				}
			}
		}
		ast.Inspect(fd.Body, func(n ast.Node) bool {
			switch x := n.(type) {
			case *ast.BlockStmt:
				visitBlock(&x.List)
			case *ast.CaseClause:
				visitBlock(&x.Body)
			case *ast.BinaryExpr:
				if alt, ok := ror[x.Op]; ok {
					old := x.Op
					out = append(out, site{x.Pos(), name, func() string {
						x.Op = alt
						return fmt.Sprintf("ROR %s -> %s in %s", old, alt, short(x))
					}})
				}
			case *ast.UnaryExpr:
				if x.Op == token.NOT {
					out = append(out, site{x.Pos(), name, func() string {
						x.Op = token.ADD // +x is invalid for bools; replace by parenthesised operand instead
						return ""
					}})
				}
			case *ast.IfStmt:
				out = append(out, site{x.Pos(), name, func() string {
					x.Cond = &ast.UnaryExpr{Op: token.NOT, X: &ast.ParenExpr{X: x.Cond}}
					return "NEG negate condition if " + short(x.Cond)
				}})
			case *ast.BasicLit:
				if x.Kind == token.INT && (x.Value == "0" || x.Value == "1") {
					old := x.Value
					out = append(out, site{x.Pos(), name, func() string {
						if old == "0" {
							x.Value = "1"
						} else {
							x.Value = "0"
						}
						return "CONST " + old + " -> " + x.Value
					}})
				}
			}
			return true
		})
	}
	return out
}

func short(n ast.Node) string {
	var b bytes.Buffer
	format.Node(&b, token.NewFileSet(), n)
	s := strings.Join(strings.Fields(b.String()), " ")
	if len(s) > 90 {
		s = s[:90] + "…"
	}
	return s
}
