#!/usr/bin/env python3
"""Prepare a refactoring round: one scratch worktree of /repo per area under /tmp/ref<N>/R<k> with a TASK.md
(area + the round's style; nothing from /verif).   usage: mkrefround.py <N> <first-id> <style-file>"""
import os, subprocess, sys
n, first, style = sys.argv[1], int(sys.argv[2]), open(sys.argv[3]).read().strip()
AREAS = [
 "defaults/values.go and defaults/rules.go (the default body reader and the validation rules)",
 "remember/remember.go and logout/logout.go",
 "context.go and client_state.go",
 "defaults/router.go, defaults/responder.go, defaults/smtp_mailer.go, defaults/log_mailer.go, defaults/logger.go, defaults/error_handler.go",
 "otp/twofactor/sms2fa/sms.go",
 "otp/twofactor/totp2fa/totp.go and otp/twofactor/twofactor.go, twofactor_recover.go, twofactor_verify.go",
 "authboss.go, response.go, html_data.go, module.go, events.go, config.go, localizer.go",
 "recover/recover.go and confirm/confirm.go",
 "oauth2/oauth2.go, oauth2/providers.go, user.go, one_time_token_generator.go, hasher.go",
 "auth/auth.go, otp/otp.go, lock/lock.go, expire/expire.go, register/register.go",
]
base = f'/tmp/ref{n}'
os.makedirs(base, exist_ok=True)
for k, area in enumerate(AREAS):
    rid = f'R{first+k:02d}'; wt = f'{base}/{rid}'
    if not os.path.exists(wt):
        subprocess.run(['git', '-C', '/repo', 'worktree', 'add', '--detach', wt, 'HEAD', '-q'], check=True)
    open(f'{wt}/TASK.md', 'w').write(f'''# Task

You are in a scratch git worktree of the Go library volatiletech/authboss (module github.com/volatiletech/authboss/v3): {wt}. Work ONLY inside this directory. The sandbox is offline; before every go command run:

    export GOFLAGS=-mod=mod GOPROXY=off GOSUMDB=off GOTOOLCHAIN=local; unset GOWORK

Do not use `git stash` (the stash is shared with other worktrees of the same repository); undo changes with `git apply -R <patch>` or `git checkout -- .`.

Produce SIX independent **behaviour-preserving** refactorings of the library's non-test source in this area: {area}. (You may touch other non-test files when a refactoring needs it, but the centre of each patch is in this area. Do not touch the mocks package or any test file.)

Behaviour-preserving means: for every input, configuration, storage behaviour, fault and sequence of requests the library does exactly what it did before — same responses, same session/cookie changes in the same order, same storage calls in the same order with the same arguments, same events fired in the same order, same errors returned, same log lines. Only the shape of the code changes. Be careful: when in doubt whether an edit changes behaviour in some corner (nil maps, evaluation order, shadowed variables, an error that used to be returned and now is not, a call that now happens earlier or twice), do not make it.

{style}

Each refactoring is its own patch against the clean tree (not cumulative), between 15 and 120 changed lines, reads as something a maintainer would merge, compiles (`go build ./...`) and passes the complete existing test suite unedited (`go test -vet=off -count=1 ./...`).

Deliver, for i = 1..6, under `{wt}/REFACTOR/r<i>/`: `patch.diff` (`git diff` against the clean tree, applies with `git apply` from the repository root) and `note.txt` (what was restructured and why behaviour is unchanged, 3-8 lines). Also create `{wt}/REFACTOR/go.mod` containing the single line `module refactor`.

Verify each patch yourself: from the clean tree `git apply`, `go build ./...`, full suite, then `git checkout -- .` (and remove any new files the patch added). At the end `git status` must show only `REFACTOR/` and `TASK.md` as untracked and no modified files. Reply with one line per patch.
''')
print('prepared', base)
