// abcheck decides the static obligations of one property of
// volatiletech/authboss on the current source tree.
package main

import (
	"flag"
	"fmt"
	"os"
	"runtime/debug"
	"sort"
	"strconv"
	"strings"
	"time"

	"abverif/internal/engine"
	"abverif/internal/rules"
)

func main() {
	prop := flag.String("property", "", "property id (C01..C20) or 'all'")
	tier := flag.String("tier", "quick", "quick|thorough")
	repo := flag.String("repo", "/repo", "repository root")
	out := flag.String("out", "/verif", "output root (evidence/, replay/, KNOWN_FINDINGS.txt)")
	verbose := flag.Bool("v", false, "print every obligation")
	dumpFuncs := flag.Bool("dump-funcs", false, "print the canonical names of all repository functions (used to regenerate the known-function table)")
	noInline := flag.Bool("no-inline", false, "do not inline unknown helper functions")
	dumpSSA := flag.String("dump-ssa", "", "print the normalised SSA of the functions whose canonical name contains this string (debugging)")
	flag.Parse()
	if *dumpFuncs {
		p := engine.Load(*repo)
		for _, f := range p.AllFuncs {
			fmt.Println(engine.FuncName(f))
		}
		return
	}
	if *prop == "" && *dumpSSA == "" {
		fmt.Fprintln(os.Stderr, "usage: abcheck -property Cnn [-tier quick|thorough] [-repo dir] [-out dir] [-v]")
		os.Exit(2)
	}
	if t := os.Getenv("VERIF_TIER"); t != "" && !isFlagSet("tier") {
		*tier = t
	}
	var seed int64
	if s := os.Getenv("VERIF_SEED"); s != "" {
		seed, _ = strconv.ParseInt(s, 10, 64)
	}
	defer func() {
		if r := recover(); r != nil {
			fmt.Fprintf(os.Stderr, "abcheck: internal error: %v\n%s\n", r, debug.Stack())
			fmt.Printf("UNDECIDED: analyser panic: %v\n", r)
			os.Exit(2)
		}
	}()
	started := time.Now()
	p := engine.Load(*repo)
	var inlined, unrolled []string
	if !*noInline {
		inlined, unrolled = p.Normalise(rules.KnownFuncs, rules.KeepRole)
		if len(inlined) > 0 {
			fmt.Printf("note: %d call(s) of helper functions unknown to the rules were inlined before analysis: %s\n", len(inlined), strings.Join(dedup(inlined), "; "))
		}
		if len(unrolled) > 0 {
			fmt.Printf("note: literal tables were resolved before analysis: %s\n", strings.Join(unrolled, "; "))
		}
	}
	var invalid []string
	if len(inlined) > 0 || len(unrolled) > 0 {
		for _, fn := range p.AllFuncs {
			if fn.Blocks == nil {
				continue
			}
			engine.Renumber(fn)
			if err := engine.ValidateSSA(fn); err != nil {
				invalid = append(invalid, engine.FuncName(fn)+": "+err.Error())
			}
		}
		if len(invalid) > 0 {
			fmt.Printf("note: internal: normalisation left inconsistent SSA: %s\n", strings.Join(invalid, "; "))
		}
	}
	if *dumpSSA != "" {
		for _, fn := range p.AllFuncs {
			if strings.Contains(engine.FuncName(fn), *dumpSSA) {
				fn.WriteTo(os.Stdout)
			}
		}
		return
	}
	var ids []string
	if *prop == "all" {
		for id := range rules.All {
			ids = append(ids, id)
		}
		sort.Strings(ids)
	} else {
		ids = strings.Split(*prop, ",")
	}
	exit := 0
	for _, id := range ids {
		f, ok := rules.All[id]
		if !ok {
			fmt.Fprintf(os.Stderr, "abcheck: no rules for property %s\n", id)
			os.Exit(2)
		}
		t0 := time.Now()
		if len(ids) == 1 {
			t0 = started
		}
		rep := engine.NewReport(p, id, *tier)
		rep.Extra["inlined_unknown_helpers"] = dedup(inlined)
		rep.Extra["unrolled_table_loops"] = unrolled
		if len(invalid) > 0 {
			rep.Extra["normalisation_inconsistencies"] = invalid
		}
		func() {
			defer func() {
				if r := recover(); r != nil {
					ae, ok := r.(engine.AnchorError)
					if !ok {
						// a rule met a code shape it cannot process: the property is
						// undecided on this tree, which fails the check
						fmt.Fprintf(os.Stderr, "abcheck: internal error in the rules of %s: %v\n%s\n", id, r, debug.Stack())
						fmt.Printf("UNDECIDED: analyser panic in the rules of %s: %v\n", id, r)
						rep.Unknown(id+".internal", "-", fmt.Sprintf("analyser panic: %v", r), "-", "the rules of this property could not process this tree (stack on stderr); the property cannot be shown to hold")
						return
					}
					fmt.Printf("UNDECIDED: %s\n", ae.Msg)
					rep.Unknown(id+".anchor", "-", ae.Msg, "-", "a construct the rules of this property are anchored in is missing from this tree; the remaining obligations were not evaluated and the property cannot be shown to hold")
				}
			}()
			ctx := rules.NewCtx(p, rep, *tier)
			f(ctx)
		}()
		if *verbose {
			rep.Verbose()
		}
		cmd := fmt.Sprintf("/verif/check %s %s", id, *tier)
		if e := rep.Finish(*out, seed, t0, cmd); e > exit {
			exit = e
		}
	}
	os.Exit(exit)
}

func isFlagSet(name string) bool {
	set := false
	flag.Visit(func(f *flag.Flag) {
		if f.Name == name {
			set = true
		}
	})
	return set
}

func dedup(ss []string) []string {
	seen := map[string]bool{}
	out := []string{}
	for _, s := range ss {
		if !seen[s] {
			seen[s] = true
			out = append(out, s)
		}
	}
	return out
}
