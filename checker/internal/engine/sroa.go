package engine

import (
	"go/token"
	"go/types"

	"golang.org/x/tools/go/ssa"
)

// Field reads of local struct values are resolved to the value stored.
//
// A helper that hands several values back in a small struct
// (`return presentedToken{pid: …, hash: …}, true`) leaves, once inlined, a
// local struct that is filled field by field, loaded whole, merged with the
// zero struct of the failure returns in a phi, and taken apart again with
// Field instructions. resolveStructFields replaces such a `Field(x, i)` by the
// value that was stored into field i (a phi of those values when x is a phi),
// so that the rules' value tracking sees through the struct. Only local
// structs whose address never leaves the function are touched.

func structCellOnlyFields(a *ssa.Alloc) bool {
	if _, ok := a.Type().Underlying().(*types.Pointer).Elem().Underlying().(*types.Struct); !ok {
		return false
	}
	if a.Referrers() == nil {
		return false
	}
	for _, ref := range *a.Referrers() {
		switch x := ref.(type) {
		case *ssa.FieldAddr:
			if x.Referrers() == nil {
				continue
			}
			for _, rr := range *x.Referrers() {
				switch y := rr.(type) {
				case *ssa.Store:
					if y.Addr != ssa.Value(x) {
						return false // the field's address is stored somewhere
					}
				case *ssa.UnOp:
					if y.Op != token.MUL {
						return false
					}
				case *ssa.DebugRef:
				default:
					return false
				}
			}
		case *ssa.UnOp:
			if x.Op != token.MUL {
				return false
			}
		case *ssa.Store:
			if x.Addr != ssa.Value(a) {
				return false // the cell's address is stored somewhere
			}
		case *ssa.DebugRef:
		default:
			return false // call argument, closure binding, …
		}
	}
	return true
}

func resolveStructFields(fn *ssa.Function) bool {
	changed := false
	type key struct {
		phi *ssa.Phi
		i   int
	}
	made := map[key]ssa.Value{}
	var newPhis []*ssa.Phi
	var resolve func(x ssa.Value, i int, ft types.Type, d int) ssa.Value
	precedes := func(a, b ssa.Instruction) bool {
		if a.Block() == b.Block() {
			return instrPos(a) < instrPos(b)
		}
		return Dominates(a.Block(), b.Block())
	}
	// cellField: the value of field i of the local struct a when instruction at reads it
	var cellField func(a *ssa.Alloc, i int, ft types.Type, at ssa.Instruction, d int) ssa.Value
	cellField = func(a *ssa.Alloc, i int, ft types.Type, at ssa.Instruction, d int) ssa.Value {
		if !structCellOnlyFields(a) {
			return nil
		}
		var fieldStores, wholeStores []*ssa.Store
		for _, ref := range *a.Referrers() {
			switch x := ref.(type) {
			case *ssa.Store:
				wholeStores = append(wholeStores, x)
			case *ssa.FieldAddr:
				if x.Field != i || x.Referrers() == nil {
					continue
				}
				for _, rr := range *x.Referrers() {
					if s, ok := rr.(*ssa.Store); ok {
						fieldStores = append(fieldStores, s)
					}
				}
			}
		}
		switch {
		case len(wholeStores) == 0 && len(fieldStores) == 0:
			return zeroOf(ft)
		case len(wholeStores) == 0 && len(fieldStores) == 1:
			if !precedes(fieldStores[0], at) {
				return nil
			}
			return fieldStores[0].Val
		case len(wholeStores) == 1 && len(fieldStores) == 0:
			if !precedes(wholeStores[0], at) {
				return nil
			}
			return resolve(wholeStores[0].Val, i, ft, d+1)
		}
		return nil
	}
	resolve = func(x ssa.Value, i int, ft types.Type, d int) ssa.Value {
		if d > 6 {
			return nil
		}
		switch v := x.(type) {
		case *ssa.Const:
			if v.Value == nil {
				return zeroOf(ft)
			}
		case *ssa.UnOp:
			if v.Op != token.MUL {
				return nil
			}
			a, ok := v.X.(*ssa.Alloc)
			if !ok {
				return nil
			}
			return cellField(a, i, ft, v, d)
		case *ssa.Phi:
			if r, ok := made[key{v, i}]; ok {
				return r
			}
			made[key{v, i}] = nil // cycles: give up
			var edges []ssa.Value
			for _, e := range v.Edges {
				r := resolve(e, i, ft, d+1)
				if r == nil {
					return nil
				}
				edges = append(edges, r)
			}
			np := newPhi(v.Block(), ft, v.Pos(), v.Comment+"."+fieldNameOf(v.Type(), i), edges)
			made[key{v, i}] = np
			newPhis = append(newPhis, np)
			return np
		}
		return nil
	}
	for _, b := range fn.Blocks {
		for _, in := range b.Instrs {
			switch f := in.(type) {
			case *ssa.Field:
				if v := resolve(f.X, f.Field, f.Type(), 0); v != nil {
					replaceOperands(fn, f, v)
					changed = true
				}
			case *ssa.UnOp:
				// a field read through the cell: *(&cell.f)
				if f.Op != token.MUL {
					continue
				}
				fa, ok := f.X.(*ssa.FieldAddr)
				if !ok {
					continue
				}
				a, ok := fa.X.(*ssa.Alloc)
				if !ok {
					continue
				}
				if v := cellField(a, fa.Field, f.Type(), f, 0); v != nil && v != ssa.Value(f) {
					replaceOperands(fn, f, v)
					changed = true
				}
			}
		}
	}
	if !changed {
		return false
	}
	for _, np := range newPhis {
		b := np.Block()
		// after the existing phis
		k := 0
		for k < len(b.Instrs) {
			if _, isPhi := b.Instrs[k].(*ssa.Phi); !isPhi {
				break
			}
			k++
		}
		b.Instrs = append(b.Instrs[:k:k], append([]ssa.Instruction{np}, b.Instrs[k:]...)...)
	}
	// the Field instructions themselves are left (now unused): harmless
	rebuildReferrers(fn)
	return true
}

func fieldNameOf(t types.Type, i int) string {
	if st, ok := t.Underlying().(*types.Struct); ok && i < st.NumFields() {
		return st.Field(i).Name()
	}
	return "field"
}
