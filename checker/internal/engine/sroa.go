package engine

import (
	"go/token"
	"go/types"

	"golang.org/x/tools/go/ssa"
)

// Field reads of local struct values are resolved to the value stored.
//
// A helper that hands several values back in a small struct
// (`return presentedToken{pid: …, hash: …}, true`) leaves, once inlined, a
// local struct that is filled field by field, loaded whole, merged with the
// zero struct of the failure returns in a phi, and taken apart again with
// Field instructions. resolveStructFields replaces such a `Field(x, i)` by the
// value that was stored into field i (a phi of those values when x is a phi),
// so that the rules' value tracking sees through the struct. Only local
// structs whose address never leaves the function are touched.

func structCellOnlyFields(a *ssa.Alloc) bool {
	if _, ok := a.Type().Underlying().(*types.Pointer).Elem().Underlying().(*types.Struct); !ok {
		return false
	}
	if a.Referrers() == nil {
		return false
	}
	for _, ref := range *a.Referrers() {
		switch x := ref.(type) {
		case *ssa.FieldAddr:
			if x.Referrers() == nil {
				continue
			}
			for _, rr := range *x.Referrers() {
				switch y := rr.(type) {
				case *ssa.Store:
					if y.Addr != ssa.Value(x) {
						return false // the field's address is stored somewhere
					}
				case *ssa.UnOp:
					if y.Op != token.MUL {
						return false
					}
				case *ssa.FieldAddr:
					// a field of a struct-typed field: read-only uses leave the cell alone
					if !readOnlyAddr(y, 0) {
						return false
					}
				case *ssa.DebugRef:
				default:
					return false
				}
			}
		case *ssa.UnOp:
			if x.Op != token.MUL {
				return false
			}
		case *ssa.Store:
			if x.Addr != ssa.Value(a) {
				return false // the cell's address is stored somewhere
			}
		case *ssa.DebugRef:
		default:
			return false // call argument, closure binding, …
		}
	}
	return true
}

// readOnlyCapture: the closure made by mc captures cell only to read it.
func readOnlyCapture(mc *ssa.MakeClosure, cell ssa.Value, d int) bool {
	f, ok := mc.Fn.(*ssa.Function)
	if !ok || d > 3 {
		return false
	}
	for i, b := range mc.Bindings {
		if b != cell {
			continue
		}
		if i >= len(f.FreeVars) {
			return false
		}
		fv := f.FreeVars[i]
		if fv.Referrers() == nil {
			continue
		}
		for _, ref := range *fv.Referrers() {
			switch x := ref.(type) {
			case *ssa.UnOp:
				if x.Op != token.MUL {
					return false
				}
			case *ssa.MakeClosure:
				if !readOnlyCapture(x, fv, d+1) {
					return false
				}
			case *ssa.DebugRef:
			default:
				return false
			}
		}
	}
	return true
}

// readOnlyAddr: the address is only loaded from (directly or through further
// field selections).
func readOnlyAddr(a ssa.Value, d int) bool {
	if d > 4 || a.Referrers() == nil {
		return d <= 4
	}
	for _, ref := range *a.Referrers() {
		switch y := ref.(type) {
		case *ssa.UnOp:
			if y.Op != token.MUL {
				return false
			}
		case *ssa.FieldAddr:
			if !readOnlyAddr(y, d+1) {
				return false
			}
		case *ssa.DebugRef:
		default:
			return false
		}
	}
	return true
}

func resolveStructFields(fn *ssa.Function) bool {
	changed := false
	type key struct {
		phi *ssa.Phi
		i   int
	}
	made := map[key]ssa.Value{}
	var newPhis []*ssa.Phi
	var resolve func(x ssa.Value, i int, ft types.Type, d int) ssa.Value
	precedes := func(a, b ssa.Instruction) bool {
		if a.Block() == b.Block() {
			return instrPos(a) < instrPos(b)
		}
		return Dominates(a.Block(), b.Block())
	}
	// promote: a field that is assigned several times (the request a handler's
	// phases share, re-assigned as it gains context values, possibly in a loop)
	// is a local variable in all but name: its loads get the reaching value,
	// with phis where assignments merge (on-demand SSA construction).
	type cellKey struct {
		a *ssa.Alloc
		i int
	}
	entryMemo := map[cellKey]map[*ssa.BasicBlock]ssa.Value{}
	promote := func(a *ssa.Alloc, i int, ft types.Type, at ssa.Instruction, stores []*ssa.Store) ssa.Value {
		ck := cellKey{a, i}
		memo := entryMemo[ck]
		if memo == nil {
			memo = map[*ssa.BasicBlock]ssa.Value{}
			entryMemo[ck] = memo
		}
		lastIn := func(b *ssa.BasicBlock, before int) ssa.Value {
			var best *ssa.Store
			bestPos := -1
			for _, s := range stores {
				if s.Block() != b {
					continue
				}
				p := instrPos(s)
				if (before < 0 || p < before) && p > bestPos {
					best, bestPos = s, p
				}
			}
			// the allocation itself defines the zero value (a fresh cell per execution)
			if a.Block() == b {
				if p := instrPos(a); (before < 0 || p < before) && p > bestPos {
					return zeroOf(ft)
				}
			}
			if best == nil {
				return nil
			}
			return best.Val
		}
		busy := map[*ssa.BasicBlock]int{}
		var atEntry, atExit func(b *ssa.BasicBlock) ssa.Value
		atEntry = func(b *ssa.BasicBlock) ssa.Value {
			if v, ok := memo[b]; ok {
				return v
			}
			switch len(b.Preds) {
			case 0:
				memo[b] = zeroOf(ft)
			case 1:
				// (not memoised while in progress: the header's phi, built further up
				// this very chain, asks for the same blocks again on its other edges and
				// must get the value, not a placeholder; a chain of single-predecessor
				// blocks cannot close a cycle without passing a merge)
				if busy[b] > 40 {
					return nil
				}
				busy[b]++
				v := atExit(b.Preds[0])
				busy[b]--
				memo[b] = v
			default:
				nm := a.Comment
				if i >= 0 {
					nm = fieldNameOf(a.Type().Underlying().(*types.Pointer).Elem(), i)
				}
				phi := newPhi(b, ft, a.Pos(), nm, nil)
				memo[b] = phi
				for _, p := range b.Preds {
					phi.Edges = append(phi.Edges, atExit(p))
				}
				newPhis = append(newPhis, phi)
			}
			return memo[b]
		}
		atExit = func(b *ssa.BasicBlock) ssa.Value {
			if v := lastIn(b, -1); v != nil {
				return v
			}
			return atEntry(b)
		}
		if v := lastIn(at.Block(), instrPos(at)); v != nil {
			return v
		}
		return atEntry(at.Block())
	}
	// cellField: the value of field i of the local struct a when instruction at reads it
	var cellField func(a *ssa.Alloc, i int, ft types.Type, at ssa.Instruction, d int) ssa.Value
	cellField = func(a *ssa.Alloc, i int, ft types.Type, at ssa.Instruction, d int) ssa.Value {
		if !structCellOnlyFields(a) {
			return nil
		}
		var fieldStores, wholeStores []*ssa.Store
		for _, ref := range *a.Referrers() {
			switch x := ref.(type) {
			case *ssa.Store:
				// `return req, err` with req a named result copies the struct onto
				// itself (load, store of what was loaded, nothing written in between)
				if ld, isLd := x.Val.(*ssa.UnOp); isLd && ld.Op == token.MUL && ld.X == ssa.Value(a) && ld.Block() == x.Block() {
					selfCopy := true
					for k := instrPos(ld) + 1; k < instrPos(x); k++ {
						// (the cell's address goes nowhere: only stores can write it)
						if st, isSt := x.Block().Instrs[k].(*ssa.Store); isSt {
							if st.Addr == ssa.Value(a) {
								selfCopy = false
							}
							if fa, isFA := st.Addr.(*ssa.FieldAddr); isFA && fa.X == ssa.Value(a) {
								selfCopy = false
							}
						}
					}
					if selfCopy {
						continue
					}
				}
				wholeStores = append(wholeStores, x)
			case *ssa.FieldAddr:
				if x.Field != i || x.Referrers() == nil {
					continue
				}
				for _, rr := range *x.Referrers() {
					if s, ok := rr.(*ssa.Store); ok {
						fieldStores = append(fieldStores, s)
					}
				}
			}
		}
		switch {
		case len(wholeStores) == 0 && len(fieldStores) == 0:
			return zeroOf(ft)
		case len(wholeStores) == 0 && len(fieldStores) == 1 && precedes(fieldStores[0], at):
			return fieldStores[0].Val
		case len(wholeStores) == 1 && len(fieldStores) == 0:
			if !precedes(wholeStores[0], at) {
				return nil
			}
			return resolve(wholeStores[0].Val, i, ft, d+1)
		case len(wholeStores) == 0 && len(fieldStores) <= 12 && promote != nil:
			if v := promote(a, i, ft, at, fieldStores); v != nil {
				return v
			}
		case len(wholeStores) == 0 && len(fieldStores) <= 8:
			// a field that is assigned several times (the request a handler's phases
			// share, re-assigned as it gains context values): the store that
			// dominates the read and that no other store can follow on the way there
			for _, s := range fieldStores {
				if !precedes(s, at) {
					continue
				}
				unique := true
				for _, o := range fieldStores {
					if o == s {
						continue
					}
					q := PathQuery{From: o, Cut: func(in ssa.Instruction) bool { return in == ssa.Instruction(s) }, Goal: func(in ssa.Instruction) bool { return in == at }}
					if q.Find() != nil {
						unique = false
						break
					}
				}
				if unique {
					return s.Val
				}
			}
		}
		return nil
	}
	resolve = func(x ssa.Value, i int, ft types.Type, d int) ssa.Value {
		if d > 6 {
			return nil
		}
		switch v := x.(type) {
		case *ssa.Const:
			if v.Value == nil {
				return zeroOf(ft)
			}
		case *ssa.UnOp:
			if v.Op != token.MUL {
				return nil
			}
			a, ok := v.X.(*ssa.Alloc)
			if !ok {
				return nil
			}
			return cellField(a, i, ft, v, d)
		case *ssa.Phi:
			if r, ok := made[key{v, i}]; ok {
				return r
			}
			made[key{v, i}] = nil // cycles: give up
			var edges []ssa.Value
			for _, e := range v.Edges {
				r := resolve(e, i, ft, d+1)
				if r == nil {
					return nil
				}
				edges = append(edges, r)
			}
			np := newPhi(v.Block(), ft, v.Pos(), v.Comment+"."+fieldNameOf(v.Type(), i), edges)
			made[key{v, i}] = np
			newPhis = append(newPhis, np)
			return np
		}
		return nil
	}
	for _, b := range fn.Blocks {
		for _, in := range b.Instrs {
			switch f := in.(type) {
			case *ssa.Field:
				if v := resolve(f.X, f.Field, f.Type(), 0); v != nil {
					replaceOperands(fn, f, v)
					changed = true
				}
			case *ssa.UnOp:
				// a field read through the cell: *(&cell.f)
				if f.Op != token.MUL {
					continue
				}
				fa, ok := f.X.(*ssa.FieldAddr)
				if !ok {
					continue
				}
				a, ok := fa.X.(*ssa.Alloc)
				if !ok {
					continue
				}
				if v := cellField(a, fa.Field, f.Type(), f, 0); v != nil && v != ssa.Value(f) {
					replaceOperands(fn, f, v)
					changed = true
				}
			}
		}
	}
	// a plain local variable that lives in a cell because closures captured it,
	// once those closures have been inlined and are gone: loads get the reaching
	// value like the fields above
	for _, b := range fn.Blocks {
		for _, in := range b.Instrs {
			ld, ok := in.(*ssa.UnOp)
			if !ok || ld.Op != token.MUL {
				continue
			}
			a, ok := ld.X.(*ssa.Alloc)
			if !ok || !a.Heap || a.Referrers() == nil {
				continue
			}
			if _, isStruct := a.Type().Underlying().(*types.Pointer).Elem().Underlying().(*types.Struct); isStruct {
				continue
			}
			var stores []*ssa.Store
			plain := true
			for _, ref := range *a.Referrers() {
				switch x := ref.(type) {
				case *ssa.Store:
					if x.Addr != ssa.Value(a) {
						plain = false
					}
					stores = append(stores, x)
				case *ssa.UnOp:
					if x.Op != token.MUL {
						plain = false
					}
				case *ssa.MakeClosure:
					// captured by a closure that only reads it (`go send()` with send
					// reading the token): the reads in this function are unaffected
					if !readOnlyCapture(x, a, 0) {
						plain = false
					}
				case *ssa.DebugRef:
				default:
					plain = false
				}
			}
			if !plain || len(stores) == 0 || len(stores) > 12 {
				continue
			}
			if v := promote(a, -1, ld.Type(), ld, stores); v != nil && v != ssa.Value(ld) {
				replaceOperands(fn, ld, v)
				changed = true
			}
		}
	}
	if !changed {
		return false
	}
	// merges that merge nothing (every operand the same value, or the phi itself)
	for again := true; again; {
		again = false
		for k, np := range newPhis {
			if np == nil {
				continue
			}
			var one ssa.Value
			trivial := true
			for _, e := range np.Edges {
				if e == ssa.Value(np) || e == nil {
					continue
				}
				if one != nil && one != e {
					trivial = false
					break
				}
				one = e
			}
			if !trivial || one == nil {
				continue
			}
			replaceOperands(fn, np, one)
			for _, other := range newPhis {
				if other == nil || other == np {
					continue
				}
				for ei, e := range other.Edges {
					if e == ssa.Value(np) {
						other.Edges[ei] = one
					}
				}
			}
			newPhis[k] = nil
			again = true
		}
	}
	for _, np := range newPhis {
		if np == nil {
			continue
		}
		for ei, e := range np.Edges {
			if e == nil {
				np.Edges[ei] = zeroOf(np.Type()) // an edge from a block the cell's value cannot come from
			}
		}
		b := np.Block()
		// after the existing phis
		k := 0
		for k < len(b.Instrs) {
			if _, isPhi := b.Instrs[k].(*ssa.Phi); !isPhi {
				break
			}
			k++
		}
		b.Instrs = append(b.Instrs[:k:k], append([]ssa.Instruction{np}, b.Instrs[k:]...)...)
	}
	// the Field instructions themselves are left (now unused): harmless
	rebuildReferrers(fn)
	return true
}

func fieldNameOf(t types.Type, i int) string {
	if st, ok := t.Underlying().(*types.Struct); ok && i < st.NumFields() {
		return st.Field(i).Name()
	}
	return "field"
}
