package engine

import (
	"fmt"

	"golang.org/x/tools/go/ssa"
)

// ValidateSSA checks the structural invariants the engine relies on after a
// function has been rewritten (inlining, unrolling, map expansion): edges are
// mirrored, phis have one operand per predecessor, blocks end in their only
// terminator, and every operand is defined where it dominates its use.
func ValidateSSA(fn *ssa.Function) error {
	invalidateDom(fn)
	inFn := map[*ssa.BasicBlock]bool{}
	for i, b := range fn.Blocks {
		if b.Index != i {
			return fmt.Errorf("block %d has index %d", i, b.Index)
		}
		inFn[b] = true
	}
	count := func(list []*ssa.BasicBlock, x *ssa.BasicBlock) int {
		n := 0
		for _, y := range list {
			if y == x {
				n++
			}
		}
		return n
	}
	pos := map[ssa.Instruction]int{}
	for _, b := range fn.Blocks {
		if len(b.Instrs) == 0 {
			return fmt.Errorf("block %d (%s) is empty", b.Index, b.Comment)
		}
		for i, in := range b.Instrs {
			if in.Block() != b {
				return fmt.Errorf("block %d (%s): instruction %d belongs to another block", b.Index, b.Comment, i)
			}
			pos[in] = i
			last := i == len(b.Instrs)-1
			switch in.(type) {
			case *ssa.If, *ssa.Jump, *ssa.Return, *ssa.Panic:
				if !last {
					return fmt.Errorf("block %d (%s): terminator in the middle", b.Index, b.Comment)
				}
			default:
				if last {
					return fmt.Errorf("block %d (%s): no terminator", b.Index, b.Comment)
				}
			}
			if phi, ok := in.(*ssa.Phi); ok && len(phi.Edges) != len(b.Preds) {
				return fmt.Errorf("block %d (%s): phi with %d operands, %d predecessors", b.Index, b.Comment, len(phi.Edges), len(b.Preds))
			}
		}
		want := 0
		switch b.Instrs[len(b.Instrs)-1].(type) {
		case *ssa.If:
			want = 2
		case *ssa.Jump:
			want = 1
		}
		if len(b.Succs) != want {
			return fmt.Errorf("block %d (%s): %d successors, terminator wants %d", b.Index, b.Comment, len(b.Succs), want)
		}
		for _, s := range b.Succs {
			if !inFn[s] {
				return fmt.Errorf("block %d (%s): successor not in the function", b.Index, b.Comment)
			}
			if count(s.Preds, b) != count(b.Succs, s) {
				return fmt.Errorf("edge %d->%d not mirrored", b.Index, s.Index)
			}
		}
		for _, p := range b.Preds {
			if !inFn[p] {
				return fmt.Errorf("block %d (%s): predecessor not in the function", b.Index, b.Comment)
			}
			if count(p.Succs, b) != count(b.Preds, p) {
				return fmt.Errorf("edge %d->%d not mirrored", p.Index, b.Index)
			}
		}
	}
	var buf [16]*ssa.Value
	for _, b := range fn.Blocks {
		if b != fn.Blocks[0] && len(b.Preds) == 0 {
			continue // unreachable (recover block)
		}
		for i, in := range b.Instrs {
			phi, isPhi := in.(*ssa.Phi)
			for oi, op := range in.Operands(buf[:0]) {
				if *op == nil {
					continue
				}
				def, ok := (*op).(ssa.Instruction)
				if !ok {
					continue
				}
				if def.Parent() != fn {
					return fmt.Errorf("block %d (%s): operand %s of %s is defined in %s", b.Index, b.Comment, (*op).Name(), fmt.Sprintf("%T", in), def.Parent())
				}
				db := def.Block()
				if _, present := pos[def]; !present {
					return fmt.Errorf("block %d (%s): operand %s was removed from the function", b.Index, b.Comment, (*op).Name())
				}
				if !inFn[db] {
					return fmt.Errorf("block %d (%s): operand %s defined in a removed block", b.Index, b.Comment, (*op).Name())
				}
				if isPhi {
					if oi < len(b.Preds) && !Dominates(db, b.Preds[oi]) {
						return fmt.Errorf("block %d (%s): phi operand %d (%s) does not dominate its edge", b.Index, b.Comment, oi, (*op).Name())
					}
					_ = phi
					continue
				}
				if db == b {
					if pos[def] >= i {
						return fmt.Errorf("block %d (%s): %s used before its definition", b.Index, b.Comment, (*op).Name())
					}
				} else if !Dominates(db, b) {
					return fmt.Errorf("block %d (%s): operand %s (block %d) does not dominate its use in %s", b.Index, b.Comment, (*op).Name(), db.Index, fmt.Sprintf("%T", in))
				}
			}
		}
	}
	return nil
}

// Renumber gives the registers of a rewritten function distinct names again
// (cloned instructions keep the number of their original); functions whose
// register names are already distinct are left as they are.
func Renumber(fn *ssa.Function) bool {
	seen := map[string]bool{}
	dup := false
	for _, b := range fn.Blocks {
		for _, in := range b.Instrs {
			if v, ok := in.(ssa.Value); ok {
				if _, isAlloc := in.(*ssa.Alloc); isAlloc && v.Name() != "" && v.Name()[0] != 't' {
					continue
				}
				if seen[v.Name()] {
					dup = true
				}
				seen[v.Name()] = true
			}
		}
	}
	if !dup {
		return false
	}
	n := 0
	for _, b := range fn.Blocks {
		for _, in := range b.Instrs {
			if _, ok := in.(ssa.Value); ok {
				if setUnexported(in, "num", n) {
					n++
				}
			}
		}
	}
	return true
}
