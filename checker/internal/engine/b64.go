package engine

import (
	"go/constant"
	"go/token"
	"go/types"
	"strings"

	"golang.org/x/tools/go/ssa"
)

// Encoding into a buffer is encoding to a string.
//
// `enc.Encode(dst, src); s := string(dst)` with dst sized by EncodedLen is
// what `s := enc.EncodeToString(src)` does without the intermediate
// allocation. The rules read codecs through the convenience calls (which
// encoding, of which bytes, becomes which value), so the buffer form is
// rewritten into them: the conversion `string(dst)` is replaced by a call
// of EncodeToString(src) placed right after the Encode that last filled
// dst on the way to the conversion. The same holds for Decode into a
// buffer only in shape, not in value (its length is a result), so decoding
// is left alone.

func bufRootOf(v ssa.Value) ssa.Value {
	for d := 0; d < 8; d++ {
		switch x := v.(type) {
		case *ssa.Slice:
			v = x.X
			continue
		case *ssa.Convert:
			v = x.X
			continue
		case *ssa.ChangeType:
			v = x.X
			continue
		}
		break
	}
	return v
}

func precedesInstr(a, b ssa.Instruction) bool {
	if a.Block() == b.Block() {
		return instrPos(a) < instrPos(b)
	}
	return Dominates(a.Block(), b.Block())
}

// NormaliseBufferEncodes rewrites fn; reports whether something changed.
func NormaliseBufferEncodes(fn *ssa.Function) bool {
	type enc struct {
		call *ssa.Call
		root ssa.Value
		dst  ssa.Value
	}
	var encs []enc
	for _, b := range fn.Blocks {
		for _, in := range b.Instrs {
			call, ok := in.(*ssa.Call)
			if !ok || call.Call.IsInvoke() {
				continue
			}
			f, ok := call.Call.Value.(*ssa.Function)
			if !ok || f.Pkg == nil || f.Pkg.Pkg.Path() != "encoding/base64" || f.Name() != "Encode" || len(call.Call.Args) != 3 {
				continue
			}
			encs = append(encs, enc{call, bufRootOf(call.Call.Args[1]), call.Call.Args[1]})
		}
	}
	if len(encs) == 0 {
		return false
	}
	changed := false
	for _, b := range fn.Blocks {
		for _, in := range b.Instrs {
			cv, ok := in.(*ssa.Convert)
			if !ok {
				continue
			}
			if bt, isB := cv.Type().Underlying().(*types.Basic); !isB || bt.Kind() != types.String {
				continue
			}
			root := bufRootOf(cv.X)
			// the Encode into this buffer that last ran before the conversion
			var best *enc
			for i := range encs {
				e := &encs[i]
				if e.root != root || !precedesInstr(e.call, cv) {
					continue
				}
				// two buffers carved out of one allocation: the destination must be
				// the very slice converted (same bounds), unless the whole root is used
				if e.dst != cv.X && !(bufRootOf(e.dst) == e.dst && bufRootOf(cv.X) == cv.X) {
					es, ok1 := e.dst.(*ssa.Slice)
					cs, ok2 := cv.X.(*ssa.Slice)
					if !(ok1 && ok2 && es.X == cs.X && es.Low == cs.Low && es.High == cs.High) {
						continue
					}
				}
				later := false
				for j := range encs {
					o := &encs[j]
					if o == e || o.root != root {
						continue
					}
					if Reaches(e.call, o.call) && Reaches(o.call, cv) {
						if od, ok := o.dst.(*ssa.Slice); ok {
							if ed, ok2 := e.dst.(*ssa.Slice); ok2 && od.X == ed.X && (od.Low != ed.Low || od.High != ed.High) {
								continue // a different region of the same allocation
							}
						}
						later = true
					}
				}
				if !later {
					best = e
				}
			}
			if best == nil {
				continue
			}
			ef := best.call.Call.Value.(*ssa.Function)
			recv := ef.Signature.Recv()
			if recv == nil {
				continue
			}
			toStr := fn.Prog.LookupMethod(recv.Type(), ef.Pkg.Pkg, "EncodeToString")
			if toStr == nil {
				continue
			}
			nc := &ssa.Call{}
			nc.Call.Value = toStr
			nc.Call.Args = []ssa.Value{best.call.Call.Args[0], best.call.Call.Args[2]}
			setUnexported(nc, "typ", cv.Type())
			setUnexported(nc, "pos", best.call.Pos())
			eb := best.call.Block()
			setBlock(nc, eb)
			k := instrPos(best.call)
			eb.Instrs = append(eb.Instrs[:k+1:k+1], append([]ssa.Instruction{nc}, eb.Instrs[k+1:]...)...)
			replaceOperands(fn, cv, nc)
			changed = true
		}
	}
	if changed {
		rebuildReferrers(fn)
	}
	return changed
}

// NormaliseJoinLoops: a hand-written join —
//
//	for i, s := range list { if i > 0 { buf.WriteByte(',') }; buf.WriteString(s) }; buf.String()
//
// on a buffer that receives nothing else — is strings.Join(list, ","), and is
// rewritten into that call (inserted in front of the String() call, whose
// uses it takes over) so that the rules see one spelling.
func NormaliseJoinLoops(fn *ssa.Function) bool {
	if fn.Prog == nil {
		return false
	}
	sp := fn.Prog.ImportedPackage("strings")
	if sp == nil || sp.Func("Join") == nil {
		return false
	}
	join := sp.Func("Join")
	name := func(c *ssa.Call) string {
		if f := c.Call.StaticCallee(); f != nil {
			return f.String()
		}
		return ""
	}
	changed := false
	for _, b := range fn.Blocks {
		for _, in := range b.Instrs {
			res, ok := in.(*ssa.Call)
			if !ok || len(res.Call.Args) != 1 || (name(res) != "(*bytes.Buffer).String" && name(res) != "(*strings.Builder).String") {
				continue
			}
			obj := res.Call.Args[0]
			if obj.Referrers() == nil {
				continue
			}
			var sepW, elemW *ssa.Call
			clean := true
			for _, ref := range *obj.Referrers() {
				c, isC := ref.(*ssa.Call)
				if !isC || c == res {
					continue
				}
				n := name(c)
				switch {
				case strings.HasSuffix(n, ").WriteByte"), strings.HasSuffix(n, ").WriteString"), strings.HasSuffix(n, ").WriteRune"):
					if len(c.Call.Args) != 2 || c.Call.Args[0] != obj {
						clean = false
						continue
					}
					if _, isK := c.Call.Args[1].(*ssa.Const); isK {
						if sepW != nil {
							clean = false
						}
						sepW = c
					} else {
						if elemW != nil {
							clean = false
						}
						elemW = c
					}
				case strings.HasSuffix(n, ").Write"):
					clean = false
				}
			}
			if !clean || sepW == nil || elemW == nil || !strings.HasSuffix(name(elemW), ").WriteString") {
				continue
			}
			// the element: list[i]
			ld, isLd := elemW.Call.Args[1].(*ssa.UnOp)
			if !isLd {
				continue
			}
			ia, isIA := ld.X.(*ssa.IndexAddr)
			if !isIA {
				continue
			}
			if _, isSl := ia.X.Type().Underlying().(*types.Slice); !isSl {
				continue
			}
			list, idx := ia.X, ia.Index
			// the separator is written exactly when i > 0
			sb := sepW.Block()
			if len(sb.Preds) != 1 {
				continue
			}
			pb := sb.Preds[0]
			ifi, isIf := pb.Instrs[len(pb.Instrs)-1].(*ssa.If)
			if !isIf || pb.Succs[0] != sb {
				continue
			}
			bo, isBO := ifi.Cond.(*ssa.BinOp)
			if !isBO || bo.X != idx {
				continue
			}
			if k, isK := ConstInt(bo.Y); !isK || k != 0 || (bo.Op != token.GTR && bo.Op != token.NEQ) {
				continue
			}
			// both writes sit in the loop over i; the result is read after it
			eb := elemW.Block()
			if !blockReaches(eb, eb) || !blockReaches(sb, eb) || blockReaches(res.Block(), eb) {
				continue
			}
			// every iteration writes the element: the index's block leads to it on both arms
			if !(pb == eb || (len(pb.Succs) == 2 && (pb.Succs[1] == eb) && len(sb.Succs) == 1 && sb.Succs[0] == eb)) {
				continue
			}
			var sep ssa.Value
			k := sepW.Call.Args[1].(*ssa.Const)
			if bt, isB := k.Type().Underlying().(*types.Basic); isB && bt.Info()&types.IsString != 0 {
				sep = k
			} else if n, isN := ConstInt(k); isN && n > 0 && n < 128 {
				sep = ssa.NewConst(constant.MakeString(string(rune(n))), types.Typ[types.String])
			} else {
				continue
			}
			nc := &ssa.Call{}
			nc.Call.Value = join
			nc.Call.Args = []ssa.Value{list, sep}
			setUnexported(nc, "typ", res.Type())
			setUnexported(nc, "pos", res.Pos())
			rb := res.Block()
			setBlock(nc, rb)
			kpos := instrPos(res)
			rb.Instrs = append(rb.Instrs[:kpos:kpos], append([]ssa.Instruction{nc}, rb.Instrs[kpos:]...)...)
			replaceOperands(fn, res, nc)
			changed = true
		}
	}
	if changed {
		rebuildReferrers(fn)
	}
	return changed
}
