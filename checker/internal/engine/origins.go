package engine

import (
	"fmt"
	"go/token"
	"go/types"
	"sort"
	"strings"

	"golang.org/x/tools/go/ssa"
)

// Origin is a leaf of a backward value slice.
type Origin struct {
	Kind string // call, param, const, global, freevar, escaped, other
	V    ssa.Value
	// Name: callee name for calls (with "#i" result index), parameter name,
	// constant text, global name.
	Name string
	// Idx is the result index for call origins.
	Idx int
}

func (o Origin) String() string { return o.Kind + ":" + o.Name }

// Transparent decides how the slice proceeds through a call: it returns the
// operand values the result is derived from and true, or false when the call
// is an origin in its own right.
type Transparent func(c ssa.CallInstruction, result int) ([]ssa.Value, bool)

// Slicer computes backward slices of SSA values within one function (free
// variables are followed into the enclosing function's bindings).
type Slicer struct {
	Through Transparent
	// MaxNodes bounds the traversal; 0 means 10000.
	MaxNodes int
	// ParamArgs, when set, continues the slice of a parameter in the
	// arguments of the function's callers (interprocedural lifting).
	ParamArgs func(p *ssa.Parameter) []ssa.Value
	// Fields adds a "field" origin (name "Type.Field" or ".Field") for every
	// struct field selection the value passes through.
	Fields bool
}

// FieldOf names the field selected by a FieldAddr / Field instruction.
func FieldOf(v ssa.Value) string {
	var t types.Type
	idx := -1
	switch x := v.(type) {
	case *ssa.FieldAddr:
		t, idx = x.X.Type(), x.Field
	case *ssa.Field:
		t, idx = x.X.Type(), x.Field
	default:
		return ""
	}
	if p, ok := t.Underlying().(*types.Pointer); ok {
		t = p.Elem()
	}
	st, ok := t.Underlying().(*types.Struct)
	if !ok || idx < 0 || idx >= st.NumFields() {
		return ""
	}
	name := st.Field(idx).Name()
	if n, ok := t.(*types.Named); ok {
		return n.Obj().Name() + "." + name
	}
	return "." + name
}

// Origins returns the leaves from which v is computed.
func (s Slicer) Origins(v ssa.Value) []Origin {
	seen := map[ssa.Value]bool{}
	var out []Origin
	budget := s.MaxNodes
	if budget == 0 {
		budget = 10000
	}
	var walk func(v ssa.Value)
	add := func(o Origin) { out = append(out, o) }
	walk = func(v ssa.Value) {
		if v == nil || seen[v] || budget <= 0 {
			return
		}
		seen[v] = true
		budget--
		switch v := v.(type) {
		case *ssa.Const:
			add(Origin{Kind: "const", V: v, Name: v.String()})
		case *ssa.Parameter:
			if s.ParamArgs != nil {
				if as := s.ParamArgs(v); len(as) > 0 {
					for _, a := range as {
						walk(a)
					}
					return
				}
			}
			add(Origin{Kind: "param", V: v, Name: v.Name()})
		case *ssa.Global:
			add(Origin{Kind: "global", V: v, Name: Short(v.Pkg.Pkg.Path()) + "." + v.Name()})
		case *ssa.Function:
			add(Origin{Kind: "func", V: v, Name: FuncName(v)})
		case *ssa.Builtin:
			add(Origin{Kind: "other", V: v, Name: "builtin:" + v.Name()})
		case *ssa.FreeVar:
			// follow into the bindings of every closure creation of this fn
			fn := v.Parent()
			idx := -1
			for i, fv := range fn.FreeVars {
				if fv == v {
					idx = i
				}
			}
			found := false
			if par := fn.Parent(); par != nil && idx >= 0 {
				for _, b := range par.Blocks {
					for _, in := range b.Instrs {
						if mc, ok := in.(*ssa.MakeClosure); ok && mc.Fn == fn && idx < len(mc.Bindings) {
							found = true
							walk(mc.Bindings[idx])
						}
					}
				}
			}
			if !found {
				add(Origin{Kind: "freevar", V: v, Name: v.Name()})
			}
		case *ssa.Phi:
			for _, e := range v.Edges {
				walk(e)
			}
		case *ssa.Extract:
			if c, ok := v.Tuple.(*ssa.Call); ok {
				s.call(c, flatIndex(c, v.Index, 0), walk, add)
				return
			}
			walk(v.Tuple)
		case *ssa.Call:
			s.call(v, 0, walk, add)
		case *ssa.UnOp:
			if v.Op == token.MUL {
				s.load(v.X, walk, add)
				return
			}
			walk(v.X)
		case *ssa.BinOp:
			walk(v.X)
			walk(v.Y)
		case *ssa.Convert:
			walk(v.X)
		case *ssa.ChangeType:
			walk(v.X)
		case *ssa.ChangeInterface:
			walk(v.X)
		case *ssa.MakeInterface:
			walk(v.X)
		case *ssa.TypeAssert:
			walk(v.X)
		case *ssa.Slice:
			walk(v.X)
		case *ssa.SliceToArrayPointer:
			walk(v.X)
		case *ssa.Field:
			if s.Fields {
				add(Origin{Kind: "field", V: v, Name: FieldOf(v)})
			}
			if c, idx, ok := structResult(v.X); ok {
				s.call(c, flatIndex(c, idx, v.Field), walk, add)
				return
			}
			walk(v.X)
		case *ssa.FieldAddr:
			if s.Fields {
				add(Origin{Kind: "field", V: v, Name: FieldOf(v)})
			}
			walk(v.X)
		case *ssa.Index:
			walk(v.X)
		case *ssa.IndexAddr:
			walk(v.X)
		case *ssa.Lookup:
			walk(v.X)
		case *ssa.Next:
			walk(v.Iter)
		case *ssa.Range:
			walk(v.X)
		case *ssa.MakeClosure:
			walk(v.Fn)
			for _, b := range v.Bindings {
				walk(b)
			}
		case *ssa.Alloc:
			s.load(v, walk, add)
		case *ssa.MakeMap, *ssa.MakeSlice, *ssa.MakeChan:
			// contents arrive through MapUpdate / stores into elements
			s.contents(v, walk, add)
		default:
			add(Origin{Kind: "other", V: v, Name: fmt.Sprintf("%T", v)})
		}
	}
	walk(v)
	sort.SliceStable(out, func(i, j int) bool { return out[i].String() < out[j].String() })
	return out
}

// what a buffer's String()/Bytes() returns is what was written into it: for a
// buffer that is not a local variable (taken from a pool, handed in) the
// writes are found at the method calls on the same value
var bufferReaders = map[string]bool{"(*bytes.Buffer).String": true, "(*bytes.Buffer).Bytes": true, "(*strings.Builder).String": true}
var bufferWriters = map[string]bool{
	"(*bytes.Buffer).Write": true, "(*bytes.Buffer).WriteString": true, "(*bytes.Buffer).WriteByte": true, "(*bytes.Buffer).WriteRune": true,
	"(*strings.Builder).Write": true, "(*strings.Builder).WriteString": true, "(*strings.Builder).WriteByte": true, "(*strings.Builder).WriteRune": true,
}

func (s Slicer) call(c *ssa.Call, idx int, walk func(ssa.Value), add func(Origin)) {
	if !c.Call.IsInvoke() && len(c.Call.Args) > 0 && bufferReaders[Callee(c)] {
		obj := c.Call.Args[0]
		if _, local := obj.(*ssa.Alloc); !local && obj.Referrers() != nil {
			for _, ref := range *obj.Referrers() {
				if w, ok := ref.(*ssa.Call); ok && !w.Call.IsInvoke() && len(w.Call.Args) == 2 && w.Call.Args[0] == obj && bufferWriters[Callee(w)] {
					walk(w.Call.Args[1])
				}
			}
		}
	}
	if s.Through != nil {
		if ops, ok := s.Through(c, idx); ok {
			for _, o := range ops {
				walk(o)
			}
			return
		}
	}
	name := Callee(c)
	if name == "" {
		name = "dynamic:" + c.Call.Value.Name()
	}
	add(Origin{Kind: "call", V: c, Name: fmt.Sprintf("%s#%d", name, idx), Idx: idx})
}

// load follows a memory read of address addr: stores into the same alloc
// (including through field/index addresses), or the pointer's own origins.
func (s Slicer) load(addr ssa.Value, walk func(ssa.Value), add func(Origin)) {
	switch a := addr.(type) {
	case *ssa.Alloc:
		s.contents(a, walk, add)
	case *ssa.FieldAddr:
		if s.Fields {
			add(Origin{Kind: "field", V: a, Name: FieldOf(a)})
		}
		// a field of a local struct: stores to that same field of the same base
		if base, ok := a.X.(*ssa.Alloc); ok {
			// … or of a local that holds the result struct of a call (`res, err := f()`;
			// `res.hash`): the field is that result of the call, counted as if the
			// struct's fields were returned one by one
			if base.Referrers() != nil {
				var whole ssa.Value
				n, fieldStore := 0, false
				for _, r := range *base.Referrers() {
					switch x := r.(type) {
					case *ssa.Store:
						if x.Addr == ssa.Value(base) {
							whole = x.Val
							n++
						}
					case *ssa.FieldAddr:
						if x.Referrers() != nil {
							for _, rr := range *x.Referrers() {
								if st, isSt := rr.(*ssa.Store); isSt && st.Addr == ssa.Value(x) {
									fieldStore = true
								}
							}
						}
					}
				}
				if n == 1 && !fieldStore {
					if c, idx, ok := structResult(whole); ok {
						s.call(c, flatIndex(c, idx, a.Field), walk, add)
						return
					}
				}
			}
			found := false
			if base.Referrers() != nil {
				for _, r := range *base.Referrers() {
					if fa, ok := r.(*ssa.FieldAddr); ok && fa.Field == a.Field && fa.Referrers() != nil {
						for _, rr := range *fa.Referrers() {
							if st, ok := rr.(*ssa.Store); ok && st.Addr == fa {
								found = true
								walk(st.Val)
							}
						}
					}
				}
			}
			if !found {
				s.contents(base, walk, add)
			}
			return
		}
		walk(a.X)
	case *ssa.IndexAddr:
		if base, ok := a.X.(*ssa.Alloc); ok {
			s.contents(base, walk, add)
			return
		}
		walk(a.X)
	default:
		walk(addr)
	}
}

// contents collects everything stored into a local object (alloc, map, slice).
func (s Slicer) contents(obj ssa.Value, walk func(ssa.Value), add func(Origin)) {
	s.contentsV(obj, walk, add, map[ssa.Value]bool{})
}

func (s Slicer) contentsV(obj ssa.Value, walk func(ssa.Value), add func(Origin), visited map[ssa.Value]bool) {
	if visited[obj] {
		return
	}
	visited[obj] = true
	refs := obj.Referrers()
	if refs == nil {
		return
	}
	stored := false
	for _, r := range *refs {
		switch r := r.(type) {
		case *ssa.Phi, *ssa.Slice:
			// a byte buffer carried around a loop, merged with nil or re-sliced: what
			// a known filler (Decode, Encode, copy, ReadFull) writes through the alias
			// is written into this object
			if isByteSlice(r.(ssa.Value).Type()) || isByteSlice(obj.Type()) {
				if s.aliasWrites(r.(ssa.Value), walk, visited) {
					stored = true
				}
			}
		case *ssa.Store:
			if r.Addr == obj {
				stored = true
				walk(r.Val)
			}
		case *ssa.MapUpdate:
			if r.Map == obj {
				stored = true
				walk(r.Key)
				walk(r.Value)
			}
		case *ssa.FieldAddr:
			if r.Referrers() != nil {
				for _, rr := range *r.Referrers() {
					if st, ok := rr.(*ssa.Store); ok && st.Addr == r {
						stored = true
						walk(st.Val)
					}
				}
			}
		case *ssa.IndexAddr:
			if r.Referrers() != nil {
				for _, rr := range *r.Referrers() {
					if st, ok := rr.(*ssa.Store); ok && st.Addr == r {
						stored = true
						walk(st.Val)
					}
				}
			}
		case ssa.CallInstruction:
			// the address escapes into a call which may write through it: what is
			// written may derive from the call's other arguments
			stored = true
			// (append and copy put nothing into it but their other operands)
			if bi, isB := r.Common().Value.(*ssa.Builtin); !isB || (bi.Name() != "append" && bi.Name() != "copy" && bi.Name() != "len" && bi.Name() != "cap") {
				add(Origin{Kind: "escaped", V: obj, Name: Callee(r)})
			}
			for _, a := range r.Common().Args {
				if a != obj {
					walk(a)
				}
			}
		case *ssa.MakeInterface:
			// &x passed as interface{} (json.Unmarshal(data, &x))
			if r.Referrers() != nil {
				for _, rr := range *r.Referrers() {
					if call, ok := rr.(ssa.CallInstruction); ok {
						stored = true
						add(Origin{Kind: "escaped", V: obj, Name: Callee(call)})
						for _, a := range call.Common().Args {
							if a != ssa.Value(r) {
								walk(a)
							}
						}
					}
				}
			}
		}
	}
	if !stored {
		add(Origin{Kind: "other", V: obj, Name: "zero"})
	}
}

// OriginNames returns the distinct String() forms of the origins.
func OriginNames(os []Origin) []string {
	set := map[string]bool{}
	for _, o := range os {
		set[o.String()] = true
	}
	var out []string
	for k := range set {
		out = append(out, k)
	}
	sort.Strings(out)
	return out
}

// HasOrigin reports whether some origin satisfies pred.
func HasOrigin(os []Origin, pred func(Origin) bool) bool {
	for _, o := range os {
		if pred(o) {
			return true
		}
	}
	return false
}

// OriginCalls returns the call origins whose name (without #index) has one
// of the given prefixes.
func OriginCalls(os []Origin, prefixes ...string) []Origin {
	var out []Origin
	for _, o := range os {
		if o.Kind != "call" {
			continue
		}
		for _, p := range prefixes {
			if strings.HasPrefix(o.Name, p) {
				out = append(out, o)
				break
			}
		}
	}
	return out
}

func isByteSlice(t types.Type) bool {
	if p, ok := t.Underlying().(*types.Pointer); ok {
		t = p.Elem()
	}
	switch x := t.Underlying().(type) {
	case *types.Slice:
		b, ok := x.Elem().Underlying().(*types.Basic)
		return ok && b.Kind() == types.Byte
	case *types.Array:
		b, ok := x.Elem().Underlying().(*types.Basic)
		return ok && b.Kind() == types.Byte
	}
	return false
}

// fillers: functions that write their source operand(s) into a destination
// buffer; callee name -> (index of the destination, indices of the sources).
var fillers = map[string][2][]int{
	"(*encoding/base64.Encoding).Decode": {{1}, {2}},
	"(*encoding/base64.Encoding).Encode": {{1}, {2}},
	"encoding/hex.Encode":                {{0}, {1}},
	"encoding/hex.Decode":                {{0}, {1}},
	"io.ReadFull":                        {{1}, {0}},
	"io.ReadAtLeast":                     {{1}, {0}},
}

// aliasWrites follows an alias (phi, re-slice) of a byte buffer to the fillers
// that write through it and walks what they write; reports whether any did.
func (s Slicer) aliasWrites(alias ssa.Value, walk func(ssa.Value), visited map[ssa.Value]bool) bool {
	if visited[alias] || len(visited) > 12 || alias.Referrers() == nil {
		return false
	}
	visited[alias] = true
	wrote := false
	for _, ref := range *alias.Referrers() {
		switch x := ref.(type) {
		case *ssa.Phi, *ssa.Slice:
			if s.aliasWrites(x.(ssa.Value), walk, visited) {
				wrote = true
			}
		case *ssa.Call:
			if bi, ok := x.Call.Value.(*ssa.Builtin); ok && bi.Name() == "copy" && len(x.Call.Args) == 2 && x.Call.Args[0] == alias {
				walk(x.Call.Args[1])
				wrote = true
				continue
			}
			if f, ok := fillers[Callee(x)]; ok {
				for _, di := range f[0] {
					if di < len(x.Call.Args) && x.Call.Args[di] == alias {
						for _, si := range f[1] {
							if si < len(x.Call.Args) {
								walk(x.Call.Args[si])
							}
						}
						wrote = true
					}
				}
			}
		}
	}
	return wrote
}

// structResult: v is a struct-typed result of a call (the call's value, or an
// extract of its tuple); returns the call and the result's tuple index.
func structResult(v ssa.Value) (*ssa.Call, int, bool) {
	if _, isS := v.Type().Underlying().(*types.Struct); !isS {
		return nil, 0, false
	}
	switch x := v.(type) {
	case *ssa.Call:
		return x, 0, true
	case *ssa.Extract:
		if c, ok := x.Tuple.(*ssa.Call); ok {
			return c, x.Index, true
		}
	}
	return nil, 0, false
}

// flatIndex numbers the results of a call as if every struct-typed result
// were returned field by field: a helper changed from `(otp, hash string, err
// error)` to `(newOTP, error)` with newOTP{otp, hash} keeps its numbering.
func flatIndex(c *ssa.Call, idx, field int) int {
	res := c.Call.Signature().Results()
	flat := 0
	for i := 0; i < idx && i < res.Len(); i++ {
		if st, ok := res.At(i).Type().Underlying().(*types.Struct); ok {
			flat += st.NumFields()
		} else {
			flat++
		}
	}
	return flat + field
}
