package engine

import (
	"go/token"

	"golang.org/x/tools/go/ssa"
)

// Dead-code removal after table normalisation.
//
// Once the rows of a local literal table have been forwarded to their readers
// the table itself is dead: an array that is only written. Its element stores
// still mention the closures the rows held, which keeps those closures in the
// program as functions of their own — bodies that were inlined where the loop
// called them and that nothing can call any more. removeDeadCode deletes
// values without users and side effects and local allocations that are only
// written, so that what is left of the function is what can execute.

func pureValue(in ssa.Instruction) bool {
	switch x := in.(type) {
	case *ssa.UnOp:
		return x.Op != token.ARROW
	case *ssa.BinOp:
		return x.Op != token.QUO && x.Op != token.REM && x.Op != token.SHL && x.Op != token.SHR
	case *ssa.Call:
		if bi, ok := x.Call.Value.(*ssa.Builtin); ok && (bi.Name() == "len" || bi.Name() == "cap") {
			return true
		}
		return false
	case *ssa.IndexAddr, *ssa.FieldAddr:
		return true // (a nil/bounds panic of an address nobody uses is given up: tables are local literals here)
	case *ssa.Field, *ssa.Slice, *ssa.ChangeType, *ssa.ChangeInterface, *ssa.MakeClosure, *ssa.MakeInterface,
		*ssa.Phi, *ssa.Convert, *ssa.Extract, *ssa.MakeSlice, *ssa.MakeMap:
		return true
	}
	return false
}

// writeOnlyAlloc: every use of the local cell is an element/field address that
// is only stored through, a slice of it that nobody uses, or a whole store.
func writeOnlyAlloc(a *ssa.Alloc) ([]ssa.Instruction, bool) {
	if a.Referrers() == nil {
		return nil, true
	}
	var dead []ssa.Instruction
	for _, ref := range *a.Referrers() {
		switch x := ref.(type) {
		case *ssa.IndexAddr, *ssa.FieldAddr:
			v := x.(ssa.Value)
			if v.Referrers() != nil {
				for _, rr := range *v.Referrers() {
					st, ok := rr.(*ssa.Store)
					if !ok || st.Addr != v {
						return nil, false
					}
					dead = append(dead, st)
				}
			}
			dead = append(dead, x)
		case *ssa.Slice:
			if x.Referrers() != nil && len(*x.Referrers()) > 0 {
				return nil, false
			}
			dead = append(dead, x)
		case *ssa.Store:
			if x.Addr != ssa.Value(a) {
				return nil, false
			}
			dead = append(dead, x)
		case *ssa.DebugRef:
			dead = append(dead, x)
		default:
			return nil, false
		}
	}
	return dead, true
}

func removeDeadCode(fn *ssa.Function) bool {
	changed := false
	for round := 0; round < 12; round++ {
		kill := map[ssa.Instruction]bool{}
		for _, b := range fn.Blocks {
			for _, in := range b.Instrs {
				v, isVal := in.(ssa.Value)
				if !isVal {
					continue
				}
				if a, ok := in.(*ssa.Alloc); ok {
					if dead, ok := writeOnlyAlloc(a); ok {
						kill[a] = true
						for _, d := range dead {
							kill[d] = true
						}
					}
					continue
				}
				if !pureValue(in) {
					continue
				}
				refs := v.Referrers()
				if refs == nil {
					continue
				}
				n := 0
				for _, r := range *refs {
					if _, isDbg := r.(*ssa.DebugRef); isDbg {
						continue
					}
					if !kill[r] {
						n++
					}
				}
				if n == 0 {
					kill[in] = true
					for _, r := range *refs {
						kill[r] = true // its debug references
					}
				}
			}
		}
		if len(kill) == 0 {
			break
		}
		for _, b := range fn.Blocks {
			var keep []ssa.Instruction
			for _, in := range b.Instrs {
				if !kill[in] {
					keep = append(keep, in)
				}
			}
			b.Instrs = keep
		}
		rebuildReferrers(fn)
		changed = true
	}
	return changed
}
