package engine

import (
	"fmt"

	"golang.org/x/tools/go/ssa"
)

// PathQuery describes a must-pass-through question: starting after From (or
// at the head of block StartBlock when From is nil), is there a path that
// reaches an instruction satisfying Goal without first executing an
// instruction satisfying Cut? Edges for which Prune returns true are not
// followed.
type PathQuery struct {
	From       ssa.Instruction
	StartBlock *ssa.BasicBlock
	Cut        func(ssa.Instruction) bool
	Goal       func(ssa.Instruction) bool
	Prune      func(from, to *ssa.BasicBlock) bool
}

// Find returns a witness path (sequence of instructions of interest: the
// first instruction of every block traversed and the goal) or nil when every
// path from the start is cut before reaching a goal.
func (q PathQuery) Find() []ssa.Instruction {
	type node struct {
		b    *ssa.BasicBlock
		prev *node
	}
	var startB *ssa.BasicBlock
	startI := 0
	if q.From != nil {
		startB = q.From.Block()
		startI = instrIndex(q.From) + 1
	} else {
		startB = q.StartBlock
	}
	if startB == nil {
		return nil
	}
	// scan returns (goalInstr, cut)
	scan := func(b *ssa.BasicBlock, from int) (ssa.Instruction, bool) {
		for k := from; k < len(b.Instrs); k++ {
			in := b.Instrs[k]
			if q.Cut != nil && q.Cut(in) {
				return nil, true
			}
			if q.Goal != nil && q.Goal(in) {
				return in, false
			}
		}
		return nil, false
	}
	build := func(n *node, goal ssa.Instruction) []ssa.Instruction {
		var rev []ssa.Instruction
		rev = append(rev, goal)
		for ; n != nil; n = n.prev {
			if len(n.b.Instrs) > 0 {
				rev = append(rev, n.b.Instrs[0])
			}
		}
		for i, j := 0, len(rev)-1; i < j; i, j = i+1, j-1 {
			rev[i], rev[j] = rev[j], rev[i]
		}
		return rev
	}
	start := &node{b: startB}
	if g, cut := scan(startB, startI); g != nil {
		return build(start, g)
	} else if cut {
		return nil
	}
	seen := map[*ssa.BasicBlock]bool{}
	// the start block may be re-entered from its head through a loop
	queue := []*node{start}
	for len(queue) > 0 {
		n := queue[0]
		queue = queue[1:]
		for _, s := range n.b.Succs {
			if q.Prune != nil && q.Prune(n.b, s) {
				continue
			}
			if seen[s] {
				continue
			}
			seen[s] = true
			nn := &node{b: s, prev: n}
			g, cut := scan(s, 0)
			if g != nil {
				return build(nn, g)
			}
			if cut {
				continue
			}
			queue = append(queue, nn)
		}
	}
	return nil
}

// IsReturn reports whether the instruction is a return.
func IsReturn(i ssa.Instruction) bool { _, ok := i.(*ssa.Return); return ok }

// IsPanic reports whether the instruction is a panic.
func IsPanic(i ssa.Instruction) bool { _, ok := i.(*ssa.Panic); return ok }

// IsCallTo returns a predicate matching calls to any of the named callees.
func IsCallTo(names ...string) func(ssa.Instruction) bool {
	set := map[string]bool{}
	for _, n := range names {
		set[n] = true
	}
	return func(i ssa.Instruction) bool {
		c, ok := i.(ssa.CallInstruction)
		return ok && set[Callee(c)]
	}
}

// Or combines instruction predicates.
func Or(ps ...func(ssa.Instruction) bool) func(ssa.Instruction) bool {
	return func(i ssa.Instruction) bool {
		for _, p := range ps {
			if p != nil && p(i) {
				return true
			}
		}
		return false
	}
}

// DescribePath renders a witness path.
func (p *Prog) DescribePath(path []ssa.Instruction) []string {
	var out []string
	for _, i := range path {
		out = append(out, fmt.Sprintf("%s  %s", p.InstrPos(i), truncate(i.String(), 90)))
	}
	return out
}

func truncate(s string, n int) string {
	if len(s) > n {
		return s[:n] + "…"
	}
	return s
}

// Reaches reports whether some path leads from instruction a to instruction b
// (a executed strictly before b).
func Reaches(a, b ssa.Instruction) bool {
	q := PathQuery{From: a, Goal: func(i ssa.Instruction) bool { return i == b }}
	return q.Find() != nil
}

// ReturnsNilError reports whether ret returns a constant nil in its last
// (error) result.
func ReturnsNilError(ret *ssa.Return) bool {
	if len(ret.Results) == 0 {
		return false
	}
	last := ret.Results[len(ret.Results)-1]
	return IsErrorType(last.Type()) && IsNilConst(last)
}
