package engine

import (
	"fmt"
	"go/token"
	"go/types"
	"strings"

	"golang.org/x/tools/go/ssa"
)

// PathQuery describes a must-pass-through question: starting after From (or
// at the head of block StartBlock when From is nil), is there a path that
// reaches an instruction satisfying Goal without first executing an
// instruction satisfying Cut? Edges for which Prune returns true are not
// followed.
type PathQuery struct {
	From       ssa.Instruction
	StartBlock *ssa.BasicBlock
	// StartPred is the block from which StartBlock is entered (resolves phis
	// in StartBlock); optional.
	StartPred *ssa.BasicBlock
	Cut       func(ssa.Instruction) bool
	Goal      func(ssa.Instruction) bool
	// GoalP is like Goal but also sees the path walked to the instruction
	// (to resolve what a merged return returns on this path). In the
	// path-insensitive phases the view is empty and answers "unknown".
	GoalP func(ssa.Instruction, PathView) bool
	Prune func(from, to *ssa.BasicBlock) bool
	// PruneFact is Prune phrased over the condition the edge carries. In the
	// path-sensitive phase a condition that is a phi (what `if pred()` leaves
	// once pred is inlined) is resolved to the operand the path selected.
	PruneFact func(Fact) bool
	// Assume gives known truth values of boolean SSA values. Branches whose
	// condition evaluates (through negation, constants, and phis resolved
	// along the path walked) to a known value are only followed on the
	// consistent side.
	Assume map[ssa.Value]bool
	// NonNil lists values assumed non-nil: comparisons of them (or of phis
	// that resolve to them along the path) with nil are evaluated.
	NonNil map[ssa.Value]bool
}

// PathView lets a goal predicate look at values as they are on the path
// walked so far.
type PathView struct {
	q *PathQuery
	n *pnode
}

// Precise reports whether the view has a path to resolve values on (false in
// the path-insensitive phases, where predicates must answer "possibly").
func (pv PathView) Precise() bool { return pv.q != nil }

// Resolve follows phis along the path to the operand selected.
func (pv PathView) Resolve(v ssa.Value) ssa.Value {
	if pv.q == nil {
		return v
	}
	if r := pv.q.resolvePhi(v, pv.n, 0); r != nil {
		return r
	}
	return v
}

// NilKnown reports whether v is known to be nil / non-nil on this path: by
// the operand a phi selects, by construction (a fresh or wrapped error), or by
// a nil test passed on the way.
func (pv PathView) NilKnown(v ssa.Value) (isNil, known bool) {
	if pv.q == nil {
		return false, false
	}
	rv, pos := pv.q.resolvePhiAt(v, pv.n, 0)
	if rv == nil {
		return false, false
	}
	if IsNilConst(rv) {
		return true, true
	}
	// the branch that led from the operand's position into the merging block
	// may be the test of the operand (`if err != nil { goto join }`)
	if pos != nil {
		for m := pv.n; m != nil && m.prev != nil; m = m.prev {
			if m.prev == pos {
				if f, ok := EdgeFact(m.prev.b, m.b); ok {
					if f.SaysNil(rv) {
						return true, true
					}
					if f.SaysNotNil(rv) {
						return false, true
					}
				}
				break
			}
		}
	}
	if pv.q.nonNilValue(rv, 0) {
		return false, true
	}
	if isNil, known := pathNilFact(rv, pos); known {
		return isNil, true
	}
	// Wrap(err): nil exactly when err is
	if c, ok := rv.(*ssa.Call); ok && len(c.Call.Args) > 0 {
		if n := Callee(c); strings.Contains(n, "errors.Wrap") || strings.Contains(n, "errors.WithMessage") || strings.Contains(n, "errors.WithStack") {
			return PathView{q: pv.q, n: pos}.NilKnown(c.Call.Args[0])
		}
	}
	return false, false
}

// EdgeFact is the fact of edge from->to with its condition resolved through
// negations and phis along the path walked (from is the block the view ends
// in).
func (pv PathView) EdgeFact(from, to *ssa.BasicBlock) (Fact, bool) {
	f, ok := EdgeFact(from, to)
	if !ok || pv.q == nil {
		return f, ok
	}
	cond, pol := f.Cond, f.Pol
	for k := 0; k < 12; k++ {
		if u, isU := cond.(*ssa.UnOp); isU && u.Op == token.NOT {
			cond, pol = u.X, !pol
			continue
		}
		if _, isPhi := cond.(*ssa.Phi); isPhi {
			r := pv.q.resolvePhi(cond, pv.n, 0)
			if r == nil || r == cond {
				break
			}
			cond = r
			continue
		}
		break
	}
	f.Cond, f.Pol = cond, pol
	return f, true
}

// PathFact reports whether some branch edge passed on the path walked
// satisfies pred.
func (pv PathView) PathFact(pred func(Fact) bool) bool {
	for m := pv.n; m != nil && m.prev != nil; m = m.prev {
		if f, ok := EdgeFact(m.prev.b, m.b); ok && pred(f) {
			return true
		}
	}
	return false
}

type pnode struct {
	b    *ssa.BasicBlock
	prev *pnode
}

// evalBool evaluates a boolean SSA value at the end of the path ending in n.
func (q PathQuery) evalBool(v ssa.Value, n *pnode, depth int) (val, known bool) {
	if depth > 8 || v == nil {
		return false, false
	}
	if b, ok := ConstBool(v); ok {
		return b, true
	}
	if a, ok := q.Assume[v]; ok {
		return a, true
	}
	// a value that a branch on the way here already decided (not a phi: phis are
	// resolved by the path below)
	if _, isPhi := v.(*ssa.Phi); !isPhi {
		if _, isConst := v.(*ssa.Const); !isConst {
			var def *ssa.BasicBlock
			if in, ok := v.(ssa.Instruction); ok {
				def = in.Block()
			}
			for m := n; m != nil && m.prev != nil; m = m.prev {
				if def != nil && m.b == def {
					break // v is (re)defined here: what earlier edges said is about an older value
				}
				if f, ok := EdgeFact(m.prev.b, m.b); ok {
					if f.SaysBool(v, true) {
						return true, true
					}
					if f.SaysBool(v, false) {
						return false, true
					}
				}
			}
		}
	}
	switch x := v.(type) {
	case *ssa.UnOp:
		if x.Op == token.NOT {
			r, k := q.evalBool(x.X, n, depth+1)
			return !r, k
		}
	case *ssa.BinOp:
		if x.Op == token.EQL || x.Op == token.NEQ {
			if cb, ok := ConstBool(x.Y); ok {
				r, k := q.evalBool(x.X, n, depth+1)
				return (r == cb) == (x.Op == token.EQL), k
			}
			if cb, ok := ConstBool(x.X); ok {
				r, k := q.evalBool(x.Y, n, depth+1)
				return (r == cb) == (x.Op == token.EQL), k
			}
			// two strings that are constants on this path (a named result still
			// holding its zero value)
			if sx, okx := ConstStr(q.resolvePhi(x.X, n, 0)); okx {
				if sy, oky := ConstStr(q.resolvePhi(x.Y, n, 0)); oky {
					return (sx == sy) == (x.Op == token.EQL), true
				}
			}
			if IsNilConst(x.Y) {
				if q.NonNil[x.X] {
					return x.Op == token.NEQ, true
				}
				// the operand the path selected: nil or not by construction, or the
				// same value was already tested on the way here (typically by an
				// inlined helper that then returned it, possibly wrapped): the second
				// test agrees
				if isNil, known := (PathView{q: &q, n: n}).NilKnown(x.X); known {
					return isNil == (x.Op == token.EQL), true
				}
			}
		}
	case *ssa.Phi:
		// find where the path entered the phi's block
		for m := n; m != nil; m = m.prev {
			if m.b != x.Block() {
				continue
			}
			if m.prev == nil {
				return false, false
			}
			for i, p := range x.Block().Preds {
				if p == m.prev.b && i < len(x.Edges) {
					// the branch that led into the phi's block may itself decide the
					// operand (`if handled { goto join }` with the join merging handled)
					if f, ok := EdgeFact(m.prev.b, m.b); ok {
						if f.SaysBool(x.Edges[i], true) {
							return true, true
						}
						if f.SaysBool(x.Edges[i], false) {
							return false, true
						}
					}
					return q.evalBool(x.Edges[i], m.prev, depth+1)
				}
			}
			return false, false
		}
	}
	return false, false
}

// resolvePhiAt follows phis along the path to the operand actually selected
// and returns it with the path position it has to be interpreted at.
func (q PathQuery) resolvePhiAt(v ssa.Value, n *pnode, depth int) (ssa.Value, *pnode) {
	if depth > 12 {
		return nil, nil
	}
	x, ok := v.(*ssa.Phi)
	if !ok {
		return v, n
	}
	for m := n; m != nil; m = m.prev {
		if m.b != x.Block() {
			continue
		}
		if m.prev == nil {
			return x, m // the path starts in the phi's block: the phi stands for itself
		}
		for i, p := range x.Block().Preds {
			if p == m.prev.b && i < len(x.Edges) {
				return q.resolvePhiAt(x.Edges[i], m.prev, depth+1)
			}
		}
		return x, m
	}
	return x, n // defined before the path starts
}

func (q PathQuery) resolvePhi(v ssa.Value, n *pnode, depth int) ssa.Value {
	r, _ := q.resolvePhiAt(v, n, depth)
	return r
}

// pathNilFact looks, along the path walked to n, for a branch that tested v
// against nil after v was last defined.
func pathNilFact(v ssa.Value, n *pnode) (isNil bool, known bool) {
	var def *ssa.BasicBlock
	if in, ok := v.(ssa.Instruction); ok {
		def = in.Block()
	}
	for m := n; m != nil && m.prev != nil; m = m.prev {
		if def != nil && m.b == def {
			break // v is (re)defined here: what earlier edges said is about an older value
		}
		if f, ok := EdgeFact(m.prev.b, m.b); ok {
			if f.SaysNil(v) {
				return true, true
			}
			if f.SaysNotNil(v) {
				return false, true
			}
		}
	}
	return false, false
}

// nonNilValue: v is assumed non-nil, or is an error built from such a value
// (wrap) or freshly constructed.
func (q PathQuery) nonNilValue(v ssa.Value, d int) bool {
	if v == nil || d > 4 {
		return false
	}
	if q.NonNil[v] {
		return true
	}
	if c, ok := v.(*ssa.Call); ok {
		n := Callee(c)
		switch {
		case strings.HasSuffix(n, "errors.New") || strings.HasSuffix(n, "errors.Errorf") || n == "fmt.Errorf":
			return true
		case strings.Contains(n, "errors.Wrap") || strings.Contains(n, "errors.WithMessage") || strings.Contains(n, "errors.WithStack"):
			return len(c.Call.Args) > 0 && q.nonNilValue(c.Call.Args[0], d+1)
		}
	}
	if u, ok := v.(*ssa.UnOp); ok {
		if _, isG := u.X.(*ssa.Global); isG {
			return true // a sentinel
		}
	}
	return false
}

// evalInt evaluates small integer expressions along the path: constants,
// +,-,*, phis (by the path), len of fixed-size arrays and of slices of them.
func (q PathQuery) evalInt(v ssa.Value, n *pnode, depth int) (int64, bool) {
	if depth > 12 || v == nil {
		return 0, false
	}
	if c, ok := ConstInt(v); ok {
		return c, true
	}
	switch x := v.(type) {
	case *ssa.Phi:
		rv, pos := q.resolvePhiAt(x, n, 0)
		if rv == nil || rv == ssa.Value(x) {
			return 0, false
		}
		return q.evalInt(rv, pos, depth+1)
	case *ssa.Convert:
		return q.evalInt(x.X, n, depth+1)
	case *ssa.BinOp:
		a, ok1 := q.evalInt(x.X, n, depth+1)
		b, ok2 := q.evalInt(x.Y, n, depth+1)
		if !ok1 || !ok2 {
			return 0, false
		}
		switch x.Op {
		case token.ADD:
			return a + b, true
		case token.SUB:
			return a - b, true
		case token.MUL:
			return a * b, true
		}
	case *ssa.Call:
		if b, ok := x.Call.Value.(*ssa.Builtin); ok && b.Name() == "len" && len(x.Call.Args) == 1 {
			return staticLen(x.Call.Args[0])
		}
	}
	return 0, false
}

// staticLen: length of a fixed-size array value/pointer or a full slice of one.
func staticLen(v ssa.Value) (int64, bool) {
	t := v.Type().Underlying()
	if p, ok := t.(*types.Pointer); ok {
		t = p.Elem().Underlying()
	}
	if a, ok := t.(*types.Array); ok {
		return a.Len(), true
	}
	if sl, ok := v.(*ssa.Slice); ok && sl.Low == nil && sl.High == nil {
		return staticLen(sl.X)
	}
	if _, isSl := t.(*types.Slice); isSl && IsNilConst(v) {
		return 0, true // no variadic arguments / a nil list
	}
	if ms, ok := v.(*ssa.MakeSlice); ok {
		return func() (int64, bool) { c, ok := ConstInt(ms.Len); return c, ok }()
	}
	// a package-level slice that is assigned once, in the package initialiser, from
	// a literal: its length is the literal's
	if ld, ok := v.(*ssa.UnOp); ok {
		if g, ok := ld.X.(*ssa.Global); ok {
			return globalSliceLen(g)
		}
	}
	return 0, false
}

var globalLenCache = map[*ssa.Global][2]int64{}

func globalSliceLen(g *ssa.Global) (int64, bool) {
	if c, ok := globalLenCache[g]; ok {
		return c[0], c[1] == 1
	}
	n, ok := int64(0), false
	stores := 0
	for _, m := range g.Pkg.Members {
		fn, isF := m.(*ssa.Function)
		if !isF {
			continue
		}
		var visit func(f *ssa.Function)
		visit = func(f *ssa.Function) {
			for _, b := range f.Blocks {
				for _, in := range b.Instrs {
					if st, isSt := in.(*ssa.Store); isSt && st.Addr == ssa.Value(g) {
						stores++
						if f.Name() == "init" {
							if l, okL := staticLen(st.Val); okL {
								n, ok = l, true
							}
						}
					}
				}
			}
			for _, a := range f.AnonFuncs {
				visit(a)
			}
		}
		visit(fn)
	}
	// methods of the package's types
	for _, m := range g.Pkg.Members {
		if t, isT := m.(*ssa.Type); isT {
			for _, ptr := range []bool{false, true} {
				typ := t.Type()
				if ptr {
					typ = types.NewPointer(typ)
				}
				ms := g.Pkg.Prog.MethodSets.MethodSet(typ)
				for i := 0; i < ms.Len(); i++ {
					if f := g.Pkg.Prog.MethodValue(ms.At(i)); f != nil && f.Pkg == g.Pkg {
						for _, b := range f.Blocks {
							for _, in := range b.Instrs {
								if st, isSt := in.(*ssa.Store); isSt && st.Addr == ssa.Value(g) {
									stores++
								}
							}
						}
					}
				}
			}
		}
	}
	if stores != 1 {
		ok = false
	}
	c := [2]int64{n, 0}
	if ok {
		c[1] = 1
	}
	globalLenCache[g] = c
	return n, ok
}

// evalCond evaluates a branch condition along the path: booleans under the
// assumptions, nil tests of values assumed non-nil, integer comparisons.
func (q PathQuery) evalCond(v ssa.Value, n *pnode) (bool, bool) {
	if r, k := q.evalBool(v, n, 0); k {
		return r, true
	}
	for {
		u, ok := v.(*ssa.UnOp)
		if !ok || u.Op != token.NOT {
			break
		}
		r, k := q.evalCond(u.X, n)
		return !r, k
	}
	if b, ok := v.(*ssa.BinOp); ok {
		switch b.Op {
		case token.EQL, token.NEQ, token.LSS, token.LEQ, token.GTR, token.GEQ:
			x, ok1 := q.evalInt(b.X, n, 0)
			y, ok2 := q.evalInt(b.Y, n, 0)
			if ok1 && ok2 {
				switch b.Op {
				case token.EQL:
					return x == y, true
				case token.NEQ:
					return x != y, true
				case token.LSS:
					return x < y, true
				case token.LEQ:
					return x <= y, true
				case token.GTR:
					return x > y, true
				case token.GEQ:
					return x >= y, true
				}
			}
		}
	}
	return false, false
}

// Find returns a witness path (sequence of instructions of interest: the
// first instruction of every block traversed and the goal) or nil when every
// path from the start is cut before reaching a goal.
//
// The search is path-sensitive: branch conditions that can be evaluated along
// the path walked (assumed booleans, phis resolved by the path, nil tests of
// values assumed non-nil, small integer expressions such as the trip count of
// a loop over a literal array) are only followed on the consistent side. It
// enumerates paths depth-first with a bound on revisits; when the bound or
// the step budget is hit it falls back to a path-insensitive breadth-first
// search, which over-approximates the set of paths (never hides one).
func (q PathQuery) Find() []ssa.Instruction {
	var startB *ssa.BasicBlock
	startI := 0
	if q.From != nil {
		startB = q.From.Block()
		startI = instrIndex(q.From) + 1
	} else {
		startB = q.StartBlock
	}
	if startB == nil {
		return nil
	}
	// scan returns (goalInstr, cut)
	scan := func(n *pnode, from int, precise bool) (ssa.Instruction, bool) {
		b := n.b
		for k := from; k < len(b.Instrs); k++ {
			in := b.Instrs[k]
			if q.Cut != nil && q.Cut(in) {
				return nil, true
			}
			if q.Goal != nil && q.Goal(in) {
				return in, false
			}
			if q.GoalP != nil {
				pv := PathView{}
				if precise {
					pv = PathView{q: &q, n: n}
				}
				if q.GoalP(in, pv) {
					return in, false
				}
			}
		}
		return nil, false
	}
	build := func(n *pnode, goal ssa.Instruction) []ssa.Instruction {
		var rev []ssa.Instruction
		rev = append(rev, goal)
		for ; n != nil; n = n.prev {
			if len(n.b.Instrs) > 0 {
				rev = append(rev, n.b.Instrs[0])
			}
		}
		for i, j := 0, len(rev)-1; i < j; i, j = i+1, j-1 {
			rev[i], rev[j] = rev[j], rev[i]
		}
		return rev
	}
	start := &pnode{b: startB}
	if q.From == nil && q.StartPred != nil {
		start.prev = &pnode{b: q.StartPred}
	}
	if g, cut := scan(start, startI, true); g != nil {
		return build(start, g)
	} else if cut {
		return nil
	}
	// phase A: path-sensitive depth-first enumeration
	const maxVisits = 12
	steps, incomplete := 0, false
	visits := map[*ssa.BasicBlock]int{}
	var found []ssa.Instruction
	var dfs func(n *pnode) bool
	dfs = func(n *pnode) bool {
		steps++
		if steps > 40000 {
			incomplete = true
			return false
		}
		var ifi *ssa.If
		if len(n.b.Instrs) > 0 {
			ifi, _ = n.b.Instrs[len(n.b.Instrs)-1].(*ssa.If)
		}
		for si, s := range n.b.Succs {
			if q.Prune != nil && q.Prune(n.b, s) {
				continue
			}
			if q.PruneFact != nil {
				if f, ok := (PathView{q: &q, n: n}).EdgeFact(n.b, s); ok && q.PruneFact(f) {
					continue
				}
			}
			if ifi != nil && len(n.b.Succs) == 2 && n.b.Succs[0] != n.b.Succs[1] {
				if v, known := q.evalCond(ifi.Cond, n); known && v != (si == 0) {
					continue
				}
			}
			if visits[s] >= maxVisits {
				incomplete = true
				continue
			}
			// k-limiting: a third pass through a loop none of whose branch
			// conditions can be evaluated on this path repeats the second one —
			// the search state (assumptions, resolved phis) is the same — so it is
			// not explored and does not count as incompleteness. Loops with an
			// evaluable condition (trip counts over literals) keep the full bound.
			if visits[s] >= 2 && !q.cycleEvaluable(n, s) {
				continue
			}
			nn := &pnode{b: s, prev: n}
			g, cut := scan(nn, 0, true)
			if g != nil {
				found = build(nn, g)
				return true
			}
			if cut {
				continue
			}
			visits[s]++
			ok := dfs(nn)
			visits[s]--
			if ok {
				return true
			}
			if incomplete && steps > 40000 {
				return false
			}
		}
		return false
	}
	// a cheap pre-check: if even the path-insensitive search finds nothing, there is no path
	if q.bfs(start, scan, build) == nil {
		return nil
	}
	if dfs(start) {
		return found
	}
	if !incomplete {
		return nil
	}
	// phase B: path-insensitive fallback
	return q.bfs(start, scan, build)
}

// cycleEvaluable: walking back from n to the previous visit of s, some branch
// condition on the way was decided by evalCond.
func (q PathQuery) cycleEvaluable(n *pnode, s *ssa.BasicBlock) bool {
	for p := n; p != nil; p = p.prev {
		if len(p.b.Instrs) > 0 {
			if ifi, ok := p.b.Instrs[len(p.b.Instrs)-1].(*ssa.If); ok {
				if _, known := q.evalCond(ifi.Cond, p); known {
					return true
				}
			}
		}
		if p.b == s {
			return false
		}
	}
	return true
}

// bfs is the path-insensitive search (only Prune is honoured).
func (q PathQuery) bfs(start *pnode, scan func(*pnode, int, bool) (ssa.Instruction, bool), build func(*pnode, ssa.Instruction) []ssa.Instruction) []ssa.Instruction {
	type key struct{ b, pred *ssa.BasicBlock }
	seen := map[key]bool{}
	queue := []*pnode{start}
	for len(queue) > 0 {
		n := queue[0]
		queue = queue[1:]
		for _, s := range n.b.Succs {
			if q.Prune != nil && q.Prune(n.b, s) {
				continue
			}
			if q.PruneFact != nil {
				if f, ok := EdgeFact(n.b, s); ok && q.PruneFact(f) {
					continue
				}
			}
			k := key{s, n.b}
			if seen[k] {
				continue
			}
			seen[k] = true
			nn := &pnode{b: s, prev: n}
			g, cut := scan(nn, 0, false)
			if g != nil {
				return build(nn, g)
			}
			if cut {
				continue
			}
			queue = append(queue, nn)
		}
	}
	return nil
}

// IsReturn reports whether the instruction is a return.
func IsReturn(i ssa.Instruction) bool { _, ok := i.(*ssa.Return); return ok }

// IsPanic reports whether the instruction is a panic.
func IsPanic(i ssa.Instruction) bool { _, ok := i.(*ssa.Panic); return ok }

// IsCallTo returns a predicate matching calls to any of the named callees.
func IsCallTo(names ...string) func(ssa.Instruction) bool {
	set := map[string]bool{}
	for _, n := range names {
		set[n] = true
	}
	return func(i ssa.Instruction) bool {
		c, ok := i.(ssa.CallInstruction)
		return ok && set[Callee(c)]
	}
}

// Or combines instruction predicates.
func Or(ps ...func(ssa.Instruction) bool) func(ssa.Instruction) bool {
	return func(i ssa.Instruction) bool {
		for _, p := range ps {
			if p != nil && p(i) {
				return true
			}
		}
		return false
	}
}

// DescribePath renders a witness path.
func (p *Prog) DescribePath(path []ssa.Instruction) []string {
	var out []string
	for _, i := range path {
		out = append(out, fmt.Sprintf("%s  %s", p.InstrPos(i), truncate(i.String(), 90)))
	}
	return out
}

func truncate(s string, n int) string {
	if len(s) > n {
		return s[:n] + "…"
	}
	return s
}

// Reaches reports whether some path leads from instruction a to instruction b
// (a executed strictly before b).
func Reaches(a, b ssa.Instruction) bool {
	q := PathQuery{From: a, Goal: func(i ssa.Instruction) bool { return i == b }}
	return q.Find() != nil
}

// ReturnsNilError reports whether ret returns a constant nil in its last
// (error) result.
func ReturnsNilError(ret *ssa.Return) bool {
	if len(ret.Results) == 0 {
		return false
	}
	last := ret.Results[len(ret.Results)-1]
	return IsErrorType(last.Type()) && IsNilConst(last)
}
