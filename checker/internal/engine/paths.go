package engine

import (
	"fmt"
	"go/token"

	"golang.org/x/tools/go/ssa"
)

// PathQuery describes a must-pass-through question: starting after From (or
// at the head of block StartBlock when From is nil), is there a path that
// reaches an instruction satisfying Goal without first executing an
// instruction satisfying Cut? Edges for which Prune returns true are not
// followed.
type PathQuery struct {
	From       ssa.Instruction
	StartBlock *ssa.BasicBlock
	// StartPred is the block from which StartBlock is entered (resolves phis
	// in StartBlock); optional.
	StartPred *ssa.BasicBlock
	Cut       func(ssa.Instruction) bool
	Goal      func(ssa.Instruction) bool
	Prune     func(from, to *ssa.BasicBlock) bool
	// Assume gives known truth values of boolean SSA values. Branches whose
	// condition evaluates (through negation, constants, and phis resolved
	// along the path walked) to a known value are only followed on the
	// consistent side.
	Assume map[ssa.Value]bool
	// NonNil lists values assumed non-nil: comparisons of them (or of phis
	// that resolve to them along the path) with nil are evaluated.
	NonNil map[ssa.Value]bool
}

type pnode struct {
	b    *ssa.BasicBlock
	prev *pnode
}

// evalBool evaluates a boolean SSA value at the end of the path ending in n.
func (q PathQuery) evalBool(v ssa.Value, n *pnode, depth int) (val, known bool) {
	if depth > 8 || v == nil {
		return false, false
	}
	if b, ok := ConstBool(v); ok {
		return b, true
	}
	if a, ok := q.Assume[v]; ok {
		return a, true
	}
	switch x := v.(type) {
	case *ssa.UnOp:
		if x.Op == token.NOT {
			r, k := q.evalBool(x.X, n, depth+1)
			return !r, k
		}
	case *ssa.BinOp:
		if x.Op == token.EQL || x.Op == token.NEQ {
			if cb, ok := ConstBool(x.Y); ok {
				r, k := q.evalBool(x.X, n, depth+1)
				return (r == cb) == (x.Op == token.EQL), k
			}
			if cb, ok := ConstBool(x.X); ok {
				r, k := q.evalBool(x.Y, n, depth+1)
				return (r == cb) == (x.Op == token.EQL), k
			}
			if IsNilConst(x.Y) && len(q.NonNil) > 0 {
				if rv := q.resolvePhi(x.X, n, 0); rv != nil {
					if IsNilConst(rv) {
						return x.Op == token.EQL, true
					}
					if q.NonNil[rv] {
						return x.Op == token.NEQ, true
					}
				}
			}
		}
	case *ssa.Phi:
		// find where the path entered the phi's block
		for m := n; m != nil; m = m.prev {
			if m.b != x.Block() {
				continue
			}
			if m.prev == nil {
				return false, false
			}
			for i, p := range x.Block().Preds {
				if p == m.prev.b && i < len(x.Edges) {
					return q.evalBool(x.Edges[i], m.prev, depth+1)
				}
			}
			return false, false
		}
	}
	return false, false
}

// resolvePhi follows phis along the path to the operand actually selected.
func (q PathQuery) resolvePhi(v ssa.Value, n *pnode, depth int) ssa.Value {
	if depth > 8 {
		return nil
	}
	x, ok := v.(*ssa.Phi)
	if !ok {
		return v
	}
	for m := n; m != nil; m = m.prev {
		if m.b != x.Block() {
			continue
		}
		if m.prev == nil {
			return nil
		}
		for i, p := range x.Block().Preds {
			if p == m.prev.b && i < len(x.Edges) {
				return q.resolvePhi(x.Edges[i], m.prev, depth+1)
			}
		}
		return nil
	}
	return nil
}

// Find returns a witness path (sequence of instructions of interest: the
// first instruction of every block traversed and the goal) or nil when every
// path from the start is cut before reaching a goal.
func (q PathQuery) Find() []ssa.Instruction {
	var startB *ssa.BasicBlock
	startI := 0
	if q.From != nil {
		startB = q.From.Block()
		startI = instrIndex(q.From) + 1
	} else {
		startB = q.StartBlock
	}
	if startB == nil {
		return nil
	}
	// scan returns (goalInstr, cut)
	scan := func(b *ssa.BasicBlock, from int) (ssa.Instruction, bool) {
		for k := from; k < len(b.Instrs); k++ {
			in := b.Instrs[k]
			if q.Cut != nil && q.Cut(in) {
				return nil, true
			}
			if q.Goal != nil && q.Goal(in) {
				return in, false
			}
		}
		return nil, false
	}
	build := func(n *pnode, goal ssa.Instruction) []ssa.Instruction {
		var rev []ssa.Instruction
		rev = append(rev, goal)
		for ; n != nil; n = n.prev {
			if len(n.b.Instrs) > 0 {
				rev = append(rev, n.b.Instrs[0])
			}
		}
		for i, j := 0, len(rev)-1; i < j; i, j = i+1, j-1 {
			rev[i], rev[j] = rev[j], rev[i]
		}
		return rev
	}
	start := &pnode{b: startB}
	if q.From == nil && q.StartPred != nil {
		start.prev = &pnode{b: q.StartPred}
	}
	if g, cut := scan(startB, startI); g != nil {
		return build(start, g)
	} else if cut {
		return nil
	}
	type key struct{ b, pred *ssa.BasicBlock }
	seen := map[key]bool{}
	queue := []*pnode{start}
	steps := 0
	for len(queue) > 0 && steps < 20000 {
		n := queue[0]
		queue = queue[1:]
		steps++
		var ifi *ssa.If
		if len(n.b.Instrs) > 0 {
			ifi, _ = n.b.Instrs[len(n.b.Instrs)-1].(*ssa.If)
		}
		for si, s := range n.b.Succs {
			if q.Prune != nil && q.Prune(n.b, s) {
				continue
			}
			if ifi != nil && (len(q.Assume) > 0 || len(q.NonNil) > 0) && len(n.b.Succs) == 2 && n.b.Succs[0] != n.b.Succs[1] {
				if v, known := q.evalBool(ifi.Cond, n, 0); known && v != (si == 0) {
					continue
				}
			}
			k := key{s, n.b}
			if seen[k] {
				continue
			}
			seen[k] = true
			nn := &pnode{b: s, prev: n}
			g, cut := scan(s, 0)
			if g != nil {
				return build(nn, g)
			}
			if cut {
				continue
			}
			queue = append(queue, nn)
		}
	}
	return nil
}

// IsReturn reports whether the instruction is a return.
func IsReturn(i ssa.Instruction) bool { _, ok := i.(*ssa.Return); return ok }

// IsPanic reports whether the instruction is a panic.
func IsPanic(i ssa.Instruction) bool { _, ok := i.(*ssa.Panic); return ok }

// IsCallTo returns a predicate matching calls to any of the named callees.
func IsCallTo(names ...string) func(ssa.Instruction) bool {
	set := map[string]bool{}
	for _, n := range names {
		set[n] = true
	}
	return func(i ssa.Instruction) bool {
		c, ok := i.(ssa.CallInstruction)
		return ok && set[Callee(c)]
	}
}

// Or combines instruction predicates.
func Or(ps ...func(ssa.Instruction) bool) func(ssa.Instruction) bool {
	return func(i ssa.Instruction) bool {
		for _, p := range ps {
			if p != nil && p(i) {
				return true
			}
		}
		return false
	}
}

// DescribePath renders a witness path.
func (p *Prog) DescribePath(path []ssa.Instruction) []string {
	var out []string
	for _, i := range path {
		out = append(out, fmt.Sprintf("%s  %s", p.InstrPos(i), truncate(i.String(), 90)))
	}
	return out
}

func truncate(s string, n int) string {
	if len(s) > n {
		return s[:n] + "…"
	}
	return s
}

// Reaches reports whether some path leads from instruction a to instruction b
// (a executed strictly before b).
func Reaches(a, b ssa.Instruction) bool {
	q := PathQuery{From: a, Goal: func(i ssa.Instruction) bool { return i == b }}
	return q.Find() != nil
}

// ReturnsNilError reports whether ret returns a constant nil in its last
// (error) result.
func ReturnsNilError(ret *ssa.Return) bool {
	if len(ret.Results) == 0 {
		return false
	}
	last := ret.Results[len(ret.Results)-1]
	return IsErrorType(last.Type()) && IsNilConst(last)
}
