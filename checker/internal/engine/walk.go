package engine

import (
	"go/token"

	"golang.org/x/tools/go/ssa"
)

// Walk enumerates the control-flow paths of a function that are consistent
// with an abstract valuation of branch conditions (a finite truth-table
// walk; nothing is executed).
type Walk struct {
	// Atom gives the truth value of a boolean SSA value that is not a
	// negation, constant, or phi (those are handled by the walker). It
	// returns known=false to follow both branches.
	Atom func(v ssa.Value) (val, known bool)
	// AtomP is like Atom but also receives a resolver for phis along the
	// path walked so far (nil result when the phi's block is not on the path).
	AtomP func(v ssa.Value, phi func(*ssa.Phi) ssa.Value) (val, known bool)
	// Stop ends a path at the first instruction it accepts (the trace's End).
	Stop func(ssa.Instruction) bool
	// MaxVisits bounds how often one block may appear on a path (default 2).
	MaxVisits int
	// MaxTraces bounds the number of traces returned (default 4096).
	MaxTraces int
}

// Trace is one path: the instructions executed in order, and how it ended.
type Trace struct {
	Instrs []ssa.Instruction
	Blocks []*ssa.BasicBlock
	End    ssa.Instruction // Return or Panic; nil if the path was cut by the visit bound
}

func (w Walk) eval(v ssa.Value, stack []*ssa.BasicBlock, depth int) (bool, bool) {
	if depth > 10 || v == nil {
		return false, false
	}
	if b, ok := ConstBool(v); ok {
		return b, true
	}
	switch x := v.(type) {
	case *ssa.UnOp:
		if x.Op == token.NOT {
			r, k := w.eval(x.X, stack, depth+1)
			return !r, k
		}
	case *ssa.Phi:
		for i := len(stack) - 1; i >= 1; i-- {
			if stack[i] != x.Block() {
				continue
			}
			for j, p := range x.Block().Preds {
				if p == stack[i-1] && j < len(x.Edges) {
					return w.eval(x.Edges[j], stack[:i], depth+1)
				}
			}
			return false, false
		}
		return false, false
	case *ssa.BinOp:
		if x.Op == token.EQL || x.Op == token.NEQ {
			if cb, ok := ConstBool(x.Y); ok {
				r, k := w.eval(x.X, stack, depth+1)
				return (r == cb) == (x.Op == token.EQL), k
			}
		}
	}
	if w.AtomP != nil {
		return w.AtomP(v, PhiResolver(stack))
	}
	if w.Atom != nil {
		return w.Atom(v)
	}
	return false, false
}

// PhiResolver returns a function resolving a phi to the operand selected by
// the given block path (last entry of the phi's block wins).
func PhiResolver(stack []*ssa.BasicBlock) func(*ssa.Phi) ssa.Value {
	return func(x *ssa.Phi) ssa.Value {
		for i := len(stack) - 1; i >= 1; i-- {
			if stack[i] != x.Block() {
				continue
			}
			for j, p := range x.Block().Preds {
				if p == stack[i-1] && j < len(x.Edges) {
					return x.Edges[j]
				}
			}
			return nil
		}
		return nil
	}
}

// Traces enumerates paths from the entry of fn.
func (w Walk) Traces(fn *ssa.Function) []Trace {
	if len(fn.Blocks) == 0 {
		return nil
	}
	maxV := w.MaxVisits
	if maxV == 0 {
		maxV = 2
	}
	maxT := w.MaxTraces
	if maxT == 0 {
		maxT = 4096
	}
	var out []Trace
	var stack []*ssa.BasicBlock
	var instrs []ssa.Instruction
	visits := map[*ssa.BasicBlock]int{}
	var dfs func(b *ssa.BasicBlock)
	dfs = func(b *ssa.BasicBlock) {
		if len(out) >= maxT {
			return
		}
		if visits[b] >= maxV {
			out = append(out, Trace{Instrs: append([]ssa.Instruction(nil), instrs...)})
			return
		}
		visits[b]++
		stack = append(stack, b)
		n0 := len(instrs)
		instrs = append(instrs, b.Instrs...)
		defer func() {
			visits[b]--
			stack = stack[:len(stack)-1]
			instrs = instrs[:n0]
		}()
		if w.Stop != nil {
			for i, in := range b.Instrs {
				if w.Stop(in) {
					out = append(out, Trace{Instrs: append([]ssa.Instruction(nil), instrs[:n0+i+1]...), Blocks: append([]*ssa.BasicBlock(nil), stack...), End: in})
					return
				}
			}
		}
		if len(b.Instrs) == 0 {
			return
		}
		last := b.Instrs[len(b.Instrs)-1]
		switch t := last.(type) {
		case *ssa.Return, *ssa.Panic:
			out = append(out, Trace{Instrs: append([]ssa.Instruction(nil), instrs...), Blocks: append([]*ssa.BasicBlock(nil), stack...), End: last})
			return
		case *ssa.If:
			if len(b.Succs) == 2 {
				if v, known := w.eval(t.Cond, stack, 0); known {
					if v {
						dfs(b.Succs[0])
					} else {
						dfs(b.Succs[1])
					}
					return
				}
			}
		}
		for _, s := range b.Succs {
			dfs(s)
		}
	}
	dfs(fn.Blocks[0])
	return out
}

// Resolve follows phis along the trace to the operand the path selected
// (the last time the phi's block was entered); other values are returned as
// they are.
func (t Trace) Resolve(v ssa.Value) ssa.Value {
	for depth := 0; depth < 12; depth++ {
		phi, ok := v.(*ssa.Phi)
		if !ok {
			return v
		}
		found := false
		for j := len(t.Blocks) - 1; j >= 1; j-- {
			if t.Blocks[j] != phi.Block() {
				continue
			}
			for i, p := range phi.Block().Preds {
				if p == t.Blocks[j-1] && i < len(phi.Edges) {
					v = phi.Edges[i]
					found = true
					break
				}
			}
			break
		}
		if !found {
			return v
		}
	}
	return v
}
