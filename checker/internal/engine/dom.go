package engine

import (
	"golang.org/x/tools/go/ssa"
)

// Own dominator trees (Cooper-Harvey-Kennedy), computed per function on
// demand. go/ssa's Idom/Dominates cannot be used because the inliner
// (inline.go) rewrites control-flow graphs after go/ssa built them.

type domInfo struct {
	idom      map[*ssa.BasicBlock]*ssa.BasicBlock
	pre, post map[*ssa.BasicBlock]int
}

var domCache = map[*ssa.Function]*domInfo{}

func invalidateDom(fn *ssa.Function) { delete(domCache, fn) }

func domOf(fn *ssa.Function) *domInfo {
	if d, ok := domCache[fn]; ok {
		return d
	}
	d := &domInfo{idom: map[*ssa.BasicBlock]*ssa.BasicBlock{}, pre: map[*ssa.BasicBlock]int{}, post: map[*ssa.BasicBlock]int{}}
	domCache[fn] = d
	if len(fn.Blocks) == 0 {
		return d
	}
	entry := fn.Blocks[0]
	// reverse postorder
	var order []*ssa.BasicBlock
	seen := map[*ssa.BasicBlock]bool{}
	var dfs func(b *ssa.BasicBlock)
	dfs = func(b *ssa.BasicBlock) {
		seen[b] = true
		for _, s := range b.Succs {
			if !seen[s] {
				dfs(s)
			}
		}
		order = append(order, b)
	}
	dfs(entry)
	rpoNum := map[*ssa.BasicBlock]int{}
	n := len(order)
	rpo := make([]*ssa.BasicBlock, n)
	for i, b := range order {
		rpo[n-1-i] = b
	}
	for i, b := range rpo {
		rpoNum[b] = i
	}
	idom := d.idom
	idom[entry] = entry
	intersect := func(a, b *ssa.BasicBlock) *ssa.BasicBlock {
		for a != b {
			for rpoNum[a] > rpoNum[b] {
				a = idom[a]
			}
			for rpoNum[b] > rpoNum[a] {
				b = idom[b]
			}
		}
		return a
	}
	changed := true
	for changed {
		changed = false
		for _, b := range rpo[1:] {
			var ni *ssa.BasicBlock
			for _, p := range b.Preds {
				if _, ok := idom[p]; !ok {
					continue
				}
				if ni == nil {
					ni = p
				} else {
					ni = intersect(p, ni)
				}
			}
			if ni != nil && idom[b] != ni {
				idom[b] = ni
				changed = true
			}
		}
	}
	idom[entry] = nil
	// pre/post numbering of the dominator tree
	children := map[*ssa.BasicBlock][]*ssa.BasicBlock{}
	for _, b := range rpo[1:] {
		if p := idom[b]; p != nil {
			children[p] = append(children[p], b)
		}
	}
	t := 0
	var walk func(b *ssa.BasicBlock)
	walk = func(b *ssa.BasicBlock) {
		t++
		d.pre[b] = t
		for _, c := range children[b] {
			walk(c)
		}
		t++
		d.post[b] = t
	}
	walk(entry)
	return d
}

// Idom returns the immediate dominator of b (nil for the entry block and for
// unreachable blocks).
func Idom(b *ssa.BasicBlock) *ssa.BasicBlock {
	if b == nil || b.Parent() == nil {
		return nil
	}
	return domOf(b.Parent()).idom[b]
}

// Dominates reports whether a dominates b (reflexive).
func Dominates(a, b *ssa.BasicBlock) bool {
	if a == nil || b == nil {
		return false
	}
	if a == b {
		return true
	}
	if a.Parent() == nil || a.Parent() != b.Parent() {
		return false
	}
	d := domOf(a.Parent())
	pa, ok1 := d.pre[a]
	pb, ok2 := d.pre[b]
	if !ok1 || !ok2 {
		return false
	}
	return pa <= pb && d.post[b] <= d.post[a]
}
