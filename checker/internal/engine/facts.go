package engine

import (
	"go/token"
	"strings"

	"golang.org/x/tools/go/ssa"
)

// Fact is "Cond has value Pol" established by taking the edge From->To of a
// conditional branch.
type Fact struct {
	Cond     ssa.Value
	Pol      bool
	If       *ssa.If
	From, To *ssa.BasicBlock
}

// EdgeFact returns the fact carried by edge from->to, if from ends in a
// two-way branch with distinct successors.
func EdgeFact(from, to *ssa.BasicBlock) (Fact, bool) {
	if len(from.Instrs) == 0 {
		return Fact{}, false
	}
	ifi, ok := from.Instrs[len(from.Instrs)-1].(*ssa.If)
	if !ok || len(from.Succs) != 2 || from.Succs[0] == from.Succs[1] {
		return Fact{}, false
	}
	switch to {
	case from.Succs[0]:
		return Fact{Cond: ifi.Cond, Pol: true, If: ifi, From: from, To: to}, true
	case from.Succs[1]:
		return Fact{Cond: ifi.Cond, Pol: false, If: ifi, From: from, To: to}, true
	}
	return Fact{}, false
}

// enteringPreds are the predecessors of b that are not dominated by b (i.e.
// not back edges).
func enteringPreds(b *ssa.BasicBlock) []*ssa.BasicBlock {
	var out []*ssa.BasicBlock
	for _, p := range b.Preds {
		if !Dominates(b, p) {
			out = append(out, p)
		}
	}
	return out
}

// FactsAt returns every edge fact that dominates block b: facts of edges
// P->D where D dominates b and P is D's only entering predecessor. These are
// the conditions known to hold whenever control is in b. Facts that follow
// from those through phis (typically the results of an inlined helper) are
// derived and appended, see deriveFacts.
func FactsAt(b *ssa.BasicBlock) []Fact { return factsAtDepth(b, 0) }

func factsAtDepth(b *ssa.BasicBlock, depth int) []Fact {
	var out []Fact
	for d := b; d != nil; d = Idom(d) {
		ps := enteringPreds(d)
		if len(ps) != 1 {
			continue
		}
		if f, ok := EdgeFact(ps[0], d); ok {
			out = append(out, f)
		}
	}
	if depth < 3 {
		out = append(out, deriveFacts(out, depth)...)
	}
	return out
}

func factsAtEdgeDepth(from, to *ssa.BasicBlock, depth int) []Fact {
	out := factsAtDepth(from, depth)
	if f, ok := EdgeFact(from, to); ok {
		out = append(out, f)
		if depth < 3 {
			out = append(out, deriveFacts([]Fact{f}, depth)...)
		}
	}
	return out
}

// deriveFacts: what a fact about a phi says about the phi's operands.
//
//   - boolean phi == pol: operands that are the opposite constant cannot have
//     been taken; if exactly one operand remains, control came over that edge:
//     the operand has value pol and every fact of that edge holds as well.
//   - phi != nil: the same with nil constants excluded.
//   - phi == nil: an operand t is nil if on every edge the phi either IS t or
//     the edge's own facts say t == nil.
func deriveFacts(fs []Fact, depth int) []Fact {
	var out []Fact
	for _, f := range fs {
		rel := f.Rel()
		switch {
		case rel.Op == token.ILLEGAL:
			phi, ok := rel.B.(*ssa.Phi)
			if !ok {
				continue
			}
			cand := -1
			n := 0
			for i, e := range phi.Edges {
				if cb, isC := ConstBool(e); isC && cb != rel.Pol {
					continue
				}
				n++
				cand = i
			}
			if n == 1 {
				e := phi.Edges[cand]
				if _, isC := e.(*ssa.Const); !isC {
					nf := Fact{Cond: e, Pol: rel.Pol, If: f.If, From: f.From, To: f.To}
					out = append(out, nf)
					out = append(out, deriveFacts([]Fact{nf}, depth+1)...)
				}
				if cand < len(phi.Block().Preds) {
					out = append(out, factsAtEdgeDepth(phi.Block().Preds[cand], phi.Block(), depth+1)...)
				}
			}
		case (rel.Op == token.NEQ || rel.Op == token.EQL) && IsNilConst(rel.Y):
			phi, ok := rel.X.(*ssa.Phi)
			if !ok {
				continue
			}
			if rel.Op == token.NEQ {
				cand, n := -1, 0
				for i, e := range phi.Edges {
					if IsNilConst(e) {
						continue
					}
					n++
					cand = i
				}
				if n == 1 && cand < len(phi.Block().Preds) {
					out = append(out, synthNil(phi.Edges[cand], false, f))
					out = append(out, factsAtEdgeDepth(phi.Block().Preds[cand], phi.Block(), depth+1)...)
				}
				continue
			}
			// phi == nil
			seen := map[ssa.Value]bool{}
			for _, t := range phi.Edges {
				if _, isC := t.(*ssa.Const); isC || seen[t] {
					continue
				}
				seen[t] = true
				ok := true
				for j, e := range phi.Edges {
					if e == t {
						continue
					}
					if j >= len(phi.Block().Preds) {
						ok = false
						break
					}
					if !HasFact(factsAtEdgeDepth(phi.Block().Preds[j], phi.Block(), depth+1), func(x Fact) bool { return x.SaysNil(t) }) {
						ok = false
						break
					}
				}
				if ok {
					out = append(out, synthNil(t, true, f))
				}
			}
			// if only one edge can be nil, control came over it
			cand, n := -1, 0
			for i, e := range phi.Edges {
				if i < len(phi.Block().Preds) && nonNilAtEdge(e, phi.Block().Preds[i], phi.Block(), depth+1) {
					continue
				}
				n++
				cand = i
			}
			if n == 1 && cand < len(phi.Block().Preds) {
				out = append(out, factsAtEdgeDepth(phi.Block().Preds[cand], phi.Block(), depth+1)...)
			}
		}
	}
	return out
}

// DeriveFacts exposes the phi derivation for a given set of facts.
func DeriveFacts(fs []Fact) []Fact { return deriveFacts(fs, 0) }

// nonNilAtEdge: v cannot be nil when the edge is taken: a sentinel, a fresh
// error, a wrap of a value known non-nil there, or a value the edge's facts
// say is non-nil.
func nonNilAtEdge(v ssa.Value, from, to *ssa.BasicBlock, depth int) bool {
	if knownNonNilValue(v) {
		return true
	}
	if depth > 3 {
		return false
	}
	fs := factsAtEdgeDepth(from, to, depth)
	if HasFact(fs, func(x Fact) bool { return x.SaysNotNil(v) }) {
		return true
	}
	if call, ok := v.(*ssa.Call); ok {
		n := Callee(call)
		switch {
		case strings.HasSuffix(n, "errors.New") || strings.HasSuffix(n, "errors.Errorf") || n == "fmt.Errorf":
			return true
		case strings.Contains(n, "errors.Wrap") || strings.Contains(n, "errors.WithMessage") || strings.Contains(n, "errors.WithStack"):
			if len(call.Call.Args) > 0 {
				inner := call.Call.Args[0]
				return knownNonNilValue(inner) || HasFact(fs, func(x Fact) bool { return x.SaysNotNil(inner) })
			}
		}
	}
	return false
}

// knownNonNilValue: a freshly constructed error / sentinel load.
func knownNonNilValue(v ssa.Value) bool {
	if u, ok := v.(*ssa.UnOp); ok {
		if _, isG := u.X.(*ssa.Global); isG {
			return true
		}
	}
	return false
}

// synthNil builds a carrier fact "v == nil" (isNil) or "v != nil".
func synthNil(v ssa.Value, isNil bool, from Fact) Fact {
	op := token.EQL
	if !isNil {
		op = token.NEQ
	}
	return Fact{Cond: &ssa.BinOp{Op: op, X: v, Y: ssa.NewConst(nil, v.Type())}, Pol: true, If: from.If, From: from.From, To: from.To}
}

// FactsAtInstr is FactsAt for the block of an instruction.
func FactsAtInstr(i ssa.Instruction) []Fact { return FactsAt(i.Block()) }

// FactsAtEdge returns the facts that hold when edge from->to is taken: the
// facts dominating from plus the edge's own fact (and what derives from them).
func FactsAtEdge(from, to *ssa.BasicBlock) []Fact { return factsAtEdgeDepth(from, to, 0) }

// InstrDominates reports whether instruction a is executed before b on every
// path that reaches b.
func InstrDominates(a, b ssa.Instruction) bool {
	ba, bb := a.Block(), b.Block()
	if ba == bb {
		return instrIndex(a) < instrIndex(b)
	}
	return Dominates(ba, bb)
}

func instrIndex(i ssa.Instruction) int {
	for k, j := range i.Block().Instrs {
		if j == i {
			return k
		}
	}
	return -1
}

// InstrIndex exposes the index of an instruction in its block.
func InstrIndex(i ssa.Instruction) int { return instrIndex(i) }

// Rel is a normalised relation known to hold: X Op Y for comparisons, or a
// bare boolean B having value Pol when Op == token.ILLEGAL.
type Rel struct {
	Op   token.Token
	X, Y ssa.Value
	B    ssa.Value
	Pol  bool
}

func negOp(op token.Token) token.Token {
	switch op {
	case token.EQL:
		return token.NEQ
	case token.NEQ:
		return token.EQL
	case token.LSS:
		return token.GEQ
	case token.GEQ:
		return token.LSS
	case token.GTR:
		return token.LEQ
	case token.LEQ:
		return token.GTR
	}
	return token.ILLEGAL
}

func swapOp(op token.Token) token.Token {
	switch op {
	case token.LSS:
		return token.GTR
	case token.GTR:
		return token.LSS
	case token.LEQ:
		return token.GEQ
	case token.GEQ:
		return token.LEQ
	}
	return op
}

// Normalize strips negations from (cond == pol) and returns the relation that
// holds. Comparisons with a constant are oriented constant-right.
func Normalize(cond ssa.Value, pol bool) Rel {
	for {
		u, ok := cond.(*ssa.UnOp)
		if !ok || u.Op != token.NOT {
			break
		}
		cond, pol = u.X, !pol
	}
	if b, ok := cond.(*ssa.BinOp); ok {
		switch b.Op {
		case token.EQL, token.NEQ, token.LSS, token.LEQ, token.GTR, token.GEQ:
			op := b.Op
			if !pol {
				op = negOp(op)
			}
			x, y := b.X, b.Y
			if _, isC := x.(*ssa.Const); isC {
				if _, yC := y.(*ssa.Const); !yC {
					x, y = y, x
					op = swapOp(op)
				}
			}
			// a comparison of a boolean with a boolean constant is a bare boolean
			if bv, ok := ConstBool(y); ok && (op == token.EQL || op == token.NEQ) {
				return Normalize(x, bv == (op == token.EQL))
			}
			return Rel{Op: op, X: x, Y: y}
		}
	}
	// errors.Is(err, Sentinel) is read as err == Sentinel (identity is what the
	// repository's own comparisons mean; Is additionally unwraps)
	if call, ok := cond.(*ssa.Call); ok {
		switch Callee(call) {
		case "errors.Is", "github.com/friendsofgo/errors.Is":
			if len(call.Call.Args) == 2 {
				op := token.EQL
				if !pol {
					op = token.NEQ
				}
				return Rel{Op: op, X: call.Call.Args[0], Y: call.Call.Args[1]}
			}
		}
	}
	return Rel{Op: token.ILLEGAL, B: cond, Pol: pol}
}

// Rel returns the normalised relation of a fact.
func (f Fact) Rel() Rel { return Normalize(f.Cond, f.Pol) }

// SaysNil reports whether the fact establishes v == nil.
func (f Fact) SaysNil(v ssa.Value) bool {
	r := f.Rel()
	return r.Op == token.EQL && r.X == v && IsNilConst(r.Y)
}

// SaysNotNil reports whether the fact establishes v != nil.
func (f Fact) SaysNotNil(v ssa.Value) bool {
	r := f.Rel()
	return r.Op == token.NEQ && r.X == v && IsNilConst(r.Y)
}

// SaysBool reports whether the fact establishes that boolean v has value want.
func (f Fact) SaysBool(v ssa.Value, want bool) bool {
	r := f.Rel()
	return r.Op == token.ILLEGAL && r.B == v && r.Pol == want
}

// SaysEqInt reports whether the fact establishes v == n.
func (f Fact) SaysEqInt(v ssa.Value, n int64) bool {
	r := f.Rel()
	if r.Op != token.EQL || r.X != v {
		return false
	}
	c, ok := ConstInt(r.Y)
	return ok && c == n
}

// HasFact reports whether any fact in fs satisfies pred.
func HasFact(fs []Fact, pred func(Fact) bool) bool {
	for _, f := range fs {
		if pred(f) {
			return true
		}
	}
	return false
}

// ErrNilAt reports whether, at instruction at, the error value err is known
// to be nil.
func ErrNilAt(at ssa.Instruction, err ssa.Value) bool {
	return HasFact(FactsAtInstr(at), func(f Fact) bool { return f.SaysNil(err) })
}

// BoolAt reports whether, at instruction at, boolean v is known to equal want.
func BoolAt(at ssa.Instruction, v ssa.Value, want bool) bool {
	return HasFact(FactsAtInstr(at), func(f Fact) bool { return f.SaysBool(v, want) })
}

// StrLenValue returns x when v is len(x), else nil.
func StrLenValue(v ssa.Value) ssa.Value {
	c, ok := v.(*ssa.Call)
	if !ok {
		return nil
	}
	b, ok := c.Call.Value.(*ssa.Builtin)
	if !ok || b.Name() != "len" || len(c.Call.Args) != 1 {
		return nil
	}
	return c.Call.Args[0]
}

// SaysNonEmpty reports whether the fact establishes len(v) != 0 (or > 0).
func (f Fact) SaysNonEmpty(v ssa.Value) bool {
	r := f.Rel()
	x := StrLenValue(r.X)
	if x == nil || x != v {
		if r.Op == token.NEQ && r.X == v {
			if s, ok := ConstStr(r.Y); ok && s == "" {
				return true
			}
		}
		return false
	}
	n, ok := ConstInt(r.Y)
	if !ok {
		return false
	}
	return (r.Op == token.NEQ && n == 0) || (r.Op == token.GTR && n == 0) || (r.Op == token.GEQ && n == 1)
}

// NonEmptySubject returns the value the fact establishes to be non-empty
// (len(v) != 0, len(v) > 0, v != ""), or nil.
func (f Fact) NonEmptySubject() ssa.Value {
	r := f.Rel()
	if x := StrLenValue(r.X); x != nil {
		if n, ok := ConstInt(r.Y); ok && ((r.Op == token.NEQ && n == 0) || (r.Op == token.GTR && n == 0) || (r.Op == token.GEQ && n == 1)) {
			return x
		}
		return nil
	}
	if r.Op == token.NEQ && r.X != nil {
		if s, ok := ConstStr(r.Y); ok && s == "" {
			return r.X
		}
	}
	return nil
}

// SaysEmpty reports whether the fact establishes len(v) == 0.
func (f Fact) SaysEmpty(v ssa.Value) bool {
	r := f.Rel()
	x := StrLenValue(r.X)
	if x == nil || x != v {
		if r.Op == token.EQL && r.X == v {
			if s, ok := ConstStr(r.Y); ok && s == "" {
				return true
			}
		}
		return false
	}
	n, ok := ConstInt(r.Y)
	if !ok {
		return false
	}
	return (r.Op == token.EQL && n == 0) || (r.Op == token.LEQ && n == 0) || (r.Op == token.LSS && n == 1)
}

// UniqueEdgeInto: when the facts holding at instruction at determine over
// which predecessor edge control entered block b (a phi in b is known to have
// a value only one of its operands can have), the index of that predecessor.
func UniqueEdgeInto(b *ssa.BasicBlock, at ssa.Instruction) (int, bool) {
	for _, f := range FactsAtInstr(at) {
		rel := f.Rel()
		var phi *ssa.Phi
		cands := []int{}
		switch {
		case rel.Op == token.ILLEGAL:
			p, ok := rel.B.(*ssa.Phi)
			if !ok || p.Block() != b {
				continue
			}
			phi = p
			for i, e := range phi.Edges {
				if cb, isC := ConstBool(e); isC && cb != rel.Pol {
					continue
				}
				cands = append(cands, i)
			}
		case (rel.Op == token.EQL || rel.Op == token.NEQ) && IsNilConst(rel.Y):
			p, ok := rel.X.(*ssa.Phi)
			if !ok || p.Block() != b {
				continue
			}
			phi = p
			for i, e := range phi.Edges {
				if rel.Op == token.NEQ && IsNilConst(e) {
					continue
				}
				if rel.Op == token.EQL && i < len(b.Preds) && nonNilAtEdge(e, b.Preds[i], b, 1) {
					continue
				}
				cands = append(cands, i)
			}
		default:
			continue
		}
		if phi != nil && len(cands) == 1 {
			return cands[0], true
		}
	}
	return -1, false
}

// Resolve replaces a phi by the operand it must have at instruction at, when
// the facts at that instruction determine the edge (see UniqueEdgeInto).
func Resolve(at ssa.Instruction, v ssa.Value) ssa.Value {
	for d := 0; d < 4; d++ {
		phi, ok := v.(*ssa.Phi)
		if !ok {
			return v
		}
		i, ok := UniqueEdgeInto(phi.Block(), at)
		if !ok || i >= len(phi.Edges) {
			return v
		}
		v = phi.Edges[i]
	}
	return v
}

// HoldsAt reports whether pred is established whenever control is at
// instruction at: by a dominating fact, or — disjunctively — by a dominating
// test of a boolean phi each of whose operands that can produce the tested
// value either is a condition satisfying pred or arrives over an edge on which
// pred is established. (The shape an inlined predicate helper leaves behind:
// `return true` on one path, `return x == y` on another.)
func HoldsAt(at ssa.Instruction, pred func(Fact) bool) bool {
	return holdsIn(FactsAtInstr(at), pred, 0, map[*ssa.Phi]bool{})
}

// HoldsGiven is HoldsAt over an explicit set of facts (e.g. the facts at a
// return extended by "the returned value is true").
func HoldsGiven(fs []Fact, pred func(Fact) bool) bool {
	return holdsIn(fs, pred, 0, map[*ssa.Phi]bool{})
}

func holdsIn(fs []Fact, pred func(Fact) bool, depth int, busy map[*ssa.Phi]bool) bool {
	if HasFact(fs, pred) {
		return true
	}
	if depth > 6 {
		return false
	}
	// a nil test of a phi of errors (what an inlined `return nil, err` helper
	// leaves): only the operands that can have the tested nil-ness count
	for _, f := range fs {
		rel := f.Rel()
		if (rel.Op != token.EQL && rel.Op != token.NEQ) || !IsNilConst(rel.Y) {
			continue
		}
		phi, ok := rel.X.(*ssa.Phi)
		if !ok || busy[phi] {
			continue
		}
		wantNil := rel.Op == token.EQL
		busy[phi] = true
		all := true
		n := 0
		for i, e := range phi.Edges {
			if IsNilConst(e) != wantNil && (IsNilConst(e) || (PathQuery{}).nonNilValue(e, 0)) {
				continue // this operand cannot have the tested nil-ness
			}
			if _, isMI := e.(*ssa.MakeInterface); isMI && wantNil {
				continue // an interface made from a value is not the nil interface
			}
			// … nor can it when the edge it arrives over has tested it the other way
			ef := FactsAtEdge(phi.Block().Preds[i], phi.Block())
			if HasFact(ef, func(x Fact) bool {
				if wantNil {
					return x.SaysNotNil(e)
				}
				return x.SaysNil(e)
			}) {
				continue
			}
			n++
			if !holdsIn(FactsAtEdge(phi.Block().Preds[i], phi.Block()), pred, depth+1, busy) {
				all = false
				break
			}
		}
		delete(busy, phi)
		if all && n > 0 {
			return true
		}
	}
	for _, f := range fs {
		rel := f.Rel()
		if rel.B == nil {
			continue
		}
		phi, ok := rel.B.(*ssa.Phi)
		if !ok {
			continue
		}
		if busy[phi] {
			// a flag carried around a loop: it has the tested value here only if it
			// got it on an earlier pass, which is being established
			return true
		}
		busy[phi] = true
		all := true
		n := 0
		for i, e := range phi.Edges {
			if cb, isC := ConstBool(e); isC && cb != rel.Pol {
				continue // this operand cannot produce the tested value
			}
			n++
			edgeFacts := FactsAtEdge(phi.Block().Preds[i], phi.Block())
			if _, isC := ConstBool(e); !isC {
				edgeFacts = append(append([]Fact{}, edgeFacts...), Fact{Cond: e, Pol: rel.Pol})
			}
			if !holdsIn(edgeFacts, pred, depth+1, busy) {
				all = false
				break
			}
		}
		delete(busy, phi)
		if all && n > 0 {
			return true
		}
	}
	return false
}

// HoldsEntering reports whether pred is established on every edge into block
// b: by the facts of the edge, or — when the edge comes from a join whose own
// facts are only what its predecessors share — on every edge into that join.
// (The shape of a shared `return` reached from several guarded branches.)
func HoldsEntering(b *ssa.BasicBlock, pred func(Fact) bool, depth int) bool {
	if depth > 6 || len(b.Preds) == 0 {
		return false
	}
	for _, p := range b.Preds {
		if HasFact(FactsAtEdge(p, b), pred) {
			continue
		}
		if len(p.Preds) >= 2 && HoldsEntering(p, pred, depth+1) {
			continue
		}
		return false
	}
	return true
}

// contradicts: some fact of a is the negation of a fact of b (same condition,
// opposite outcome).
func contradicts(a, b []Fact) bool {
	for _, x := range a {
		for _, y := range b {
			if x.Cond == y.Cond && x.Pol != y.Pol {
				return true
			}
		}
	}
	return false
}

// HoldsAtJoin reports whether pred is established at instruction at: by a
// dominating fact, or at a dominating join on every incoming edge that is
// consistent with what is known at the instruction (an edge carrying the
// negation of a fact that holds at the instruction cannot have led there).
// The shape `if a && x == y { … } else { if a { use } }`: the use is reached
// from the join of "a false" and "x != y", and only the latter agrees with a.
func HoldsAtJoin(at ssa.Instruction, pred func(Fact) bool) bool {
	fs := FactsAtInstr(at)
	if HasFact(fs, pred) {
		return true
	}
	var entering func(d *ssa.BasicBlock, depth int) bool
	entering = func(d *ssa.BasicBlock, depth int) bool {
		if depth > 6 {
			return false
		}
		n := 0
		for _, p := range d.Preds {
			ef := FactsAtEdge(p, d)
			if contradicts(ef, fs) {
				continue
			}
			n++
			if HasFact(ef, pred) {
				continue
			}
			if len(p.Preds) >= 2 && entering(p, depth+1) {
				continue
			}
			return false
		}
		return n > 0
	}
	for d, k := at.Block(), 0; d != nil && k < 12; d, k = Idom(d), k+1 {
		if len(d.Preds) >= 2 && entering(d, 0) {
			return true
		}
	}
	return false
}

// EqRel is Rel with a constant-time comparison read as the (in)equality of
// what it compares: ConstantTimeCompare([]byte(a), []byte(b)) == 1 says a == b.
func (f Fact) EqRel() Rel {
	r := f.Rel()
	if r.Op != token.EQL && r.Op != token.NEQ {
		return r
	}
	x, y := r.X, r.Y
	for k := 0; k < 2; k++ {
		if call, ok := x.(*ssa.Call); ok {
			if fn := call.Call.StaticCallee(); fn != nil && fn.String() == "crypto/subtle.ConstantTimeCompare" && len(call.Call.Args) == 2 {
				if n, isC := ConstInt(y); isC && (n == 0 || n == 1) {
					eq := (r.Op == token.EQL) == (n == 1)
					op := token.NEQ
					if eq {
						op = token.EQL
					}
					return Rel{Op: op, X: stripConversions(call.Call.Args[0]), Y: stripConversions(call.Call.Args[1])}
				}
			}
		}
		x, y = y, x
	}
	return r
}

func stripConversions(v ssa.Value) ssa.Value {
	for d := 0; d < 6; d++ {
		switch x := v.(type) {
		case *ssa.Convert:
			v = x.X
			continue
		case *ssa.ChangeType:
			v = x.X
			continue
		}
		break
	}
	return v
}
