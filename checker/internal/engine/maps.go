package engine

import (
	"fmt"
	"go/constant"
	"go/token"
	"go/types"

	"golang.org/x/tools/go/ssa"
	"golang.org/x/tools/go/ssa/ssautil"
)

// Expansion of lookups in literal maps.
//
// A clean-up that replaces a switch ("which router method", "which status
// for this failure mode", "may this page take a recovery code") by a lookup in
// a map literal moves the case analysis from the control flow into data. For a
// map that is written only by its literal (constant keys, never updated,
// never handed to other code) the lookup m[k] is rewritten back into the
// decision chain it stands for:
//
//	if k == key0 { row 0 } else if k == key1 { row 1 } ... else { zero value, ok=false }
//
// with the looked-up value (or each field of it that is read), the comma-ok
// flag and a row selector as phis at the join. A call through a looked-up
// function value is split, by the selector, into one static call per row, so
// that the rules (and the inliner) see the callee.

type mapRow struct {
	key    *ssa.Const
	whole  ssa.Value         // scalar rows
	fields map[int]ssa.Value // struct rows, per field index (absent: zero)
	strct  bool
}

var mapRowsCache = map[ssa.Value][]mapRow{}

func allProgFuncs(prog *ssa.Program) []*ssa.Function {
	if progFuncs == nil {
		progFuncs = map[*ssa.Program][]*ssa.Function{}
	}
	if progFuncs[prog] == nil {
		for f := range ssautil.AllFunctions(prog) {
			progFuncs[prog] = append(progFuncs[prog], f)
		}
	}
	return progFuncs[prog]
}

// literalMapRows: m is the map operand of a lookup. Returns the rows of the
// literal it was built from, or nil when the map is not a literal that stays
// as written.
func literalMapRows(m ssa.Value, at *ssa.Lookup) []mapRow {
	var mk *ssa.MakeMap
	switch x := m.(type) {
	case *ssa.MakeMap:
		mk = x
	case *ssa.UnOp:
		g, ok := x.X.(*ssa.Global)
		if !ok || x.Op != token.MUL || g.Pkg == nil {
			return nil
		}
		if rows, ok := mapRowsCache[g]; ok {
			return rows
		}
		rows := globalMapRows(g)
		mapRowsCache[g] = rows
		return rows
	default:
		return nil
	}
	// a local literal: only updated by the literal's own stores, in its block,
	// before the lookup; otherwise only read
	if mk.Referrers() == nil {
		return nil
	}
	var updates []*ssa.MapUpdate
	for _, ref := range *mk.Referrers() {
		switch r := ref.(type) {
		case *ssa.MapUpdate:
			if r.Map != ssa.Value(mk) || r.Block() != mk.Block() {
				return nil
			}
			updates = append(updates, r)
		case *ssa.Lookup:
			if r.X != ssa.Value(mk) {
				return nil
			}
		case *ssa.Range, *ssa.DebugRef:
		case *ssa.Call:
			if b, ok := r.Call.Value.(*ssa.Builtin); !ok || b.Name() != "len" {
				return nil
			}
		default:
			return nil
		}
	}
	if at.Block() == mk.Block() {
		pos := func(in ssa.Instruction) int {
			for i, x := range in.Block().Instrs {
				if x == in {
					return i
				}
			}
			return -1
		}
		for _, u := range updates {
			if pos(u) > pos(at) {
				return nil
			}
		}
	} else if !Dominates(mk.Block(), at.Block()) {
		return nil
	}
	return rowsOfUpdates(updates, false)
}

func rowsOfUpdates(updates []*ssa.MapUpdate, crossFunc bool) []mapRow {
	var rows []mapRow
	seen := map[string]bool{}
	for _, u := range updates {
		k, ok := u.Key.(*ssa.Const)
		if !ok || k.Value == nil {
			return nil
		}
		ks := k.Value.ExactString()
		if seen[ks] {
			return nil
		}
		seen[ks] = true
		row := mapRow{key: k, fields: map[int]ssa.Value{}}
		if _, isStruct := u.Value.Type().Underlying().(*types.Struct); isStruct {
			row.strct = true
			ld, isLd := u.Value.(*ssa.UnOp)
			if !isLd {
				if c, isC := u.Value.(*ssa.Const); isC && c.Value == nil {
					rows = append(rows, row) // zero struct
					continue
				}
				return nil
			}
			cell, isA := ld.X.(*ssa.Alloc)
			if !isA || cell.Referrers() == nil {
				return nil
			}
			for _, ref := range *cell.Referrers() {
				switch r := ref.(type) {
				case *ssa.FieldAddr:
					if r.Referrers() == nil {
						continue
					}
					n := 0
					for _, rr := range *r.Referrers() {
						st, isS := rr.(*ssa.Store)
						if !isS || st.Addr != ssa.Value(r) {
							return nil
						}
						n++
						row.fields[r.Field] = st.Val
					}
					if n != 1 {
						return nil
					}
				case *ssa.UnOp, *ssa.DebugRef:
				default:
					return nil
				}
			}
		} else {
			row.whole = u.Value
		}
		rows = append(rows, row)
	}
	if len(rows) == 0 || len(rows) > 24 {
		return nil
	}
	return rows
}

func globalMapRows(g *ssa.Global) []mapRow {
	initFn := g.Pkg.Func("init")
	if initFn == nil {
		return nil
	}
	var mk *ssa.MakeMap
	stores := 0
	for _, f := range allProgFuncs(g.Pkg.Prog) {
		for _, b := range f.Blocks {
			for _, in := range b.Instrs {
				switch x := in.(type) {
				case *ssa.Store:
					if x.Val == ssa.Value(g) {
						return nil
					}
					if x.Addr == ssa.Value(g) {
						stores++
						if f != initFn {
							return nil
						}
						m, ok := x.Val.(*ssa.MakeMap)
						if !ok {
							return nil
						}
						mk = m
					}
				case *ssa.UnOp:
					if x.X != ssa.Value(g) {
						continue
					}
					// a loaded copy of the map header: only read
					if x.Referrers() == nil {
						continue
					}
					for _, ref := range *x.Referrers() {
						switch r := ref.(type) {
						case *ssa.Lookup:
							if r.X != ssa.Value(x) {
								return nil
							}
						case *ssa.Range, *ssa.DebugRef:
						case *ssa.Call:
							if bi, ok := r.Call.Value.(*ssa.Builtin); !ok || bi.Name() != "len" {
								return nil
							}
						default:
							return nil
						}
					}
				default:
					// the address of the global taken
					var buf [8]*ssa.Value
					for _, op := range in.Operands(buf[:0]) {
						if *op == ssa.Value(g) {
							return nil
						}
					}
				}
			}
		}
	}
	if stores != 1 || mk == nil || mk.Referrers() == nil {
		return nil
	}
	var updates []*ssa.MapUpdate
	for _, ref := range *mk.Referrers() {
		switch r := ref.(type) {
		case *ssa.MapUpdate:
			if r.Map != ssa.Value(mk) {
				return nil
			}
			updates = append(updates, r)
		case *ssa.Store:
			if r.Addr != ssa.Value(g) {
				return nil
			}
		case *ssa.DebugRef:
		default:
			return nil
		}
	}
	return rowsOfUpdates(updates, true)
}

// portable: the value a row holds can be re-created in another function:
// constants, functions, and conversions of those.
func portable(v ssa.Value, sameFn bool) bool {
	switch x := v.(type) {
	case *ssa.Const, *ssa.Function, *ssa.Global:
		return true
	case *ssa.ChangeType:
		return portable(x.X, sameFn)
	case *ssa.MakeInterface:
		return portable(x.X, sameFn)
	case *ssa.Convert:
		return portable(x.X, sameFn)
	}
	return sameFn
}

// materialise appends to block b whatever is needed to have v available there
// and returns the value to use.
func materialise(v ssa.Value, b *ssa.BasicBlock, sameFn bool) ssa.Value {
	switch x := v.(type) {
	case *ssa.Const, *ssa.Function, *ssa.Global:
		return v
	case *ssa.ChangeType, *ssa.MakeInterface, *ssa.Convert:
		if sameFn {
			return v
		}
		var inner ssa.Value
		switch y := x.(type) {
		case *ssa.ChangeType:
			inner = y.X
		case *ssa.MakeInterface:
			inner = y.X
		case *ssa.Convert:
			inner = y.X
		}
		in := materialise(inner, b, sameFn)
		ci := cloneInstr(x.(ssa.Instruction))
		setBlock(ci, b)
		switch y := ci.(type) {
		case *ssa.ChangeType:
			y.X = in
		case *ssa.MakeInterface:
			y.X = in
		case *ssa.Convert:
			y.X = in
		}
		b.Instrs = append(b.Instrs, ci)
		return ci.(ssa.Value)
	}
	return v
}

func zeroOf(t types.Type) *ssa.Const { return ssa.NewConst(nil, t) }

func newPhi(b *ssa.BasicBlock, t types.Type, pos token.Pos, comment string, edges []ssa.Value) *ssa.Phi {
	phi := &ssa.Phi{Comment: comment, Edges: edges}
	setUnexported(phi, "typ", t)
	setUnexported(phi, "pos", pos)
	setBlock(phi, b)
	return phi
}

func newBinOp(b *ssa.BasicBlock, op token.Token, x, y ssa.Value, t types.Type, pos token.Pos) *ssa.BinOp {
	bo := &ssa.BinOp{Op: op, X: x, Y: y}
	setUnexported(bo, "typ", t)
	setUnexported(bo, "pos", pos)
	setBlock(bo, b)
	return bo
}

// splitBlockAt moves the instructions of B after index k (exclusive) into a
// new continuation block that takes over B's successors; B is left without a
// terminator and without successors. The instruction at k is dropped.
func splitBlockAt(fn *ssa.Function, B *ssa.BasicBlock, k int, comment string) *ssa.BasicBlock {
	cont := newBlock(fn, comment)
	cont.Instrs = append([]ssa.Instruction(nil), B.Instrs[k+1:]...)
	for _, in := range cont.Instrs {
		setBlock(in, cont)
	}
	cont.Succs = B.Succs
	for _, s := range cont.Succs {
		for i, p := range s.Preds {
			if p == B {
				s.Preds[i] = cont
			}
		}
	}
	B.Instrs = append([]ssa.Instruction(nil), B.Instrs[:k]...)
	B.Succs = nil
	return cont
}

func addJump(from, to *ssa.BasicBlock) {
	j := &ssa.Jump{}
	setBlock(j, from)
	from.Instrs = append(from.Instrs, j)
	from.Succs = []*ssa.BasicBlock{to}
	to.Preds = append(to.Preds, from)
}

func addIf(from *ssa.BasicBlock, cond ssa.Value, yes, no *ssa.BasicBlock) {
	i := &ssa.If{Cond: cond}
	setBlock(i, from)
	from.Instrs = append(from.Instrs, i)
	from.Succs = []*ssa.BasicBlock{yes, no}
	yes.Preds = append(yes.Preds, from)
	no.Preds = append(no.Preds, from)
}

func spliceAfter(fn *ssa.Function, after *ssa.BasicBlock, blocks []*ssa.BasicBlock) {
	var out []*ssa.BasicBlock
	for _, b := range fn.Blocks {
		out = append(out, b)
		if b == after {
			out = append(out, blocks...)
		}
	}
	fn.Blocks = out
	for i, b := range fn.Blocks {
		b.Index = i
	}
}

func instrPos(in ssa.Instruction) int {
	for i, x := range in.Block().Instrs {
		if x == in {
			return i
		}
	}
	return -1
}

// expandOneLookup rewrites one lookup; false if it declined.
func expandOneLookup(fn *ssa.Function, lk *ssa.Lookup) bool {
	if _, isMap := lk.X.Type().Underlying().(*types.Map); !isMap {
		return false
	}
	rows := literalMapRows(lk.X, lk)
	if rows == nil {
		return false
	}
	_, sameFn := lk.X.(*ssa.MakeMap)
	kt := lk.Index.Type().Underlying()
	if b, ok := kt.(*types.Basic); !ok || b.Info()&(types.IsString|types.IsInteger|types.IsBoolean) == 0 {
		return false
	}
	// how the result is used
	var vals []ssa.Value // SSA values standing for the looked-up row
	var oks []ssa.Value
	var dead []ssa.Instruction
	if lk.CommaOk {
		if lk.Referrers() == nil {
			return false
		}
		for _, ref := range *lk.Referrers() {
			switch r := ref.(type) {
			case *ssa.Extract:
				if r.Index == 0 {
					vals = append(vals, r)
				} else {
					oks = append(oks, r)
				}
				dead = append(dead, r)
			case *ssa.DebugRef:
				dead = append(dead, r)
			default:
				return false
			}
		}
	} else {
		vals = []ssa.Value{lk}
	}
	var elem types.Type
	if lk.CommaOk {
		elem = lk.Type().(*types.Tuple).At(0).Type()
	} else {
		elem = lk.Type()
	}
	st, isStruct := elem.Underlying().(*types.Struct)
	type fieldUse struct {
		field int
		instr *ssa.Field
	}
	var fieldUses []fieldUse
	type cellLoad struct {
		field int
		instr *ssa.UnOp
	}
	var cellLoads []cellLoad
	if isStruct {
		for _, v := range vals {
			if v.Referrers() == nil {
				continue
			}
			for _, ref := range *v.Referrers() {
				switch r := ref.(type) {
				case *ssa.Field:
					fieldUses = append(fieldUses, fieldUse{r.Field, r})
					dead = append(dead, r)
				case *ssa.DebugRef:
					dead = append(dead, r)
				case *ssa.Extract:
				case *ssa.Store:
					// the row copied into a local variable that is then only read,
					// field by field
					cell, isA := r.Addr.(*ssa.Alloc)
					if !isA || r.Val != v || cell.Referrers() == nil {
						return false
					}
					dead = append(dead, r)
					for _, cr := range *cell.Referrers() {
						switch c := cr.(type) {
						case *ssa.Store:
							if c != r {
								return false
							}
						case *ssa.DebugRef:
							dead = append(dead, c)
						case *ssa.FieldAddr:
							dead = append(dead, c)
							if c.Referrers() == nil {
								continue
							}
							for _, lr := range *c.Referrers() {
								ld, isLd := lr.(*ssa.UnOp)
								if !isLd || ld.Op != token.MUL {
									return false
								}
								if ld.Block() == r.Block() {
									if instrPos(ld) < instrPos(r) {
										return false
									}
								} else if !Dominates(r.Block(), ld.Block()) {
									return false
								}
								cellLoads = append(cellLoads, cellLoad{c.Field, ld})
								dead = append(dead, ld)
							}
						default:
							return false
						}
					}
				default:
					return false
				}
			}
		}
	}
	// every value must be re-creatable here
	for _, row := range rows {
		if isStruct != row.strct {
			return false
		}
		if isStruct {
			for _, v := range row.fields {
				if !portable(v, sameFn) {
					return false
				}
			}
		} else if !portable(row.whole, sameFn) {
			return false
		}
	}
	B := lk.Block()
	k := instrPos(lk)
	if k < 0 {
		return false
	}
	pos := lk.Pos()
	cont := splitBlockAt(fn, B, k, "maplit.join")
	var added []*ssa.BasicBlock
	var rowBlocks []*ssa.BasicBlock
	cur := B
	boolT := types.Typ[types.Bool]
	// the key is compared with every row's key up front, so that later decisions
	// about the same row (calls through a looked-up function) can reuse the
	// comparison and stay visibly tied to the key
	var conds []ssa.Value
	keyBasic, _ := lk.Index.Type().Underlying().(*types.Basic)
	boolKey := keyBasic != nil && keyBasic.Info()&types.IsBoolean != 0
	// a bool key with both rows present: the second row needs no test and no row is absent
	exhaustive := boolKey && len(rows) == 2
	for i, row := range rows {
		if exhaustive && i == 1 {
			break
		}
		var cond ssa.Value
		if boolKey {
			// k == true is k, k == false is !k
			if constant.BoolVal(row.key.Value) {
				cond = lk.Index
			} else {
				not := &ssa.UnOp{Op: token.NOT, X: lk.Index}
				setUnexported(not, "typ", boolT)
				setUnexported(not, "pos", pos)
				setBlock(not, B)
				B.Instrs = append(B.Instrs, not)
				cond = not
			}
		} else {
			key := ssa.NewConst(row.key.Value, lk.Index.Type())
			bo := newBinOp(B, token.EQL, lk.Index, key, boolT, pos)
			B.Instrs = append(B.Instrs, bo)
			cond = bo
		}
		conds = append(conds, cond)
	}
	for i := range rows {
		vb := newBlock(fn, fmt.Sprintf("maplit.row.%d", i))
		if exhaustive && i == 1 {
			// reached when the first row's test failed
			fixed := cur // the "test" block created for the second row: use it as the row block
			fixed.Comment = "maplit.row.1"
			rowBlocks = append(rowBlocks, fixed)
			break
		}
		var next *ssa.BasicBlock
		if i == len(rows)-1 {
			next = newBlock(fn, "maplit.absent")
		} else {
			next = newBlock(fn, "maplit.test")
		}
		addIf(cur, conds[i], vb, next)
		added = append(added, vb, next)
		rowBlocks = append(rowBlocks, vb)
		cur = next
	}
	if !exhaustive {
		rowBlocks = append(rowBlocks, cur) // the absent row
	}
	// values per row, materialised in the row's block before its jump
	fieldSet := map[int]bool{}
	for _, fu := range fieldUses {
		fieldSet[fu.field] = true
	}
	for _, cl := range cellLoads {
		fieldSet[cl.field] = true
	}
	fieldEdges := map[int][]ssa.Value{}
	var wholeEdges, okEdges []ssa.Value
	for i, vb := range rowBlocks {
		isAbsent := i == len(rows)
		_ = vb
		if isStruct {
			for f := range fieldSet {
				ft := st.Field(f).Type()
				var v ssa.Value = zeroOf(ft)
				if !isAbsent {
					if rv, ok := rows[i].fields[f]; ok {
						v = materialise(rv, vb, sameFn)
					}
				}
				fieldEdges[f] = append(fieldEdges[f], v)
			}
		} else {
			var v ssa.Value = zeroOf(elem)
			if !isAbsent {
				v = materialise(rows[i].whole, vb, sameFn)
			}
			wholeEdges = append(wholeEdges, v)
		}
		okEdges = append(okEdges, ssa.NewConst(constant.MakeBool(!isAbsent), boolT))
	}
	for _, vb := range rowBlocks {
		addJump(vb, cont)
	}
	// cont's preds are exactly the row blocks, in order
	var phis []ssa.Instruction
	repl := map[ssa.Value]ssa.Value{}
	var fnPhis []*ssa.Phi
	if isStruct {
		byField := map[int]*ssa.Phi{}
		for f := range fieldSet {
			p := newPhi(cont, st.Field(f).Type(), pos, fmt.Sprintf("maplit.%s", st.Field(f).Name()), fieldEdges[f])
			byField[f] = p
			phis = append(phis, p)
			if _, isSig := st.Field(f).Type().Underlying().(*types.Signature); isSig {
				fnPhis = append(fnPhis, p)
			}
		}
		for _, fu := range fieldUses {
			repl[fu.instr] = byField[fu.field]
		}
		for _, cl := range cellLoads {
			repl[cl.instr] = byField[cl.field]
		}
	} else {
		p := newPhi(cont, elem, pos, "maplit.value", wholeEdges)
		phis = append(phis, p)
		for _, v := range vals {
			repl[v] = p
		}
		if _, isSig := elem.Underlying().(*types.Signature); isSig {
			fnPhis = append(fnPhis, p)
		}
	}
	if len(oks) > 0 {
		p := newPhi(cont, boolT, pos, "maplit.ok", okEdges)
		phis = append(phis, p)
		for _, v := range oks {
			repl[v] = p
		}
	}
	// sort phis deterministically (maps above): by comment
	for i := 1; i < len(phis); i++ {
		for j := i; j > 0 && phis[j].(*ssa.Phi).Comment < phis[j-1].(*ssa.Phi).Comment; j-- {
			phis[j], phis[j-1] = phis[j-1], phis[j]
		}
	}
	cont.Instrs = append(phis, cont.Instrs...)
	spliceAfter(fn, B, append(added, cont))
	// drop the instructions the phis replace and rewrite their uses
	deadSet := map[ssa.Instruction]bool{}
	for _, d := range dead {
		deadSet[d] = true
	}
	var buf [16]*ssa.Value
	for _, b := range fn.Blocks {
		kept := b.Instrs[:0:0]
		for _, in := range b.Instrs {
			if deadSet[in] {
				continue
			}
			for _, op := range in.Operands(buf[:0]) {
				if *op == nil {
					continue
				}
				if r, ok := repl[*op]; ok {
					*op = r
				}
			}
			kept = append(kept, in)
		}
		b.Instrs = kept
	}
	invalidateDom(fn)
	rebuildReferrers(fn)
	// calls through a looked-up function value: one static call per row
	for _, p := range fnPhis {
		for again := true; again; {
			again = false
			if p.Referrers() == nil {
				break
			}
			for _, ref := range *p.Referrers() {
				call, ok := ref.(*ssa.Call)
				if !ok || call.Call.Value != ssa.Value(p) || call.Call.IsInvoke() {
					continue
				}
				if splitPhiCall(fn, call, p, conds) {
					again = true
					break
				}
			}
		}
	}
	return true
}

func funcOf(v ssa.Value) *ssa.Function {
	switch x := v.(type) {
	case *ssa.Function:
		return x
	case *ssa.ChangeType:
		return funcOf(x.X)
	}
	return nil
}

// splitPhiCall replaces `p(args)` by a decision on the row selector with a
// static call in each arm; the absent row calls a nil function, which panics.
func splitPhiCall(fn *ssa.Function, call *ssa.Call, p *ssa.Phi, conds []ssa.Value) bool {
	if len(conds) != len(p.Edges)-1 {
		return false
	}
	for _, e := range p.Edges {
		if funcOf(e) == nil {
			if c, ok := e.(*ssa.Const); !ok || c.Value != nil {
				return false
			}
		}
	}
	B := call.Block()
	k := instrPos(call)
	if k < 0 {
		return false
	}
	pos := call.Pos()
	cont := splitBlockAt(fn, B, k, "maplit.called")
	var added []*ssa.BasicBlock
	var results []ssa.Value
	var partResults [][]ssa.Value
	tup, _ := call.Type().(*types.Tuple)
	if tup != nil && call.Referrers() != nil {
		for _, ref := range *call.Referrers() {
			if _, isEx := ref.(*ssa.Extract); !isEx {
				return false
			}
		}
	}
	cur := B
	n := len(p.Edges)
	for i, e := range p.Edges {
		arm := newBlock(fn, fmt.Sprintf("maplit.call.%d", i))
		added = append(added, arm)
		last := i == n-1
		if !last {
			next := newBlock(fn, "maplit.calltest")
			addIf(cur, conds[i], arm, next)
			added = append(added, next)
			cur = next
		} else {
			addJump(cur, arm)
		}
		f := funcOf(e)
		if f == nil {
			// calling a nil function value
			pn := &ssa.Panic{X: ssa.NewConst(constant.MakeString("call of nil function"), types.Typ[types.String])}
			setBlock(pn, arm)
			arm.Instrs = append(arm.Instrs, pn)
			continue
		}
		ci := cloneInstr(call).(*ssa.Call)
		ci.Call.Value = f
		setBlock(ci, arm)
		arm.Instrs = append(arm.Instrs, ci)
		if tup != nil {
			var parts []ssa.Value
			for j := 0; j < tup.Len(); j++ {
				ex := &ssa.Extract{Tuple: ci, Index: j}
				setUnexported(ex, "typ", tup.At(j).Type())
				setBlock(ex, arm)
				arm.Instrs = append(arm.Instrs, ex)
				parts = append(parts, ex)
			}
			partResults = append(partResults, parts)
		}
		addJump(arm, cont)
		results = append(results, ci)
	}
	if len(results) == 0 {
		return false
	}
	spliceAfter(fn, B, append(added, cont))
	if tup != nil {
		// one phi per component; the extracts of the original call read them
		var phis []ssa.Instruction
		comp := make([]ssa.Value, tup.Len())
		for j := 0; j < tup.Len(); j++ {
			if len(partResults) == 1 {
				comp[j] = partResults[0][j]
				continue
			}
			var edges []ssa.Value
			for _, parts := range partResults {
				edges = append(edges, parts[j])
			}
			ph := newPhi(cont, tup.At(j).Type(), pos, fmt.Sprintf("maplit.result#%d", j), edges)
			phis = append(phis, ph)
			comp[j] = ph
		}
		cont.Instrs = append(phis, cont.Instrs...)
		for _, b := range fn.Blocks {
			kept := b.Instrs[:0:0]
			for _, in := range b.Instrs {
				if e, ok := in.(*ssa.Extract); ok && e.Tuple == ssa.Value(call) {
					replaceOperands(fn, e, comp[e.Index])
					continue
				}
				kept = append(kept, in)
			}
			b.Instrs = kept
		}
	} else {
		var rv ssa.Value
		if len(results) == 1 {
			rv = results[0]
		} else {
			ph := newPhi(cont, call.Type(), pos, "maplit.result", results)
			cont.Instrs = append([]ssa.Instruction{ph}, cont.Instrs...)
			rv = ph
		}
		replaceOperands(fn, call, rv)
	}
	invalidateDom(fn)
	rebuildReferrers(fn)
	// what follows the call is specialised to the row when that is cheap
	tailDuplicate(fn, cont)
	return true
}

// ExpandMapLookups rewrites every eligible lookup of fn; returns how many.
func ExpandMapLookups(fn *ssa.Function) int {
	n := 0
	for i := 0; i < 12; i++ {
		var target *ssa.Lookup
	scan:
		for _, b := range fn.Blocks {
			for _, in := range b.Instrs {
				if lk, ok := in.(*ssa.Lookup); ok {
					if _, isMap := lk.X.Type().Underlying().(*types.Map); isMap && !declined[lk] {
						target = lk
						break scan
					}
				}
			}
		}
		if target == nil {
			break
		}
		if expandOneLookup(fn, target) {
			n++
		} else {
			declined[target] = true
		}
	}
	return n
}

var declined = map[*ssa.Lookup]bool{}

// tailDuplicate gives every predecessor of the join block J its own copy of
// J, with J's phis replaced by the value that predecessor contributes. After
// a lookup in a literal map this specialises what follows the decision to
// the row taken (`*queueOf(c) = append(...)` becomes one store per queue
// field). Only done when J is small and nothing it defines is used outside of
// it (other than by phis of its successors on the edge from J); returns false
// when it declined.
func tailDuplicate(fn *ssa.Function, J *ssa.BasicBlock) bool {
	if len(J.Preds) < 2 || len(J.Instrs) > 48 {
		return false
	}
	for _, s := range J.Succs {
		if s == J {
			return false
		}
	}
	for _, p := range J.Preds {
		if p == J || len(p.Succs) != 1 {
			return false // only predecessors that jump here unconditionally
		}
	}
	nphi := 0
	for _, in := range J.Instrs {
		if _, ok := in.(*ssa.Phi); ok {
			nphi++
		}
	}
	if nphi == 0 {
		return false
	}
	// only the part of J that depends on its phis is specialised: what follows
	// the last such instruction stays joined
	{
		dep := map[ssa.Value]bool{}
		cut := -1
		var buf [16]*ssa.Value
		for i, in := range J.Instrs {
			if phi, ok := in.(*ssa.Phi); ok {
				dep[phi] = true
				cut = i
				continue
			}
			uses := false
			for _, op := range in.Operands(buf[:0]) {
				if *op != nil && dep[*op] {
					uses = true
				}
			}
			if uses {
				cut = i
				if v, ok := in.(ssa.Value); ok {
					dep[v] = true
				}
			}
		}
		if cut < len(J.Instrs)-2 {
			rest := newBlock(fn, J.Comment+".rest")
			rest.Instrs = append([]ssa.Instruction(nil), J.Instrs[cut+1:]...)
			for _, in := range rest.Instrs {
				setBlock(in, rest)
			}
			rest.Succs = J.Succs
			for _, s := range rest.Succs {
				for i, p := range s.Preds {
					if p == J {
						s.Preds[i] = rest
					}
				}
			}
			J.Instrs = append([]ssa.Instruction(nil), J.Instrs[:cut+1]...)
			J.Succs = nil
			addJump(J, rest)
			spliceAfter(fn, J, []*ssa.BasicBlock{rest})
			invalidateDom(fn)
		}
	}
	for _, in := range J.Instrs {
		v, ok := in.(ssa.Value)
		if !ok || v.Referrers() == nil {
			continue
		}
		for _, ref := range *v.Referrers() {
			if ref.Block() == J {
				if _, isPhi := ref.(*ssa.Phi); isPhi {
					return false // J is its own successor through a loop
				}
				continue
			}
			phi, isPhi := ref.(*ssa.Phi)
			if !isPhi {
				return false
			}
			// used by a successor's phi: only on the edge from J
			isSucc := false
			for _, s := range J.Succs {
				if s == phi.Block() {
					isSucc = true
				}
			}
			if !isSucc {
				return false
			}
			for i, e := range phi.Edges {
				if e == v && phi.Block().Preds[i] != J {
					return false
				}
			}
		}
	}
	var copies []*ssa.BasicBlock
	var vmaps []map[ssa.Value]ssa.Value
	var buf [16]*ssa.Value
	for pi, pred := range J.Preds {
		C := newBlock(fn, J.Comment+fmt.Sprintf(".for.%d", pi))
		vmap := map[ssa.Value]ssa.Value{}
		for _, in := range J.Instrs {
			if phi, ok := in.(*ssa.Phi); ok {
				vmap[phi] = phi.Edges[pi]
				continue
			}
			ci := cloneInstr(in)
			setBlock(ci, C)
			if v, ok := in.(ssa.Value); ok {
				vmap[v] = ci.(ssa.Value)
			}
			C.Instrs = append(C.Instrs, ci)
		}
		for _, in := range C.Instrs {
			for _, op := range in.Operands(buf[:0]) {
				if *op == nil {
					continue
				}
				if r, ok := vmap[*op]; ok {
					*op = r
				}
			}
		}
		C.Preds = []*ssa.BasicBlock{pred}
		for si, s := range pred.Succs {
			if s == J {
				pred.Succs[si] = C
			}
		}
		C.Succs = append([]*ssa.BasicBlock(nil), J.Succs...)
		copies = append(copies, C)
		vmaps = append(vmaps, vmap)
	}
	// successors: J's edge becomes one edge per copy
	done := map[*ssa.BasicBlock]bool{}
	for _, s := range J.Succs {
		if done[s] {
			continue
		}
		done[s] = true
		var preds []*ssa.BasicBlock
		var from []int
		var vms []map[ssa.Value]ssa.Value
		for i, p := range s.Preds {
			if p != J {
				preds = append(preds, p)
				from = append(from, i)
				vms = append(vms, nil)
				continue
			}
			for ci, C := range copies {
				preds = append(preds, C)
				from = append(from, i)
				vms = append(vms, vmaps[ci])
			}
		}
		for _, in := range s.Instrs {
			phi, ok := in.(*ssa.Phi)
			if !ok {
				break
			}
			var edges []ssa.Value
			for k, fi := range from {
				v := phi.Edges[fi]
				if vms[k] != nil {
					if r, ok := vms[k][v]; ok {
						v = r
					}
				}
				edges = append(edges, v)
			}
			phi.Edges = edges
		}
		s.Preds = preds
	}
	var out []*ssa.BasicBlock
	for _, b := range fn.Blocks {
		if b == J {
			out = append(out, copies...)
			continue
		}
		out = append(out, b)
	}
	fn.Blocks = out
	for i, b := range fn.Blocks {
		b.Index = i
	}
	invalidateDom(fn)
	rebuildReferrers(fn)
	return true
}

// splitCriticalEdgesInto gives every predecessor of J that also branches
// elsewhere an empty block of its own on the edge to J.
func splitCriticalEdgesInto(fn *ssa.Function, J *ssa.BasicBlock) {
	changed := false
	for i, p := range J.Preds {
		if len(p.Succs) < 2 {
			continue
		}
		E := newBlock(fn, "edge")
		j := &ssa.Jump{}
		setBlock(j, E)
		E.Instrs = []ssa.Instruction{j}
		E.Succs = []*ssa.BasicBlock{J}
		E.Preds = []*ssa.BasicBlock{p}
		// one edge at a time: the i-th predecessor entry corresponds to one of p's successor slots
		nth := 0
		for k := 0; k < i; k++ {
			if J.Preds[k] == p {
				nth++
			}
		}
		seen := 0
		for si, s := range p.Succs {
			if s == J {
				if seen == nth {
					p.Succs[si] = E
					break
				}
				seen++
			}
		}
		J.Preds[i] = E
		spliceAfter(fn, p, []*ssa.BasicBlock{E})
		changed = true
	}
	if changed {
		invalidateDom(fn)
	}
}

// specialiseConstIndex: a block that selects a row of a literal table (or a
// key of a literal map) by a phi of constants — `texts[verdict]` after the
// branches have set verdict — is copied per incoming edge, so that each copy
// indexes with its constant and the row can be read off.
func specialiseConstIndex(fn *ssa.Function) bool {
	for _, J := range fn.Blocks {
		if len(J.Preds) < 2 {
			continue
		}
		want := false
		for _, in := range J.Instrs {
			var idx, table ssa.Value
			switch x := in.(type) {
			case *ssa.IndexAddr:
				idx, table = x.Index, tableOf(x.X)
			case *ssa.Index:
				idx, table = x.Index, tableOf(x.X)
			case *ssa.Lookup:
				if _, isMap := x.X.Type().Underlying().(*types.Map); isMap && literalMapRows(x.X, x) != nil {
					idx, table = x.Index, x.X
				}
			}
			if idx == nil || table == nil {
				continue
			}
			phi, ok := idx.(*ssa.Phi)
			if !ok || phi.Block() != J {
				continue
			}
			allConst := true
			for _, e := range phi.Edges {
				if c, isC := e.(*ssa.Const); !isC || c.Value == nil {
					allConst = false
				}
			}
			if !allConst {
				continue
			}
			if _, isLk := in.(*ssa.Lookup); !isLk && len(rowInits(table)) == 0 {
				continue
			}
			want = true
		}
		if !want {
			continue
		}
		splitCriticalEdgesInto(fn, J)
		if tailDuplicate(fn, J) {
			return true
		}
	}
	return false
}
