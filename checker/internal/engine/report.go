package engine

import (
	"bufio"
	"crypto/sha1"
	"encoding/json"
	"fmt"
	"os"
	"path/filepath"
	"sort"
	"strings"
	"time"
)

// Status of an obligation.
type Status string

const (
	Discharged Status = "discharged"
	Violated   Status = "violated"
	Undecided  Status = "undecided"
	Note       Status = "note" // informational, not counted as an obligation
)

// Obligation is one evaluated rule instance.
type Obligation struct {
	Rule   string   `json:"rule"`   // e.g. C01.vgate
	Key    string   `json:"key"`    // rule|function|construct — never a line number
	Func   string   `json:"func"`   // function analysed
	Pos    string   `json:"pos"`    // file:line, for diagnosis only
	Status Status   `json:"status"` //
	Detail string   `json:"detail"` // what was established / what is missing
	Path   []string `json:"path,omitempty"`
}

// Report collects the obligations of one property run.
type Report struct {
	Property    string
	Tier        string
	Explanation string
	NotDecided  []string
	Trusted     []string
	Obls        []Obligation
	FuncsSeen   map[string]bool
	SitesSeen   int
	Extra       map[string]interface{}
	p           *Prog
}

// NewReport starts a report.
func NewReport(p *Prog, property, tier string) *Report {
	return &Report{Property: property, Tier: tier, FuncsSeen: map[string]bool{}, Extra: map[string]interface{}{}, p: p}
}

// Add records an obligation.
func (r *Report) Add(o Obligation) {
	if o.Key == "" {
		o.Key = o.Rule + "|" + o.Func
	}
	if o.Func != "" {
		r.FuncsSeen[o.Func] = true
	}
	r.Obls = append(r.Obls, o)
}

// Ok records a discharged obligation.
func (r *Report) Ok(rule, fn, construct, pos, detail string) {
	r.Add(Obligation{Rule: rule, Key: rule + "|" + fn + "|" + construct, Func: fn, Pos: pos, Status: Discharged, Detail: detail})
}

// Bad records a violated obligation.
func (r *Report) Bad(rule, fn, construct, pos, detail string, path ...string) {
	r.Add(Obligation{Rule: rule, Key: rule + "|" + fn + "|" + construct, Func: fn, Pos: pos, Status: Violated, Detail: detail, Path: path})
}

// Unknown records an undecided obligation (idiom outside what the rule
// understands). It fails the run like a violation.
func (r *Report) Unknown(rule, fn, construct, pos, detail string) {
	r.Add(Obligation{Rule: rule, Key: rule + "|" + fn + "|" + construct, Func: fn, Pos: pos, Status: Undecided, Detail: detail})
}

// Info records a note that is not an obligation.
func (r *Report) Info(rule, fn, construct, pos, detail string) {
	r.Add(Obligation{Rule: rule, Key: rule + "|" + fn + "|" + construct, Func: fn, Pos: pos, Status: Note, Detail: detail})
}

// Check records Ok or Bad depending on cond.
func (r *Report) Check(cond bool, rule, fn, construct, pos, okDetail, badDetail string) bool {
	if cond {
		r.Ok(rule, fn, construct, pos, okDetail)
	} else {
		r.Bad(rule, fn, construct, pos, badDetail)
	}
	return cond
}

// Known findings -----------------------------------------------------------

// Known is one line of KNOWN_FINDINGS.txt.
type Known struct {
	Kind     string // known | fixed
	Property string
	Key      string
	Text     string
}

// LoadKnown parses the known-findings file. Lines:
//
//	known: property=C15 key=<obligation key> <what fails>
//	fixed: property=C07 <commit> <what failed>
func LoadKnown(path string) []Known {
	f, err := os.Open(path)
	if err != nil {
		return nil
	}
	defer f.Close()
	var out []Known
	sc := bufio.NewScanner(f)
	for sc.Scan() {
		line := strings.TrimSpace(sc.Text())
		if line == "" || strings.HasPrefix(line, "#") {
			continue
		}
		var k Known
		switch {
		case strings.HasPrefix(line, "known:"):
			k.Kind = "known"
			line = strings.TrimSpace(strings.TrimPrefix(line, "known:"))
		case strings.HasPrefix(line, "fixed:"):
			k.Kind = "fixed"
			line = strings.TrimSpace(strings.TrimPrefix(line, "fixed:"))
		default:
			continue
		}
		fields := strings.Fields(line)
		rest := []string{}
		for _, fld := range fields {
			switch {
			case strings.HasPrefix(fld, "property=") && k.Property == "":
				k.Property = strings.TrimPrefix(fld, "property=")
			case strings.HasPrefix(fld, "key=") && k.Key == "" && k.Kind == "known":
				k.Key = strings.TrimPrefix(fld, "key=")
			default:
				rest = append(rest, fld)
			}
		}
		k.Text = strings.Join(rest, " ")
		out = append(out, k)
	}
	return out
}

// Finish writes evidence and replay files, prints the verdict lines and
// returns the exit code.
func (r *Report) Finish(outDir string, seed int64, started time.Time, checkerCmd string) int {
	known := LoadKnown(filepath.Join(outDir, "KNOWN_FINDINGS.txt"))
	isKnown := func(key string) (Known, bool) {
		for _, k := range known {
			if k.Kind == "known" && k.Property == r.Property && k.Key == key {
				return k, true
			}
		}
		return Known{}, false
	}
	var nObl, nOk, nBad, nUnd, nKnown int
	distinct := map[string]bool{}
	var samples []interface{}
	var violations []Obligation
	var knownHit []string
	byRule := map[string][2]int{}
	for _, o := range r.Obls {
		if o.Status == Note {
			continue
		}
		nObl++
		cnt := byRule[o.Rule]
		cnt[0]++
		if o.Pos != "" && o.Pos != "-" {
			distinct[o.Key] = true
		}
		switch o.Status {
		case Discharged:
			nOk++
			cnt[1]++
		case Violated, Undecided:
			if k, ok := isKnown(o.Key); ok && o.Status == Violated {
				nKnown++
				knownHit = append(knownHit, o.Key)
				fmt.Printf("KNOWN-FINDING: property=%s %s [%s at %s]\n", r.Property, k.Text, o.Key, o.Pos)
			} else {
				if o.Status == Violated {
					nBad++
				} else {
					nUnd++
				}
				violations = append(violations, o)
			}
		}
		byRule[o.Rule] = cnt
	}
	// samples: up to 12 obligations, spread over rules
	seenRule := map[string]int{}
	for _, o := range r.Obls {
		if o.Status == Note || seenRule[o.Rule] >= 2 || len(samples) >= 14 {
			continue
		}
		seenRule[o.Rule]++
		samples = append(samples, map[string]string{"rule": o.Rule, "key": o.Key, "pos": o.Pos, "status": string(o.Status), "detail": o.Detail})
	}
	var notes []map[string]string
	for _, o := range r.Obls {
		if o.Status == Note {
			notes = append(notes, map[string]string{"rule": o.Rule, "key": o.Key, "pos": o.Pos, "detail": o.Detail})
		}
	}
	os.MkdirAll(filepath.Join(outDir, "evidence"), 0o755)
	os.MkdirAll(filepath.Join(outDir, "replay"), 0o755)
	// stale replay files of this property are removed
	if old, _ := filepath.Glob(filepath.Join(outDir, "replay", r.Property+"-*.json")); old != nil {
		for _, f := range old {
			os.Remove(f)
		}
	}
	exit := 0
	for _, o := range violations {
		h := sha1.Sum([]byte(o.Key))
		rp := filepath.Join(outDir, "replay", fmt.Sprintf("%s-%x.json", r.Property, h[:5]))
		b, _ := json.MarshalIndent(map[string]interface{}{
			"property": r.Property, "obligation": o, "tier": r.Tier,
			"explain": "abcheck -property " + r.Property + " -tier " + r.Tier + " -v   (re-evaluates every obligation of the property on the current tree and prints each)",
		}, "", " ")
		os.WriteFile(rp, b, 0o644)
		word := "violated"
		if o.Status == Undecided {
			word = "UNDECIDED"
		}
		fmt.Printf("%s: %s at %s in %s: %s\n", word, o.Key, o.Pos, o.Func, o.Detail)
		for _, l := range o.Path {
			fmt.Printf("    path: %s\n", l)
		}
		fmt.Printf("VIOLATION property=%s replay=%s\n", r.Property, rp)
		exit = 1
	}
	funcs := make([]string, 0, len(r.FuncsSeen))
	for f := range r.FuncsSeen {
		funcs = append(funcs, f)
	}
	sort.Strings(funcs)
	rules := map[string]string{}
	for k, v := range byRule {
		rules[k] = fmt.Sprintf("%d/%d discharged", v[1], v[0])
	}
	cov := map[string]interface{}{
		"explanation":         r.Explanation,
		"obligations":         nObl,
		"discharged":          nOk,
		"violated":            nBad,
		"undecided":           nUnd,
		"known_findings":      nKnown,
		"evaluations":         nObl,
		"distinct_nontrivial": len(distinct),
		"rule":                "one evaluation = one rule instance (obligation) resolved on the type-checked SSA program of /repo's working tree; it is counted distinct and non-trivial when its key (rule|function|construct) is unique and it resolved to a concrete source position",
		"samples":             samples,
		"by_rule":             rules,
		"functions_analysed":  funcs,
		"sites_enumerated":    r.SitesSeen,
		"not_decided":         r.NotDecided,
		"checker_cmd":         checkerCmd,
		"trusted_base":        append([]string{"go/types + go/ssa (golang.org/x/tools v0.29.0)", "anchor and credential tables in /verif/checker/internal/rules", "DESIGN.md section 4 rule definitions"}, r.Trusted...),
		"known_findings_hit":  knownHit,
		"notes":               notes,
		"packages_loaded":     len(r.p.ByPath),
		"functions_in_repo":   len(r.p.Funcs),
		"load_wall_s":         r.p.LoadWall.Seconds(),
	}
	for k, v := range r.Extra {
		cov[k] = v
	}
	ev := map[string]interface{}{
		"property_id": r.Property,
		"tier":        r.Tier,
		"seed":        seed,
		"level":       "other",
		"coverage":    cov,
		"assumptions": append([]string{"static necessary-condition check: PASS means every enumerated obligation is discharged on the current source, not that the behavioural property is proved"}, r.NotDecided...),
		"wall_s":      time.Since(started).Seconds(),
		"violations":  nBad + nUnd,
	}
	b, _ := json.MarshalIndent(ev, "", " ")
	if err := os.WriteFile(filepath.Join(outDir, "evidence", r.Property+".json"), b, 0o644); err != nil {
		fmt.Fprintln(os.Stderr, "cannot write evidence:", err)
		return 2
	}
	fmt.Printf("%s %s: %d obligations, %d discharged, %d violated, %d undecided, %d known findings; %d functions; %.1fs\n",
		r.Property, r.Tier, nObl, nOk, nBad, nUnd, nKnown, len(funcs), time.Since(started).Seconds())
	if nObl == 0 {
		fmt.Printf("UNDECIDED: property %s evaluated no obligation (vacuous run)\n", r.Property)
		return 2
	}
	return exit
}

// Verbose prints every obligation.
func (r *Report) Verbose() {
	for _, o := range r.Obls {
		fmt.Printf("  [%-10s] %-22s %-28s %s :: %s\n", o.Status, o.Rule, o.Pos, o.Key, o.Detail)
		for _, l := range o.Path {
			fmt.Printf("        %s\n", l)
		}
	}
}
