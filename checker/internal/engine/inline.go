package engine

import (
	"fmt"
	"go/token"
	"go/types"
	"reflect"
	"sort"
	"strings"
	"unsafe"

	"golang.org/x/tools/go/ssa"
)

// Inlining of helper functions the rules do not know.
//
// The rules are written against the repository's function decomposition
// (handlers, middlewares, named helpers). A refactoring that extracts a new
// helper ("fire the event and return on error", "save the user", "respond
// invalid") moves the calls and branches a rule reasons about into a callee.
// Following Min et al. ("treat a wrapper as the thing it wraps"), every static
// call of a repository function whose name is NOT in the table of functions
// the rules were written against is inlined into its caller before any rule
// runs, on the SSA form: the callee's blocks are cloned into the caller,
// parameters are replaced by arguments, returns become jumps to the
// continuation and results become phis. On the pinned tree nothing is
// inlined (every function is known), so the baseline analysis is unaffected.
//
// go/ssa has no API for this; instructions are cloned by reflection and their
// unexported bookkeeping (owning block, referrers) is reset through unsafe
// pointers. Dominators are recomputed by dom.go.

func setUnexported(ptr interface{}, name string, val interface{}) bool {
	v := reflect.ValueOf(ptr)
	if v.Kind() != reflect.Ptr || v.Elem().Kind() != reflect.Struct {
		return false
	}
	f := v.Elem().FieldByName(name)
	if !f.IsValid() {
		return false
	}
	dst := reflect.NewAt(f.Type(), unsafe.Pointer(f.UnsafeAddr())).Elem()
	if val == nil {
		dst.Set(reflect.Zero(f.Type()))
	} else {
		dst.Set(reflect.ValueOf(val))
	}
	return true
}

func cloneInstr(i ssa.Instruction) ssa.Instruction {
	v := reflect.ValueOf(i)
	n := reflect.New(v.Elem().Type())
	n.Elem().Set(v.Elem())
	c := n.Interface().(ssa.Instruction)
	// fresh referrers list for values
	setUnexported(c, "referrers", nil)
	// slices of operands must not be shared with the original
	switch x := c.(type) {
	case *ssa.Phi:
		x.Edges = append([]ssa.Value(nil), x.Edges...)
	case *ssa.Call:
		x.Call.Args = append([]ssa.Value(nil), x.Call.Args...)
	case *ssa.Go:
		x.Call.Args = append([]ssa.Value(nil), x.Call.Args...)
	case *ssa.Defer:
		x.Call.Args = append([]ssa.Value(nil), x.Call.Args...)
	case *ssa.Return:
		x.Results = append([]ssa.Value(nil), x.Results...)
	case *ssa.MakeClosure:
		x.Bindings = append([]ssa.Value(nil), x.Bindings...)
	case *ssa.Select:
		x.States = append([]*ssa.SelectState(nil), x.States...)
	}
	return c
}

func newBlock(fn *ssa.Function, comment string) *ssa.BasicBlock {
	b := &ssa.BasicBlock{Comment: comment}
	setUnexported(b, "parent", fn)
	return b
}

func setBlock(i ssa.Instruction, b *ssa.BasicBlock) { setUnexported(i, "block", b) }

func replaceOperands(fn *ssa.Function, old, nw ssa.Value) {
	var buf [16]*ssa.Value
	for _, b := range fn.Blocks {
		for _, in := range b.Instrs {
			for _, op := range in.Operands(buf[:0]) {
				if *op == old {
					*op = nw
				}
			}
		}
	}
}

func rebuildReferrers(fn *ssa.Function) {
	reset := func(v ssa.Value) {
		if r := v.Referrers(); r != nil {
			*r = nil
		}
	}
	for _, p := range fn.Params {
		reset(p)
	}
	for _, fv := range fn.FreeVars {
		reset(fv)
	}
	for _, b := range fn.Blocks {
		for _, in := range b.Instrs {
			if v, ok := in.(ssa.Value); ok {
				reset(v)
			}
		}
	}
	var buf [16]*ssa.Value
	for _, b := range fn.Blocks {
		for _, in := range b.Instrs {
			for _, op := range in.Operands(buf[:0]) {
				if *op == nil {
					continue
				}
				if r := (*op).Referrers(); r != nil {
					*r = append(*r, in)
				}
			}
		}
	}
}

func inlinable(f *ssa.Function) bool {
	if f == nil || f.Blocks == nil {
		return false
	}
	if f.Synthetic != "" && f.Origin() == nil {
		return false // wrappers, thunks, bound methods; instances of generic functions are ordinary bodies
	}
	if f.Recover != nil {
		return false
	}
	nret := 0
	for _, b := range f.Blocks {
		for _, in := range b.Instrs {
			switch x := in.(type) {
			case *ssa.Defer, *ssa.RunDefers, *ssa.Select:
				return false
			case *ssa.Return:
				nret++
			case *ssa.Call:
				if x.Call.StaticCallee() == f {
					return false // directly recursive
				}
				if bi, ok := x.Call.Value.(*ssa.Builtin); ok && bi.Name() == "recover" {
					return false
				}
			}
		}
	}
	return nret > 0
}

// inlineCall inlines one call; returns false if it declined.
func inlineCall(fn *ssa.Function, call *ssa.Call, f *ssa.Function) bool {
	B := call.Block()
	k := -1
	for i, in := range B.Instrs {
		if in == ssa.Instruction(call) {
			k = i
		}
	}
	if k < 0 {
		return false
	}
	args := call.Call.Args
	if len(args) != len(f.Params) {
		return false
	}
	vmap := map[ssa.Value]ssa.Value{}
	for i, p := range f.Params {
		vmap[p] = args[i]
	}
	if len(f.FreeVars) > 0 {
		mc, ok := call.Call.Value.(*ssa.MakeClosure)
		if !ok || len(mc.Bindings) != len(f.FreeVars) {
			return false
		}
		for i, fv := range f.FreeVars {
			vmap[fv] = mc.Bindings[i]
		}
	}
	bmap := map[*ssa.BasicBlock]*ssa.BasicBlock{}
	var clones []*ssa.BasicBlock
	for _, fb := range f.Blocks {
		nb := newBlock(fn, "inl."+f.Name()+"."+fb.Comment)
		bmap[fb] = nb
		clones = append(clones, nb)
	}
	for _, fb := range f.Blocks {
		nb := bmap[fb]
		for _, in := range fb.Instrs {
			ci := cloneInstr(in)
			setBlock(ci, nb)
			if v, ok := in.(ssa.Value); ok {
				vmap[v] = ci.(ssa.Value)
			}
			nb.Instrs = append(nb.Instrs, ci)
		}
		for _, s := range fb.Succs {
			nb.Succs = append(nb.Succs, bmap[s])
		}
		for _, p := range fb.Preds {
			nb.Preds = append(nb.Preds, bmap[p])
		}
	}
	var buf [16]*ssa.Value
	for _, nb := range clones {
		for _, in := range nb.Instrs {
			for _, op := range in.Operands(buf[:0]) {
				if *op == nil {
					continue
				}
				if r, ok := vmap[*op]; ok {
					*op = r
				}
			}
		}
	}
	// continuation
	cont := newBlock(fn, "inl.cont."+f.Name())
	cont.Instrs = append([]ssa.Instruction(nil), B.Instrs[k+1:]...)
	for _, in := range cont.Instrs {
		setBlock(in, cont)
	}
	cont.Succs = B.Succs
	for _, s := range cont.Succs {
		for i, p := range s.Preds {
			if p == B {
				s.Preds[i] = cont
			}
		}
	}
	entry := bmap[f.Blocks[0]]
	j := &ssa.Jump{}
	setBlock(j, B)
	B.Instrs = append(append([]ssa.Instruction(nil), B.Instrs[:k]...), j)
	B.Succs = []*ssa.BasicBlock{entry}
	entry.Preds = append([]*ssa.BasicBlock{B}, entry.Preds...)
	// phis in the callee's entry block would be mis-indexed by the new predecessor
	for _, in := range entry.Instrs {
		if _, isPhi := in.(*ssa.Phi); isPhi {
			return false // (never happens for go/ssa output: the entry block has no predecessors)
		}
	}
	// returns
	type retSite struct {
		b   *ssa.BasicBlock
		res []ssa.Value
	}
	var rets []retSite
	for _, nb := range clones {
		if len(nb.Instrs) == 0 {
			continue
		}
		if r, ok := nb.Instrs[len(nb.Instrs)-1].(*ssa.Return); ok {
			rets = append(rets, retSite{nb, r.Results})
			jj := &ssa.Jump{}
			setBlock(jj, nb)
			nb.Instrs[len(nb.Instrs)-1] = jj
			nb.Succs = []*ssa.BasicBlock{cont}
			cont.Preds = append(cont.Preds, nb)
		}
	}
	res := f.Signature.Results()
	nres := res.Len()
	results := make([]ssa.Value, nres)
	var phis []ssa.Instruction
	for i := 0; i < nres; i++ {
		if len(rets) == 1 {
			results[i] = rets[0].res[i]
			continue
		}
		phi := &ssa.Phi{Comment: fmt.Sprintf("inl.%s#%d", f.Name(), i)}
		for _, r := range rets {
			phi.Edges = append(phi.Edges, r.res[i])
		}
		setUnexported(phi, "typ", res.At(i).Type())
		setUnexported(phi, "pos", call.Pos())
		setBlock(phi, cont)
		results[i] = phi
		phis = append(phis, phi)
	}
	cont.Instrs = append(phis, cont.Instrs...)
	// splice blocks into the function
	var nblocks []*ssa.BasicBlock
	for _, b := range fn.Blocks {
		nblocks = append(nblocks, b)
		if b == B {
			nblocks = append(nblocks, clones...)
			nblocks = append(nblocks, cont)
		}
	}
	fn.Blocks = nblocks
	for i, b := range fn.Blocks {
		b.Index = i
	}
	// replace the call's value
	if nres == 1 {
		replaceOperands(fn, call, results[0])
	} else if nres > 1 {
		for _, b := range fn.Blocks {
			kept := b.Instrs[:0:0]
			for _, in := range b.Instrs {
				if e, ok := in.(*ssa.Extract); ok && e.Tuple == ssa.Value(call) {
					replaceOperands(fn, e, results[e.Index])
					continue
				}
				kept = append(kept, in)
			}
			b.Instrs = kept
		}
	}
	invalidateDom(fn)
	rebuildReferrers(fn)
	return true
}

// devirtBoundCalls rewrites calls of a bound-method value that is built right
// there (what inlining a helper taking a `func(...)` parameter leaves when
// the argument was `x.method`) into the direct method call.
func devirtBoundCalls(fn *ssa.Function) bool {
	changed := false
	for _, b := range fn.Blocks {
		for _, in := range b.Instrs {
			call, ok := in.(*ssa.Call)
			if !ok || call.Call.IsInvoke() {
				continue
			}
			mc, ok := call.Call.Value.(*ssa.MakeClosure)
			if !ok || len(mc.Bindings) != 1 {
				continue
			}
			w, ok := mc.Fn.(*ssa.Function)
			if !ok || !strings.HasPrefix(w.Synthetic, "bound method wrapper") || len(w.Blocks) != 1 || len(w.FreeVars) != 1 {
				continue
			}
			for _, win := range w.Blocks[0].Instrs {
				inner, ok := win.(*ssa.Call)
				if !ok {
					continue
				}
				if inner.Call.IsInvoke() {
					// a method value of an interface (`eh.Wrap`): the call invokes the method
					if inner.Call.Value == ssa.Value(w.FreeVars[0]) && len(inner.Call.Args) == len(call.Call.Args) {
						call.Call.Value = mc.Bindings[0]
						call.Call.Method = inner.Call.Method
						changed = true
						break
					}
					continue
				}
				target := inner.Call.StaticCallee()
				if target == nil || len(inner.Call.Args) != len(call.Call.Args)+1 || inner.Call.Args[0] != ssa.Value(w.FreeVars[0]) {
					continue
				}
				call.Call.Value = target
				call.Call.Args = append([]ssa.Value{mc.Bindings[0]}, call.Call.Args...)
				changed = true
				break
			}
		}
	}
	if changed {
		rebuildReferrers(fn)
	}
	return changed
}

// devirtConcreteInvokes: an interface method invoked on a value that was made
// an interface from a concrete repository type in this very function is a
// static call of that type's method.
func devirtConcreteInvokes(fn *ssa.Function, inRepo func(string) bool) bool {
	changed := false
	for _, b := range fn.Blocks {
		for _, in := range b.Instrs {
			call, ok := in.(*ssa.Call)
			if !ok || !call.Call.IsInvoke() {
				continue
			}
			v := call.Call.Value
			for d := 0; d < 3; d++ {
				switch ci := v.(type) {
				case *ssa.ChangeInterface:
					v = ci.X
				case *ssa.ChangeType:
					v = ci.X
				}
			}
			mi, ok := v.(*ssa.MakeInterface)
			if !ok {
				continue
			}
			t := mi.X.Type()
			named, _ := t.(*types.Named)
			if pt, isP := t.(*types.Pointer); isP {
				named, _ = pt.Elem().(*types.Named)
			}
			if named == nil || named.Obj().Pkg() == nil || !inRepo(named.Obj().Pkg().Path()) {
				continue
			}
			m := fn.Prog.LookupMethod(t, call.Call.Method.Pkg(), call.Call.Method.Name())
			if m == nil {
				continue
			}
			call.Call.Args = append([]ssa.Value{mi.X}, call.Call.Args...)
			call.Call.Value = m
			call.Call.Method = nil
			changed = true
		}
	}
	if changed {
		rebuildReferrers(fn)
	}
	return changed
}

// Normalise brings every repository function into the shape the rules read:
// static calls to repository functions that are not in known are inlined
// (callees first), loops over literal tables are unrolled, lookups in literal
// maps are expanded into the decision they stand for, loads from literal
// tables are forwarded and branches on constants folded, until nothing
// changes. A helper that, once normalised itself, satisfies keep (it plays a
// role the rules look for by what a function does) is left as a function and
// not inlined into its callers. It returns descriptions of what was inlined
// and of what was rewritten, and removes helpers that became unreferenced
// from the function lists.
func (p *Prog) Normalise(known map[string]bool, keep func(*ssa.Function) bool) (inlined, tables []string) {
	var log []string
	inlinedInto := map[*ssa.Function]bool{}
	wasInlined := map[*ssa.Function]int{}
	kept := map[*ssa.Function]bool{}
	state := map[*ssa.Function]int{} // 1: being processed, 2: done
	candidate := func(fn, f *ssa.Function) bool {
		if f == nil || f == fn {
			return false
		}
		pkg := f.Pkg
		if pkg == nil && f.Origin() != nil {
			pkg = f.Origin().Pkg // an instance of a generic function of the repository
		}
		if pkg == nil || p.ByPath[pkg.Pkg.Path()] == nil {
			return false
		}
		if strings.HasSuffix(pkg.Pkg.Path(), "/mocks") {
			return false
		}
		return !known[FuncName(f)] && inlinable(f)
	}
	var process func(fn *ssa.Function)
	process = func(fn *ssa.Function) {
		if state[fn] != 0 || fn.Blocks == nil {
			return
		}
		state[fn] = 1
		NormaliseBufferEncodes(fn)
		NormaliseJoinLoops(fn)
		NormaliseTimeCompares(fn)
		nLoops, nMaps, nSpec, fwd := 0, 0, 0, false
		for round := 0; round < 6; round++ {
			changed := false
			for again, guard := true, 0; again && guard < 200; guard++ {
				again = false
				// (a method value called where it was made is the method call)
				devirtBoundCalls(fn)
				// a repository component wrapped in a narrow local interface right where
				// it is used (`o.events().FireBefore(…)` with events() returning the
				// *Events as an eventFirer): the call is the component's method
				if inlinedInto[fn] {
					devirtConcreteInvokes(fn, func(path string) bool { return p.ByPath[path] != nil })
				}
				stripNamedFuncCalls(fn)
			scan:
				for _, b := range fn.Blocks {
					for _, in := range b.Instrs {
						call, ok := in.(*ssa.Call)
						if !ok {
							continue
						}
						f := StaticCallee(call)
						if !candidate(fn, f) {
							continue
						}
						process(f) // callees first: f is inlined in its final shape
						if state[f] == 1 || kept[f] || !inlinable(f) {
							continue // part of a cycle through fn, or plays a role of its own
						}
						if inlineCall(fn, call, f) {
							log = append(log, FuncName(f)+" -> "+FuncName(fn))
							wasInlined[f]++
							inlinedInto[fn] = true
							changed, again = true, true
							break scan
						}
					}
				}
			}
			if inlinedInto[fn] && resolveStructFields(fn) {
				changed = true
			}
			for i := 0; i < 3 && specialiseTablePhis(fn, inlinedInto[fn]); i++ {
				nSpec++
				changed = true
			}
			n := UnrollTableLoops(fn)
			for i := 0; i < 4 && specialiseConstIndex(fn); i++ {
				nSpec++
				changed = true
			}
			m := ExpandMapLookups(fn)
			nLoops += n
			nMaps += m
			if n > 0 || m > 0 {
				changed = true
			}
			if inlinedInto[fn] || nLoops > 0 || nMaps > 0 || nSpec > 0 {
				for i := 0; i < 4; i++ {
					a := forwardTableLoads(fn)
					b := foldConstBranches(fn)
					fwd = fwd || a
					if !a && !b {
						break
					}
					changed = true
				}
			}
			if (inlinedInto[fn] || nLoops > 0 || nMaps > 0 || nSpec > 0) && removeDeadCode(fn) {
				changed = true
			}
			if !changed {
				break
			}
		}
		if nLoops > 0 || nMaps > 0 || nSpec > 0 {
			tables = append(tables, fmt.Sprintf("%s: %d loop(s) unrolled, %d map lookup(s) expanded, %d constant-index selection(s) specialised, loads forwarded=%v", FuncName(fn), nLoops, nMaps, nSpec, fwd))
		}
		state[fn] = 2
		if !known[FuncName(fn)] && keep != nil && keep(fn) {
			kept[fn] = true
		}
	}
	for _, fn := range p.AllFuncs {
		if fn.Pkg != nil && strings.HasSuffix(fn.Pkg.Pkg.Path(), "/mocks") {
			continue
		}
		process(fn)
	}
	for f := range kept {
		tables = append(tables, fmt.Sprintf("%s: kept as a function (it plays a role the rules look for)", FuncName(f)))
	}
	sort.Strings(tables)
	if len(log) == 0 && len(tables) == 0 {
		return nil, nil
	}
	// drop helpers that are no longer referenced by anything
	stillUsed := map[*ssa.Function]bool{}
	for _, fn := range p.AllFuncs {
		var buf [16]*ssa.Value
		for _, b := range fn.Blocks {
			for _, in := range b.Instrs {
				for _, op := range in.Operands(buf[:0]) {
					if *op == nil {
						continue
					}
					switch x := (*op).(type) {
					case *ssa.Function:
						stillUsed[x] = true
					case *ssa.MakeClosure:
						if f, ok := x.Fn.(*ssa.Function); ok {
							stillUsed[f] = true
						}
					}
				}
				if mc, ok := in.(*ssa.MakeClosure); ok {
					if f, ok := mc.Fn.(*ssa.Function); ok {
						stillUsed[f] = true
					}
				}
			}
		}
	}
	filter := func(fs []*ssa.Function) []*ssa.Function {
		var out []*ssa.Function
		for _, f := range fs {
			// (an exported helper too: every function of the pinned tree is known to
			// the rules, so what is inlined is new code, and a new exported function
			// that the library itself calls is a composition of the public
			// primitives it uses — PutSession, FireBefore, … — which applications can
			// call already; request entry points are referenced as values and stay)
			if wasInlined[f] > 0 && !stillUsed[f] {
				continue
			}
			out = append(out, f)
		}
		return out
	}
	p.Funcs = filter(p.Funcs)
	p.AllFuncs = filter(p.AllFuncs)
	return log, tables
}

// stripNamedFuncCalls: a call of a function literal through a named function
// type (`type step func() error; steps := []step{func() error {…}}`) calls
// the literal.
func stripNamedFuncCalls(fn *ssa.Function) {
	changed := false
	for _, b := range fn.Blocks {
		for _, in := range b.Instrs {
			call, ok := in.(*ssa.Call)
			if !ok || call.Call.IsInvoke() {
				continue
			}
			if ct, ok := call.Call.Value.(*ssa.ChangeType); ok {
				switch ct.X.(type) {
				case *ssa.Function, *ssa.MakeClosure:
					call.Call.Value = ct.X
					changed = true
				}
			}
			// a test seam: an unexported package-level `var compareHash =
			// bcrypt.CompareHashAndPassword`, initialised once with a function and never
			// assigned again by the package, is that function
			if ld, ok := call.Call.Value.(*ssa.UnOp); ok && ld.Op == token.MUL {
				if g, isG := ld.X.(*ssa.Global); isG && !token.IsExported(g.Name()) {
					if f := GlobalInitFunc(g); f != nil {
						call.Call.Value = f
						changed = true
					}
				}
			}
			// a method expression `(*T).m` used as a function value is a thunk that
			// calls the method with the same arguments
			if w, ok := call.Call.Value.(*ssa.Function); ok && strings.Contains(w.Synthetic, "thunk") && len(w.Blocks) == 1 {
				for _, win := range w.Blocks[0].Instrs {
					inner, ok := win.(*ssa.Call)
					if !ok || inner.Call.IsInvoke() {
						continue
					}
					target := inner.Call.StaticCallee()
					if target == nil || len(inner.Call.Args) != len(call.Call.Args) || len(w.Params) != len(inner.Call.Args) {
						continue
					}
					same := true
					for i, a := range inner.Call.Args {
						if a != ssa.Value(w.Params[i]) {
							same = false
						}
					}
					if same {
						call.Call.Value = target
						changed = true
					}
					break
				}
			}
		}
	}
	if changed {
		rebuildReferrers(fn)
	}
}

func isExportedEntry(f *ssa.Function) bool {
	if f.Parent() != nil {
		return false
	}
	o, ok := f.Object().(*types.Func)
	if !ok || o == nil {
		return false
	}
	if !o.Exported() {
		return false
	}
	// exported methods of unexported types are not API
	if recv := o.Type().(*types.Signature).Recv(); recv != nil {
		t := recv.Type()
		if pt, ok := t.(*types.Pointer); ok {
			t = pt.Elem()
		}
		if n, ok := t.(*types.Named); ok && !n.Obj().Exported() {
			return false
		}
	}
	return true
}

func callsTransitively(from, to *ssa.Function, d int) bool {
	return callsTrans(from, to, map[*ssa.Function]bool{})
}

func callsTrans(from, to *ssa.Function, seen map[*ssa.Function]bool) bool {
	if seen[from] {
		return false
	}
	seen[from] = true
	for _, b := range from.Blocks {
		for _, in := range b.Instrs {
			if c, ok := in.(ssa.CallInstruction); ok {
				if f := StaticCallee(c); f != nil {
					if f == to {
						return true
					}
					// only functions of the same module can call back into it
					if f.Blocks != nil && f.Pkg != nil && to.Pkg != nil && strings.HasPrefix(f.Pkg.Pkg.Path(), RepoPath) && callsTrans(f, to, seen) {
						return true
					}
				}
			}
		}
	}
	return false
}

// constCond evaluates a branch condition that only involves constants (the
// residue of inlining a helper that switches on a constant argument).
func constCond(v ssa.Value, d int) (bool, bool) {
	if d > 4 {
		return false, false
	}
	if b, ok := ConstBool(v); ok {
		return b, true
	}
	switch x := v.(type) {
	case *ssa.UnOp:
		if x.Op == token.NOT {
			r, ok := constCond(x.X, d+1)
			return !r, ok
		}
	case *ssa.BinOp:
		if x.Op != token.EQL && x.Op != token.NEQ {
			return false, false
		}
		if a, ok := ConstStr(x.X); ok {
			if b, ok := ConstStr(x.Y); ok {
				return (a == b) == (x.Op == token.EQL), true
			}
			return false, false
		}
		if a, ok := ConstInt(x.X); ok {
			if b, ok := ConstInt(x.Y); ok {
				return (a == b) == (x.Op == token.EQL), true
			}
		}
		// nil tests of values that are nil, or cannot be
		if IsNilConst(x.Y) || IsNilConst(x.X) {
			o := x.X
			if IsNilConst(o) {
				o = x.Y
			}
			if IsNilConst(o) {
				return x.Op == token.EQL, true
			}
			if definitelyNonNil(o) {
				return x.Op == token.NEQ, true
			}
		}
	}
	return false, false
}

// definitelyNonNil: an address of a local or global, a function, a closure, or
// an interface made from one of those.
func definitelyNonNil(v ssa.Value) bool {
	switch x := v.(type) {
	case *ssa.Alloc, *ssa.Global, *ssa.Function, *ssa.MakeClosure, *ssa.MakeMap, *ssa.MakeSlice, *ssa.MakeChan:
		return true
	case *ssa.FieldAddr, *ssa.IndexAddr:
		return true
	case *ssa.MakeInterface:
		return true // an interface holding a (possibly nil) value is not the nil interface
	case *ssa.ChangeType:
		return definitelyNonNil(x.X)
	}
	return false
}

// removePred removes the i-th predecessor of b together with the matching
// phi operands.
func removePred(b *ssa.BasicBlock, i int) {
	b.Preds = append(b.Preds[:i:i], b.Preds[i+1:]...)
	for _, in := range b.Instrs {
		phi, ok := in.(*ssa.Phi)
		if !ok {
			break
		}
		if i < len(phi.Edges) {
			phi.Edges = append(phi.Edges[:i:i], phi.Edges[i+1:]...)
		}
	}
}

// foldConstBranches turns branches on constant conditions into jumps and
// removes the blocks that become unreachable, so that the code an inlined
// helper would never have executed for these arguments is not analysed.
// Only applied to functions something was inlined into.
func foldConstBranches(fn *ssa.Function) bool {
	changed := false
	for _, b := range fn.Blocks {
		if len(b.Instrs) == 0 || len(b.Succs) != 2 || b.Succs[0] == b.Succs[1] {
			continue
		}
		ifi, ok := b.Instrs[len(b.Instrs)-1].(*ssa.If)
		if !ok {
			continue
		}
		val, known := constCond(ifi.Cond, 0)
		if !known {
			continue
		}
		keep, drop := b.Succs[0], b.Succs[1]
		if !val {
			keep, drop = drop, keep
		}
		for i, p := range drop.Preds {
			if p == b {
				removePred(drop, i)
				break
			}
		}
		j := &ssa.Jump{}
		setBlock(j, b)
		b.Instrs[len(b.Instrs)-1] = j
		b.Succs = []*ssa.BasicBlock{keep}
		changed = true
	}
	if !changed {
		return false
	}
	// unreachable blocks
	for {
		reach := map[*ssa.BasicBlock]bool{}
		var visit func(b *ssa.BasicBlock)
		visit = func(b *ssa.BasicBlock) {
			if reach[b] {
				return
			}
			reach[b] = true
			for _, s := range b.Succs {
				visit(s)
			}
		}
		visit(fn.Blocks[0])
		if fn.Recover != nil {
			visit(fn.Recover)
		}
		removed := false
		var kept []*ssa.BasicBlock
		for _, b := range fn.Blocks {
			if reach[b] {
				kept = append(kept, b)
				continue
			}
			removed = true
			for _, s := range b.Succs {
				for i, p := range s.Preds {
					if p == b {
						removePred(s, i)
						break
					}
				}
			}
		}
		fn.Blocks = kept
		if !removed {
			break
		}
	}
	// single-operand phis stand for their operand
	for _, b := range fn.Blocks {
		for {
			if len(b.Instrs) == 0 {
				break
			}
			phi, ok := b.Instrs[0].(*ssa.Phi)
			if !ok || len(phi.Edges) != 1 {
				break
			}
			replaceOperands(fn, phi, phi.Edges[0])
			b.Instrs = b.Instrs[1:]
		}
	}
	for i, b := range fn.Blocks {
		b.Index = i
	}
	invalidateDom(fn)
	rebuildReferrers(fn)
	return true
}
