package engine

import (
	"go/token"
	"go/types"

	"golang.org/x/tools/go/ssa"
	"golang.org/x/tools/go/ssa/ssautil"
)

// Literal tables. A clean-up that replaces a run of similar statements by a
// loop over a table (an array or slice literal, local or package-level, of
// scalars or of small structs) moves the facts a rule needs out of the control
// flow and into data. RowValues reads them back: given the value a loop body
// uses for "this row" (or one field of it), it returns the value each row of
// the literal holds there.

// tableOf finds the table an element address or element value belongs to:
// the backing array alloc / global, whether reached directly, through a
// slice of it, or through a loaded copy of a package-level array.
func tableOf(v ssa.Value) ssa.Value {
	for i := 0; i < 6; i++ {
		switch x := v.(type) {
		case *ssa.Slice:
			v = x.X
		case *ssa.UnOp:
			// a copy of a package-level array (range over an array value)
			if g, ok := x.X.(*ssa.Global); ok {
				return g
			}
			if a, ok := x.X.(*ssa.Alloc); ok {
				return a
			}
			return nil
		case *ssa.Alloc, *ssa.Global:
			return v
		default:
			return nil
		}
	}
	return nil
}

// elementStores lists, per constant row index, the stores that initialise
// the rows of table (in the function for local literals, in the package
// initialiser for package-level ones): either whole-row stores or stores to
// fields of the row.
type rowInit struct {
	whole  ssa.Value         // value stored as the whole row (scalar tables, or a struct built elsewhere)
	fields map[int]ssa.Value // per field index
}

func rowInits(table ssa.Value) map[int64]*rowInit {
	out := map[int64]*rowInit{}
	if !tableImmutable(table) {
		return out
	}
	get := func(i int64) *rowInit {
		if out[i] == nil {
			out[i] = &rowInit{fields: map[int]ssa.Value{}}
		}
		return out[i]
	}
	var fns []*ssa.Function
	switch t := table.(type) {
	case *ssa.Alloc:
		fns = []*ssa.Function{t.Parent()}
	case *ssa.Global:
		if f := t.Pkg.Func("init"); f != nil {
			fns = []*ssa.Function{f}
		}
	}
	for _, fn := range fns {
		for _, b := range fn.Blocks {
			for _, in := range b.Instrs {
				st, ok := in.(*ssa.Store)
				if !ok {
					continue
				}
				addr := st.Addr
				field := -1
				if fa, ok := addr.(*ssa.FieldAddr); ok {
					addr, field = fa.X, fa.Field
				}
				ia, ok := addr.(*ssa.IndexAddr)
				if !ok {
					continue
				}
				base := tableOf(ia.X)
				if base == nil {
					// a local literal later stored into the global as a whole
					continue
				}
				if base != table {
					// package-level slices are initialised through a hidden local array
					if g, isG := table.(*ssa.Global); isG {
						if a, isA := base.(*ssa.Alloc); isA && feedsGlobal(a, g) {
							// fall through
						} else {
							continue
						}
					} else {
						continue
					}
				}
				idx, isC := ConstInt(ia.Index)
				if !isC {
					continue
				}
				if field >= 0 {
					get(idx).fields[field] = st.Val
					continue
				}
				// whole row: a scalar, or a struct literal built in a local cell and copied in
				ri := get(idx)
				ri.whole = st.Val
				if ld, isLd := st.Val.(*ssa.UnOp); isLd {
					if cell, isA := ld.X.(*ssa.Alloc); isA && cell.Referrers() != nil {
						for _, ref := range *cell.Referrers() {
							if fa, isFA := ref.(*ssa.FieldAddr); isFA && fa.Referrers() != nil {
								for _, rr := range *fa.Referrers() {
									if s2, isS := rr.(*ssa.Store); isS && s2.Addr == ssa.Value(fa) {
										ri.fields[fa.Field] = s2.Val
									}
								}
							}
						}
					}
				}
			}
		}
	}
	return out
}

func feedsGlobal(a *ssa.Alloc, g *ssa.Global) bool {
	if a.Referrers() == nil {
		return false
	}
	for _, ref := range *a.Referrers() {
		if sl, ok := ref.(*ssa.Slice); ok && sl.Referrers() != nil {
			for _, rr := range *sl.Referrers() {
				if st, ok := rr.(*ssa.Store); ok && st.Addr == ssa.Value(g) {
					return true
				}
			}
		}
	}
	return false
}

// RowValues: v is "the current row" of a literal table, or one field of it,
// as seen inside a loop over the table. Returns the table and, in row order,
// the value each row holds there; nil when v is not of that shape or a row is
// not initialised by a recognisable store.
func RowValues(v ssa.Value) (ssa.Value, []ssa.Value) {
	field := -1
	var elem ssa.Value // the element (address or value) being read
	switch x := v.(type) {
	case *ssa.Index: // array value indexed
		elem = x
	case *ssa.Field:
		field, elem = x.Field, x.X
	case *ssa.UnOp:
		switch a := x.X.(type) {
		case *ssa.IndexAddr:
			elem = a
		case *ssa.FieldAddr:
			field, elem = a.Field, a.X
		default:
			return nil, nil
		}
	default:
		return nil, nil
	}
	// elem: IndexAddr(table, i) | Index(tableValue, i) | load of those | the loop variable cell
	var table ssa.Value
	for i := 0; i < 4 && table == nil; i++ {
		switch e := elem.(type) {
		case *ssa.IndexAddr:
			table = tableOf(e.X)
			if table == nil {
				return nil, nil
			}
		case *ssa.Index:
			table = tableOf(e.X)
			if table == nil {
				return nil, nil
			}
		case *ssa.UnOp:
			elem = e.X
		case *ssa.Alloc:
			// the range variable: a cell each row is copied into
			var src ssa.Value
			n := 0
			if e.Referrers() != nil {
				for _, ref := range *e.Referrers() {
					if st, ok := ref.(*ssa.Store); ok && st.Addr == ssa.Value(e) {
						src = st.Val
						n++
					}
				}
			}
			if n != 1 {
				return nil, nil
			}
			elem = src
		default:
			return nil, nil
		}
	}
	if table == nil {
		return nil, nil
	}
	inits := rowInits(table)
	if len(inits) == 0 {
		return nil, nil
	}
	rows := make([]ssa.Value, len(inits))
	for i := range rows {
		ri := inits[int64(i)]
		if ri == nil {
			return nil, nil
		}
		if field < 0 {
			if ri.whole == nil {
				return nil, nil
			}
			rows[i] = ri.whole
		} else {
			val, ok := ri.fields[field]
			if !ok {
				return nil, nil
			}
			rows[i] = val
		}
	}
	return table, rows
}

var (
	immutableCache = map[ssa.Value]bool{}
	progFuncs      map[*ssa.Program][]*ssa.Function
)

// rootOfAddr follows an address back through element and field selections,
// slices and loads of slice headers to the alloc or global it points into.
func rootOfAddr(v ssa.Value) ssa.Value {
	for i := 0; i < 8; i++ {
		switch x := v.(type) {
		case *ssa.IndexAddr:
			v = x.X
		case *ssa.FieldAddr:
			v = x.X
		case *ssa.Slice:
			v = x.X
		case *ssa.UnOp:
			// only a loaded slice header still points into the table; a loaded
			// element or array copy does not
			if _, isSlice := x.Type().Underlying().(*types.Slice); !isSlice || x.Op != token.MUL {
				return nil
			}
			switch x.X.(type) {
			case *ssa.Global, *ssa.Alloc:
				v = x.X
			default:
				return nil
			}
		case *ssa.Alloc, *ssa.Global:
			return v
		default:
			return nil
		}
	}
	return nil
}

// tableImmutable: the table is written only by its initialiser — every row
// (and field of a row) is stored once at a constant index, nothing stores at a
// computed index, and the table is not handed to code that could write it
// (a call argument, a closure, append).
func tableImmutable(table ssa.Value) bool {
	if r, ok := immutableCache[table]; ok {
		return r
	}
	r := tableImmutableUncached(table)
	immutableCache[table] = r
	return r
}

func tableImmutableUncached(table ssa.Value) bool {
	var fns []*ssa.Function
	var initFn *ssa.Function
	switch t := table.(type) {
	case *ssa.Alloc:
		initFn = t.Parent()
		fns = []*ssa.Function{initFn}
		for _, a := range initFn.AnonFuncs {
			fns = append(fns, a)
		}
	case *ssa.Global:
		initFn = t.Pkg.Func("init")
		prog := t.Pkg.Prog
		if progFuncs == nil {
			progFuncs = map[*ssa.Program][]*ssa.Function{}
		}
		if progFuncs[prog] == nil {
			for f := range ssautil.AllFunctions(prog) {
				progFuncs[prog] = append(progFuncs[prog], f)
			}
		}
		for _, f := range progFuncs[prog] {
			if f.Pkg == t.Pkg || (f.Pkg == nil && f.Parent() != nil) {
				fns = append(fns, f)
			}
		}
	default:
		return false
	}
	type key struct {
		idx   int64
		field int
	}
	seen := map[key]int{}
	wholeStores := 0
	for _, fn := range fns {
		for _, b := range fn.Blocks {
			for _, in := range b.Instrs {
				switch x := in.(type) {
				case *ssa.Store:
					if x.Addr == table {
						// the global assigned as a whole: once, in init
						if fn != initFn {
							return false
						}
						wholeStores++
						continue
					}
					root := rootOfAddr(x.Addr)
					if root == nil {
						continue
					}
					same := root == table
					if !same {
						if g, isG := table.(*ssa.Global); isG {
							if a, isA := root.(*ssa.Alloc); isA && fn == initFn && feedsGlobal(a, g) {
								same = true
							}
						}
					}
					if !same {
						continue
					}
					if fn != initFn {
						return false
					}
					addr := x.Addr
					field := -1
					if fa, ok := addr.(*ssa.FieldAddr); ok {
						addr, field = fa.X, fa.Field
					}
					ia, ok := addr.(*ssa.IndexAddr)
					if !ok {
						return false
					}
					k, isC := ConstInt(ia.Index)
					if !isC {
						return false
					}
					seen[key{k, field}]++
					if seen[key{k, field}] > 1 {
						return false
					}
				case ssa.CallInstruction:
					// the table (or a slice of it) handed to other code
					for _, a := range x.Common().Args {
						if r := rootOfAddr(a); r != nil && r == table {
							if bi, isB := x.Common().Value.(*ssa.Builtin); isB && (bi.Name() == "len" || bi.Name() == "cap") {
								continue
							}
							return false
						}
					}
				case *ssa.MakeClosure:
					for _, bnd := range x.Bindings {
						if r := rootOfAddr(bnd); r != nil && r == table {
							return false
						}
					}
				}
			}
		}
	}
	if wholeStores > 1 {
		return false
	}
	return true
}
