package engine

import (
	"go/constant"
	"go/token"
	"go/types"

	"golang.org/x/tools/go/ssa"
)

// Unrolling of loops over literal tables.
//
// A clean-up that turns a run of similar statements ("register this route",
// "hook that event", "check this requirement") into a loop over a small
// literal table moves what the rules read — which handler, which wrapper,
// which constant — from the control flow into data. Together with the
// forwarding of loads from such tables (forwardTableLoads) and the folding of
// branches on constants (foldConstBranches), unrolling turns the loop back
// into the straight-line code it replaced, so that the rules see one program
// shape. Only `for i, x := range <array or slice of statically known length>`
// loops (go/ssa's rangeindex shape) with at most maxUnroll iterations whose
// body does not define values used after the loop are unrolled.

const maxUnroll = 16

type tableLoop struct {
	header *ssa.BasicBlock
	idx    *ssa.Phi   // -1, next
	next   *ssa.BinOp // idx + 1
	cond   *ssa.BinOp // next < n
	n      int64
	body   *ssa.BasicBlock // successor taken while cond holds
	done   *ssa.BasicBlock
	blocks map[*ssa.BasicBlock]bool // loop blocks including header
	// counted `for i := a; i cmp b; i += c` loops: the values idx takes on entry
	// to iteration 0..n (next is nil for them)
	idxVals []int64
	// body values used behind an exit block, which gets a phi for them
	repairAt map[ssa.Value]*ssa.BasicBlock
}

func findTableLoop(fn *ssa.Function) *tableLoop {
	for _, h := range fn.Blocks {
		if len(h.Instrs) < 3 || len(h.Succs) != 2 {
			continue
		}
		ifi, ok := h.Instrs[len(h.Instrs)-1].(*ssa.If)
		if !ok {
			continue
		}
		cond, ok := ifi.Cond.(*ssa.BinOp)
		if !ok || cond.Op != token.LSS || cond.Block() != h {
			continue
		}
		next, ok := cond.X.(*ssa.BinOp)
		if !ok || next.Op != token.ADD || next.Block() != h {
			continue
		}
		if k, ok := ConstInt(next.Y); !ok || k != 1 {
			continue
		}
		idx, ok := next.X.(*ssa.Phi)
		if !ok || idx.Block() != h {
			continue
		}
		// idx = phi [outside: -1, inside: next]
		okPhi := true
		nOutside := 0
		for i, e := range idx.Edges {
			if e == ssa.Value(next) {
				continue
			}
			if k, isC := ConstInt(e); isC && k == -1 {
				nOutside++
				_ = i
				continue
			}
			okPhi = false
		}
		if !okPhi || nOutside != 1 {
			continue
		}
		var n int64
		if k, isC := ConstInt(cond.Y); isC {
			n = k
		} else if call, isCall := cond.Y.(*ssa.Call); isCall {
			b, isB := call.Call.Value.(*ssa.Builtin)
			if !isB || b.Name() != "len" || len(call.Call.Args) != 1 {
				continue
			}
			l, okL := staticLen(call.Call.Args[0])
			if !okL {
				continue
			}
			n = l
		} else {
			continue
		}
		if n == 0 {
			// a loop over a list known to be empty (no variadic arguments, the nil
			// alternative of a conditionally assembled list): its condition is false
			// from the start; folding the branch removes the body
			replaceOperands(fn, cond, ssa.NewConst(constant.MakeBool(false), cond.Type()))
			rebuildReferrers(fn)
			foldConstBranches(fn)
			return findTableLoop(fn)
		}
		if n < 1 || n > maxUnroll {
			continue
		}
		tl := &tableLoop{header: h, idx: idx, next: next, cond: cond, n: n}
		if !tl.finish(fn) {
			continue
		}
		return tl
	}
	return findCountedLoop(fn)
}

// finish computes the natural loop of tl.header and checks that it can be
// unrolled.
func (tl *tableLoop) finish(fn *ssa.Function) bool {
	h := tl.header
	for once := true; once; once = false {
		// natural loop
		blocks := map[*ssa.BasicBlock]bool{h: true}
		var work []*ssa.BasicBlock
		for _, p := range h.Preds {
			if Dominates(h, p) && p != h {
				if !blocks[p] {
					blocks[p] = true
					work = append(work, p)
				}
			}
		}
		if len(work) == 0 {
			continue
		}
		for len(work) > 0 {
			b := work[len(work)-1]
			work = work[:len(work)-1]
			for _, p := range b.Preds {
				if !blocks[p] {
					blocks[p] = true
					work = append(work, p)
				}
			}
		}
		if len(blocks) > 40 {
			continue
		}
		// exactly one predecessor of the header outside the loop
		outside := 0
		for _, p := range h.Preds {
			if !blocks[p] {
				outside++
			}
		}
		if outside != 1 || !blocks[h.Succs[0]] || blocks[h.Succs[1]] {
			continue
		}
		tl.body, tl.done, tl.blocks = h.Succs[0], h.Succs[1], blocks
		if !tl.closed(fn) {
			continue
		}
		return true
	}
	return false
}

// evalInt: the value of an integer expression made of constants, len() of
// lists of statically known length, and + and - of such.
func evalInt(v ssa.Value, depth int) (int64, bool) {
	if depth > 4 {
		return 0, false
	}
	if k, ok := ConstInt(v); ok {
		return k, true
	}
	switch x := v.(type) {
	case *ssa.Call:
		if b, isB := x.Call.Value.(*ssa.Builtin); isB && b.Name() == "len" && len(x.Call.Args) == 1 {
			return staticLen(x.Call.Args[0])
		}
	case *ssa.BinOp:
		a, okA := evalInt(x.X, depth+1)
		b, okB := evalInt(x.Y, depth+1)
		if okA && okB {
			switch x.Op {
			case token.ADD:
				return a + b, true
			case token.SUB:
				return a - b, true
			}
		}
	case *ssa.Convert:
		return evalInt(x.X, depth+1)
	}
	return 0, false
}

// findCountedLoop: `for i := a; i cmp b; i += c` with a, b, c statically
// known (a list walked backwards, or by index) and at most maxUnroll rounds.
func findCountedLoop(fn *ssa.Function) *tableLoop {
	for _, h := range fn.Blocks {
		if len(h.Instrs) < 3 || len(h.Succs) != 2 {
			continue
		}
		ifi, ok := h.Instrs[len(h.Instrs)-1].(*ssa.If)
		if !ok {
			continue
		}
		cond, ok := ifi.Cond.(*ssa.BinOp)
		if !ok || cond.Block() != h {
			continue
		}
		idx, ok := cond.X.(*ssa.Phi)
		if !ok || idx.Block() != h || len(idx.Edges) != 2 {
			continue
		}
		bound, ok := evalInt(cond.Y, 0)
		if !ok {
			continue
		}
		var init, step int64
		okInit, okStep := false, false
		for _, e := range idx.Edges {
			if b, isB := e.(*ssa.BinOp); isB && b.X == ssa.Value(idx) && (b.Op == token.ADD || b.Op == token.SUB) {
				if k, isC := ConstInt(b.Y); isC && k != 0 {
					step, okStep = k, true
					if b.Op == token.SUB {
						step = -k
					}
					continue
				}
			}
			if k, isK := evalInt(e, 0); isK {
				init, okInit = k, true
			}
		}
		if !okInit || !okStep {
			continue
		}
		holds := func(i int64) bool {
			switch cond.Op {
			case token.LSS:
				return i < bound
			case token.LEQ:
				return i <= bound
			case token.GTR:
				return i > bound
			case token.GEQ:
				return i >= bound
			case token.NEQ:
				return i != bound
			}
			return false
		}
		switch cond.Op {
		case token.LSS, token.LEQ, token.GTR, token.GEQ, token.NEQ:
		default:
			continue
		}
		var vals []int64
		i := init
		for len(vals) <= maxUnroll+1 {
			vals = append(vals, i)
			if !holds(i) {
				break
			}
			i += step
		}
		n := int64(len(vals) - 1)
		if holds(vals[len(vals)-1]) || n > maxUnroll {
			continue
		}
		if n == 0 {
			replaceOperands(fn, cond, ssa.NewConst(constant.MakeBool(false), cond.Type()))
			rebuildReferrers(fn)
			foldConstBranches(fn)
			return findTableLoop(fn)
		}
		tl := &tableLoop{header: h, idx: idx, cond: cond, n: n, idxVals: vals}
		if !tl.finish(fn) {
			continue
		}
		return tl
	}
	return nil
}

// closed: header instructions other than phis, next, cond and the If are
// absent, and every use outside the loop of a value defined in the loop body
// can be repaired: it is either an operand of a phi in an exit block on the
// edge from the loop (re-created per iteration), or lies behind exactly one
// exit block, which then receives a phi merging the per-iteration copies
// (recorded in tl.repairAt).
func (tl *tableLoop) closed(fn *ssa.Function) bool {
	for _, in := range tl.header.Instrs {
		switch x := in.(type) {
		case *ssa.Phi, *ssa.If:
		case *ssa.BinOp:
			if (tl.next == nil || x != tl.next) && x != tl.cond {
				return false
			}
		case *ssa.DebugRef:
		default:
			return false
		}
	}
	tl.repairAt = map[ssa.Value]*ssa.BasicBlock{}
	exits := map[*ssa.BasicBlock]bool{}
	for b := range tl.blocks {
		for _, s := range b.Succs {
			if !tl.blocks[s] {
				exits[s] = true
			}
		}
	}
	for b := range tl.blocks {
		if b == tl.header {
			continue
		}
		for _, in := range b.Instrs {
			v, ok := in.(ssa.Value)
			if !ok || v.Referrers() == nil {
				continue
			}
			for _, ref := range *v.Referrers() {
				if tl.blocks[ref.Block()] {
					continue
				}
				// where the value has to be available
				var at []*ssa.BasicBlock
				if phi, isPhi := ref.(*ssa.Phi); isPhi {
					for i, e := range phi.Edges {
						if e != v {
							continue
						}
						pred := phi.Block().Preds[i]
						if tl.blocks[pred] {
							if !exits[phi.Block()] {
								return false
							}
							continue // re-created per iteration
						}
						at = append(at, pred)
					}
				} else {
					at = append(at, ref.Block())
				}
				for _, ub := range at {
					var x *ssa.BasicBlock
					for e := range exits {
						if e != tl.done && Dominates(e, ub) {
							if x != nil && x != e {
								// nested: take the one closer to the loop
								if Dominates(x, e) {
									continue
								}
							}
							x = e
						}
					}
					if x == nil {
						return false
					}
					for _, p := range x.Preds {
						if !tl.blocks[p] {
							return false
						}
					}
					if prev, ok := tl.repairAt[v]; ok && prev != x {
						return false
					}
					tl.repairAt[v] = x
				}
			}
		}
	}
	return true
}

func intConst(k int64, like ssa.Value) *ssa.Const {
	return ssa.NewConst(constant.MakeInt64(k), like.Type())
}

// unrollOne unrolls the loop; returns false if it declined.
func unrollOne(fn *ssa.Function, tl *tableLoop) bool {
	h := tl.header
	var pre *ssa.BasicBlock
	preIdx := -1
	for i, p := range h.Preds {
		if !tl.blocks[p] {
			pre, preIdx = p, i
		}
	}
	// header phis other than idx
	var carried []*ssa.Phi
	for _, in := range h.Instrs {
		if p, ok := in.(*ssa.Phi); ok && p != tl.idx {
			carried = append(carried, p)
		}
	}
	// loop blocks in function order (without the header)
	var loopBlocks []*ssa.BasicBlock
	for _, b := range fn.Blocks {
		if tl.blocks[b] && b != h {
			loopBlocks = append(loopBlocks, b)
		}
	}
	// latches: predecessors of h inside the loop, with their phi operand index
	type latch struct {
		b   *ssa.BasicBlock
		idx int
	}
	var latches []latch
	for i, p := range h.Preds {
		if tl.blocks[p] {
			latches = append(latches, latch{p, i})
		}
	}
	var buf [16]*ssa.Value
	remap := func(in ssa.Instruction, vmap map[ssa.Value]ssa.Value) {
		for _, op := range in.Operands(buf[:0]) {
			if *op == nil {
				continue
			}
			if r, ok := vmap[*op]; ok {
				*op = r
			}
		}
	}
	var newBlocks []*ssa.BasicBlock
	// the values the carried phis have on entry to iteration k
	entryVals := map[*ssa.Phi]ssa.Value{}
	for _, p := range carried {
		entryVals[p] = p.Edges[preIdx]
	}
	type iter struct {
		head *ssa.BasicBlock // H_k
		bmap map[*ssa.BasicBlock]*ssa.BasicBlock
		vmap map[ssa.Value]ssa.Value
	}
	var iters []*iter
	prevTail := []*ssa.BasicBlock{pre} // blocks jumping into H_k
	var prevIter *iter
	for k := int64(0); k <= tl.n; k++ {
		hk := newBlock(fn, "unroll.head")
		it := &iter{head: hk, bmap: map[*ssa.BasicBlock]*ssa.BasicBlock{}, vmap: map[ssa.Value]ssa.Value{}}
		// carried values on entry
		if k == 0 {
			for _, p := range carried {
				it.vmap[p] = entryVals[p]
			}
			hk.Preds = []*ssa.BasicBlock{pre}
		} else {
			for _, l := range latches {
				hk.Preds = append(hk.Preds, prevIter.bmap[l.b])
			}
			for _, p := range carried {
				if len(latches) == 1 {
					v := p.Edges[latches[0].idx]
					if r, ok := prevIter.vmap[v]; ok {
						v = r
					}
					it.vmap[p] = v
					continue
				}
				np := &ssa.Phi{Comment: p.Comment}
				setUnexported(np, "typ", p.Type())
				setUnexported(np, "pos", p.Pos())
				setBlock(np, hk)
				for _, l := range latches {
					v := p.Edges[l.idx]
					if r, ok := prevIter.vmap[v]; ok {
						v = r
					}
					np.Edges = append(np.Edges, v)
				}
				hk.Instrs = append(hk.Instrs, np)
				it.vmap[p] = np
			}
		}
		if tl.next != nil {
			it.vmap[tl.idx] = intConst(k-1, tl.idx)
			it.vmap[tl.next] = intConst(k, tl.next)
		} else {
			it.vmap[tl.idx] = intConst(tl.idxVals[k], tl.idx)
		}
		it.vmap[tl.cond] = ssa.NewConst(constant.MakeBool(k < tl.n), tl.cond.Type())
		iters = append(iters, it)
		newBlocks = append(newBlocks, hk)
		if k == tl.n {
			// loop exit
			j := &ssa.Jump{}
			setBlock(j, hk)
			hk.Instrs = append(hk.Instrs, j)
			hk.Succs = []*ssa.BasicBlock{tl.done}
			break
		}
		// clone the body
		for _, b := range loopBlocks {
			nb := newBlock(fn, "unroll."+b.Comment)
			it.bmap[b] = nb
		}
		it.bmap[h] = nil // edges to the header are redirected below
		for _, b := range loopBlocks {
			nb := it.bmap[b]
			for _, in := range b.Instrs {
				ci := cloneInstr(in)
				setBlock(ci, nb)
				if v, ok := in.(ssa.Value); ok {
					it.vmap[v] = ci.(ssa.Value)
				}
				nb.Instrs = append(nb.Instrs, ci)
			}
		}
		for _, b := range loopBlocks {
			nb := it.bmap[b]
			for _, in := range nb.Instrs {
				remap(in, it.vmap)
			}
			for _, s := range b.Succs {
				switch {
				case s == h:
					nb.Succs = append(nb.Succs, nil) // patched when H_{k+1} exists
				case tl.blocks[s]:
					nb.Succs = append(nb.Succs, it.bmap[s])
				default:
					nb.Succs = append(nb.Succs, s) // leaves the loop
				}
			}
			for _, p := range b.Preds {
				switch {
				case p == h:
					nb.Preds = append(nb.Preds, hk)
				case tl.blocks[p]:
					nb.Preds = append(nb.Preds, it.bmap[p])
				}
			}
			newBlocks = append(newBlocks, nb)
		}
		j := &ssa.Jump{}
		setBlock(j, hk)
		hk.Instrs = append(hk.Instrs, j)
		hk.Succs = []*ssa.BasicBlock{it.bmap[tl.body]}
		// patch the previous iteration's edges into this head
		if prevIter != nil {
			for _, l := range latches {
				pb := prevIter.bmap[l.b]
				for si, s := range pb.Succs {
					if s == nil {
						pb.Succs[si] = hk
					}
				}
			}
		}
		prevIter = it
		_ = prevTail
	}
	// last body's latch edges go to the exit head
	last := iters[len(iters)-1]
	if len(iters) >= 2 {
		lastBody := iters[len(iters)-2]
		for _, l := range latches {
			pb := lastBody.bmap[l.b]
			for si, s := range pb.Succs {
				if s == nil {
					pb.Succs[si] = last.head
				}
			}
		}
	}
	// pre now jumps to H_0
	for si, s := range pre.Succs {
		if s == h {
			pre.Succs[si] = iters[0].head
		}
	}
	// blocks outside the loop: predecessors and phi operands
	outsideTargets := map[*ssa.BasicBlock]bool{}
	for b := range tl.blocks {
		for _, s := range b.Succs {
			if !tl.blocks[s] {
				outsideTargets[s] = true
			}
		}
	}
	repl := map[ssa.Value]ssa.Value{} // body value -> its repair phi
	repairSet := map[*ssa.Phi]bool{}
	type pendingPhi struct {
		phi  *ssa.Phi
		from []int                     // original predecessor index per new edge
		vm   []map[ssa.Value]ssa.Value // iteration map per new edge (nil: not from the loop)
	}
	var pending []pendingPhi
	var targets []*ssa.BasicBlock
	for _, b := range fn.Blocks {
		if outsideTargets[b] {
			targets = append(targets, b)
		}
	}
	for _, x := range targets {
		var newPreds []*ssa.BasicBlock
		var from []int
		var vms []map[ssa.Value]ssa.Value
		for i, p := range x.Preds {
			switch {
			case p == h:
				newPreds = append(newPreds, last.head)
				from = append(from, i)
				vms = append(vms, last.vmap)
			case tl.blocks[p]:
				for _, it := range iters[:len(iters)-1] {
					newPreds = append(newPreds, it.bmap[p])
					from = append(from, i)
					vms = append(vms, it.vmap)
				}
			default:
				newPreds = append(newPreds, p)
				from = append(from, i)
				vms = append(vms, nil)
			}
		}
		for _, in := range x.Instrs {
			phi, ok := in.(*ssa.Phi)
			if !ok {
				break
			}
			pending = append(pending, pendingPhi{phi, from, vms})
		}
		// phis for body values that are used behind this exit
		var repairs []ssa.Instruction
		for _, lb := range loopBlocks {
			for _, in := range lb.Instrs {
				v, ok := in.(ssa.Value)
				if !ok || tl.repairAt[v] != x {
					continue
				}
				var edges []ssa.Value
				for _, vm := range vms {
					edges = append(edges, vm[v])
				}
				np := newPhi(x, v.Type(), in.Pos(), "unroll."+v.Name(), edges)
				repairs = append(repairs, np)
				repairSet[np] = true
				repl[v] = np
			}
		}
		x.Instrs = append(repairs, x.Instrs...)
		x.Preds = newPreds
	}
	for _, pp := range pending {
		var edges []ssa.Value
		for i, fi := range pp.from {
			v := pp.phi.Edges[fi]
			if pp.vm[i] != nil {
				if r, ok := pp.vm[i][v]; ok {
					v = r
				}
			} else if r, ok := repl[v]; ok {
				v = r
			}
			edges = append(edges, v)
		}
		pp.phi.Edges = edges
	}
	// uses after the loop see the exit values of the header's phis and the
	// repair phis of body values
	pendingSet := map[*ssa.Phi]bool{}
	for _, pp := range pending {
		pendingSet[pp.phi] = true
	}
	for _, b := range fn.Blocks {
		if tl.blocks[b] {
			continue
		}
		for _, in := range b.Instrs {
			if phi, isPhi := in.(*ssa.Phi); isPhi {
				if pendingSet[phi] {
					continue // already remapped per edge
				}
				if repairSet[phi] {
					continue // a repair phi: its operands are the per-iteration copies
				}
			}
			remap(in, last.vmap)
			remap(in, repl)
		}
	}
	// splice
	var out []*ssa.BasicBlock
	for _, b := range fn.Blocks {
		if tl.blocks[b] {
			if b == h {
				out = append(out, newBlocks...)
			}
			continue
		}
		out = append(out, b)
	}
	fn.Blocks = out
	for i, b := range fn.Blocks {
		b.Index = i
	}
	invalidateDom(fn)
	rebuildReferrers(fn)
	return true
}

// UnrollTableLoops unrolls every eligible loop of fn (innermost candidates
// first as they are found); returns the number of loops unrolled.
func UnrollTableLoops(fn *ssa.Function) int {
	n := 0
	for i := 0; i < 8; i++ {
		tl := findTableLoop(fn)
		if tl == nil || !unrollOne(fn, tl) {
			break
		}
		n++
	}
	return n
}

// forwardTableLoads replaces reads of rows of local literal tables by the
// values the rows were initialised with, once the row index is a constant
// (after unrolling): `tbl[2].handler`, also through the cell a range
// statement copies each row into.
func forwardTableLoads(fn *ssa.Function) bool {
	changed := false
	rowOf := func(v ssa.Value) (ssa.Value, int64, bool) {
		// v: load of IndexAddr(table, const) | Index(tableValue, const)
		switch x := v.(type) {
		case *ssa.UnOp:
			if ia, ok := x.X.(*ssa.IndexAddr); ok && x.Op == token.MUL {
				if k, isC := ConstInt(ia.Index); isC {
					if t := tableOf(ia.X); t != nil {
						return t, k, true
					}
				}
			}
		case *ssa.Index:
			if k, isC := ConstInt(x.Index); isC {
				if t := tableOf(x.X); t != nil {
					return t, k, true
				}
			}
		}
		return nil, 0, false
	}
	usable := func(table, v ssa.Value) bool {
		if v == nil {
			return false
		}
		if _, isG := table.(*ssa.Global); isG {
			switch v.(type) {
			case *ssa.Const, *ssa.Function, *ssa.Global:
				return true
			}
			return false
		}
		return true
	}
	// the store that reaches a load of a local cell: the closest store that
	// dominates the load, provided no other store to the cell lies between
	reaches := func(from, to *ssa.BasicBlock) bool {
		seen := map[*ssa.BasicBlock]bool{}
		work := []*ssa.BasicBlock{from}
		for len(work) > 0 {
			x := work[len(work)-1]
			work = work[:len(work)-1]
			for _, s := range x.Succs {
				if s == to {
					return true
				}
				if !seen[s] {
					seen[s] = true
					work = append(work, s)
				}
			}
		}
		return false
	}
	posIn := func(in ssa.Instruction) int {
		for i, x := range in.Block().Instrs {
			if x == in {
				return i
			}
		}
		return -1
	}
	before := func(a, b ssa.Instruction) bool { // a dominates b
		if a.Block() == b.Block() {
			return posIn(a) < posIn(b)
		}
		return Dominates(a.Block(), b.Block())
	}
	reaching := func(cell *ssa.Alloc, at ssa.Instruction) *ssa.Store {
		if cell.Referrers() == nil {
			return nil
		}
		var stores []*ssa.Store
		for _, ref := range *cell.Referrers() {
			switch x := ref.(type) {
			case *ssa.Store:
				if x.Addr == ssa.Value(cell) {
					stores = append(stores, x)
				}
			case *ssa.UnOp:
			case *ssa.FieldAddr:
				if x.Referrers() != nil {
					for _, rr := range *x.Referrers() {
						if _, isLoad := rr.(*ssa.UnOp); !isLoad {
							return nil // a field of the cell is written or its address kept
						}
					}
				}
			default:
				return nil // the cell's address goes elsewhere
			}
		}
		var best *ssa.Store
		for _, st := range stores {
			if before(st, at) && (best == nil || before(best, st)) {
				best = st
			}
		}
		if best == nil {
			return nil
		}
		for _, st := range stores {
			if st == best {
				continue
			}
			// another store between best and the load?
			if st.Block() == at.Block() && posIn(st) < posIn(at) && !(best.Block() == at.Block()) {
				return nil
			}
			if before(best, st) && st.Block() != at.Block() && reaches(st.Block(), at.Block()) {
				return nil
			}
			if !before(best, st) && !before(st, best) {
				// unordered with best: may reach through a join
				if st.Block() == at.Block() || reaches(st.Block(), at.Block()) {
					return nil
				}
			}
		}
		return best
	}
	inits := map[ssa.Value]map[int64]*rowInit{}
	get := func(t ssa.Value) map[int64]*rowInit {
		if m, ok := inits[t]; ok {
			return m
		}
		m := rowInits(t)
		inits[t] = m
		return m
	}
	for _, b := range fn.Blocks {
		for _, in := range b.Instrs {
			switch x := in.(type) {
			case *ssa.UnOp:
				if x.Op != token.MUL {
					continue
				}
				// scalar row
				if t, k, ok := rowOf(x); ok {
					if ri := get(t)[k]; ri != nil && ri.whole != nil && len(ri.fields) == 0 && usable(t, ri.whole) {
						if _, isStruct := x.Type().Underlying().(*types.Struct); !isStruct {
							replaceOperands(fn, x, ri.whole)
							changed = true
						}
					}
					continue
				}
				// field of a row, directly or through the range variable's cell
				fa, ok := x.X.(*ssa.FieldAddr)
				if !ok {
					continue
				}
				var t ssa.Value
				var k int64
				found := false
				switch base := fa.X.(type) {
				case *ssa.IndexAddr:
					if kk, isC := ConstInt(base.Index); isC {
						if tt := tableOf(base.X); tt != nil {
							t, k, found = tt, kk, true
						}
					}
				case *ssa.Alloc:
					if st := reaching(base, x); st != nil {
						t, k, found = rowOf(st.Val)
					}
				}
				if !found {
					continue
				}
				if ri := get(t)[k]; ri != nil {
					if v, ok := ri.fields[fa.Field]; ok && usable(t, v) {
						replaceOperands(fn, x, v)
						changed = true
					}
				}
			case *ssa.Index:
				// scalar row of an array value
				if t, k, ok := rowOf(x); ok {
					if ri := get(t)[k]; ri != nil && ri.whole != nil && len(ri.fields) == 0 && usable(t, ri.whole) {
						if _, isStruct := x.Type().Underlying().(*types.Struct); !isStruct {
							replaceOperands(fn, x, ri.whole)
							changed = true
						}
					}
				}
			case *ssa.Field:
				if t, k, ok := rowOf(x.X); ok {
					if ri := get(t)[k]; ri != nil {
						if v, ok := ri.fields[x.Field]; ok && usable(t, v) {
							replaceOperands(fn, x, v)
							changed = true
						}
					}
				}
			}
		}
	}
	if changed {
		rebuildReferrers(fn)
	}
	return changed
}
