package engine

import (
	"fmt"
	"go/token"
	"go/types"

	"golang.org/x/tools/go/ssa"
)

// Specialisation of a function's tail to the literal table chosen.
//
// `mws := []mw{auth}; if flag { mws = []mw{verify, auth} }; route(h, mws...)`
// selects between literal tables by control flow and then loops over the
// selection. At the join the table is a phi; the loops behind it cannot be
// unrolled and the rows cannot be read off. cloneRegionPerPred gives every
// way of arriving at the join its own copy of everything the join dominates,
// with the join's phis replaced by what that predecessor contributes — the
// program the developer would have written with the `if` around the
// registrations. Done only for joins outside loops, with few predecessors and
// a bounded region.

const maxRegionInstrs = 900

// specialiseTablePhis finds a slice-typed phi all of whose operands are
// immutable literal tables of known length (and not all the same) and
// specialises the phi's dominance region per predecessor.
func specialiseTablePhis(fn *ssa.Function, optional bool) bool {
	for _, J := range fn.Blocks {
		if len(J.Preds) < 2 || len(J.Preds) > 4 {
			continue
		}
		found := false
		for _, in := range J.Instrs {
			phi, ok := in.(*ssa.Phi)
			if !ok {
				break
			}
			if _, isSl := phi.Type().Underlying().(*types.Slice); !isSl {
				continue
			}
			all, distinct := true, false
			for _, e := range phi.Edges {
				if IsNilConst(e) {
					if e != phi.Edges[0] {
						distinct = true
					}
					continue
				}
				t := tableOf(e)
				if t == nil || !tableImmutable(t) {
					all = false
					break
				}
				if _, ok := staticLen(e); !ok {
					all = false
					break
				}
				if e != phi.Edges[0] {
					distinct = true
				}
			}
			if all && distinct && phiFeedsLoop(phi) {
				found = true
				break
			}
		}
		// an optional component: nil on one way of arriving, a component that
		// cannot be nil on another, and tested against nil further down
		// (`guard.emailVerify = &ev` under the flag; `if guard.emailVerify == nil`
		// when the routes are wrapped)
		if !found && optional {
			for _, in := range J.Instrs {
				phi, ok := in.(*ssa.Phi)
				if !ok {
					break
				}
				switch phi.Type().Underlying().(type) {
				case *types.Pointer, *types.Signature, *types.Interface:
				default:
					continue
				}
				hasNil, hasVal, other := false, false, false
				for _, e := range phi.Edges {
					switch {
					case IsNilConst(e):
						hasNil = true
					case definitelyNonNil(e):
						hasVal = true
					default:
						other = true
					}
				}
				if !hasNil || !hasVal || other || phi.Referrers() == nil {
					continue
				}
				for _, ref := range *phi.Referrers() {
					if bo, ok := ref.(*ssa.BinOp); ok && (bo.Op == token.EQL || bo.Op == token.NEQ) && (IsNilConst(bo.X) || IsNilConst(bo.Y)) {
						found = true
					}
				}
				if found {
					break
				}
			}
		}
		// a function chosen by control flow and called behind the join: `wrap :=
		// plain.wrap; if flag { wrap = verified.wrap }; route(wrap(h))` — each way of
		// arriving calls one known function, which can then be inlined
		if !found {
			for _, in := range J.Instrs {
				phi, ok := in.(*ssa.Phi)
				if !ok {
					break
				}
				if _, isSig := phi.Type().Underlying().(*types.Signature); !isSig || phi.Referrers() == nil {
					continue
				}
				known, distinct := true, false
				for _, e := range phi.Edges {
					switch x := e.(type) {
					case *ssa.MakeClosure:
						if f, isF := x.Fn.(*ssa.Function); !isF || len(f.Blocks) == 0 {
							known = false
						}
					case *ssa.Function:
						if len(x.Blocks) == 0 {
							known = false
						}
					default:
						known = false
					}
					if e != phi.Edges[0] {
						distinct = true
					}
				}
				if !known || !distinct {
					continue
				}
				for _, ref := range *phi.Referrers() {
					if call, isCall := ref.(*ssa.Call); isCall && call.Call.Value == ssa.Value(phi) {
						found = true
					}
				}
				if found {
					break
				}
			}
		}
		// a location chosen by control flow and written later: `q = &w.sessionEvents`
		// in one arm, `&w.cookieEvents` in the other, `*q = append(*q, ev)` behind
		// the join
		if !found {
			for _, in := range J.Instrs {
				phi, ok := in.(*ssa.Phi)
				if !ok {
					break
				}
				if _, isPtr := phi.Type().Underlying().(*types.Pointer); !isPtr || phi.Referrers() == nil {
					continue
				}
				addrs, other := 0, false
				for _, e := range phi.Edges {
					switch e.(type) {
					case *ssa.FieldAddr, *ssa.IndexAddr:
						addrs++
					default:
						if !IsNilConst(e) {
							other = true
						}
					}
				}
				if addrs < 2 || other {
					continue
				}
				for _, ref := range *phi.Referrers() {
					if st, ok := ref.(*ssa.Store); ok && st.Addr == ssa.Value(phi) {
						found = true
					}
				}
				if found {
					break
				}
			}
		}
		// the per-iteration copies of an unrolled loop's row variable (`m := m`),
		// selected by the iterations' `break`s and read behind the join
		if !found {
			for _, in := range J.Instrs {
				phi, ok := in.(*ssa.Phi)
				if !ok {
					break
				}
				if _, isPtr := phi.Type().Underlying().(*types.Pointer); !isPtr || phi.Referrers() == nil {
					continue
				}
				cells := map[ssa.Value]bool{}
				other := false
				for _, e := range phi.Edges {
					al, isAl := e.(*ssa.Alloc)
					if !isAl || al.Referrers() == nil {
						other = true
						break
					}
					// a cell holding one row of a literal table
					rowStores := 0
					for _, ref := range *al.Referrers() {
						if st, isSt := ref.(*ssa.Store); isSt && st.Addr == ssa.Value(al) {
							if ld, isLd := st.Val.(*ssa.UnOp); isLd {
								if ia, isIA := ld.X.(*ssa.IndexAddr); isIA && tableOf(ia.X) != nil {
									rowStores++
									continue
								}
							}
							other = true
						}
					}
					if rowStores != 1 {
						other = true
					}
					cells[e] = true
				}
				if other || len(cells) < 2 {
					continue
				}
				found = true
				break
			}
		}
		// the range variable of an unrolled loop over a literal table, read behind
		// the join of the iterations' `break`s: every way of arriving has its own row
		if !found {
			for _, in := range J.Instrs {
				fa, ok := in.(*ssa.FieldAddr)
				if !ok {
					continue
				}
				cell, ok := fa.X.(*ssa.Alloc)
				if !ok || cell.Referrers() == nil {
					continue
				}
				rows, dominating, other := 0, false, false
				for _, ref := range *cell.Referrers() {
					switch x := ref.(type) {
					case *ssa.Store:
						if x.Addr != ssa.Value(cell) {
							other = true
							continue
						}
						ld, isLd := x.Val.(*ssa.UnOp)
						if !isLd {
							other = true
							continue
						}
						ia, isIA := ld.X.(*ssa.IndexAddr)
						if !isIA || tableOf(ia.X) == nil {
							other = true
							continue
						}
						if _, isC := ConstInt(ia.Index); !isC {
							other = true
							continue
						}
						rows++
						if x.Block() == J {
							dominating = true
						}
					case *ssa.FieldAddr, *ssa.UnOp, *ssa.DebugRef:
					default:
						other = true
					}
				}
				if rows >= 2 && !other && !dominating {
					// no single row store reaches J on every way in
					per := map[*ssa.BasicBlock]bool{}
					for _, p := range J.Preds {
						per[p] = true
					}
					if len(per) >= 2 {
						found = true
						break
					}
				}
			}
		}
		if found && cloneRegionPerPred(fn, J) {
			return true
		}
	}
	return false
}

// phiFeedsLoop: the selection is iterated over (its length bounds a loop or
// it is indexed), i.e. specialising it lets a loop be unrolled.
func phiFeedsLoop(phi *ssa.Phi) bool {
	if phi.Referrers() == nil {
		return false
	}
	for _, ref := range *phi.Referrers() {
		switch x := ref.(type) {
		case *ssa.IndexAddr:
			return true
		case *ssa.Call:
			if b, ok := x.Call.Value.(*ssa.Builtin); ok && b.Name() == "len" {
				return true
			}
		case *ssa.Range:
			return true
		}
	}
	return false
}

func blockReaches(from, to *ssa.BasicBlock) bool {
	seen := map[*ssa.BasicBlock]bool{}
	work := []*ssa.BasicBlock{from}
	for len(work) > 0 {
		b := work[len(work)-1]
		work = work[:len(work)-1]
		for _, s := range b.Succs {
			if s == to {
				return true
			}
			if !seen[s] {
				seen[s] = true
				work = append(work, s)
			}
		}
	}
	return false
}

// nthIndex returns the index of the n-th occurrence (0-based) of b in list.
func nthIndex(list []*ssa.BasicBlock, b *ssa.BasicBlock, n int) int {
	for i, x := range list {
		if x == b {
			if n == 0 {
				return i
			}
			n--
		}
	}
	return -1
}

func cloneRegionPerPred(fn *ssa.Function, J *ssa.BasicBlock) bool {
	if blockReaches(J, J) {
		return false
	}
	splitCriticalEdgesInto(fn, J)
	for i, p := range J.Preds {
		for k := 0; k < i; k++ {
			if J.Preds[k] == p {
				return false
			}
		}
		if len(p.Succs) != 1 {
			return false
		}
	}
	invalidateDom(fn)
	var D []*ssa.BasicBlock
	inD := map[*ssa.BasicBlock]bool{}
	size := 0
	for _, b := range fn.Blocks {
		if Dominates(J, b) {
			D = append(D, b)
			inD[b] = true
			size += len(b.Instrs)
		}
	}
	npred := len(J.Preds)
	if size*(npred-1) > maxRegionInstrs {
		return false
	}
	// every predecessor of a dominated block other than J lies in the region
	for _, b := range D {
		if b == J {
			continue
		}
		for _, p := range b.Preds {
			if !inD[p] {
				return false
			}
		}
	}
	var buf [16]*ssa.Value
	var added []*ssa.BasicBlock
	for pi := 1; pi < npred; pi++ {
		bmap := map[*ssa.BasicBlock]*ssa.BasicBlock{}
		vmap := map[ssa.Value]ssa.Value{}
		for _, b := range D {
			bmap[b] = newBlock(fn, b.Comment+fmt.Sprintf(".sel%d", pi))
		}
		for _, b := range D {
			nb := bmap[b]
			for _, in := range b.Instrs {
				if b == J {
					if phi, ok := in.(*ssa.Phi); ok {
						vmap[phi] = phi.Edges[pi]
						continue
					}
				}
				ci := cloneInstr(in)
				setBlock(ci, nb)
				nb.Instrs = append(nb.Instrs, ci)
				if v, ok := in.(ssa.Value); ok {
					vmap[v] = ci.(ssa.Value)
				}
			}
		}
		// a phi of J may feed another phi of J's operand map: resolve chains
		resolve := func(v ssa.Value) ssa.Value {
			for k := 0; k < 4; k++ {
				r, ok := vmap[v]
				if !ok {
					return v
				}
				v = r
				if _, again := vmap[v]; !again {
					return v
				}
			}
			return v
		}
		for _, b := range D {
			for _, in := range bmap[b].Instrs {
				for _, op := range in.Operands(buf[:0]) {
					if *op == nil {
						continue
					}
					if _, ok := vmap[*op]; ok {
						*op = resolve(*op)
					}
				}
			}
		}
		for _, b := range D {
			nb := bmap[b]
			occ := map[*ssa.BasicBlock]int{}
			for _, s := range b.Succs {
				if inD[s] {
					nb.Succs = append(nb.Succs, bmap[s])
					continue
				}
				nb.Succs = append(nb.Succs, s)
				idx := nthIndex(s.Preds, b, occ[s])
				occ[s]++
				if idx < 0 {
					return false // inconsistent CFG; cannot happen on validated input
				}
				s.Preds = append(s.Preds, nb)
				for _, in := range s.Instrs {
					phi, ok := in.(*ssa.Phi)
					if !ok {
						break
					}
					v := phi.Edges[idx]
					if _, ok := vmap[v]; ok {
						v = resolve(v)
					}
					phi.Edges = append(phi.Edges, v)
				}
			}
			if b != J {
				for _, p := range b.Preds {
					nb.Preds = append(nb.Preds, bmap[p])
				}
			}
		}
		pred := J.Preds[pi]
		bmap[J].Preds = []*ssa.BasicBlock{pred}
		for si, s := range pred.Succs {
			if s == J {
				pred.Succs[si] = bmap[J]
			}
		}
		for _, b := range D {
			added = append(added, bmap[b])
		}
	}
	// the original keeps the first predecessor
	var rest []ssa.Instruction
	for _, in := range J.Instrs {
		if phi, ok := in.(*ssa.Phi); ok {
			replaceOperands(fn, phi, phi.Edges[0])
			for _, nb := range added {
				for _, ci := range nb.Instrs {
					for _, op := range ci.Operands(buf[:0]) {
						if *op == ssa.Value(phi) {
							*op = phi.Edges[0]
						}
					}
				}
			}
			continue
		}
		rest = append(rest, in)
	}
	J.Instrs = rest
	J.Preds = J.Preds[:1]
	fn.Blocks = append(fn.Blocks, added...)
	for i, b := range fn.Blocks {
		b.Index = i
	}
	invalidateDom(fn)
	rebuildReferrers(fn)
	return true
}

// BlockReaches reports whether control can flow from the end of from to the
// start of to.
func BlockReaches(from, to *ssa.BasicBlock) bool { return blockReaches(from, to) }
