package engine

import (
	"go/token"
	"go/types"

	"golang.org/x/tools/go/ssa"
)

// NormaliseTimeCompares gives the comparisons of two instants one spelling,
// a.After(b):
//
//	time.Since(x)            → time.Now().Sub(x)
//	time.Until(x)            → x.Sub(time.Now())
//	a.Before(b)              → b.After(a)
//	a.Compare(b) > 0, a.Sub(b) > 0   → a.After(b)      (< 0: b.After(a); Sub only when the
//	                                   duration has no other use)
//	a.Compare(b) <= 0, a.Sub(b) <= 0 → !a.After(b)     (>= 0: !b.After(a))
//
// (Sub saturates but keeps the sign.) Comparisons with anything but the
// constant 0, and durations that went through Round, Truncate or arithmetic
// first, are left as they are.
func NormaliseTimeCompares(fn *ssa.Function) bool {
	if fn.Prog == nil {
		return false
	}
	tp := fn.Prog.ImportedPackage("time")
	if tp == nil || tp.Type("Time") == nil || tp.Func("Now") == nil {
		return false
	}
	tt := tp.Type("Time").Type()
	after := fn.Prog.LookupMethod(tt, tp.Pkg, "After")
	sub := fn.Prog.LookupMethod(tt, tp.Pkg, "Sub")
	if after == nil || sub == nil {
		return false
	}
	name := func(v ssa.Value) (*ssa.Call, string) {
		c, ok := v.(*ssa.Call)
		if !ok {
			return nil, ""
		}
		if f := c.Call.StaticCallee(); f != nil {
			return c, f.String()
		}
		return c, ""
	}
	insertBefore := func(at ssa.Instruction, in ssa.Instruction) {
		b := at.Block()
		setBlock(in, b)
		k := instrPos(at)
		b.Instrs = append(b.Instrs[:k:k], append([]ssa.Instruction{in}, b.Instrs[k:]...)...)
	}
	mkCall := func(at ssa.Instruction, f *ssa.Function, typ types.Type, args ...ssa.Value) *ssa.Call {
		nc := &ssa.Call{}
		nc.Call.Value = f
		nc.Call.Args = args
		setUnexported(nc, "typ", typ)
		setUnexported(nc, "pos", at.Pos())
		insertBefore(at, nc)
		return nc
	}
	changed := false
	// Since / Until
	for _, b := range fn.Blocks {
		for _, in := range append([]ssa.Instruction{}, b.Instrs...) {
			c, n := name2(in, name)
			if c == nil || len(c.Call.Args) != 1 {
				continue
			}
			if n != "time.Since" && n != "time.Until" {
				continue
			}
			now := mkCall(c, tp.Func("Now"), tt)
			var ns *ssa.Call
			if n == "time.Since" {
				ns = mkCall(c, sub, c.Type(), now, c.Call.Args[0])
			} else {
				ns = mkCall(c, sub, c.Type(), c.Call.Args[0], now)
			}
			replaceOperands(fn, c, ns)
			dropInstr(c)
			changed = true
		}
	}
	if changed {
		rebuildReferrers(fn)
	}
	// Before, and signs of Compare / Sub
	for _, b := range fn.Blocks {
		for _, in := range append([]ssa.Instruction{}, b.Instrs...) {
			if c, n := name2(in, name); c != nil && n == "(time.Time).Before" && len(c.Call.Args) == 2 {
				na := mkCall(c, after, c.Type(), c.Call.Args[1], c.Call.Args[0])
				replaceOperands(fn, c, na)
				dropInstr(c)
				changed = true
				continue
			}
			bo, ok := in.(*ssa.BinOp)
			if !ok {
				continue
			}
			op := bo.Op
			x, y := bo.X, bo.Y
			if k, isC := ConstInt(x); isC && k == 0 {
				x, y = y, x
				switch op {
				case token.LSS:
					op = token.GTR
				case token.GTR:
					op = token.LSS
				case token.LEQ:
					op = token.GEQ
				case token.GEQ:
					op = token.LEQ
				}
			}
			if k, isC := ConstInt(y); !isC || k != 0 {
				continue
			}
			c, n := name(x)
			if c == nil || len(c.Call.Args) != 2 || (n != "(time.Time).Compare" && n != "(time.Time).Sub") {
				continue
			}
			// a duration that is also used as a duration stays one
			if n == "(time.Time).Sub" && (c.Referrers() == nil || len(*c.Referrers()) != 1) {
				continue
			}
			a, bb := c.Call.Args[0], c.Call.Args[1]
			var res ssa.Value
			switch op {
			case token.GTR:
				res = mkCall(bo, after, bo.Type(), a, bb)
			case token.LSS:
				res = mkCall(bo, after, bo.Type(), bb, a)
			case token.LEQ, token.GEQ:
				var ac *ssa.Call
				if op == token.LEQ {
					ac = mkCall(bo, after, bo.Type(), a, bb)
				} else {
					ac = mkCall(bo, after, bo.Type(), bb, a)
				}
				not := &ssa.UnOp{Op: token.NOT, X: ac}
				setUnexported(not, "typ", bo.Type())
				setUnexported(not, "pos", bo.Pos())
				insertBefore(bo, not)
				res = not
			default:
				continue
			}
			replaceOperands(fn, bo, res)
			changed = true
		}
	}
	if changed {
		rebuildReferrers(fn)
	}
	return changed
}

func name2(in ssa.Instruction, name func(ssa.Value) (*ssa.Call, string)) (*ssa.Call, string) {
	v, ok := in.(ssa.Value)
	if !ok {
		return nil, ""
	}
	return name(v)
}

func dropInstr(in ssa.Instruction) {
	b := in.Block()
	k := instrPos(in)
	if k >= 0 && k < len(b.Instrs) && b.Instrs[k] == in {
		b.Instrs = append(b.Instrs[:k:k], b.Instrs[k+1:]...)
	}
}
