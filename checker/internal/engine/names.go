package engine

import (
	"fmt"
	"go/constant"
	"go/types"
	"strings"

	"golang.org/x/tools/go/ssa"
)

// ConstStr returns the string value of v if it is a string constant.
func ConstStr(v ssa.Value) (string, bool) {
	c, ok := v.(*ssa.Const)
	if !ok || c.Value == nil || c.Value.Kind() != constant.String {
		return "", false
	}
	return constant.StringVal(c.Value), true
}

// ConstInt returns the integer value of v if it is an integer constant.
func ConstInt(v ssa.Value) (int64, bool) {
	c, ok := v.(*ssa.Const)
	if !ok || c.Value == nil || c.Value.Kind() != constant.Int {
		return 0, false
	}
	i, exact := constant.Int64Val(c.Value)
	return i, exact
}

// ConstBool returns the boolean value of v if it is a boolean constant.
func ConstBool(v ssa.Value) (bool, bool) {
	c, ok := v.(*ssa.Const)
	if !ok || c.Value == nil || c.Value.Kind() != constant.Bool {
		return false, false
	}
	return constant.BoolVal(c.Value), true
}

// IsNilConst reports whether v is the nil constant.
func IsNilConst(v ssa.Value) bool {
	c, ok := v.(*ssa.Const)
	return ok && c.Value == nil
}

// Callee names the function a call instruction invokes:
//
//	static function     ab.PutSession, strings.Contains
//	static method       (*ab.Events).FireBefore
//	interface method    (ab.ServerStorer).Save   (the declaring interface)
//	closure literal     name of the anonymous function
//	bound method value  name of the method
//	function variable   var:ab/oauth2.exchanger
//	otherwise           ""
func Callee(c ssa.CallInstruction) string {
	cc := c.Common()
	if cc.IsInvoke() {
		// a collaborator narrowed to a small local interface (`type userSaver
		// interface{ Save(...) }`) and converted from the interface the rules know:
		// the method is that interface's method
		v := cc.Value
		for d := 0; d < 4; d++ {
			// (a local interface with exactly the same methods converts by a plain
			// change of type)
			switch ci := v.(type) {
			case *ssa.ChangeInterface:
				v = ci.X
			case *ssa.ChangeType:
				v = ci.X
			default:
				d = 4
				continue
			}
			if _, isI := v.Type().Underlying().(*types.Interface); isI {
				if sel := types.NewMethodSet(v.Type()).Lookup(cc.Method.Pkg(), cc.Method.Name()); sel != nil {
					if f, ok := sel.Obj().(*types.Func); ok {
						if _, named := v.Type().(*types.Named); named {
							// the interface that declares it (RecoveringServerStorer embeds
							// ServerStorer: Save is ServerStorer's)
							return Short(f.FullName())
						}
					}
				}
			}
		}
		return Short(cc.Method.FullName())
	}
	return valueFuncName(cc.Value)
}

func valueFuncName(v ssa.Value) string {
	switch v := v.(type) {
	case *ssa.Function:
		return fnObjName(v)
	case *ssa.MakeClosure:
		if f, ok := v.Fn.(*ssa.Function); ok {
			return fnObjName(f)
		}
	case *ssa.Builtin:
		return "builtin:" + v.Name()
	case *ssa.UnOp:
		if g, ok := v.X.(*ssa.Global); ok {
			// an injectable clock: a package-level `var now = time.Now` is the clock
			if f := GlobalInitFunc(g); f != nil && f.Pkg != nil && f.Pkg.Pkg.Path() == "time" && f.Name() == "Now" {
				return "time.Now"
			}
			return "var:" + Short(g.Pkg.Pkg.Path()) + "." + g.Name()
		}
	}
	return ""
}

var globalInitCache = map[*ssa.Global]ssa.Value{}

// GlobalInit returns the value a package-level variable is initialised with,
// when the package initialiser stores to it exactly once and no other function
// of the package does.
func GlobalInit(g *ssa.Global) ssa.Value {
	if v, ok := globalInitCache[g]; ok {
		return v
	}
	var val ssa.Value
	n := 0
	if g.Pkg != nil {
		for _, m := range g.Pkg.Members {
			fn, ok := m.(*ssa.Function)
			if !ok {
				continue
			}
			var visit func(f *ssa.Function)
			visit = func(f *ssa.Function) {
				for _, b := range f.Blocks {
					for _, in := range b.Instrs {
						if st, ok := in.(*ssa.Store); ok && st.Addr == ssa.Value(g) {
							n++
							if f.Name() == "init" && f.Parent() == nil {
								val = st.Val
							}
						}
					}
				}
				for _, a := range f.AnonFuncs {
					visit(a)
				}
			}
			visit(fn)
		}
	}
	if n != 1 {
		val = nil
	}
	globalInitCache[g] = val
	return val
}

// GlobalInitFunc: the function a package-level func variable is initialised with.
func GlobalInitFunc(g *ssa.Global) *ssa.Function {
	v := GlobalInit(g)
	for {
		switch x := v.(type) {
		case *ssa.ChangeType:
			v = x.X
			continue
		case *ssa.Function:
			return x
		}
		return nil
	}
}

func fnObjName(f *ssa.Function) string {
	// bound-method wrappers and thunks carry the method object
	if f.Synthetic != "" {
		if o, ok := f.Object().(*types.Func); ok && o != nil {
			return Short(o.FullName())
		}
		// "bound method wrapper for func (*T).M(...)": fall back on name
		n := f.Name()
		n = strings.TrimSuffix(n, "$bound")
		n = strings.TrimSuffix(n, "$thunk")
		if f.Signature != nil && len(f.FreeVars) == 1 {
			return Short("(" + f.FreeVars[0].Type().String() + ")." + n)
		}
		return Short(f.String())
	}
	return FuncName(f)
}

// StaticCallee returns the repository function invoked by c when that is
// known statically (direct call, closure literal, bound method of a concrete
// type), else nil.
func StaticCallee(c ssa.CallInstruction) *ssa.Function {
	cc := c.Common()
	if cc.IsInvoke() {
		return nil
	}
	switch v := cc.Value.(type) {
	case *ssa.Function:
		return v
	case *ssa.MakeClosure:
		f, _ := v.Fn.(*ssa.Function)
		return f
	}
	return nil
}

// Calls lists the call instructions (call, go, defer) of fn in block order.
func Calls(fn *ssa.Function) []ssa.CallInstruction {
	var out []ssa.CallInstruction
	for _, b := range fn.Blocks {
		for _, i := range b.Instrs {
			if c, ok := i.(ssa.CallInstruction); ok {
				out = append(out, c)
			}
		}
	}
	return out
}

// CallsTo lists the calls in fn whose callee name is one of names.
func CallsTo(fn *ssa.Function, names ...string) []ssa.CallInstruction {
	var out []ssa.CallInstruction
	for _, c := range Calls(fn) {
		n := Callee(c)
		for _, w := range names {
			if n == w {
				out = append(out, c)
				break
			}
		}
	}
	return out
}

// Arg returns the i-th argument of a call, counting the receiver of a static
// method call as argument 0 the way SSA does, but NOT counting the receiver of
// an interface invoke (which lives in Common().Value).
func Arg(c ssa.CallInstruction, i int) ssa.Value {
	a := c.Common().Args
	if i < 0 || i >= len(a) {
		return nil
	}
	return a[i]
}

// IsErrorType reports whether t is the predeclared error interface.
func IsErrorType(t types.Type) bool {
	return types.Identical(t, types.Universe.Lookup("error").Type())
}

// ResultValue returns, for a call and a result index, the SSA value holding
// that result: the call itself for single results, the Extract otherwise
// (nil when the result is never extracted).
func ResultValue(c ssa.CallInstruction, idx int) ssa.Value {
	v := c.Value()
	if v == nil {
		return nil
	}
	sig := c.Common().Signature()
	if sig.Results().Len() == 1 {
		if idx == 0 {
			return v
		}
		return nil
	}
	if v.Referrers() == nil {
		return nil
	}
	for _, r := range *v.Referrers() {
		if e, ok := r.(*ssa.Extract); ok && e.Index == idx {
			return e
		}
	}
	return nil
}

// ErrResult returns the value of the (last) error result of a call, or nil.
func ErrResult(c ssa.CallInstruction) ssa.Value {
	sig := c.Common().Signature()
	n := sig.Results().Len()
	if n == 0 || !IsErrorType(sig.Results().At(n-1).Type()) {
		return nil
	}
	return ResultValue(c, n-1)
}

// CallOf returns the call instruction a value is a result of (the call value
// itself or an Extract of it) and the result index.
func CallOf(v ssa.Value) (ssa.CallInstruction, int) {
	switch v := v.(type) {
	case *ssa.Call:
		return v, 0
	case *ssa.Extract:
		if c, ok := v.Tuple.(*ssa.Call); ok {
			return c, v.Index
		}
	}
	return nil, -1
}

// SafeString renders an SSA value for a diagnostic; synthesized values
// (derived facts) have no block and make ssa's printer panic.
func SafeString(v ssa.Value) (s string) {
	defer func() {
		if recover() != nil {
			s = fmt.Sprintf("<derived %T>", v)
		}
	}()
	if v == nil {
		return "<nil>"
	}
	return v.String()
}
