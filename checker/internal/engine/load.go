// Package engine holds the repository-independent part of the checker:
// loading, SSA construction, naming of callees, edge facts, dominance,
// must-pass-through search, backward value slices and reporting.
package engine

import (
	"fmt"
	"go/token"
	"go/types"
	"os"
	"sort"
	"strings"
	"time"

	"golang.org/x/tools/go/callgraph"
	"golang.org/x/tools/go/callgraph/cha"
	"golang.org/x/tools/go/callgraph/vta"
	"golang.org/x/tools/go/packages"
	"golang.org/x/tools/go/ssa"
	"golang.org/x/tools/go/ssa/ssautil"
)

// RepoPath is the import path of the module under analysis.
const RepoPath = "github.com/volatiletech/authboss/v3"

// Prog is the loaded, type-checked, SSA-built program.
type Prog struct {
	Dir    string
	Fset   *token.FileSet
	Pkgs   []*packages.Package
	SSA    *ssa.Program
	ByPath map[string]*ssa.Package // import path -> package (repo packages only)
	// Funcs are all source-level functions of the repository packages
	// (methods, anonymous functions included), mocks excluded.
	Funcs []*ssa.Function
	// AllFuncs includes the mocks package as well.
	AllFuncs []*ssa.Function
	LoadWall time.Duration

	cg     *callgraph.Graph
	byName map[string]*ssa.Function
}

// HardFail aborts the run with exit status 2: the analysis itself could not
// be carried out (load error, unresolved anchor, internal error). It never
// prints a VIOLATION line.
func HardFail(format string, a ...interface{}) {
	fmt.Fprintf(os.Stderr, "abcheck: cannot analyse: "+format+"\n", a...)
	fmt.Printf("UNDECIDED: "+format+"\n", a...)
	os.Exit(2)
}

// AnchorError is raised (as a panic) when a construct the rules of a
// property are written against is gone from a tree that loads and
// type-checks. The driver turns it into an undecided obligation of the
// property being checked: the property cannot be shown to hold on this
// tree, which is reported like a violation (exit 1), naming the anchor.
type AnchorError struct{ Msg string }

func (e AnchorError) Error() string { return e.Msg }

// AnchorFail raises an AnchorError.
func AnchorFail(format string, a ...interface{}) {
	panic(AnchorError{Msg: fmt.Sprintf(format, a...)})
}

// Load loads ./... below dir.
func Load(dir string) *Prog {
	t0 := time.Now()
	os.Unsetenv("GOWORK")
	cfg := &packages.Config{
		Mode:  packages.LoadAllSyntax,
		Dir:   dir,
		Tests: false,
		Env:   append(os.Environ(), "GOFLAGS=-mod=mod", "GOPROXY=off", "GOSUMDB=off", "GOTOOLCHAIN=local", "GOWORK=off"),
	}
	pkgs, err := packages.Load(cfg, "./...")
	if err != nil {
		HardFail("packages.Load: %v", err)
	}
	if len(pkgs) == 0 {
		HardFail("no packages found under %s", dir)
	}
	nerr := 0
	packages.Visit(pkgs, nil, func(p *packages.Package) {
		for _, e := range p.Errors {
			fmt.Fprintln(os.Stderr, e)
			nerr++
		}
	})
	if nerr > 0 {
		HardFail("%d load/type errors in %s", nerr, dir)
	}
	prog, spkgs := ssautil.AllPackages(pkgs, ssa.InstantiateGenerics)
	prog.Build()
	p := &Prog{Dir: dir, Fset: prog.Fset, Pkgs: pkgs, SSA: prog, ByPath: map[string]*ssa.Package{}, byName: map[string]*ssa.Function{}}
	for i, sp := range spkgs {
		if sp == nil {
			HardFail("no SSA for package %s", pkgs[i].PkgPath)
		}
		if strings.HasPrefix(sp.Pkg.Path(), RepoPath) {
			p.ByPath[sp.Pkg.Path()] = sp
		}
	}
	if len(p.ByPath) == 0 {
		HardFail("no package of %s loaded", RepoPath)
	}
	all := ssautil.AllFunctions(prog)
	for fn := range all {
		if fn.Pkg == nil || fn.Synthetic != "" && !strings.Contains(fn.Synthetic, "bound") {
			if fn.Pkg == nil {
				continue
			}
		}
		if _, ok := p.ByPath[fn.Pkg.Pkg.Path()]; !ok {
			continue
		}
		if fn.Blocks == nil {
			continue
		}
		if fn.Synthetic != "" {
			continue
		}
		p.AllFuncs = append(p.AllFuncs, fn)
		if !strings.HasSuffix(fn.Pkg.Pkg.Path(), "/mocks") {
			p.Funcs = append(p.Funcs, fn)
		}
	}
	sort.Slice(p.Funcs, func(i, j int) bool { return p.Funcs[i].Pos() < p.Funcs[j].Pos() })
	sort.Slice(p.AllFuncs, func(i, j int) bool { return p.AllFuncs[i].Pos() < p.AllFuncs[j].Pos() })
	for _, fn := range p.AllFuncs {
		p.byName[FuncName(fn)] = fn
	}
	p.LoadWall = time.Since(t0)
	return p
}

// Short replaces the module path by "ab" in a qualified name.
func Short(s string) string { return strings.ReplaceAll(s, RepoPath, "ab") }

// FuncName is the canonical short name of a function: "ab/auth.init",
// "(*ab/auth.Auth).LoginPost", "(*ab/auth.Auth).LoginPost$1" for closures.
func FuncName(fn *ssa.Function) string {
	if fn == nil {
		return "<nil>"
	}
	if fn.Parent() != nil {
		// anonymous function: name relative to the outermost parent
		return FuncName(fn.Parent()) + strings.TrimPrefix(fn.Name(), fn.Parent().Name())
	}
	if o, ok := fn.Object().(*types.Func); ok && o != nil {
		return Short(o.FullName())
	}
	return Short(fn.String())
}

// Func looks a function up by canonical short name and fails hard if it is
// gone: an anchor the rules are written against must exist.
func (p *Prog) Func(name string) *ssa.Function {
	if f := p.byName[name]; f != nil {
		return f
	}
	if f := p.byName[otherReceiverKind(name)]; f != nil {
		return f
	}
	AnchorFail("anchor function %s not found in %s", name, p.Dir)
	return nil
}

// FuncOpt is Func without the hard failure.
func (p *Prog) FuncOpt(name string) *ssa.Function {
	if f := p.byName[name]; f != nil {
		return f
	}
	return p.byName[otherReceiverKind(name)]
}

// otherReceiverKind maps "(*T).M" to "(T).M" and back: whether a method is
// declared on the pointer or on the value is not part of an anchor's
// identity (rules that depend on it check it explicitly).
func otherReceiverKind(name string) string {
	if strings.HasPrefix(name, "(*") {
		return "(" + name[2:]
	}
	if strings.HasPrefix(name, "(") {
		return "(*" + name[1:]
	}
	return name
}

// Pos renders a position relative to the repository root.
func (p *Prog) Pos(pos token.Pos) string {
	if !pos.IsValid() {
		return "-"
	}
	pp := p.Fset.Position(pos)
	f := strings.TrimPrefix(pp.Filename, p.Dir+"/")
	return fmt.Sprintf("%s:%d", f, pp.Line)
}

// InstrPos gives the best position available for an instruction.
func (p *Prog) InstrPos(i ssa.Instruction) string {
	if i == nil {
		return "-"
	}
	if i.Pos().IsValid() {
		return p.Pos(i.Pos())
	}
	// fall back on the nearest positioned instruction in the block
	b := i.Block()
	if b != nil {
		for _, j := range b.Instrs {
			if j.Pos().IsValid() {
				return p.Pos(j.Pos()) + "~"
			}
		}
	}
	return "-"
}

// Global returns the package-level variable pkg.name (pkg relative to the
// module root, "" for the root package).
func (p *Prog) Global(pkg, name string) *ssa.Global {
	path := RepoPath
	if pkg != "" {
		path += "/" + pkg
	}
	sp := p.ByPath[path]
	if sp == nil {
		AnchorFail("anchor package %s not found", path)
	}
	g, _ := sp.Members[name].(*ssa.Global)
	if g == nil {
		AnchorFail("anchor variable %s.%s not found", path, name)
	}
	return g
}

// ConstString returns the value of the package-level string constant.
func (p *Prog) ConstString(pkg, name string) string {
	path := RepoPath
	if pkg != "" {
		path += "/" + pkg
	}
	sp := p.ByPath[path]
	if sp == nil {
		AnchorFail("anchor package %s not found", path)
	}
	c, _ := sp.Members[name].(*ssa.NamedConst)
	if c == nil {
		AnchorFail("anchor constant %s.%s not found", path, name)
	}
	s, ok := ConstStr(c.Value)
	if !ok {
		AnchorFail("anchor constant %s.%s is not a string", path, name)
	}
	return s
}

// ConstInt returns the value of the package-level integer constant.
func (p *Prog) ConstInt(pkg, name string) int64 {
	path := RepoPath
	if pkg != "" {
		path += "/" + pkg
	}
	sp := p.ByPath[path]
	if sp == nil {
		AnchorFail("anchor package %s not found", path)
	}
	c, _ := sp.Members[name].(*ssa.NamedConst)
	if c == nil {
		AnchorFail("anchor constant %s.%s not found", path, name)
	}
	v, ok := ConstInt(c.Value)
	if !ok {
		AnchorFail("anchor constant %s.%s is not an integer", path, name)
	}
	return v
}

// CallGraph builds (once) a VTA call graph seeded by CHA.
func (p *Prog) CallGraph() *callgraph.Graph {
	if p.cg == nil {
		p.cg = vta.CallGraph(ssautil.AllFunctions(p.SSA), cha.CallGraph(p.SSA))
	}
	return p.cg
}
