package rules

import (
	"fmt"
	"strings"

	. "abverif/internal/engine"

	"golang.org/x/tools/go/ssa"
)

// Issuance is a site that writes the session's user identity.
type Issuance struct {
	Op StateOp
	Fn *ssa.Function
}

// Issuances enumerates every PutSession whose key is "uid" or not constant,
// in every package of the repository (the primitive's own wrappers excluded).
func (c *Ctx) Issuances() []Issuance {
	uid := c.P.ConstString("", "SessionKey")
	var out []Issuance
	for _, fn := range c.P.Funcs {
		for _, call := range Calls(fn) {
			op, ok := stateOp(call)
			if !ok || op.Op != "put" || op.Store != "session" {
				continue
			}
			if op.Const && op.Key != uid {
				continue
			}
			if !op.Const && FuncName(fn) == "ab.PutSession" {
				continue
			}
			out = append(out, Issuance{Op: op, Fn: fn})
		}
	}
	return out
}

// pendingKeys are the session keys written by handlers registered on
// Before(EventAuthHijack): the "second factor still owed" markers.
func (c *Ctx) pendingKeys() map[string][]*ssa.Function {
	out := map[string][]*ssa.Function{}
	for _, w := range c.Handlers(true, c.Event("EventAuthHijack")) {
		if w.Handler == nil {
			continue
		}
		for _, op := range c.StateOps(w.Handler) {
			if op.Op == "put" && op.Store == "session" && op.Const && strings.HasSuffix(op.Key, "_pending") {
				out[op.Key] = append(out[op.Key], w.Handler)
			}
		}
	}
	return out
}

// C01: a session is only issued against a valid credential of that user.
func C01(c *Ctx) {
	r := c.R
	r.Explanation = "Static necessary conditions for C01 on the SSA form of every package: (1) every write of session[uid] (enumerated by constant-folded key, any package) is edge-dominated by the success edge of a credential check from the credential table (lifted to all static callers when the write sits in a helper); (2) the identity written is derived from the subject of that check (same storage look-up, same look-up key, or same PID handed to the token store); (3) every FireBefore(EventAuthHijack) site is itself behind a credential check and hands over the checked user; (4) the pending-second-factor keys are written only by the registered hijack handlers with the context user's PID; (5) reads of a pending key are dominated by CurrentUser()==ErrUserNotFound; (6) session[uid] is deleted only by logout, expiry and the exported DelKnownSession helper; (7) CurrentUser/LoadCurrentUser propagate the storage error unwrapped so that callers' ErrUserNotFound comparisons stay meaningful."
	r.NotDecided = []string{
		"that a stored hash verifies only its own password (cryptography)",
		"that storage returns the right user for a key (integrator's ServerStorer)",
		"currency of one-time secrets (decided under C12/C05)",
		"distinct localisation keys are assumed to render to distinct non-empty strings (success-token summary of totp2fa.validate)",
	}
	sites := c.Issuances()
	r.SitesSeen += len(sites)
	r.Extra["issuance_sites"] = len(sites)
	r.Extra["issuance_sites_reference"] = 8
	for _, s := range sites {
		fn := FuncName(s.Fn)
		pos := c.P.InstrPos(s.Op.Call)
		construct := "PutSession(uid)"
		if !s.Op.Const {
			r.Unknown("C01.vgate", fn, "PutSession(<non-constant key>)", pos, "session write with a non-constant key may write session[uid]; the rule cannot bound it")
			continue
		}
		creds := c.CredsAt(s.Op.Call)
		if len(creds) == 0 {
			r.Bad("C01.vgate", fn, construct, pos, "write of session[uid] is not edge-dominated by the success edge of any credential check (password/otp/token compare, remember-token use, oauth2 exchange, create, 2FA code)", factList(c, s.Op.Call)...)
			continue
		}
		r.Ok("C01.vgate", fn, construct, pos, "dominated by "+credKinds(creds))
		c.bindIssuance(s, creds)
	}
	c.c01Hijack()
	c.c01Pending()
	c.c01Deletes()
	c.sentinelTransparent("C01.sentinel")
}

// factList renders the facts holding at an instruction (for diagnosis).
func factList(c *Ctx, at ssa.Instruction) []string {
	var out []string
	for _, f := range FactsAtInstr(at) {
		out = append(out, fmt.Sprintf("fact: %s == %v  (branch at %s)", SafeString(f.Cond), f.Pol, c.P.InstrPos(f.If)))
	}
	return out
}

// bindIssuance checks that the identity written is the identity checked.
func (c *Ctx) bindIssuance(s Issuance, creds []Cred) {
	r := c.R
	fn := FuncName(s.Fn)
	pos := c.P.InstrPos(s.Op.Call)
	val := s.Op.Val
	vo := c.Origins(val)
	vid := c.identityOrigins(vo)
	construct := "PutSession(uid).value"
	for _, cr := range flattenTop(creds) {
		switch baseKind(cr) {
		case "password", "bcrypt", "ctc", "totp-code":
			subj := c.subjectIdentities(cr)
			if len(subj) > 0 {
				if sameOriginValue(vid, subj) {
					r.Ok("C01.bind", fn, construct, pos, fmt.Sprintf("value derives from the user whose secret %s checked (%s)", cr, names(subj)))
					return
				}
				// or: the value is the key that user was looked up by
				for _, su := range subj {
					if call, ok := su.V.(ssa.CallInstruction); ok {
						if key := lookupKey(call); key != nil && verbatimEq(key, val, 0) {
							r.Ok("C01.bind", fn, construct, pos, fmt.Sprintf("value is the look-up key of the user whose secret %s checked", cr))
							return
						}
					}
				}
				continue
			}
			// no user object among the operands: expected value comes from the session
			if c.sessionSecretBinding(s, cr, vo) {
				return
			}
		case "remember":
			pid := Arg(cr.Check, 1)
			if pid == val || sameNames(c.Origins(pid), vo) {
				r.Ok("C01.bind", fn, construct, pos, "value is the PID handed to UseRememberToken")
				return
			}
		case "register":
			u := Arg(cr.Check, 1)
			uo := c.identityOrigins(c.Origins(u))
			okPut := false
			for _, call := range Calls(s.Fn) {
				cc := call.Common()
				if cc.IsInvoke() && cc.Method.Name() == "PutPID" && sameOriginValue(c.identityOrigins(c.Origins(cc.Value)), uo) && InstrDominates(call, cr.Check) {
					if a := Arg(call, 0); a == val || sameNames(c.Origins(a), vo) {
						okPut = true
					}
				}
			}
			if okPut {
				r.Ok("C01.bind", fn, construct, pos, "value is the PID put into the user object that Create accepted")
				return
			}
		case "oauth2":
			// the identity comes from the user NewFromOAuth2 built from the exchanged token
			tok := ResultValue(cr.Check, 0)
			for _, o := range vid {
				call, ok := o.V.(ssa.CallInstruction)
				if !ok || Callee(call) != fnNewOAuth2 {
					continue
				}
				// details argument must derive from the token
				det := Arg(call, 2)
				if tok != nil && c.DerivesFrom(det, func(x Origin) bool { return x.V == cr.Check.Value() || x.V == tok }, 3) {
					r.Ok("C01.bind", fn, construct, pos, "value derives from the user NewFromOAuth2 built from the details of the exchanged token")
					return
				}
			}
		}
		if strings.HasPrefix(cr.Kind, "via:") {
			// the callee checked the secret of the user it returned
			if c.viaBinding(s, cr, vo) {
				return
			}
		}
	}
	r.Bad("C01.bind", fn, construct, pos, fmt.Sprintf("identity written (origins: %s) is not derived from the subject of the dominating check(s) %s", names(vo), credKinds(creds)))
}

// verbatimEq: a and b are the same value, or the same read (the same
// argument-less accessor on the same receiver), up to type conversions and
// phis that merge nothing else. A transformed copy (trimmed, lower-cased,
// re-encoded) is not the same value: the account found under the transformed
// key need not be the account the untransformed key names.
func verbatimEq(a, b ssa.Value, d int) bool {
	if d > 4 {
		return false
	}
	a, b = stripConv(a), stripConv(b)
	if a == b {
		return true
	}
	single := func(v ssa.Value) ssa.Value {
		phi, ok := v.(*ssa.Phi)
		if !ok {
			return v
		}
		var only ssa.Value
		for _, e := range phi.Edges {
			e = stripConv(e)
			if e == ssa.Value(phi) {
				continue
			}
			if only != nil && only != e {
				return v
			}
			only = e
		}
		if only == nil {
			return v
		}
		return only
	}
	if sa, sb := single(a), single(b); sa != a || sb != b {
		return verbatimEq(sa, sb, d+1)
	}
	ca, okA := a.(*ssa.Call)
	cb, okB := b.(*ssa.Call)
	if okA && okB && ca.Call.IsInvoke() && cb.Call.IsInvoke() && ca.Call.Method == cb.Call.Method && len(ca.Call.Args) == 0 && len(cb.Call.Args) == 0 {
		return verbatimEq(ca.Call.Value, cb.Call.Value, d+1)
	}
	return false
}

// flattenTop keeps via: creds (their binding is decided on the callee's
// returned user) and primitive creds.
func flattenTop(cs []Cred) []Cred { return cs }

func baseKind(c Cred) string {
	if strings.HasPrefix(c.Kind, "via:") {
		return "via"
	}
	return c.Kind
}

// lookupKey returns the key argument of a storage look-up call.
func lookupKey(call ssa.CallInstruction) ssa.Value {
	switch Callee(call) {
	case fnLoad, fnLoadRecover, fnLoadConfirm:
		return Arg(call, 1)
	}
	return nil
}

// viaBinding: credential established inside callee F (bool or token summary).
// Either F returns the user whose secret it checked and the value written
// derives from that returned user; or F's check operands derive from F's
// arguments and the value written shares an identity with those arguments.
func (c *Ctx) viaBinding(s Issuance, cr Cred, vo []Origin) bool {
	r := c.R
	fn := FuncName(s.Fn)
	pos := c.P.InstrPos(s.Op.Call)
	construct := "PutSession(uid).value"
	f := StaticCallee(cr.Check)
	if f == nil {
		return false
	}
	// (a) value derives from a result of the same call
	fromCall := HasOrigin(vo, func(o Origin) bool { return o.V == cr.Check.Value() })
	if fromCall {
		// inside F: on every verified return the returned user is the subject
		ok := true
		n := 0
		for _, in := range cr.Inner {
			subj := c.subjectIdentities(in)
			if len(subj) == 0 {
				ok = false
				break
			}
			// find returns dominated by this check's success and compare result 0
			for _, b := range f.Blocks {
				for _, ins := range b.Instrs {
					ret, isRet := ins.(*ssa.Return)
					if !isRet || len(ret.Results) == 0 || !c.isUserType(ret.Results[0].Type()) {
						continue
					}
					if !InstrDominates(in.Check.(ssa.Instruction), ret) {
						continue
					}
					if IsNilConst(ret.Results[0]) {
						continue
					}
					n++
					if !sameOriginValue(c.identityOrigins(c.Origins(ret.Results[0])), subj) {
						ok = false
					}
				}
			}
		}
		if ok && n > 0 {
			r.Ok("C01.bind", fn, construct, pos, fmt.Sprintf("value derives from the user returned by %s, which is the user whose secret it checked (%d returns)", Callee(cr.Check), n))
			return true
		}
		return false
	}
	// (b) operands of the call share an identity with the value
	var argIDs []Origin
	for _, a := range cr.Check.Common().Args {
		argIDs = append(argIDs, c.identityOrigins(c.Origins(a))...)
	}
	if sameOriginValue(c.identityOrigins(vo), argIDs) {
		r.Ok("C01.bind", fn, construct, pos, fmt.Sprintf("value and the secret handed to %s derive from the same user (%s)", Callee(cr.Check), names(argIDs)))
		return true
	}
	return false
}

// sessionSecretBinding: the compare's expected operand is read from the
// session (sms code). The written identity must then be the current user or
// the user loaded from the pending key; that the secret belongs to that user
// is the session invariant decided under C02.
func (c *Ctx) sessionSecretBinding(s Issuance, cr Cred, vo []Origin) bool {
	r := c.R
	fn := FuncName(s.Fn)
	pos := c.P.InstrPos(s.Op.Call)
	construct := "PutSession(uid).value"
	fromSession := false
	for _, a := range checkOperands(cr.Check) {
		for _, o := range c.Origins(a) {
			if o.Kind == "call" && strings.HasPrefix(o.Name, fnGetSession+"#") {
				fromSession = true
			}
		}
	}
	if !fromSession {
		return false
	}
	pend := c.pendingKeys()
	ids := c.identityOrigins(vo)
	if len(ids) == 0 {
		return false
	}
	ok := true
	var why []string
	var checkID func(o Origin, depth int) bool
	checkID = func(o Origin, depth int) bool {
		switch o.Kind {
		case "call":
			call := o.V.(ssa.CallInstruction)
			switch Callee(call) {
			case fnCurrentUser, fnCurrentUserP, fnLoadCurrentUser, fnLoadCurrentUserP:
				why = append(why, "CurrentUser")
				return true
			case fnLoad:
				for _, ko := range c.Origins(Arg(call, 1)) {
					if ko.Kind == "call" && strings.HasPrefix(ko.Name, fnGetSession+"#") {
						gc := ko.V.(ssa.CallInstruction)
						if k, isC := ConstStr(Arg(gc, 1)); isC && pend[k] != nil {
							why = append(why, "Load(session["+k+"])")
							continue
						}
					}
					if ko.Kind == "const" {
						continue
					}
					return false
				}
				return true
			}
			return false
		case "param":
			if depth > 2 {
				return false
			}
			p := o.V.(*ssa.Parameter)
			callers := c.Callers(p.Parent())
			if len(callers) == 0 {
				return false
			}
			idx := paramIndex(p)
			for _, call := range callers {
				if idx < 0 || idx >= len(call.Common().Args) {
					return false
				}
				aids := c.identityOrigins(c.Origins(call.Common().Args[idx]))
				if len(aids) == 0 {
					return false
				}
				for _, a := range aids {
					if !checkID(a, depth+1) {
						return false
					}
				}
			}
			return true
		}
		return false
	}
	for _, o := range ids {
		if !checkID(o, 0) {
			ok = false
		}
	}
	if ok {
		r.Ok("C01.bind", fn, construct, pos, "compare is against a session-held secret; identity written is "+strings.Join(uniq(why), " or ")+" (secret-to-user binding is the C02 session invariant)")
		return true
	}
	return false
}

func paramIndex(p *ssa.Parameter) int {
	for i, q := range p.Parent().Params {
		if q == p {
			return i
		}
	}
	return -1
}

func uniq(ss []string) []string {
	set := map[string]bool{}
	for _, s := range ss {
		set[s] = true
	}
	return sortedKeys(set)
}

// c01Hijack: every FireBefore(EventAuthHijack) site is behind a credential
// check and passes a request that carries the checked user.
func (c *Ctx) c01Hijack() {
	r := c.R
	hij := c.Event("EventAuthHijack")
	n := 0
	for _, fn := range c.P.Funcs {
		for _, f := range Fires(fn) {
			if !f.Before || !f.Const || f.Event != hij {
				continue
			}
			n++
			name := FuncName(fn)
			pos := c.P.InstrPos(f.Call)
			creds := c.CredsAt(f.Call)
			if len(creds) == 0 {
				r.Bad("C01.hijack-fire", name, "FireBefore(EventAuthHijack)", pos, "the second-factor hand-over is not behind a credential check: a pending PID could be parked without proof of the first factor")
				continue
			}
			// request context carries a user identity that is the subject of a check
			ro := c.identityOrigins(c.Origins(f.Req))
			var subj []Origin
			for _, cr := range flatten(creds) {
				subj = append(subj, c.subjectIdentities(cr)...)
			}
			carried := sameOriginValue(ro, subj)
			// … on every way of arriving at the fire (a helper that leaves a user
			// already in the context in place has the second-factor modules look at
			// that other account, which may have no second factor at all)
			if carried {
				if ci := c.ctxChain(f.Req, 0); len(ci.may["user"]) > 0 {
					if _, must := ci.must["user"]; !must {
						carried = false
					}
				}
			}
			if carried {
				r.Ok("C01.hijack-fire", name, "FireBefore(EventAuthHijack)", pos, "behind "+credKinds(creds)+"; request context carries the checked user")
			} else {
				r.Bad("C01.hijack-fire", name, "FireBefore(EventAuthHijack)", pos, fmt.Sprintf("request handed to the hijack handlers (identities: %s) does not carry the user whose credential was checked (%s)", names(ro), names(subj)))
			}
		}
	}
	if n == 0 {
		r.Info("C01.hijack-fire", "", "none", "-", "no FireBefore(EventAuthHijack) site exists")
	}
}

// c01Pending: who may write the pending keys, with what, and how they are read.
func (c *Ctx) c01Pending() {
	r := c.R
	pend := c.pendingKeys()
	r.Extra["pending_keys"] = sortedKeysF(pend)
	if len(pend) == 0 {
		if len(c.Handlers(true, c.Event("EventAuthHijack"))) > 0 {
			r.Unknown("C01.pending-who", "", "pending keys", "-", "hijack handlers are registered but none writes a *_pending session key")
		}
		return
	}
	// one key per factor: a login parked by one second-factor module must not be
	// completable by another module's code check
	for _, k := range sortedKeysF(pend) {
		pkgs := map[string]bool{}
		for _, h := range pend[k] {
			pkgs[pkgOf(h)] = true
		}
		r.Check(len(pkgs) == 1, "C01.pending-who", "session["+k+"]", "one factor per pending key", "-", "written by the hijack handler of "+strings.Join(sortedKeys(pkgs), ","), "the pending-login key "+k+" is shared by the second-factor modules "+strings.Join(sortedKeys(pkgs), ", ")+": a login parked for an account's TOTP factor can be completed at the SMS validate route (with a code sent to whoever holds the session) and vice versa")
	}
	for _, fn := range c.P.Funcs {
		name := FuncName(fn)
		for _, op := range c.StateOps(fn) {
			if op.Store != "session" || !op.Const || pend[op.Key] == nil {
				continue
			}
			pos := c.P.InstrPos(op.Call)
			switch op.Op {
			case "put":
				allowed := false
				for _, h := range pend[op.Key] {
					if h == fn {
						allowed = true
					}
				}
				if !allowed {
					r.Bad("C01.pending-who", name, "PutSession("+op.Key+")", pos, "pending-second-factor key written outside the registered Before(EventAuthHijack) handlers")
					continue
				}
				// value: GetPID of ctx[user]
				vo := c.Origins(op.Val)
				ok := false
				for _, o := range vo {
					if o.Kind == "call" && strings.HasPrefix(o.Name, fnCtxValue+"#") {
						if k, isC := ConstStr(ctxKeyArg(o.V.(ssa.CallInstruction))); isC && k == "user" {
							ok = true
						}
					}
					if o.Kind == "call" && (strings.HasPrefix(o.Name, fnCurrentUser+"#") || strings.HasPrefix(o.Name, fnCurrentUserP+"#")) {
						ok = true
					}
				}
				r.Check(ok, "C01.pending-who", name, "PutSession("+op.Key+")", pos, "written by the registered hijack handler with the PID of ctx[user]", "pending PID written is not derived from ctx[user] (origins: "+names(vo)+")")
			case "get":
				// must be dominated by CurrentUser error == ErrUserNotFound
				ok := false
				for _, f := range FactsAtInstr(op.Call) {
					rel := f.Rel()
					if rel.Op.String() != "==" {
						continue
					}
					x, y := rel.X, rel.Y
					for k := 0; k < 2; k++ {
						if g := loadOfGlobal(y); g != nil && globalName(g) == "ab.ErrUserNotFound" {
							if call, idx := CallOf(x); call != nil && idx == 1 && (Callee(call) == fnCurrentUser || Callee(call) == fnLoadCurrentUser) {
								ok = true
							}
						}
						x, y = y, x
					}
				}
				r.Check(ok, "C01.pending-read", name, "GetSession("+op.Key+")", pos, "pending PID consulted only after CurrentUser returned ErrUserNotFound", "pending PID read is not dominated by CurrentUser()==ErrUserNotFound: a logged-in user's request could act on another account's pending login")
			}
		}
	}
}

func sortedKeysF(m map[string][]*ssa.Function) []string {
	s := map[string]bool{}
	for k := range m {
		s[k] = true
	}
	return sortedKeys(s)
}

// ctxKeyArg returns the key argument of ctx.Value(key) as a string constant
// holder (the key is a MakeInterface of a contextKey constant).
func ctxKeyArg(call ssa.CallInstruction) ssa.Value {
	a := Arg(call, 0)
	if mi, ok := a.(*ssa.MakeInterface); ok {
		return mi.X
	}
	return a
}

// c01Deletes: session[uid] disappears only through logout, expiry or the
// exported helper.
func (c *Ctx) c01Deletes() {
	r := c.R
	uid := c.P.ConstString("", "SessionKey")
	allowed := map[string]string{
		"ab.DelKnownSession":                     "exported helper (callers decide)",
		"(*ab/logout.Logout).Logout":             "logout",
		"(ab/expire.expireMiddleware).ServeHTTP": "idle expiry",
	}
	for _, fn := range c.P.Funcs {
		name := FuncName(fn)
		for _, op := range c.StateOps(fn) {
			if op.Store != "session" || !(op.Op == "del" && (op.Key == uid || !op.Const) || op.Op == "delall") {
				continue
			}
			if name == "ab.DelSession" || name == "ab.DelAllSession" {
				continue
			}
			pos := c.P.InstrPos(op.Call)
			if why, ok := allowed[name]; ok {
				r.Ok("C01.uid-delete", name, op.String(), pos, why)
				continue
			}
			// helper reached only from allowed functions
			okAll := len(c.Callers(fn)) > 0 && !c.isEntry(fn)
			for _, call := range c.Callers(fn) {
				if _, ok := allowed[fname(call)]; !ok {
					okAll = false
				}
			}
			r.Check(okAll, "C01.uid-delete", name, op.String(), pos, "helper reached only from logout/expiry", "the session's user identity is deleted outside logout and idle expiry")
		}
	}
}

// sentinelTransparent: the functions between Storage.Server.Load and the
// callers that compare the error with ErrUserNotFound must hand the storage
// error through unchanged.
func (c *Ctx) sentinelTransparent(rule string) {
	r := c.R
	// the exported loaders and whatever repository helpers they delegate to
	fns := []*ssa.Function{c.P.Func(fnCurrentUser), c.P.Func(fnLoadCurrentUser)}
	inSet := map[*ssa.Function]bool{fns[0]: true, fns[1]: true}
	for i := 0; i < len(fns); i++ {
		for _, call := range Calls(fns[i]) {
			f := StaticCallee(call)
			if f == nil || inSet[f] || !c.inRepo(f) {
				continue
			}
			res := f.Signature.Results()
			if res.Len() == 2 && IsErrorType(res.At(1).Type()) && c.isUserType(res.At(0).Type()) {
				inSet[f] = true
				fns = append(fns, f)
			}
		}
	}
	for _, fn := range fns {
		name := FuncName(fn)
		for _, b := range fn.Blocks {
			for _, in := range b.Instrs {
				ret, ok := in.(*ssa.Return)
				if !ok || len(ret.Results) < 2 {
					continue
				}
				ev := ret.Results[len(ret.Results)-1]
				if !IsErrorType(ev.Type()) {
					continue
				}
				bad := ""
				var walk func(v ssa.Value, d int)
				walk = func(v ssa.Value, d int) {
					if d > 4 || bad != "" {
						return
					}
					switch v := v.(type) {
					case *ssa.Const:
					case *ssa.Phi:
						for _, e := range v.Edges {
							walk(e, d+1)
						}
					case *ssa.UnOp:
						if loadOfGlobal(v) == nil {
							bad = v.String()
						}
					case *ssa.Extract, *ssa.Call:
						call, _ := CallOf(v)
						if call == nil {
							bad = v.String()
							return
						}
						switch Callee(call) {
						case fnLoad, fnCurrentUserLower, fnCurrentUserID, fnLoadCurrentUserID, fnCurrentUser, fnLoadCurrentUser:
						default:
							bad = "error produced by " + Callee(call)
						}
					default:
						bad = v.String()
					}
				}
				walk(ev, 0)
				// the not-found sentinel is an answer about the session (nobody named);
				// once storage has been asked, its answer stands: replacing a storage
				// error by "not found" turns a fault into a refusal (404/401/login
				// redirect instead of 500) and lets callers treat a fault as "anonymous"
				if g := loadOfGlobal(ev); g != nil && g.Name() == "ErrUserNotFound" && bad == "" {
					for _, call := range Calls(fn) {
						cn := Callee(call)
						gf := StaticCallee(call)
						asksStorage := cn == fnLoad || (gf != nil && inSet[gf] && gf != fn)
						if asksStorage && Reaches(call.(ssa.Instruction), ret) {
							// ... unless storage is known to have reported no error there (a
							// storer answering (nil, nil)): no fault is being replaced
							if e := ErrResult(call); e != nil && ErrNilAt(ret, e) {
								continue
							}
							bad = "ErrUserNotFound returned after storage was asked (" + cn + ")"
						}
					}
				}
				pos := c.P.InstrPos(ret)
				if bad == "" {
					r.Ok(rule, name, "return error", pos, "storage error handed through unchanged (nil, sentinel or the callee's own error)")
				} else {
					r.Bad(rule, name, "return error", pos, "the error returned is not the storage layer's own value ("+bad+"): callers compare it with ErrUserNotFound by identity")
				}
			}
		}
	}
}
