package rules

import (
	"go/token"
	"go/types"
	"strings"

	. "abverif/internal/engine"

	"golang.org/x/tools/go/ssa"
)

// sensitive2FA classifies a call as a change of an account's second factor.
// consume is true for the removal of a used recovery code (not a re-keying).
func (c *Ctx) sensitive2FA(call ssa.CallInstruction) (what string, ok bool) {
	cc := call.Common()
	if !cc.IsInvoke() || !c.isUserType(cc.Value.Type()) {
		return "", false
	}
	switch cc.Method.Name() {
	case "PutTOTPSecretKey", "PutSMSPhoneNumber":
		return cc.Method.Name(), true
	case "PutRecoveryCodes":
		// regenerating iff the argument derives from freshly generated codes
		if HasOrigin(c.rawOrigins(Arg(call, 0)), func(o Origin) bool {
			return o.Kind == "call" && (strings.HasPrefix(o.Name, "ab/otp/twofactor.BCryptRecoveryCodes#") || strings.HasPrefix(o.Name, "ab/otp/twofactor.GenerateRecoveryCodes#"))
		}) {
			return "PutRecoveryCodes(new set)", true
		}
		if HasOrigin(c.rawOrigins(Arg(call, 0)), func(o Origin) bool { return o.Kind == "call" && strings.HasPrefix(o.Name, fnUseRecoveryCode+"#0") }) {
			return "", false
		}
		return "PutRecoveryCodes(?)", true
	}
	return "", false
}

// pageOf returns the constant Page of the SMSValidator a receiver value is.
func pageOf(recv ssa.Value) (string, bool) {
	a, ok := recv.(*ssa.Alloc)
	if !ok || a.Referrers() == nil {
		return "", false
	}
	for _, r := range *a.Referrers() {
		fa, ok := r.(*ssa.FieldAddr)
		if !ok || fieldName(fa) != "Page" || fa.Referrers() == nil {
			continue
		}
		for _, rr := range *fa.Referrers() {
			if st, ok := rr.(*ssa.Store); ok {
				if s, ok := ConstStr(st.Val); ok {
					return s, true
				}
			}
		}
	}
	return "", false
}

// pageFacts: the constants the receiver's Page field is known to equal /
// differ from at an instruction.
func pageFacts(at ssa.Instruction) (eq []string, known bool) {
	for _, f := range FactsAtInstr(at) {
		rel := f.Rel()
		if rel.Op != token.EQL {
			continue
		}
		if s, ok := ConstStr(rel.Y); ok && fieldLoadName(rel.X) == "Page" {
			eq = append(eq, s)
			known = true
		}
	}
	return
}

// reachSensitive lists the sensitive effects reachable from fn through static
// calls inside its package (depth 3), honouring Page facts when page != "".
func (c *Ctx) reachSensitive(fn *ssa.Function, page string, depth int, seen map[*ssa.Function]bool) []ssa.CallInstruction {
	if fn == nil || seen[fn] || depth > 3 {
		return nil
	}
	seen[fn] = true
	var out []ssa.CallInstruction
	for _, call := range Calls(fn) {
		if page != "" {
			if eq, known := pageFacts(call.(ssa.Instruction)); known {
				match := false
				for _, e := range eq {
					if e == page {
						match = true
					}
				}
				if !match {
					continue
				}
			}
		}
		if _, ok := c.sensitive2FA(call); ok {
			out = append(out, call)
			continue
		}
		if f := StaticCallee(call); f != nil && c.inRepo(f) && f.Pkg == fn.Pkg {
			out = append(out, c.reachSensitive(f, page, depth+1, seen)...)
		}
	}
	return out
}

// C13: only the fully authenticated owner, proving the factor, changes 2FA.
func C13(c *Ctx) {
	r := c.R
	r.Explanation = "Static necessary conditions for C13: (1) route table (extracted from the Setup functions by resolving wrapper closures, captured cells and bound method values): every route whose handler can reach PutTOTPSecretKey, PutSMSPhoneNumber or a PutRecoveryCodes of freshly generated codes — per SMSValidator.Page constant for the shared SMS handler — is wrapped, in every configuration alternative, by MountedMiddleware2 with RequireFullAuth among its constant requirement bits; the unprotected validate routes cannot reach such an effect; (2) each such effect other than regeneration is dominated by a successful second-factor proof (TOTP code valid for the very secret being saved, SMS code compare, recovery code); the secret/number saved is the one held in the enrolment session key; (3) SMS enrolment binding: the code is reset whenever the enrolment number changes (C02 session-invariant rule); (4) when e-mail authorisation is configured the enrolment routes carry EmailVerify.Wrap, whose pass-through is gated by the flag being off or session[twofactor_authed]==\"true\"; that mark is written only behind a constant-time compare with a present, non-empty session token; the token e-mailed is the token stored and goes to the current user's own address; a completed enrolment deletes the mark; (5) the current user takes precedence over a pending PID (C01 pending-read rule)."
	r.NotDecided = []string{"possession of the phone or authenticator", "TOTP window arithmetic"}
	full := c.P.ConstInt("", "RequireFullAuth")

	routes := c.Routes()
	// Setup functions that wire some route differently when e-mail authorisation is required
	flagAware := map[*ssa.Function]bool{}
	for _, rt := range routes {
		for _, alt := range rt.Alts {
			if strings.Contains(strings.Join(alt.Cond, ","), "TwoFactorEmailAuthRequired") {
				flagAware[rt.In] = true
			}
		}
	}
	// ... or that reads the flag / builds an EmailVerify at all: the wiring then has
	// to show an alternative that carries the verification (a wiring in which the
	// flag-dependent part never reaches the route has no such alternative)
	flagReader := map[*ssa.Function]bool{}
	for _, rt := range routes {
		if flagAware[rt.In] || flagReader[rt.In] || !strings.HasPrefix(pkgOf(rt.In), "ab/otp/twofactor") {
			continue
		}
		for _, b := range rt.In.Blocks {
			for _, in := range b.Instrs {
				switch x := in.(type) {
				case *ssa.FieldAddr:
					if fieldName(x) == "TwoFactorEmailAuthRequired" {
						flagReader[rt.In] = true
					}
				case ssa.CallInstruction:
					if Callee(x) == "ab/otp/twofactor.SetupEmailVerify" {
						flagReader[rt.In] = true
					}
				}
			}
		}
	}
	var table []string
	n2fa := 0
	for _, rt := range routes {
		if !strings.HasPrefix(pkgOf(rt.In), "ab/otp/twofactor") {
			continue
		}
		n2fa++
		for _, alt := range rt.Alts {
			table = append(table, rt.Method+" "+rt.Path+": "+alt.String()+" "+strings.Join(alt.Cond, ","))
		}
		rname := rt.Method + " " + rt.Path
		pos := posf(c, rt.Call)
		// some way of wiring this route carries the e-mail authorisation (the
		// registrations of one path may be several: code behind a join of two
		// wirings is analysed once per wiring)
		someEmail := false
		for _, o := range routes {
			if o.In != rt.In || o.Method != rt.Method || o.Path != rt.Path {
				continue
			}
			for _, alt := range o.Alts {
				for _, w := range alt.Wrappers {
					if w.Kind == "EmailVerify.Wrap" {
						someEmail = true
					}
				}
			}
		}
		for _, alt := range rt.Alts {
			if alt.Unknown != "" || alt.Inner == nil {
				r.Unknown("C13.route", FuncName(rt.In), rname, pos, "handler expression not resolved: "+alt.Unknown)
				continue
			}
			page := ""
			if alt.Recv != nil {
				page, _ = pageOf(alt.Recv)
			}
			sens := c.reachSensitive(alt.Inner, page, 0, map[*ssa.Function]bool{})
			hasFull := false
			hasEmail := false
			for _, w := range alt.Wrappers {
				if w.Kind == "MW2" && w.Reqs >= 0 && w.Reqs&full == full {
					hasFull = true
				}
				if w.Kind == "EmailVerify.Wrap" {
					hasEmail = true
				}
			}
			// the authentication middleware is the outermost gate: an unauthenticated
			// request must get the configured refusal, not the e-mail authorisation redirect
			iMW, iEV := -1, -1
			for i, w := range alt.Wrappers {
				if w.Kind == "MW2" && iMW < 0 {
					iMW = i
				}
				if w.Kind == "EmailVerify.Wrap" && iEV < 0 {
					iEV = i
				}
			}
			if iMW >= 0 && iEV >= 0 {
				r.Check(iMW < iEV, "C13.route-order", FuncName(rt.In), rname+"→"+FuncName(alt.Inner)+"{"+strings.Join(alt.Cond, ",")+"}", pos, "authentication middleware wraps the e-mail authorisation gate", "the e-mail authorisation gate is outside the authentication middleware: requests from sessions that are not (fully) authenticated are answered by the redirect to the e-mail verification page (with a session flash) instead of the configured 404/401/login redirect: "+alt.String())
			}
			key := rname + "→" + FuncName(alt.Inner)
			if page != "" {
				key += "[" + page + "]"
			}
			if len(alt.Cond) > 0 {
				key += "{" + strings.Join(alt.Cond, ",") + "}"
			}
			if len(sens) > 0 {
				var names []string
				for _, s := range sens {
					w, _ := c.sensitive2FA(s)
					names = append(names, w)
				}
				r.Check(hasFull, "C13.route", FuncName(rt.In), key, pos, "reaches "+strings.Join(uniq(names), ",")+"; behind MountedMiddleware2(RequireFullAuth)", "route can change the account's second factor ("+strings.Join(uniq(names), ",")+") but is not wrapped by the authentication middleware with RequireFullAuth: "+alt.String())
			} else {
				r.Ok("C13.route", FuncName(rt.In), key, pos, "cannot reach a second-factor change ("+alt.String()+")")
			}
			// enrolment-start routes (write the enrolment session keys) need full auth as well
			enrol := false
			for _, op := range c.StateOps(alt.Inner) {
				if op.Op == "put" && op.Store == "session" && (op.Key == "totp_secret" || op.Key == "sms_number" || op.Key == "twofactor_auth_token" || op.Key == "twofactor_authed") {
					enrol = true
				}
			}
			if enrol {
				r.Check(hasFull, "C13.route", FuncName(rt.In), key+"|enrol-keys", pos, "enrolment state written only by fully authenticated sessions", "route writes enrolment session state but is not behind RequireFullAuth")
			}
			// e-mail authorisation on enrolment routes when required: an alternative that
			// applies when the flag is set — explicitly, or because the route's wrapping
			// does not depend on the flag at all
			conds := strings.Join(alt.Cond, ",")
			if (len(sens) > 0 || enrol) && (strings.Contains(conds, "TwoFactorEmailAuthRequired=true") || (!strings.Contains(conds, "TwoFactorEmailAuthRequired") && flagAware[rt.In])) {
				isRemove := false
				for _, s := range sens {
					if v, isC := ConstStr(Arg(s, 0)); isC && v == "" {
						isRemove = true
					}
				}
				if !isRemove {
					r.Check(hasEmail, "C13.email-route", FuncName(rt.In), key, pos, "enrolment route carries EmailVerify.Wrap when e-mail authorisation is required", "enrolment route lacks EmailVerify.Wrap although TwoFactorEmailAuthRequired is set")
				}
			}
			// the Setup function reads the flag (or builds an EmailVerify) but the
			// alternatives of this route are told apart by something else — a field of
			// a local struct that is nil unless the flag is set — or not at all: one of
			// them at least has to carry the wrap
			if (len(sens) > 0 || enrol) && !flagAware[rt.In] && flagReader[rt.In] && !strings.Contains(conds, "TwoFactorEmailAuthRequired") {
				isRemove := false
				for _, s := range sens {
					if v, isC := ConstStr(Arg(s, 0)); isC && v == "" {
						isRemove = true
					}
				}
				if !isRemove {
					r.Check(someEmail, "C13.email-route", FuncName(rt.In), key, pos, "some wiring of the enrolment route carries EmailVerify.Wrap", "the module sets up the e-mail authorisation but no wiring of this enrolment route carries EmailVerify.Wrap: with TwoFactorEmailAuthRequired set the route is reachable without the e-mailed token")
				}
			}
		}
	}
	r.Extra["route_table_2fa"] = table
	r.Extra["routes_2fa"] = n2fa
	r.Extra["routes_2fa_reference"] = 24
	if n2fa == 0 {
		r.Unknown("C13.route", "ab/otp/twofactor", "routes", "-", "no 2FA routes found")
	}

	// (2) proof before save
	c.c13Proof()
	// (3)
	c.smsInvariant()
	// (4)
	c.c13Email()
	// (5)
	c.c01Pending()
	c.presenceRule("C13.presence")
}

func (c *Ctx) c13Proof() {
	r := c.R
	n := 0
	for _, fn := range c.P.Funcs {
		if !strings.HasPrefix(pkgOf(fn), "ab/otp/twofactor") {
			continue
		}
		name := FuncName(fn)
		for _, call := range Calls(fn) {
			what, ok := c.sensitive2FA(call)
			if !ok {
				continue
			}
			n++
			pos := posf(c, call)
			if strings.HasPrefix(what, "PutRecoveryCodes(new set)") {
				// fresh codes accompany an enrolment (proof checked on the sibling Put) or the regen route (full auth only)
				r.Ok("C13.proof", name, what, pos, "fresh recovery codes: issued with an enrolment or by the full-auth regeneration route")
				continue
			}
			creds := c.CredsAt(call)
			if len(creds) == 0 {
				r.Bad("C13.proof", name, what, pos, "the account's second factor is changed without a dominating proof (valid code or recovery code)", factList(c, call.(ssa.Instruction))...)
				continue
			}
			r.Ok("C13.proof", name, what, pos, "behind "+credKinds(creds))
			arg := Arg(call, 0)
			if s, isC := ConstStr(arg); isC && s == "" {
				continue // removal
			}
			// enabling: the value saved is the enrolment value held in the session …
			gets := c.sessionGetsOf(arg)
			if len(gets) == 0 {
				r.Bad("C13.enrol-value", name, what+".arg", pos, "value enrolled is not the one held in the enrolment session key (origins: "+names(c.rawOrigins(arg))+")")
				continue
			}
			k, _ := constArgStr(gets[0], 1)
			r.Check(c.presenceChecked(call.(ssa.Instruction), gets[0]), "C13.enrol-value", name, what+".arg", pos, "value enrolled is session["+k+"], present", "enrolment value session["+k+"] is used without a presence check")
			// … a recovery code proves the owner, not the number/secret being enrolled:
			// where the proof has a recovery-code alternative, that alternative must be
			// closed on the enrolment page
			for _, cr := range creds {
				if strings.Contains(cr.Kind, "UseRecoveryCode") && cr.Check != nil {
					c.recoveryClosedOnEnrol(fn, call, cr.Check, what)
				}
			}
			// … and for TOTP the code was validated against that very secret
			for _, cr := range flatten(creds) {
				if cr.Kind == "totp-code" {
					r.Check(Arg(cr.Check, 1) == arg, "C13.enrol-value", name, what+"|validated secret", pos, "the secret saved is the secret the code was validated against", "the code was validated against a different secret than the one saved")
				}
			}
		}
	}
	if n == 0 {
		r.Unknown("C13.proof", "ab/otp/twofactor", "effects", "-", "no second-factor change found")
	}
}

func (c *Ctx) c13Email() {
	r := c.R
	authed := c.P.ConstString("", "Session2FAAuthed")
	tokKey := c.P.ConstString("", "Session2FAAuthToken")
	// Wrap
	wrap := c.P.FuncOpt("(ab/otp/twofactor.EmailVerify).Wrap")
	if wrap == nil {
		r.Unknown("C13.email", "(ab/otp/twofactor.EmailVerify).Wrap", "method", "-", "not found")
		return
	}
	var bodies []*ssa.Function
	for _, a := range wrap.AnonFuncs {
		bodies = append(bodies, a)
	}
	// a handler type of the package returned instead of a closure: its ServeHTTP is the body
	for _, b := range wrap.Blocks {
		for _, in := range b.Instrs {
			mi, ok := in.(*ssa.MakeInterface)
			if !ok {
				continue
			}
			t := mi.X.Type()
			if p, isP := t.(*types.Pointer); isP {
				t = p.Elem()
			}
			for _, f := range c.P.Funcs {
				if f.Name() != "ServeHTTP" || f.Signature.Recv() == nil || pkgOf(f) != pkgOf(wrap) {
					continue
				}
				rt := f.Signature.Recv().Type()
				if p, isP := rt.(*types.Pointer); isP {
					rt = p.Elem()
				}
				if types.Identical(rt, t) {
					bodies = append(bodies, f)
				}
			}
		}
	}
	ns := 0
	for _, body := range bodies {
		for _, call := range CallsTo(body, fnServeHTTP) {
			ns++
			flagOff := func(f Fact) bool {
				rel := f.Rel()
				return rel.B != nil && !rel.Pol && fieldLoadName(rel.B) == "TwoFactorEmailAuthRequired"
			}
			isAuthed := func(f Fact) bool {
				rel := f.Rel()
				if rel.Op != token.EQL {
					return false
				}
				s, isC := ConstStr(rel.Y)
				if !isC || s != "true" {
					return false
				}
				g, idx := CallOf(rel.X)
				if g == nil || idx != 0 || Callee(g) != fnGetSession {
					return false
				}
				k, _ := constArgStr(g, 1)
				return k == authed
			}
			gate := func(f Fact) bool { return flagOff(f) || isAuthed(f) }
			// `!required || verified(r)`: the call sits at the join of the two tests
			okGate := HoldsAt(call.(ssa.Instruction), gate) || HoldsAtJoin(call.(ssa.Instruction), gate)
			r.Check(okGate, "C13.email", FuncName(body), "handler.ServeHTTP", posf(c, call), "wrapped enrolment handler runs only when authorisation is off or session["+authed+"]==\"true\"", "the wrapped enrolment handler can run without the e-mail authorisation mark")
		}
	}
	if ns == 0 {
		r.Unknown("C13.email", FuncName(wrap), "handler.ServeHTTP", "-", "Wrap never calls the wrapped handler")
	}
	// who writes the mark
	for _, fn := range c.P.Funcs {
		for _, op := range c.StateOps(fn) {
			if op.Store != "session" || !op.Const || op.Key != authed || op.Op != "put" {
				continue
			}
			name := FuncName(fn)
			pos := posf(c, op.Call)
			creds := c.CredsAt(op.Call)
			okCred := false
			for _, cr := range flatten(creds) {
				if cr.Kind != "ctc" {
					continue
				}
				for _, a := range checkOperands(cr.Check) {
					for _, g := range c.sessionGetsOf(a) {
						if k, _ := constArgStr(g, 1); k == tokKey && c.presenceChecked(cr.Check.(ssa.Instruction), g) {
							okCred = true
						}
					}
				}
			}
			r.Check(okCred, "C13.email", name, "PutSession("+authed+")", pos, "authorisation granted only behind a constant-time compare with a present, non-empty session token", "e-mail authorisation is granted without a compare against a present, non-empty session["+tokKey+"]")
			v, isC := ConstStr(op.Val)
			r.Check(isC && v == "true", "C13.email", name, "PutSession("+authed+").value", pos, `"true"`, "mark value is not the constant \"true\"")
			// token spent
			spent := false
			for _, o2 := range c.StateOps(fn) {
				if o2.Op == "del" && o2.Key == tokKey {
					spent = true
				}
			}
			r.Check(spent, "C13.email", name, "DelSession("+tokKey+")", pos, "token spent when used", "the e-mailed token stays usable after it authorised a session")
		}
	}
	// PostStart: token stored == token mailed, to the current user's own address
	if ps := c.P.FuncOpt("(ab/otp/twofactor.EmailVerify).PostStart"); ps != nil {
		name := FuncName(ps)
		var stored ssa.Value
		for _, op := range c.StateOps(ps) {
			if op.Op == "put" && op.Key == tokKey {
				stored = op.Val
			}
		}
		gc, _ := CallOf(stored)
		r.Check(gc != nil && Callee(gc) == "ab/otp/twofactor.GenerateToken", "C13.email", name, "PutSession("+tokKey+")", c.P.Pos(ps.Pos()), "stores a freshly generated token", "the token stored is not a fresh GenerateToken() result")
		nm := 0
		for _, call := range Calls(ps) {
			if Callee(call) != "(ab/otp/twofactor.EmailVerify).SendVerifyEmail" {
				continue
			}
			nm++
			args := call.Common().Args
			tok := args[len(args)-1]
			to := args[len(args)-2]
			okTo := HasOrigin(c.rawOrigins(to), func(o Origin) bool { return o.Kind == "call" && strings.Contains(o.Name, ".GetEmail#") }) &&
				HasOrigin(c.Origins(to), func(o Origin) bool { return o.Kind == "call" && strings.HasPrefix(o.Name, fnCurrentUser+"#") })
			r.Check(tok == stored && okTo, "C13.email", name, "SendVerifyEmail", posf(c, call), "mails the stored token to the current user's address", "the token mailed is not the token stored, or it is not sent to the current user's own address")
		}
		r.Check(nm >= 1, "C13.email", name, "mail sent", c.P.Pos(ps.Pos()), sprintf("%d send sites", nm), "PostStart never mails the token")
	}
	// completed enrolment spends the authorisation
	for _, fn := range c.P.Funcs {
		if !strings.HasPrefix(pkgOf(fn), "ab/otp/twofactor/") {
			continue
		}
		for _, call := range Calls(fn) {
			what, ok := c.sensitive2FA(call)
			if !ok || strings.HasPrefix(what, "PutRecoveryCodes") {
				continue
			}
			if s, isC := ConstStr(Arg(call, 0)); isC && s == "" {
				continue
			}
			// from the successful save after this put, every non-error exit passes DelSession(authed)
			for _, s := range CallsTo(fn, fnSave) {
				if !Reaches(call.(ssa.Instruction), s.(ssa.Instruction)) {
					continue
				}
				q := PathQuery{From: s.(ssa.Instruction), Cut: c.isStateOp("del", "session", authed), GoalP: c.nonErrorReturn}
				// only the save that follows this put on a straight path counts
				if !InstrDominates(call.(ssa.Instruction), s.(ssa.Instruction)) {
					continue
				}
				if p := q.Find(); p != nil {
					r.Bad("C13.email-spent", FuncName(fn), what+"⇒DelSession("+authed+")", posf(c, s), "a completed enrolment leaves the e-mail authorisation mark in the session: it authorises further enrolments", c.P.DescribePath(p)...)
				} else {
					r.Ok("C13.email-spent", FuncName(fn), what+"⇒DelSession("+authed+")", posf(c, s), "authorisation spent by the completed enrolment")
				}
			}
		}
	}
}

// recoveryClosedOnEnrol: effect (an enrolment) in fn is reachable behind a
// recovery-code check use. The recovery code submitted must be empty whenever
// the handler runs for the enrolment page: every place that reads it from the
// request lies behind a Page == <other page> test.
func (c *Ctx) recoveryClosedOnEnrol(fn *ssa.Function, effect, use ssa.CallInstruction, what string) {
	r := c.R
	name := FuncName(fn)
	pos := posf(c, effect)
	pages, known := pageFacts(effect.(ssa.Instruction))
	if !known {
		r.Unknown("C13.enrol-proof", name, what+"|recovery alternative", pos, "the enrolment can be authorised by a recovery code and the page it happens on is not established by a Page == <constant> test")
		return
	}
	onEnrolPage := func(s string) bool {
		for _, p := range pages {
			if p == s {
				return true
			}
		}
		return false
	}
	// where the code comes from
	type site struct {
		fn   *ssa.Function
		call ssa.CallInstruction
	}
	var reads []site
	bad := ""
	var collect func(f *ssa.Function, v ssa.Value, depth int)
	collect = func(f *ssa.Function, v ssa.Value, depth int) {
		if depth > 3 {
			bad = "call chain too deep"
			return
		}
		for _, o := range c.rawOrigins(v) {
			switch o.Kind {
			case "const":
			case "call":
				if call, ok := o.V.(ssa.CallInstruction); ok && call.Common().IsInvoke() && call.Common().Method.Name() == "GetRecoveryCode" {
					reads = append(reads, site{f, call})
				} else {
					bad = "recovery code comes from " + o.Name
				}
			case "param":
				p := o.V.(*ssa.Parameter)
				idx := paramIndex(p)
				callers := c.Callers(f)
				if len(callers) == 0 || c.isEntry(f) {
					bad = "recovery code is a parameter of an entry point"
					continue
				}
				for _, cs := range callers {
					collect(cs.Parent(), Arg(cs, idx), depth+1)
				}
			default:
				bad = "recovery code comes from " + o.String()
			}
		}
	}
	collect(fn, Arg(use, 1), 0)
	if bad != "" {
		r.Unknown("C13.enrol-proof", name, what+"|recovery alternative", pos, "origin of the recovery code not understood: "+bad)
		return
	}
	for _, rd := range reads {
		q := PathQuery{StartBlock: rd.fn.Blocks[0], Goal: func(i ssa.Instruction) bool { return i == rd.call.(ssa.Instruction) }, PruneFact: func(f Fact) bool {
			rel := f.Rel()
			if rel.Op != token.EQL || fieldLoadName(rel.X) != "Page" {
				return false
			}
			s, isC := ConstStr(rel.Y)
			return isC && !onEnrolPage(s)
		}}
		if p := q.Find(); p != nil {
			r.Bad("C13.enrol-proof", name, what+"|recovery alternative", posf(c, rd.call), "on the enrolment page ("+strings.Join(pages, ",")+") the submitted recovery code is read and can authorise the enrolment: the number is enrolled without the code that was sent to it", c.P.DescribePath(p)...)
			return
		}
	}
	r.Ok("C13.enrol-proof", name, what+"|recovery alternative", pos, sprintf("the recovery code is read from the request only behind a Page test for another page (%d read sites)", len(reads)))
}
