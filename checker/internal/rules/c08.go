package rules

import (
	"go/constant"
	"go/token"
	"go/types"
	"sort"
	"strings"

	. "abverif/internal/engine"

	"golang.org/x/tools/go/ssa"
)

// fieldOrigins slices with field markers and raw (non-transparent accessor) calls.
func (c *Ctx) fieldOrigins(v ssa.Value) []Origin {
	s := Slicer{Fields: true, Through: func(call ssa.CallInstruction, idx int) ([]ssa.Value, bool) {
		cc := call.Common()
		if cc.IsInvoke() {
			return nil, false
		}
		name := Callee(call)
		if name == "" || strings.HasPrefix(name, "var:") || originCalls[name] || userSources[name] {
			return nil, false
		}
		switch name {
		case "(net/url.Values).Encode", "net/url.QueryEscape", "net/url.PathEscape":
			// percent-encoding: the result carries its input only in escaped form
			return nil, false
		}
		if f := StaticCallee(call); f != nil && c.inRepo(f) && !transparentRepo(name) {
			return nil, false
		}
		if len(cc.Args) == 0 {
			return nil, false
		}
		return cc.Args, true
	}}
	return s.Origins(v)
}

func hasField(os []Origin, suffix string) bool {
	return HasOrigin(os, func(o Origin) bool { return o.Kind == "field" && strings.HasSuffix(o.Name, suffix) })
}

// C08: the access middleware admits a request exactly when requirements hold.
func C08(c *Ctx) {
	r := c.R
	r.Explanation = "Static decision of C08 on MountedMiddleware2's request closure: (1) truth table: every assignment of the atoms hasBit(reqs,RequireFullAuth), IsFullyAuthed(r), hasBit(reqs,Require2FA), IsTwoFactored(r) and of the LoadCurrentUser outcome {ErrUserNotFound, other error, nil} (48 rows) is walked through the closure's CFG (branch conditions are evaluated on the atoms only; nothing is executed) and must reach exactly one outcome call, equal to the specification: fail / WriteHeader(500) / next.ServeHTTP; (2) the atoms mean what they say: hasBit is reqs&req==req, IsFullyAuthed is the negated presence of session[halfauth], IsTwoFactored the presence of session[twofactor]; the bit constants are distinct powers of two; (3) fail() is exhaustive over the declared MWRespondOnFailure constants: 404, 401, redirect; the redirect carries, under the FormValueRedirect key, the request path (mount-joined iff mountPathed and a mount is configured) followed by ?RawQuery, the query never passing through path cleaning, and is sent to Mount/login?<encoded values>; (4) the deprecated Middleware/MountedMiddleware map their booleans to the right bits; (5) LoadCurrentUser/CurrentUser hand storage errors through unchanged so that the ErrUserNotFound comparison is meaningful."
	r.NotDecided = []string{"URL escaping of arbitrary bytes (net/url)", "that storage can load the user named by the session (integrator)"}
	mw := c.P.Func("ab.MountedMiddleware2")
	var handler, fail *ssa.Function
	var find func(f *ssa.Function)
	find = func(f *ssa.Function) {
		for _, a := range f.AnonFuncs {
			if len(CallsTo(a, fnLoadCurrentUser)) > 0 {
				handler = a
			}
			find(a)
		}
	}
	find(mw)
	if handler == nil {
		// the closure turned into a method of a small struct built by the middleware
		// constructor: the one function of the package that loads the current user and
		// hands the request on to a wrapped handler
		var cands []*ssa.Function
		for _, f := range c.P.Funcs {
			if pkgOf(f) != "ab" || f == mw || len(CallsTo(f, fnLoadCurrentUser)) == 0 {
				continue
			}
			passes := false
			for _, call := range Calls(f) {
				if call.Common().IsInvoke() && call.Common().Method.Name() == "ServeHTTP" {
					passes = true
				}
			}
			if passes {
				cands = append(cands, f)
			}
		}
		if len(cands) == 1 {
			handler = cands[0]
		}
	}
	if handler == nil {
		r.Unknown("C08.tt", FuncName(mw), "handler closure", "-", "request closure calling LoadCurrentUser not found")
		return
	}
	for _, a := range handler.AnonFuncs {
		fail = a
	}
	// the refusal closure built once when the middleware is constructed and
	// captured by the request closure: a call through a captured variable that
	// is bound to exactly one function literal
	viaCapture := map[ssa.CallInstruction]bool{}
	if fail == nil {
		for _, call := range Calls(handler) {
			if call.Common().IsInvoke() || StaticCallee(call) != nil {
				continue
			}
			if fs := boundFuncs(call.Common().Value, 0); len(fs) == 1 && fs[0].Parent() != nil && pkgOf(fs[0]) == pkgOf(handler) {
				fail = fs[0]
				viaCapture[call] = true
			}
		}
	}
	// refusal modes: when the refusal is a closure of its own it is one outcome
	// ("fail") and is decided separately; when it is written out in the handler
	// (or in helpers inlined into it) the table gets one more dimension
	respConsts := map[string]int64{}
	for nm, m := range c.P.ByPath[RepoPath].Members {
		if nc, ok := m.(*ssa.NamedConst); ok && strings.HasSuffix(nc.Type().String(), ".MWRespondOnFailure") {
			if v, ok := ConstInt(nc.Value); ok {
				respConsts[nm] = v
			}
		}
	}
	refusalOf := map[string]string{"RespondNotFound": "status404", "RespondUnauthorized": "status401", "RespondRedirect": "redirect"}
	modes := []string{""}
	if fail == nil {
		modes = nil
		for nm := range refusalOf {
			if _, ok := respConsts[nm]; ok {
				modes = append(modes, nm)
			}
		}
		sort.Strings(modes)
		if len(modes) != 3 {
			r.Unknown("C08.tt", FuncName(mw), "refusal modes", "-", "the refusal is written out in the handler but the MWRespondOnFailure constants were not all found")
			return
		}
	}
	hn := FuncName(handler)
	full := c.P.ConstInt("", "RequireFullAuth")
	two := c.P.ConstInt("", "Require2FA")
	r.Check(full > 0 && two > 0 && full != two && full&(full-1) == 0 && two&(two-1) == 0 && c.P.ConstInt("", "RequireNone") == 0, "C08.bits", "ab.MWRequirements", "distinct single bits", "-", sprintf("RequireFullAuth=%d Require2FA=%d", full, two), "requirement constants are not distinct single bits")

	// outcome classification
	lcu := CallsTo(handler, fnLoadCurrentUser)
	var errV ssa.Value
	if len(lcu) == 1 {
		errV = ResultValue(lcu[0], 1)
	}
	if errV == nil {
		r.Unknown("C08.tt", hn, "LoadCurrentUser", "-", "expected exactly one LoadCurrentUser call with a used error")
		return
	}
	outcome := func(i ssa.Instruction) string {
		call, ok := i.(ssa.CallInstruction)
		if !ok {
			return ""
		}
		cc := call.Common()
		if cc.IsInvoke() && cc.Method.Name() == "ServeHTTP" {
			return "next"
		}
		if cc.IsInvoke() && cc.Method.Name() == "WriteHeader" {
			if n, isC := ConstInt(Arg(call, 0)); isC {
				return sprintf("status%d", n)
			}
			return "status?"
		}
		if mc, ok := cc.Value.(*ssa.MakeClosure); ok && fail != nil && mc.Fn == fail {
			return "fail"
		}
		if viaCapture[call] {
			return "fail"
		}
		if Callee(call) == fnRedirect {
			return "redirect"
		}
		if cc.IsInvoke() && (cc.Method.Name() == "Write" || cc.Method.Name() == "Redirect" || cc.Method.Name() == "Respond") {
			return "other:" + cc.Method.Name()
		}
		return ""
	}
	rows, bad := 0, 0
	for _, mode := range modes {
		for mask := 0; mask < 16; mask++ {
			aF, aFull, aT, aTwo := mask&1 != 0, mask&2 != 0, mask&4 != 0, mask&8 != 0
			for _, ek := range []string{"notfound", "other", "nil"} {
				rows++
				w := Walk{Atom: func(v ssa.Value) (bool, bool) {
					// the configured refusal mode compared with a constant
					if b, ok := v.(*ssa.BinOp); ok && mode != "" && (b.Op == token.EQL || b.Op == token.NEQ) && strings.HasSuffix(b.X.Type().String(), ".MWRespondOnFailure") {
						if n, isC := ConstInt(b.Y); isC {
							if _, isC2 := ConstInt(b.X); !isC2 {
								return (n == respConsts[mode]) == (b.Op == token.EQL), true
							}
						}
					}
					if call, _ := CallOf(v); call != nil {
						switch Callee(call) {
						case "ab.hasBit":
							if n, isC := ConstInt(Arg(call, 1)); isC {
								if n == full {
									return aF, true
								}
								if n == two {
									return aT, true
								}
							}
						case "ab.IsFullyAuthed":
							return aFull, true
						case "ab.IsTwoFactored":
							return aTwo, true
						}
					}
					// the bit test written out: reqs&K == K, reqs&K != 0
					if b, ok := v.(*ssa.BinOp); ok && (b.Op == token.EQL || b.Op == token.NEQ) {
						x, y := b.X, b.Y
						for k := 0; k < 2; k++ {
							if and, isA := x.(*ssa.BinOp); isA && and.Op == token.AND {
								m, okM := ConstInt(and.Y)
								if !okM {
									m, okM = ConstInt(and.X)
								}
								o, okO := ConstInt(y)
								if okM && okO && (m == full || m == two) {
									val := aF
									if m == two {
										val = aT
									}
									if o == m {
										return val == (b.Op == token.EQL), true
									}
									if o == 0 {
										return val == (b.Op == token.NEQ), true
									}
								}
							}
							x, y = y, x
						}
					}
					if rel := Normalize(v, true); rel.Op == token.EQL || rel.Op == token.NEQ {
						x, y := rel.X, rel.Y
						for k := 0; k < 2; k++ {
							if flowsTo(errV, x, 0) {
								if IsNilConst(y) {
									return (ek == "nil") == (rel.Op == token.EQL), true
								}
								if g := loadOfGlobal(y); g != nil && globalName(g) == "ab.ErrUserNotFound" {
									return (ek == "notfound") == (rel.Op == token.EQL), true
								}
							}
							x, y = y, x
						}
					}
					return false, false
				}}
				refusal := "fail"
				if mode != "" {
					refusal = refusalOf[mode]
				}
				want := "next"
				if (aF && !aFull) || (aT && !aTwo) {
					want = refusal
				} else if ek == "notfound" {
					want = refusal
				} else if ek == "other" {
					want = "status500"
				}
				traces := w.Traces(handler)
				rowOK := len(traces) > 0
				got := ""
				for _, t := range traces {
					var outs []string
					for _, in := range t.Instrs {
						if o := outcome(in); o != "" {
							outs = append(outs, o)
						}
					}
					got = strings.Join(outs, "+")
					if t.End == nil || len(outs) != 1 || outs[0] != want {
						rowOK = false
						break
					}
				}
				if !rowOK {
					bad++
					ms := ""
					if mode != "" {
						ms = " refusal=" + mode
					}
					r.Bad("C08.tt", hn, sprintf("row full-req=%v fully-authed=%v 2fa-req=%v two-factored=%v load=%s%s", aF, aFull, aT, aTwo, ek, ms), c.P.Pos(handler.Pos()), sprintf("outcome %q, specification %q", got, want))
				}
			}
		}
	}
	r.Extra["truth_table_rows"] = rows
	r.Extra["exhaustive"] = true
	if bad == 0 {
		r.Ok("C08.tt", hn, "48-row truth table", c.P.Pos(handler.Pos()), sprintf("all %d rows reach exactly the specified outcome", rows))
	}
	// the wrapped handler receives the request as updated by LoadCurrentUser (same variable)
	// (2) atoms
	c.c08Atoms(full, two)
	if c.gateOnly {
		// borrowed by a property that needs only the admission decision, not the
		// shape of the refusal
		c.sentinelTransparent("C08.sentinel")
		return
	}
	// (3) fail table
	if fail == nil {
		// the refusal is written out in the handler: its mode table is part of the
		// truth table above; the redirect construction is checked where it is
		c.c08Redirect(handler)
	} else {
		c.c08Fail(fail)
	}
	// (4) deprecated wrappers
	c.c08Deprecated(mw, full, two)
	// (5)
	c.sentinelTransparent("C08.sentinel")
	c.anonymousIsNotFound("C08.anonymous")
}

func (c *Ctx) c08Atoms(full, two int64) {
	r := c.R
	hb := c.P.FuncOpt("ab.hasBit")
	if hb == nil {
		// the bit test is written out at its uses (the truth table reads reqs&K == K directly)
		r.Info("C08.atoms", "ab", "hasBit", "-", "no hasBit helper: bit tests are read where they are written")
	}
	ok := hb == nil
	if hb == nil {
		hb = c.P.Func("ab.MountedMiddleware2")
	}
	for _, b := range hb.Blocks {
		for _, in := range b.Instrs {
			ret, isRet := in.(*ssa.Return)
			if !isRet || len(ret.Results) != 1 {
				continue
			}
			cmp, isB := ret.Results[0].(*ssa.BinOp)
			if !isB || cmp.Op != token.EQL {
				continue
			}
			and, isA := cmp.X.(*ssa.BinOp)
			other := cmp.Y
			if !isA {
				and, isA = cmp.Y.(*ssa.BinOp)
				other = cmp.X
			}
			if !isA || and.Op != token.AND {
				continue
			}
			p0, p1 := ssa.Value(hb.Params[0]), ssa.Value(hb.Params[1])
			if ((and.X == p0 && and.Y == p1) || (and.X == p1 && and.Y == p0)) && other == p1 {
				ok = true
			}
		}
	}
	if FuncName(hb) == "ab.hasBit" {
		r.Check(ok, "C08.atoms", FuncName(hb), "reqs&req==req", c.P.Pos(hb.Pos()), "bit test", "hasBit is not reqs&req == req")
	}
	gsf := c.P.Func(fnGetSession)
	okPT, whyPT := c.presencePassThrough(gsf, 0)
	r.Check(okPT, "C08.atoms", FuncName(gsf), "GetSession = ClientState.Get", c.P.Pos(gsf.Pos()), "value and presence flag handed through unaltered", "GetSession does not hand the session state's answer through unaltered: "+whyPT)
	for _, a := range []struct {
		fn, key string
		neg     bool
	}{{"ab.IsFullyAuthed", c.P.ConstString("", "SessionHalfAuthKey"), true}, {"ab.IsTwoFactored", c.P.ConstString("", "Session2FA"), false}} {
		fn := c.P.Func(a.fn)
		okA := false
		gets := CallsTo(fn, fnGetSession)
		keyArg := 1
		if len(gets) == 0 {
			// the look-up helper GetSession itself uses, asked for the session state
			for _, call := range Calls(fn) {
				g := StaticCallee(call)
				if g == nil || !c.inRepo(g) || len(call.Common().Args) != 3 {
					continue
				}
				if ck, isK := ConstStr(Arg(call, 1)); !isK || ck != "session" {
					continue
				}
				if okP, _ := c.presencePassThrough(g, 1); okP {
					gets = append(gets, call)
					keyArg = 2
				}
			}
		}
		if len(gets) == 1 {
			k, isC := constArgStr(gets[0], keyArg)
			present := ResultValue(gets[0], 1)
			if isLookupStruct(gets[0].Common().Signature().Results()) {
				present = nil
				for _, b := range fn.Blocks {
					for _, in := range b.Instrs {
						if v, isV := in.(ssa.Value); isV {
							if fc, fi := flatResultOf(v); fc != nil && fc == gets[0] && fi == 1 && v.Type().String() == "bool" {
								present = v
							}
						}
					}
				}
			}
			for _, b := range fn.Blocks {
				for _, in := range b.Instrs {
					ret, isRet := in.(*ssa.Return)
					if !isRet || len(ret.Results) != 1 {
						continue
					}
					rel := Normalize(ret.Results[0], true)
					if isC && k == a.key && rel.B == present && present != nil && rel.Pol == !a.neg {
						okA = true
					}
				}
			}
		}
		r.Check(okA, "C08.atoms", a.fn, "presence of session["+a.key+"]", c.P.Pos(fn.Pos()), map[bool]string{true: "negated presence", false: "presence"}[a.neg], a.fn+" is not the "+map[bool]string{true: "negated ", false: ""}[a.neg]+"presence of session["+a.key+"]")
	}
}

// presencePassThrough: GetSession answers exactly what the session's
// ClientState.Get answers — the value and the presence flag unaltered — or
// ("", false) when no state was loaded. The half-auth and 2FA marks are
// presence tests: reinterpreting an empty value as absent (or the reverse)
// changes what the middleware admits.
func (c *Ctx) presencePassThrough(fn *ssa.Function, depth int) (bool, string) {
	if depth > 3 {
		return false, "call chain too deep"
	}
	isSource := func(call ssa.CallInstruction) bool {
		cc := call.Common()
		if cc.IsInvoke() && cc.Method.Name() == "Get" && strings.HasSuffix(cc.Value.Type().String(), ".ClientState") {
			return true
		}
		g := StaticCallee(call)
		if g != nil && c.inRepo(g) && (g.Signature.Results().Len() == 2 || isLookupStruct(g.Signature.Results())) {
			ok, _ := c.presencePassThrough(g, depth+1)
			return ok
		}
		return false
	}
	var sources []ssa.CallInstruction
	for _, call := range Calls(fn) {
		if res := call.Common().Signature().Results(); (res.Len() == 2 || isLookupStruct(res)) && isSource(call) {
			sources = append(sources, call)
		}
	}
	if len(sources) == 0 {
		return false, "no ClientState.Get reached"
	}
	nPass := 0
	for _, b := range fn.Blocks {
		ret, ok := b.Instrs[len(b.Instrs)-1].(*ssa.Return)
		if !ok {
			continue
		}
		// one (value, presence) pair per way of arriving at the return: a merged
		// return (what an inlined look-up helper leaves) is read edge by edge
		type pair struct {
			v0, v1 ssa.Value
			at     ssa.Instruction // last instruction before the pair is fixed
		}
		var r0, r1 ssa.Value
		switch {
		case len(ret.Results) == 2:
			r0, r1 = ret.Results[0], ret.Results[1]
		case len(ret.Results) == 1 && isLookupStruct(fn.Signature.Results()):
			// the pair handed back as a small struct {value, found}
			f0, f1, okS := structPair(ret.Results[0])
			if !okS {
				return false, "return at " + c.P.InstrPos(ret) + " hands back a struct whose fields cannot be read off"
			}
			r0, r1 = f0, f1
		default:
			continue
		}
		pairs := []pair{{r0, r1, ret}}
		p0, isP0 := r0.(*ssa.Phi)
		p1, isP1 := r1.(*ssa.Phi)
		if isP0 && isP1 && p0.Block() == p1.Block() && len(p0.Edges) == len(p1.Edges) {
			pairs = nil
			for i := range p0.Edges {
				pred := p0.Block().Preds[i]
				pairs = append(pairs, pair{p0.Edges[i], p1.Edges[i], pred.Instrs[len(pred.Instrs)-1]})
			}
		}
		for _, pr := range pairs {
			c0, i0 := flatResultOf(pr.v0)
			c1, i1 := flatResultOf(pr.v1)
			if c0 != nil && c0 == c1 && i0 == 0 && i1 == 1 {
				isSrc := false
				for _, sc := range sources {
					if ssa.Value(sc.Value()) == c0.Value() {
						isSrc = true
					}
				}
				if isSrc {
					nPass++
					continue
				}
			}
			s, isS := ConstStr(pr.v0)
			bv, isB := ConstBool(pr.v1)
			if isS && isB && s == "" && !bv {
				// absent: only where the state was not consulted
				for _, sc := range sources {
					if sc.(ssa.Instruction) == pr.at || Reaches(sc.(ssa.Instruction), pr.at) {
						return false, "answers absent at " + c.P.InstrPos(ret) + " after the state was consulted"
					}
				}
				continue
			}
			return false, "return at " + c.P.InstrPos(ret) + " is neither the state's own answer nor (\"\", false)"
		}
	}
	if nPass == 0 {
		return false, "the state's answer is never returned"
	}
	return true, ""
}

func (c *Ctx) c08Fail(fail *ssa.Function) {
	r := c.R
	fnm := FuncName(fail)
	// the switch variable is a free variable of type MWRespondOnFailure
	consts := map[string]int64{}
	root := c.P.ByPath[RepoPath]
	for name, m := range root.Members {
		if nc, ok := m.(*ssa.NamedConst); ok && strings.HasSuffix(nc.Type().String(), ".MWRespondOnFailure") {
			if v, ok := ConstInt(nc.Value); ok {
				consts[name] = v
			}
		}
	}
	want := map[string]string{"RespondNotFound": "status404", "RespondUnauthorized": "status401", "RespondRedirect": "redirect"}
	for name := range want {
		if _, ok := consts[name]; !ok {
			r.Unknown("C08.fail", fnm, name, "-", "declared constant not found")
		}
	}
	for name, val := range consts {
		w := Walk{Atom: func(v ssa.Value) (bool, bool) {
			b, ok := v.(*ssa.BinOp)
			if !ok || (b.Op != token.EQL && b.Op != token.NEQ) {
				return false, false
			}
			bx, by := b.X, b.Y
			if _, isC := ConstInt(bx); isC {
				bx, by = by, bx // constant written (or, for a table row, substituted) on the left
			}
			n, isC := ConstInt(by)
			if !isC {
				return false, false
			}
			// X is (a load of) the failResponse free variable
			x := bx
			if u, isU := x.(*ssa.UnOp); isU {
				x = u.X
			}
			if _, isFV := x.(*ssa.FreeVar); !isFV || !strings.HasSuffix(bx.Type().String(), ".MWRespondOnFailure") {
				return false, false
			}
			return (n == val) == (b.Op == token.EQL), true
		}}
		got := ""
		okRow := true
		traces := w.Traces(fail)
		for _, t := range traces {
			if t.End == nil {
				continue // cut inside a loop (emptying a scratch map): the walk that leaves the loop is judged
			}
			var outs []string
			for _, in := range t.Instrs {
				call, ok := in.(ssa.CallInstruction)
				if !ok {
					continue
				}
				cc := call.Common()
				if cc.IsInvoke() && cc.Method.Name() == "WriteHeader" {
					if n, isC := ConstInt(t.Resolve(Arg(call, 0))); isC {
						outs = append(outs, sprintf("status%d", n))
					} else {
						outs = append(outs, "status?")
					}
				}
				if Callee(call) == fnRedirect {
					outs = append(outs, "redirect")
				}
			}
			got = strings.Join(outs, "+")
			exp, known := want[name]
			if !known {
				// an additional declared constant must still produce a refusal
				if len(outs) != 1 {
					okRow = false
				}
				continue
			}
			if len(outs) != 1 || outs[0] != exp {
				okRow = false
			}
		}
		if len(traces) == 0 {
			okRow = false
		}
		r.Check(okRow, "C08.fail", fnm, "case "+name, c.P.Pos(fail.Pos()), "refusal is "+want[name], sprintf("refusal mode %s produces %q, specification %q", name, got, want[name]))
	}
	c.c08Redirect(fail)
}

// c08Redirect: construction of the login redirect in fail (the refusal
// closure, or the handler when the refusal is written out there).
func (c *Ctx) c08Redirect(fail *ssa.Function) {
	r := c.R
	fnm := FuncName(fail)
	// redirect target construction
	redirKey := c.P.ConstString("", "FormValueRedirect")
	nSet := 0
	for _, call := range CallsTo(fail, "(net/url.Values).Set") {
		k, isC := constArgStr(call, 1)
		if !isC || k != redirKey {
			continue
		}
		nSet++
		os := c.fieldOrigins(Arg(call, 2))
		pos := posf(c, call)
		r.Check(hasField(os, "URL.Path"), "C08.redir", fnm, "redir value ⊇ URL.Path", pos, "carries the original path", "redirect parameter does not carry the request path")
		r.Check(hasField(os, "URL.RawQuery"), "C08.redir", fnm, "redir value ⊇ URL.RawQuery", pos, "carries the original query", "redirect parameter does not carry the request query")
		// shape: last concatenation appends "?"+RawQuery to a value that does not contain RawQuery
	}
	// (a refusal written out in the handler appears once per refusing branch)
	r.Check(nSet == 1 || (nSet > 1 && len(fail.AnonFuncs) == 0 && len(CallsTo(fail, fnLoadCurrentUser)) > 0), "C08.redir", fnm, "vals.Set(redir, …)", c.P.Pos(fail.Pos()), "one assignment of the return target per refusal", sprintf("expected one vals.Set(%q, …), found %d", redirKey, nSet))
	for _, call := range Calls(fail) {
		n := Callee(call)
		if n != "path.Join" && n != "path.Clean" && n != "path/filepath.Join" && n != "path/filepath.Clean" {
			continue
		}
		tainted := false
		for _, a := range call.Common().Args {
			if hasField(c.fieldOrigins(a), "URL.RawQuery") {
				tainted = true
			}
		}
		r.Check(!tainted, "C08.redir", fnm, n+" ∌ RawQuery", posf(c, call), "query is appended after path cleaning", "the request's query string passes through "+n+", which rewrites '//', '.', '..' and trailing slashes inside the query")
	}
	// mount join only under mountPathed && Mount != ""
	for _, call := range CallsTo(fail, "path.Join") {
		if !hasField(c.fieldOrigins(Arg(call, 0)), "URL.Path") {
			continue
		}
		fs := FactsAtInstr(call.(ssa.Instruction))
		mp := HasFact(fs, func(f Fact) bool {
			rel := f.Rel()
			if rel.B == nil || !rel.Pol {
				return false
			}
			if fieldLoadName(rel.B) == "mountPathed" {
				return true // the flag kept in a struct
			}
			x := rel.B
			if u, ok := x.(*ssa.UnOp); ok {
				x = u.X
			}
			switch v := x.(type) {
			case *ssa.FreeVar:
				return v.Name() == "mountPathed"
			case *ssa.Parameter:
				return v.Name() == "mountPathed"
			}
			return false
		})
		nonEmpty := HasFact(fs, func(f Fact) bool {
			rel := f.Rel()
			x := StrLenValue(rel.X)
			return x != nil && f.SaysNonEmpty(x) && fieldLoadName(x) == "Mount"
		})
		r.Check(mp && nonEmpty, "C08.redir", fnm, "mount join guard", posf(c, call), "mount prefixed iff mountPathed and a mount is configured", "mount path is joined without the mountPathed && len(Mount)!=0 guard")
	}
	// RedirectPath derives from vals.Encode and Mount
	for _, call := range CallsTo(fail, fnRedirect) {
		os := c.fieldOrigins(Arg(call, 2))
		enc := HasOrigin(os, func(o Origin) bool {
			return o.Kind == "field" && strings.HasSuffix(o.Name, "RedirectOptions.RedirectPath")
		})
		_ = enc
		okPath := hasField(os, ".Mount") || hasField(os, "Mount")
		r.Check(okPath, "C08.redir", fnm, "RedirectPath", posf(c, call), "login page under the mount path", "redirect does not target <Mount>/login")
		// … the mount path as configured when the request is refused: read by
		// request-time code, not baked in when the middleware was built
		stale := ""
		for _, o := range os {
			if o.Kind != "field" || !strings.HasSuffix(o.Name, "Mount") {
				continue
			}
			if in, isI := o.V.(ssa.Instruction); isI && in.Parent() != nil && !c.isRequestTime(in.Parent()) {
				stale = FuncName(in.Parent())
			}
		}
		r.Check(stale == "", "C08.redir", fnm, "RedirectPath reads Mount per request", posf(c, call), "the mount path is read while the request is served", "the login path is computed from Paths.Mount in "+stale+", when the middleware is built: a mount path configured afterwards is ignored and the refusal redirects to the wrong login page")
	}
}

func (c *Ctx) c08Deprecated(mw2 *ssa.Function, full, two int64) {
	r := c.R
	mm := c.P.Func("ab.MountedMiddleware")
	name := FuncName(mm)
	if len(mm.Params) != 5 {
		r.Unknown("C08.deprecated", name, "signature", "-", "unexpected signature")
		return
	}
	pFull, p2fa, pRedir := mm.Params[3], mm.Params[4], mm.Params[2]
	bitParam := map[int64]*ssa.Parameter{full: pFull, two: p2fa}
	seen := map[int64]bool{}
	for _, b := range mm.Blocks {
		for _, in := range b.Instrs {
			bo, ok := in.(*ssa.BinOp)
			if !ok || bo.Op != token.OR {
				continue
			}
			n, isC := ConstInt(bo.Y)
			if !isC {
				continue
			}
			p := bitParam[n]
			okBit := p != nil && BoolAt(bo, p, true)
			seen[n] = seen[n] || okBit
			r.Check(okBit, "C08.deprecated", name, sprintf("reqs |= %d", n), posf(c, bo), "bit set under its own flag", sprintf("bit %d is set under the wrong flag", n))
		}
	}
	r.Check(seen[full] && seen[two], "C08.deprecated", name, "both bits mapped", c.P.Pos(mm.Pos()), "forceFullAuth->RequireFullAuth, force2fa->Require2FA", "a requirement flag is not mapped to its bit")
	// the value handed on, for each of the four flag combinations: the flags are
	// independent (an `else if` between them drops the second requirement when both are asked for)
	for _, call := range Calls(mm) {
		if StaticCallee(call) != mw2 {
			continue
		}
		for mask := 0; mask < 4; mask++ {
			vF, v2 := mask&1 != 0, mask&2 != 0
			w := Walk{Atom: func(v ssa.Value) (bool, bool) {
				switch v {
				case ssa.Value(pFull):
					return vF, true
				case ssa.Value(p2fa):
					return v2, true
				}
				return false, false
			}, Stop: func(in ssa.Instruction) bool { return in == call.(ssa.Instruction) }}
			want := int64(0)
			if vF {
				want |= full
			}
			if v2 {
				want |= two
			}
			okRow, got := true, "?"
			traces := w.Traces(mm)
			for _, t := range traces {
				if t.End != call.(ssa.Instruction) {
					continue
				}
				var eval func(v ssa.Value, d int) (int64, bool)
				eval = func(v ssa.Value, d int) (int64, bool) {
					if d > 10 {
						return 0, false
					}
					v = t.Resolve(v)
					if n, isC := ConstInt(v); isC {
						return n, true
					}
					if bo, ok := v.(*ssa.BinOp); ok && bo.Op == token.OR {
						a, okA := eval(bo.X, d+1)
						b, okB := eval(bo.Y, d+1)
						return a | b, okA && okB
					}
					if cv, ok := v.(*ssa.Convert); ok {
						return eval(cv.X, d+1)
					}
					return 0, false
				}
				n, known := eval(Arg(call, 2), 0)
				if known {
					got = sprintf("%d", n)
				}
				if !known || n != want {
					okRow = false
				}
			}
			if len(traces) == 0 {
				okRow = false
			}
			r.Check(okRow, "C08.deprecated", name, sprintf("reqs for forceFullAuth=%v force2fa=%v", vF, v2), posf(c, call), sprintf("requirements = %d", want), sprintf("the deprecated constructor hands on requirements %s where the flags ask for %d: a requirement that was asked for is not enforced", got, want))
		}
	}
	// failResponse: RespondRedirect only under redirectToLogin
	redirect := c.P.ConstInt("", "RespondRedirect")
	notFound := c.P.ConstInt("", "RespondNotFound")
	for _, call := range Calls(mm) {
		if StaticCallee(call) != mw2 {
			continue
		}
		fr := Arg(call, 3)
		okFR := false
		if n, isC := ConstInt(fr); isC {
			// one call per outcome: the constant passed must match the side of the flag the call is on
			fs := FactsAtInstr(call.(ssa.Instruction))
			underT := HasFact(fs, func(f Fact) bool { return f.SaysBool(pRedir, true) })
			underF := HasFact(fs, func(f Fact) bool { return f.SaysBool(pRedir, false) })
			if !underF && !underT {
				// the fall-through call after `if redirectToLogin { return … }`
				q := PathQuery{StartBlock: mm.Blocks[0], Assume: map[ssa.Value]bool{pRedir: true}, Goal: func(i ssa.Instruction) bool { return i == call.(ssa.Instruction) }}
				underF = q.Find() == nil
			}
			okFR = (n == redirect && underT) || (n == notFound && underF)
		}
		if phi, ok := fr.(*ssa.Phi); ok {
			okFR = true
			for i, e := range phi.Edges {
				n, isC := ConstInt(e)
				if !isC {
					okFR = false
					continue
				}
				fs := FactsAtEdge(phi.Block().Preds[i], phi.Block())
				under := HasFact(fs, func(f Fact) bool { return f.SaysBool(pRedir, true) })
				if n == redirect && !under {
					okFR = false
				}
				if n == notFound && under {
					okFR = false
				}
			}
		}
		r.Check(okFR, "C08.deprecated", name, "failResponse", posf(c, call), "redirect iff redirectToLogin", "failure response is not RespondRedirect exactly when redirectToLogin")
		// mountPathed passed through
		r.Check(Arg(call, 1) == ssa.Value(mm.Params[1]) && Arg(call, 0) == ssa.Value(mm.Params[0]), "C08.deprecated", name, "pass-through", posf(c, call), "ab and mountPathed passed through", "ab/mountPathed are not passed through")
	}
}

// anonymousIsNotFound: a session that names nobody (no uid, or an empty one)
// must come out of CurrentUser/LoadCurrentUser as ErrUserNotFound without
// asking storage: the middleware's refusal (404/401/redirect) hangs on that
// sentinel, and Storage.Load("") may answer anything (an error gives a 500, a
// stray record lets the handler run without a user).
func (c *Ctx) anonymousIsNotFound(rule string) {
	r := c.R
	for _, fname := range []string{fnCurrentUser, fnLoadCurrentUser} {
		fn := c.P.Func(fname)
		name := FuncName(fn)
		n := 0
		for _, call := range Calls(fn) {
			cal := Callee(call)
			g := StaticCallee(call)
			if cal != fnLoad && !(g != nil && c.inRepo(g)) {
				continue
			}
			for _, a := range call.Common().Args {
				if bt, ok := a.Type().Underlying().(*types.Basic); !ok || bt.Kind() != types.String {
					continue
				}
				if !HasOrigin(c.Origins(a), func(o Origin) bool {
					return o.Kind == "call" && (strings.HasPrefix(o.Name, fnCurrentUserID+"#") || strings.HasPrefix(o.Name, fnLoadCurrentUserID+"#"))
				}) {
					continue
				}
				n++
				ok := HasFact(FactsAtInstr(call.(ssa.Instruction)), func(f Fact) bool { return f.SaysNonEmpty(a) })
				if !ok {
					// the emptiness test sits in a helper that hands back ("", ErrUserNotFound):
					// walk the paths and look at the value each one delivers
					a := a
					q := PathQuery{StartBlock: fn.Blocks[0], GoalP: func(in ssa.Instruction, pv PathView) bool {
						if in != call.(ssa.Instruction) {
							return false
						}
						if !pv.Precise() {
							return true
						}
						rv := pv.Resolve(a)
						if s, isC := ConstStr(rv); isC {
							return s == ""
						}
						return !pv.PathFact(func(f Fact) bool { return f.SaysNonEmpty(rv) || f.SaysNonEmpty(a) })
					}}
					ok = q.Find() == nil
				}
				r.Check(ok, rule, name, "load only a non-empty pid", posf(c, call), "the user is loaded only under len(pid) != 0", "the user is loaded from storage although the session's pid may be empty: an anonymous request is answered by whatever Storage.Load(\"\") returns instead of ErrUserNotFound")
			}
		}
		if n == 0 {
			r.Unknown(rule, name, "load of the session's pid", "-", "no call handing the session's pid to storage was found")
			continue
		}
		// the empty edge answers with the sentinel
		for _, b := range fn.Blocks {
			ret, ok := b.Instrs[len(b.Instrs)-1].(*ssa.Return)
			if !ok || len(ret.Results) != 2 {
				continue
			}
			empty := false
			for _, f := range FactsAtInstr(ret) {
				rel := f.Rel()
				if x := StrLenValue(rel.X); x != nil || rel.Op == token.EQL {
					if f.SaysEmpty(x) || (rel.X != nil && f.SaysEmpty(rel.X)) {
						empty = true
					}
				}
			}
			if !empty {
				continue
			}
			g := loadOfGlobal(ret.Results[1])
			r.Check(g != nil && g.Name() == "ErrUserNotFound", rule, name, "empty pid => ErrUserNotFound", posf(c, ret), "returns the sentinel", "the empty-pid path does not return ErrUserNotFound")
		}
	}
}

// isLookupStruct: the results are one small struct {string, bool} — the
// (value, found) pair of a state look-up handed back as a struct.
func isLookupStruct(res *types.Tuple) bool {
	if res.Len() != 1 {
		return false
	}
	st, ok := res.At(0).Type().Underlying().(*types.Struct)
	if !ok || st.NumFields() != 2 {
		return false
	}
	b0, ok0 := st.Field(0).Type().Underlying().(*types.Basic)
	b1, ok1 := st.Field(1).Type().Underlying().(*types.Basic)
	return ok0 && ok1 && b0.Kind() == types.String && b1.Kind() == types.Bool
}

// structPair reads the two fields of a struct value built in the function: a
// load of a local literal (field stores), the zero struct, or a merge of those.
func structPair(v ssa.Value) (ssa.Value, ssa.Value, bool) {
	switch x := v.(type) {
	case *ssa.Const:
		if x.Value == nil {
			st := x.Type().Underlying().(*types.Struct)
			return ssa.NewConst(constant.MakeString(""), st.Field(0).Type()), ssa.NewConst(constant.MakeBool(false), st.Field(1).Type()), true
		}
	case *ssa.UnOp:
		a, ok := x.X.(*ssa.Alloc)
		if !ok || x.Op != token.MUL || a.Referrers() == nil {
			return nil, nil, false
		}
		var f [2]ssa.Value
		for _, ref := range *a.Referrers() {
			fa, isFA := ref.(*ssa.FieldAddr)
			if !isFA || fa.Field > 1 || fa.Referrers() == nil {
				continue
			}
			for _, rr := range *fa.Referrers() {
				if st, isSt := rr.(*ssa.Store); isSt && st.Addr == ssa.Value(fa) {
					if f[fa.Field] != nil {
						return nil, nil, false
					}
					f[fa.Field] = st.Val
				}
			}
		}
		if f[0] != nil && f[1] != nil {
			return f[0], f[1], true
		}
	}
	return nil, nil, false
}

// flatResultOf is CallOf that also sees a field of a struct-typed result
// (`got := getState(…)`; `got.found`), numbering results as if the struct's
// fields were returned one by one.
func flatResultOf(v ssa.Value) (ssa.CallInstruction, int) {
	if c, i := CallOf(v); c != nil {
		return c, i
	}
	field := -1
	var base ssa.Value
	switch x := v.(type) {
	case *ssa.Field:
		field, base = x.Field, x.X
	case *ssa.UnOp:
		if fa, ok := x.X.(*ssa.FieldAddr); ok && x.Op == token.MUL {
			if a, isA := fa.X.(*ssa.Alloc); isA && a.Referrers() != nil {
				n := 0
				for _, ref := range *a.Referrers() {
					if st, isSt := ref.(*ssa.Store); isSt && st.Addr == ssa.Value(a) {
						base = st.Val
						n++
					}
				}
				if n == 1 {
					field = fa.Field
				}
			}
		}
	}
	if field < 0 || base == nil {
		return nil, 0
	}
	if c, i := CallOf(base); c != nil {
		if _, isS := base.Type().Underlying().(*types.Struct); isS {
			res := c.Common().Signature().Results()
			flat := 0
			for k := 0; k < i && k < res.Len(); k++ {
				if st, ok := res.At(k).Type().Underlying().(*types.Struct); ok {
					flat += st.NumFields()
				} else {
					flat++
				}
			}
			return c, flat + field
		}
	}
	return nil, 0
}
