package rules

import (
	"go/token"
	"go/types"
	"strconv"
	"strings"

	. "abverif/internal/engine"

	"golang.org/x/tools/go/ssa"
)

// compareWhole: a secret comparison decides a credential only if it looks at
// the whole of both values. Two shapes make it look at less, and both compile
// and pass every test that submits full-length values:
//
//	(a) an operand is cut to a length that was taken from the other operand
//	    (compare(a[:n], b[:n]) with n = len/copy of the submitted value): every
//	    prefix of the secret, the empty one included, then compares equal;
//	(b) an operand was laid out in a fixed array with the builtin copy, which
//	    stops silently at the array's size, and nothing on the way to the
//	    comparison relates the length of the source to that size: values that
//	    agree on the first bytes compare equal.
//
// The comparisons are found by callee (crypto/subtle.ConstantTimeCompare,
// bytes.Equal, crypto/hmac.Equal) in the functions selected by scope, after
// helpers are inlined, so a compare moved into a helper is seen where it is
// used.
func (c *Ctx) compareWhole(rule string, scope func(*ssa.Function) bool) {
	r := c.R
	n := 0
	for _, fn := range c.P.Funcs {
		if strings.HasSuffix(pkgOf(fn), "/mocks") || (scope != nil && !scope(fn)) {
			continue
		}
		for _, call := range Calls(fn) {
			cn := Callee(call)
			if cn != fnCTC && cn != "bytes.Equal" && cn != "crypto/hmac.Equal" {
				continue
			}
			args := call.Common().Args
			if len(args) != 2 {
				continue
			}
			n++
			ops := [2]cmpOperand{cmpOperandOf(args[0]), cmpOperandOf(args[1])}
			bad := ""
			for i := 0; i < 2 && bad == ""; i++ {
				me, other := ops[i], ops[1-i]
				for _, b := range me.bounds {
					for _, br := range boundRoots(b, 0) {
						if containsVal(other.sources, br) && !containsVal(me.sources, br) {
							bad = "operand " + strconv.Itoa(i) + " is cut to a length taken from the other operand (" + br.Name() + "): any prefix of the secret compares equal"
						}
					}
				}
				if bad == "" && me.array != nil {
					for _, src := range me.copied {
						if !variableLength(src) {
							continue
						}
						if !c.lengthRelated(call.(ssa.Instruction), src) {
							bad = "operand " + strconv.Itoa(i) + " was copied into a fixed array of " + strconv.Itoa(int(me.array.Len())) + " bytes and the length of the value copied is never tested: the comparison sees only the first bytes"
						}
					}
				}
			}
			r.Check(bad == "", rule, FuncName(fn), cn, posf(c, call.(ssa.Instruction)), "both operands are whole values", "the secret comparison does not look at the whole of both values: "+bad)
		}
	}
	r.Check(n > 0, rule, "-", "comparison sites", "-", strconv.Itoa(n)+" secret comparisons examined", "no secret comparison found in scope: the rule would pass vacuously")
}

type cmpOperand struct {
	sources []ssa.Value // the values whose bytes the operand holds (its own root included)
	bounds  []ssa.Value // explicit slice bounds
	array   *types.Array
	copied  []ssa.Value // sources that arrived through the builtin copy
}

func cmpOperandOf(v ssa.Value) cmpOperand {
	var o cmpOperand
	v = stripConv(v)
	sl, ok := v.(*ssa.Slice)
	if !ok {
		o.sources = []ssa.Value{v}
		return o
	}
	root := stripConv(sl.X)
	o.sources = append(o.sources, root)
	if sl.Low != nil {
		o.bounds = append(o.bounds, sl.Low)
	}
	if sl.High != nil {
		o.bounds = append(o.bounds, sl.High)
	}
	if pt, ok := root.Type().Underlying().(*types.Pointer); ok {
		if at, ok := pt.Elem().Underlying().(*types.Array); ok {
			o.array = at
		}
	}
	// what was copied into the same region of the root
	if refs := root.Referrers(); refs != nil {
		for _, ref := range *refs {
			s2, ok := ref.(*ssa.Slice)
			if !ok || !sameBound(s2.Low, sl.Low) {
				continue
			}
			if r2 := s2.Referrers(); r2 != nil {
				for _, u := range *r2 {
					call, ok := u.(*ssa.Call)
					if !ok {
						continue
					}
					if b, ok := call.Call.Value.(*ssa.Builtin); ok && b.Name() == "copy" && len(call.Call.Args) == 2 && call.Call.Args[0] == ssa.Value(s2) {
						src := stripConv(call.Call.Args[1])
						o.sources = append(o.sources, src)
						o.copied = append(o.copied, src)
					}
				}
			}
		}
	}
	if o.array == nil || len(o.copied) == 0 {
		o.array = nil
	}
	return o
}

func sameBound(a, b ssa.Value) bool {
	ai, aok := int64(0), a == nil
	bi, bok := int64(0), b == nil
	if a != nil {
		ai, aok = ConstInt(a)
	}
	if b != nil {
		bi, bok = ConstInt(b)
	}
	if aok && bok {
		return ai == bi
	}
	return a == b
}

// boundRoots: the values whose length a slice bound was computed from.
func boundRoots(b ssa.Value, depth int) []ssa.Value {
	if depth > 6 || b == nil {
		return nil
	}
	switch x := b.(type) {
	case *ssa.Const:
		return nil
	case *ssa.BinOp:
		return append(boundRoots(x.X, depth+1), boundRoots(x.Y, depth+1)...)
	case *ssa.Convert:
		return boundRoots(x.X, depth+1)
	case *ssa.Phi:
		var out []ssa.Value
		for _, e := range x.Edges {
			out = append(out, boundRoots(e, depth+1)...)
		}
		return out
	case *ssa.Call:
		if bi, ok := x.Call.Value.(*ssa.Builtin); ok {
			switch bi.Name() {
			case "len", "cap":
				return []ssa.Value{sliceRoot(x.Call.Args[0])}
			case "copy":
				return []ssa.Value{sliceRoot(x.Call.Args[1])}
			case "min", "max":
				var out []ssa.Value
				for _, a := range x.Call.Args {
					out = append(out, boundRoots(a, depth+1)...)
				}
				return out
			}
		}
		return []ssa.Value{x}
	case *ssa.Extract:
		if call, ok := x.Tuple.(*ssa.Call); ok {
			var out []ssa.Value
			for _, a := range call.Call.Args {
				out = append(out, sliceRoot(a))
			}
			return out
		}
	}
	return []ssa.Value{b}
}

func sliceRoot(v ssa.Value) ssa.Value {
	for d := 0; d < 8; d++ {
		v = stripConv(v)
		if sl, ok := v.(*ssa.Slice); ok {
			v = sl.X
			continue
		}
		break
	}
	return v
}

func containsVal(vs []ssa.Value, v ssa.Value) bool {
	for _, x := range vs {
		if x == v {
			return true
		}
	}
	return false
}

func variableLength(v ssa.Value) bool {
	v = stripConv(v)
	if sl, ok := v.(*ssa.Slice); ok {
		if pt, ok := stripConv(sl.X).Type().Underlying().(*types.Pointer); ok {
			if _, ok := pt.Elem().Underlying().(*types.Array); ok {
				return false
			}
		}
	}
	switch t := v.Type().Underlying().(type) {
	case *types.Basic:
		return t.Info()&types.IsString != 0
	case *types.Slice:
		return true
	}
	return false
}

// lengthRelated: some branch condition known at the comparison mentions the
// length of src.
func (c *Ctx) lengthRelated(at ssa.Instruction, src ssa.Value) bool {
	return HasFact(FactsAtInstr(at), func(f Fact) bool { return mentionsLen(f.Cond, src, 0) })
}

func mentionsLen(v, src ssa.Value, depth int) bool {
	if depth > 5 || v == nil {
		return false
	}
	switch x := v.(type) {
	case *ssa.BinOp:
		// a test against zero (present or not) says nothing about the size
		if isZeroConst(x.X) || isZeroConst(x.Y) {
			return false
		}
		return mentionsLen(x.X, src, depth+1) || mentionsLen(x.Y, src, depth+1)
	case *ssa.UnOp:
		return mentionsLen(x.X, src, depth+1)
	case *ssa.Call:
		if bi, ok := x.Call.Value.(*ssa.Builtin); ok && bi.Name() == "len" {
			return stripConv(x.Call.Args[0]) == src
		}
	}
	return false
}

func isZeroConst(v ssa.Value) bool {
	n, ok := ConstInt(v)
	return ok && n == 0
}

// loopVarCapture: a closure made inside a loop that outlives its iteration
// (it is handed on or stored) must not read a variable that lives outside the
// loop and is assigned in it: every closure would see the value of the last
// iteration. The module's go directive decides whether a loop variable is one
// cell per loop or one per iteration, and the SSA form is built accordingly,
// so the rule reads the allocation's position: outside the loop, stored
// inside, captured by a closure made inside.
func (c *Ctx) loopVarCapture(rule string, scope func(*ssa.Function) bool) {
	r := c.R
	for _, fn := range c.P.Funcs {
		if strings.HasSuffix(pkgOf(fn), "/mocks") {
			continue
		}
		for _, b := range fn.Blocks {
			if !BlockReaches(b, b) {
				continue
			}
			for _, in := range b.Instrs {
				mc, ok := in.(*ssa.MakeClosure)
				if !ok {
					continue
				}
				cl, _ := mc.Fn.(*ssa.Function)
				if cl == nil || (scope != nil && !scope(cl)) {
					continue
				}
				for i, bind := range mc.Bindings {
					al, ok := bind.(*ssa.Alloc)
					if !ok || al.Block() == nil {
						continue
					}
					// allocated in the same loop: one cell per iteration
					if BlockReaches(b, al.Block()) && BlockReaches(al.Block(), b) {
						continue
					}
					stored := false
					if refs := al.Referrers(); refs != nil {
						for _, ref := range *refs {
							if st, ok := ref.(*ssa.Store); ok && st.Addr == ssa.Value(al) && st.Block() != nil && BlockReaches(st.Block(), b) && BlockReaches(b, st.Block()) {
								stored = true
							}
						}
					}
					name := al.Comment
					if i < len(cl.FreeVars) {
						name = cl.FreeVars[i].Name()
					}
					r.Check(!stored, rule, FuncName(fn), "closure "+FuncName(cl)+" captures "+name, posf(c, mc), "captured cell is not reassigned by the loop", "the closure is made once per iteration but captures "+name+", a single variable the loop reassigns: every closure sees the value of the last iteration")
				}
			}
		}
	}
}

// clientStoresPerRequest: the session and cookie stores a request is read from
// and written to are the ones configured when the request arrives. Everything
// else in the library reads Config.Storage per request, and an application may
// set or swap the stores after its handler chain is assembled; a middleware
// that resolved them when it was built would judge requests by (and write
// changes to) a store that is no longer — or not yet — the configured one.
// Structurally: the receiver of ReadState/WriteState and the values stored in
// the response writer's store slots are never a variable captured from the
// scope that built the handler, and the writer is not stamped from a captured
// template.
func (c *Ctx) clientStoresPerRequest(rule string) {
	r := c.R
	captured := func(v ssa.Value) (string, bool) {
		seen := map[ssa.Value]bool{}
		var walk func(v ssa.Value, d int) (string, bool)
		walk = func(v ssa.Value, d int) (string, bool) {
			if d > 8 || v == nil || seen[v] {
				return "", false
			}
			seen[v] = true
			switch x := v.(type) {
			case *ssa.FreeVar:
				return x.Name(), true
			case *ssa.UnOp:
				if x.Op == token.MUL {
					if fv, ok := x.X.(*ssa.FreeVar); ok {
						return fv.Name(), true
					}
					// a field of a captured template
					if fa, ok := x.X.(*ssa.FieldAddr); ok {
						if fv, ok := fa.X.(*ssa.FreeVar); ok && strings.HasSuffix(fv.Type().String(), "ClientStateResponseWriter") {
							return fv.Name() + "." + fieldName(fa), true
						}
					}
				}
			case *ssa.Phi:
				for _, e := range x.Edges {
					if n, ok := walk(e, d+1); ok {
						return n, true
					}
				}
			case *ssa.ChangeInterface:
				return walk(x.X, d+1)
			case *ssa.MakeInterface:
				return walk(x.X, d+1)
			}
			return "", false
		}
		return walk(v, 0)
	}
	isRW := func(t types.Type) bool { return strings.HasSuffix(t.String(), "ClientStateReadWriter") }
	n := 0
	for _, fn := range c.P.Funcs {
		if strings.HasSuffix(pkgOf(fn), "/mocks") {
			continue
		}
		name := FuncName(fn)
		for _, call := range Calls(fn) {
			cc := call.Common()
			if !cc.IsInvoke() || (cc.Method.Name() != "ReadState" && cc.Method.Name() != "WriteState") || !isRW(cc.Value.Type()) {
				continue
			}
			n++
			cap, is := captured(cc.Value)
			r.Check(!is, rule, name, cc.Method.Name()+" receiver", posf(c, call.(ssa.Instruction)), "the store is resolved while the request is served", "the store this request is "+map[string]string{"ReadState": "read from", "WriteState": "written to"}[cc.Method.Name()]+" is "+cap+", captured when the handler was built: a store configured or replaced afterwards is ignored")
		}
		for _, b := range fn.Blocks {
			for _, in := range b.Instrs {
				st, ok := in.(*ssa.Store)
				if !ok {
					continue
				}
				if fa, ok := st.Addr.(*ssa.FieldAddr); ok && isRW(st.Val.Type()) && strings.HasSuffix(fa.X.Type().String(), "ClientStateResponseWriter") {
					n++
					cap, is := captured(st.Val)
					// the struct written is itself a cell the handler closure captures
					if al, isAl := fa.X.(*ssa.Alloc); isAl && !is {
						if refs := al.Referrers(); refs != nil {
							for _, ref := range *refs {
								if _, mc := ref.(*ssa.MakeClosure); mc {
									cap, is = al.Comment, true
								}
							}
						}
					}
					r.Check(!is, rule, name, "writer."+fieldName(fa), posf(c, st), "the writer's store is resolved while the request is served", "the response writer's "+fieldName(fa)+" comes from "+cap+", fixed when the handler was built: a store configured or replaced afterwards never receives this request's changes")
					continue
				}
				if strings.HasSuffix(st.Val.Type().String(), ".ClientStateResponseWriter") {
					if cap, is := captured(st.Val); is {
						r.Bad(rule, name, "writer = template", posf(c, st), "the response writer is stamped from "+cap+", a template built when the handler was built: its stores are not the ones configured when the request arrives")
					}
				}
			}
		}
	}
	r.Check(n >= 4, rule, "ab", "store uses", "-", strconv.Itoa(n)+" uses of the client-state stores examined", "expected at least 4 uses of the client-state stores (two reads, two writes), found "+strconv.Itoa(n))
}

// nilResultUse: a function that returns (value, ..., error) hands back a nil
// value next to its error. A caller that calls a method on the value (or
// dereferences it) before any branch has looked at the error turns the
// backend's failure into a panic instead of an error outcome. Decided for
// calls of repository functions that have a return with a nil constant in the
// value's position beside a non-nil error, and for calls of the storage
// interfaces: every such use of the value sits behind at least one branch
// condition on that call's error.
func (c *Ctx) nilResultUse(rule string) {
	r := c.R
	n := 0
	nilAt := func(g *ssa.Function, i int) bool {
		for _, b := range g.Blocks {
			for _, in := range b.Instrs {
				ret, ok := in.(*ssa.Return)
				if !ok || len(ret.Results) <= i {
					continue
				}
				if IsNilConst(ret.Results[i]) && !IsNilConst(ret.Results[len(ret.Results)-1]) {
					return true
				}
			}
		}
		return false
	}
	for _, fn := range c.P.Funcs {
		if !c.inRepo(fn) || strings.HasSuffix(pkgOf(fn), "/mocks") {
			continue
		}
		for _, call := range Calls(fn) {
			errV := ErrResult(call)
			sig := call.Common().Signature()
			if errV == nil || sig.Results().Len() < 2 {
				continue
			}
			g := StaticCallee(call)
			storage := call.Common().IsInvoke() && strings.HasSuffix(call.Common().Value.Type().String(), "Storer")
			if !storage && (g == nil || !c.inRepo(g)) {
				continue
			}
			for i := 0; i < sig.Results().Len()-1; i++ {
				switch sig.Results().At(i).Type().Underlying().(type) {
				case *types.Interface, *types.Pointer:
				default:
					continue
				}
				if !storage && !nilAt(g, i) {
					continue
				}
				val := ResultValue(call, i)
				if val == nil || val.Referrers() == nil {
					continue
				}
				for _, ref := range *val.Referrers() {
					use := ""
					switch x := ref.(type) {
					case ssa.CallInstruction:
						if x.Common().IsInvoke() && x.Common().Value == val {
							use = "calls " + x.Common().Method.Name() + " on"
						}
					case *ssa.FieldAddr:
						if x.X == val {
							use = "reads a field of"
						}
					case *ssa.UnOp:
						if x.Op == token.MUL && x.X == val {
							use = "dereferences"
						}
					}
					if use == "" {
						continue
					}
					n++
					// "looked at" in a way that can tell the value is there: the error was
					// found nil, or found equal to one particular sentinel (a contract of its
					// own: errNoTOTPEnabled comes with the user); a bare "some error" does
					// not, it is exactly the case in which the value is nil
					looked := HasFact(FactsAtInstr(ref), func(f Fact) bool {
						if !mentionsValue(f.Cond, errV, 0) {
							return false
						}
						rel := f.Rel()
						if rel.X == errV && IsNilConst(rel.Y) {
							return rel.Op == token.EQL
						}
						if rel.Y == errV && IsNilConst(rel.X) {
							return rel.Op == token.EQL
						}
						if rel.Op == token.NEQ && (rel.X == errV || rel.Y == errV) {
							return false // different from one sentinel: still any other error
						}
						return true
					})
					r.Check(looked, rule, FuncName(fn), use+" result #"+strconv.Itoa(i)+" of "+Callee(call), posf(c, ref), "behind a test of the call's error", FuncName(fn)+" "+use+" what "+Callee(call)+" returned before any branch has looked at the error returned with it: when the call fails the value is nil and the request ends in a panic instead of an error outcome")
				}
			}
		}
	}
	r.Extra["nil_result_uses"] = n
}

func mentionsValue(v, want ssa.Value, depth int) bool {
	if v == nil || depth > 4 {
		return false
	}
	if v == want {
		return true
	}
	switch x := v.(type) {
	case *ssa.BinOp:
		return mentionsValue(x.X, want, depth+1) || mentionsValue(x.Y, want, depth+1)
	case *ssa.UnOp:
		return mentionsValue(x.X, want, depth+1)
	case *ssa.Phi:
		for _, e := range x.Edges {
			if mentionsValue(e, want, depth+1) {
				return true
			}
		}
	case *ssa.Call:
		// errors.Is(err, target)
		for _, a := range x.Call.Args {
			if a == want {
				return true
			}
		}
	}
	return false
}

// loginLooksUpFirst: the password and one-time-password login handlers answer
// a submitted login only after they have asked storage for the account: a
// shortcut that answers some submissions (a blank password, a malformed pid)
// without the look-up answers them without the failure event either, so such
// an attempt is neither counted nor answered by the lock — a locked account
// then answers that submission differently from every other one.
func (c *Ctx) loginLooksUpFirst(rule string) {
	r := c.R
	for _, hn := range []string{"(*ab/auth.Auth).LoginPost", "(*ab/otp.OTP).LoginPost"} {
		fn := c.P.FuncOpt(hn)
		if fn == nil || len(fn.Blocks) == 0 {
			continue
		}
		q := PathQuery{StartBlock: fn.Blocks[0], Cut: func(i ssa.Instruction) bool {
			call, ok := i.(ssa.CallInstruction)
			return ok && Callee(call) == fnLoad
		}, GoalP: c.nonErrorReturn}
		if p := q.Find(); p != nil {
			r.Bad(rule, hn, "Load ≺ every answer", posf(c, p[len(p)-1]), "a submitted login can be answered without the account having been looked up: that answer bypasses the failure event and with it the attempt counter and the lock's own answer", c.P.DescribePath(p)...)
		} else {
			r.Ok(rule, hn, "Load ≺ every answer", c.P.Pos(fn.Pos()), "every non-error answer follows the storage look-up")
		}
	}
}

// configVerbatim: the thresholds an application configures are used as
// configured. The library writes them in (*Config).Defaults only, and a value
// read from one of them is never merged with a substitute chosen by the
// library ("zero means the default", "at most …"): a clamp changes what a
// legitimate setting means (LockAfter = 1 no longer locks at the first
// failure; ExpireAfter <= 0 no longer expires every session at once).
func (c *Ctx) configVerbatim(rule string, fields ...string) {
	r := c.R
	want := map[string]bool{}
	for _, f := range fields {
		want[f] = true
	}
	n := 0
	for _, fn := range c.P.Funcs {
		if strings.HasSuffix(pkgOf(fn), "/mocks") {
			continue
		}
		name := FuncName(fn)
		for _, b := range fn.Blocks {
			for _, in := range b.Instrs {
				switch x := in.(type) {
				case *ssa.Store:
					fa, ok := x.Addr.(*ssa.FieldAddr)
					if !ok || !want[fieldName(fa)] || !strings.Contains(fa.X.Type().String(), "struct{BCryptCost") {
						continue
					}
					if name == "(*ab.Config).Defaults" {
						continue
					}
					r.Bad(rule, name, "write of Modules."+fieldName(fa), posf(c, x), "the library overwrites the configured "+fieldName(fa)+" outside Config.Defaults: a value the application chose is replaced")
				case *ssa.UnOp:
					if x.Op != token.MUL {
						continue
					}
					fa, ok := x.X.(*ssa.FieldAddr)
					if !ok || !want[fieldName(fa)] || !strings.Contains(fa.X.Type().String(), "struct{BCryptCost") || x.Referrers() == nil {
						continue
					}
					n++
					bad := false
					for _, ref := range *x.Referrers() {
						phi, isPhi := ref.(*ssa.Phi)
						if !isPhi {
							continue
						}
						for _, e := range phi.Edges {
							if _, isK := e.(*ssa.Const); isK {
								bad = true
							}
						}
					}
					r.Check(!bad, rule, name, "use of Modules."+fieldName(fa), posf(c, x), "used as configured", "the configured "+fieldName(fa)+" is replaced by a constant under some condition (a default or a clamp applied where it is used): settings the condition covers no longer mean what they say")
				}
			}
		}
	}
	r.Check(n > 0, rule, "ab", "reads of "+strings.Join(fields, ","), "-", strconv.Itoa(n)+" reads examined", "no read of the configured thresholds found")
}

// recoverStartNoOwnVerdict: once the account named in a recovery request has
// been found, the handler ends with the same quiet answer it fakes for unknown
// accounts, or with an error a backend handed it. An error the handler makes
// up itself from what it sees in the account (no usable address, already
// pending, …) is an answer only existing accounts can get.
func (c *Ctx) recoverStartNoOwnVerdict(rule string) {
	r := c.R
	fn := c.P.FuncOpt("(*ab/recover.Recover).StartPost")
	if fn == nil {
		return
	}
	loads := CallsTo(fn, fnLoad)
	if len(loads) == 0 {
		r.Unknown(rule, FuncName(fn), "Load", "-", "no account look-up found in StartPost")
		return
	}
	isCtor := func(v ssa.Value) bool {
		call, _ := CallOf(v)
		if call == nil {
			return false
		}
		n := Callee(call)
		return n == "errors.New" || n == "fmt.Errorf" || strings.HasSuffix(n, "/errors.New") || strings.HasSuffix(n, "/errors.Errorf")
	}
	var made func(v ssa.Value, d int) bool
	made = func(v ssa.Value, d int) bool {
		if d > 5 {
			return false
		}
		if phi, ok := v.(*ssa.Phi); ok {
			for _, e := range phi.Edges {
				if made(e, d+1) {
					return true
				}
			}
			return false
		}
		return isCtor(v)
	}
	bad := false
	for _, b := range fn.Blocks {
		for _, in := range b.Instrs {
			ret, ok := in.(*ssa.Return)
			if !ok || len(ret.Results) == 0 {
				continue
			}
			after := false
			for _, ld := range loads {
				if InstrDominates(ld.(ssa.Instruction), ret) {
					after = true
				}
			}
			if after && made(ret.Results[len(ret.Results)-1], 0) {
				bad = true
				r.Bad(rule, FuncName(fn), "own error after the look-up", posf(c, ret), "after the account was found the handler can end with an error of its own making: that answer (an error page instead of the quiet redirect) is given for existing accounts only and reveals that the account exists")
			}
		}
	}
	if !bad {
		r.Ok(rule, FuncName(fn), "own error after the look-up", c.P.Pos(fn.Pos()), "after the look-up only backend errors or the quiet answer")
	}
}

// noCredentialRestore: a list of one-time values (recovery codes, one-time
// passwords) put back into the user is a list computed by consuming, clearing
// or regenerating — never the stored list as it was read (kept aside to be
// "handed back" when the request fails later): that makes a spent value
// acceptable again.
func (c *Ctx) noCredentialRestore(rule string) {
	r := c.R
	pairs := map[string]string{"PutRecoveryCodes": "GetRecoveryCodes", "PutOTPs": "GetOTPs"}
	n := 0
	for _, fn := range c.P.Funcs {
		if strings.HasSuffix(pkgOf(fn), "/mocks") {
			continue
		}
		for _, call := range Calls(fn) {
			cc := call.Common()
			if !cc.IsInvoke() || pairs[cc.Method.Name()] == "" || !c.isUserType(cc.Value.Type()) || len(cc.Args) != 1 {
				continue
			}
			n++
			getter := pairs[cc.Method.Name()]
			seen := map[ssa.Value]bool{}
			var asRead func(v ssa.Value, d int) bool
			asRead = func(v ssa.Value, d int) bool {
				v = stripConv(v)
				if v == nil || d > 8 || seen[v] {
					return false
				}
				seen[v] = true
				switch x := v.(type) {
				case *ssa.Call:
					return x.Call.IsInvoke() && x.Call.Method.Name() == getter
				case *ssa.Phi:
					for _, e := range x.Edges {
						if asRead(e, d+1) {
							return true
						}
					}
				case *ssa.FreeVar:
					// what the enclosing function bound
					cl := x.Parent()
					idx := -1
					for i, fv := range cl.FreeVars {
						if fv == x {
							idx = i
						}
					}
					if par := cl.Parent(); par != nil && idx >= 0 {
						for _, b := range par.Blocks {
							for _, in := range b.Instrs {
								if mc, ok := in.(*ssa.MakeClosure); ok && mc.Fn == ssa.Value(cl) && idx < len(mc.Bindings) && asRead(mc.Bindings[idx], d+1) {
									return true
								}
							}
						}
					}
				case *ssa.UnOp:
					if x.Op == token.MUL {
						if asRead(x.X, d+1) {
							return true
						}
					}
				case *ssa.Alloc:
					if x.Referrers() != nil {
						for _, ref := range *x.Referrers() {
							if st, ok := ref.(*ssa.Store); ok && st.Addr == ssa.Value(x) && asRead(st.Val, d+1) {
								return true
							}
						}
					}
				}
				return false
			}
			r.Check(!asRead(cc.Args[0], 0), rule, FuncName(fn), cc.Method.Name()+"(<list as read>)", posf(c, call.(ssa.Instruction)), "a computed list", "the list put back is the stored list exactly as "+getter+"() returned it (kept aside and restored): values consumed in between become acceptable again")
		}
	}
	r.Extra["credential_list_puts"] = n
}

// deferredStorageError: a function that talks to the storage layer and
// returns its error is not called through `defer` (or `go`), where the error
// has nowhere to go: the request reports success for a write that failed.
func (c *Ctx) deferredStorageError(rule string) {
	r := c.R
	touches := map[*ssa.Function]int{} // 0 unknown, 1 no, 2 yes
	var storage func(f *ssa.Function, d int) bool
	storage = func(f *ssa.Function, d int) bool {
		if f == nil || !c.inRepo(f) || d > 3 {
			return false
		}
		if v := touches[f]; v != 0 {
			return v == 2
		}
		touches[f] = 1
		for _, call := range Calls(f) {
			cc := call.Common()
			if cc.IsInvoke() && strings.HasSuffix(cc.Value.Type().String(), "Storer") {
				touches[f] = 2
				return true
			}
			if g := StaticCallee(call); g != nil && storage(g, d+1) {
				touches[f] = 2
				return true
			}
		}
		return false
	}
	n := 0
	for _, fn := range c.P.Funcs {
		if !c.inRepo(fn) || strings.HasSuffix(pkgOf(fn), "/mocks") {
			continue
		}
		for _, b := range fn.Blocks {
			for _, in := range b.Instrs {
				var cc *ssa.CallCommon
				how := ""
				switch x := in.(type) {
				case *ssa.Defer:
					cc, how = &x.Call, "defer"
				case *ssa.Go:
					cc, how = &x.Call, "go"
				default:
					continue
				}
				n++
				g := cc.StaticCallee()
				invokeStorer := cc.IsInvoke() && strings.HasSuffix(cc.Value.Type().String(), "Storer")
				if g == nil && !invokeStorer {
					continue
				}
				sig := cc.Signature()
				if sig.Results().Len() == 0 || !IsErrorType(sig.Results().At(sig.Results().Len()-1).Type()) {
					continue
				}
				if invokeStorer || storage(g, 0) {
					what := "a storage call"
					if g != nil {
						what = FuncName(g)
					}
					r.Bad(rule, FuncName(fn), how+" "+what, posf(c, in), what+" returns the storage layer's error and is started with `"+how+"`, which discards it: the caller reports success although the write (a revocation, a clean-up) failed")
				}
			}
		}
	}
	r.Extra["defer_go_statements"] = n
}
