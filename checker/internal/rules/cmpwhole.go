package rules

import (
	"go/token"
	"go/types"
	"strconv"
	"strings"

	. "abverif/internal/engine"

	"golang.org/x/tools/go/ssa"
)

// compareWhole: a secret comparison decides a credential only if it looks at
// the whole of both values. Two shapes make it look at less, and both compile
// and pass every test that submits full-length values:
//
//	(a) an operand is cut to a length that was taken from the other operand
//	    (compare(a[:n], b[:n]) with n = len/copy of the submitted value): every
//	    prefix of the secret, the empty one included, then compares equal;
//	(b) an operand was laid out in a fixed array with the builtin copy, which
//	    stops silently at the array's size, and nothing on the way to the
//	    comparison relates the length of the source to that size: values that
//	    agree on the first bytes compare equal.
//
// The comparisons are found by callee (crypto/subtle.ConstantTimeCompare,
// bytes.Equal, crypto/hmac.Equal) in the functions selected by scope, after
// helpers are inlined, so a compare moved into a helper is seen where it is
// used.
func (c *Ctx) compareWhole(rule string, scope func(*ssa.Function) bool) {
	r := c.R
	n := 0
	for _, fn := range c.P.Funcs {
		if strings.HasSuffix(pkgOf(fn), "/mocks") || (scope != nil && !scope(fn)) {
			continue
		}
		for _, call := range Calls(fn) {
			cn := Callee(call)
			if cn != fnCTC && cn != "bytes.Equal" && cn != "crypto/hmac.Equal" {
				continue
			}
			args := call.Common().Args
			if len(args) != 2 {
				continue
			}
			n++
			ops := [2]cmpOperand{cmpOperandOf(args[0]), cmpOperandOf(args[1])}
			bad := ""
			for i := 0; i < 2 && bad == ""; i++ {
				me, other := ops[i], ops[1-i]
				for _, b := range me.bounds {
					for _, br := range boundRoots(b, 0) {
						if containsVal(other.sources, br) && !containsVal(me.sources, br) {
							bad = "operand " + strconv.Itoa(i) + " is cut to a length taken from the other operand (" + br.Name() + "): any prefix of the secret compares equal"
						}
					}
				}
				if bad == "" && me.array != nil {
					for _, src := range me.copied {
						if !variableLength(src) {
							continue
						}
						if !c.lengthRelated(call.(ssa.Instruction), src) {
							bad = "operand " + strconv.Itoa(i) + " was copied into a fixed array of " + strconv.Itoa(int(me.array.Len())) + " bytes and the length of the value copied is never tested: the comparison sees only the first bytes"
						}
					}
				}
			}
			r.Check(bad == "", rule, FuncName(fn), cn, posf(c, call.(ssa.Instruction)), "both operands are whole values", "the secret comparison does not look at the whole of both values: "+bad)
		}
	}
	r.Check(n > 0, rule, "-", "comparison sites", "-", strconv.Itoa(n)+" secret comparisons examined", "no secret comparison found in scope: the rule would pass vacuously")
}

type cmpOperand struct {
	sources []ssa.Value // the values whose bytes the operand holds (its own root included)
	bounds  []ssa.Value // explicit slice bounds
	array   *types.Array
	copied  []ssa.Value // sources that arrived through the builtin copy
}

func cmpOperandOf(v ssa.Value) cmpOperand {
	var o cmpOperand
	v = stripConv(v)
	sl, ok := v.(*ssa.Slice)
	if !ok {
		o.sources = []ssa.Value{v}
		return o
	}
	root := stripConv(sl.X)
	o.sources = append(o.sources, root)
	if sl.Low != nil {
		o.bounds = append(o.bounds, sl.Low)
	}
	if sl.High != nil {
		o.bounds = append(o.bounds, sl.High)
	}
	if pt, ok := root.Type().Underlying().(*types.Pointer); ok {
		if at, ok := pt.Elem().Underlying().(*types.Array); ok {
			o.array = at
		}
	}
	// what was copied into the same region of the root
	if refs := root.Referrers(); refs != nil {
		for _, ref := range *refs {
			s2, ok := ref.(*ssa.Slice)
			if !ok || !sameBound(s2.Low, sl.Low) {
				continue
			}
			if r2 := s2.Referrers(); r2 != nil {
				for _, u := range *r2 {
					call, ok := u.(*ssa.Call)
					if !ok {
						continue
					}
					if b, ok := call.Call.Value.(*ssa.Builtin); ok && b.Name() == "copy" && len(call.Call.Args) == 2 && call.Call.Args[0] == ssa.Value(s2) {
						src := stripConv(call.Call.Args[1])
						o.sources = append(o.sources, src)
						o.copied = append(o.copied, src)
					}
				}
			}
		}
	}
	if o.array == nil || len(o.copied) == 0 {
		o.array = nil
	}
	return o
}

func sameBound(a, b ssa.Value) bool {
	ai, aok := int64(0), a == nil
	bi, bok := int64(0), b == nil
	if a != nil {
		ai, aok = ConstInt(a)
	}
	if b != nil {
		bi, bok = ConstInt(b)
	}
	if aok && bok {
		return ai == bi
	}
	return a == b
}

// boundRoots: the values whose length a slice bound was computed from.
func boundRoots(b ssa.Value, depth int) []ssa.Value {
	if depth > 6 || b == nil {
		return nil
	}
	switch x := b.(type) {
	case *ssa.Const:
		return nil
	case *ssa.BinOp:
		return append(boundRoots(x.X, depth+1), boundRoots(x.Y, depth+1)...)
	case *ssa.Convert:
		return boundRoots(x.X, depth+1)
	case *ssa.Phi:
		var out []ssa.Value
		for _, e := range x.Edges {
			out = append(out, boundRoots(e, depth+1)...)
		}
		return out
	case *ssa.Call:
		if bi, ok := x.Call.Value.(*ssa.Builtin); ok {
			switch bi.Name() {
			case "len", "cap":
				return []ssa.Value{sliceRoot(x.Call.Args[0])}
			case "copy":
				return []ssa.Value{sliceRoot(x.Call.Args[1])}
			case "min", "max":
				var out []ssa.Value
				for _, a := range x.Call.Args {
					out = append(out, boundRoots(a, depth+1)...)
				}
				return out
			}
		}
		return []ssa.Value{x}
	case *ssa.Extract:
		if call, ok := x.Tuple.(*ssa.Call); ok {
			var out []ssa.Value
			for _, a := range call.Call.Args {
				out = append(out, sliceRoot(a))
			}
			return out
		}
	}
	return []ssa.Value{b}
}

func sliceRoot(v ssa.Value) ssa.Value {
	for d := 0; d < 8; d++ {
		v = stripConv(v)
		if sl, ok := v.(*ssa.Slice); ok {
			v = sl.X
			continue
		}
		break
	}
	return v
}

func containsVal(vs []ssa.Value, v ssa.Value) bool {
	for _, x := range vs {
		if x == v {
			return true
		}
	}
	return false
}

func variableLength(v ssa.Value) bool {
	v = stripConv(v)
	if sl, ok := v.(*ssa.Slice); ok {
		if pt, ok := stripConv(sl.X).Type().Underlying().(*types.Pointer); ok {
			if _, ok := pt.Elem().Underlying().(*types.Array); ok {
				return false
			}
		}
	}
	switch t := v.Type().Underlying().(type) {
	case *types.Basic:
		return t.Info()&types.IsString != 0
	case *types.Slice:
		return true
	}
	return false
}

// lengthRelated: some branch condition known at the comparison mentions the
// length of src.
func (c *Ctx) lengthRelated(at ssa.Instruction, src ssa.Value) bool {
	return HasFact(FactsAtInstr(at), func(f Fact) bool { return mentionsLen(f.Cond, src, 0) })
}

func mentionsLen(v, src ssa.Value, depth int) bool {
	if depth > 5 || v == nil {
		return false
	}
	switch x := v.(type) {
	case *ssa.BinOp:
		// a test against zero (present or not) says nothing about the size
		if isZeroConst(x.X) || isZeroConst(x.Y) {
			return false
		}
		return mentionsLen(x.X, src, depth+1) || mentionsLen(x.Y, src, depth+1)
	case *ssa.UnOp:
		return mentionsLen(x.X, src, depth+1)
	case *ssa.Call:
		if bi, ok := x.Call.Value.(*ssa.Builtin); ok && bi.Name() == "len" {
			return stripConv(x.Call.Args[0]) == src
		}
	}
	return false
}

func isZeroConst(v ssa.Value) bool {
	n, ok := ConstInt(v)
	return ok && n == 0
}

// loopVarCapture: a closure made inside a loop that outlives its iteration
// (it is handed on or stored) must not read a variable that lives outside the
// loop and is assigned in it: every closure would see the value of the last
// iteration. The module's go directive decides whether a loop variable is one
// cell per loop or one per iteration, and the SSA form is built accordingly,
// so the rule reads the allocation's position: outside the loop, stored
// inside, captured by a closure made inside.
func (c *Ctx) loopVarCapture(rule string, scope func(*ssa.Function) bool) {
	r := c.R
	for _, fn := range c.P.Funcs {
		if strings.HasSuffix(pkgOf(fn), "/mocks") {
			continue
		}
		for _, b := range fn.Blocks {
			if !BlockReaches(b, b) {
				continue
			}
			for _, in := range b.Instrs {
				mc, ok := in.(*ssa.MakeClosure)
				if !ok {
					continue
				}
				cl, _ := mc.Fn.(*ssa.Function)
				if cl == nil || (scope != nil && !scope(cl)) {
					continue
				}
				for i, bind := range mc.Bindings {
					al, ok := bind.(*ssa.Alloc)
					if !ok || al.Block() == nil {
						continue
					}
					// allocated in the same loop: one cell per iteration
					if BlockReaches(b, al.Block()) && BlockReaches(al.Block(), b) {
						continue
					}
					stored := false
					if refs := al.Referrers(); refs != nil {
						for _, ref := range *refs {
							if st, ok := ref.(*ssa.Store); ok && st.Addr == ssa.Value(al) && st.Block() != nil && BlockReaches(st.Block(), b) && BlockReaches(b, st.Block()) {
								stored = true
							}
						}
					}
					name := al.Comment
					if i < len(cl.FreeVars) {
						name = cl.FreeVars[i].Name()
					}
					r.Check(!stored, rule, FuncName(fn), "closure "+FuncName(cl)+" captures "+name, posf(c, mc), "captured cell is not reassigned by the loop", "the closure is made once per iteration but captures "+name+", a single variable the loop reassigns: every closure sees the value of the last iteration")
				}
			}
		}
	}
}

// clientStoresPerRequest: the session and cookie stores a request is read from
// and written to are the ones configured when the request arrives. Everything
// else in the library reads Config.Storage per request, and an application may
// set or swap the stores after its handler chain is assembled; a middleware
// that resolved them when it was built would judge requests by (and write
// changes to) a store that is no longer — or not yet — the configured one.
// Structurally: the receiver of ReadState/WriteState and the values stored in
// the response writer's store slots are never a variable captured from the
// scope that built the handler, and the writer is not stamped from a captured
// template.
func (c *Ctx) clientStoresPerRequest(rule string) {
	r := c.R
	captured := func(v ssa.Value) (string, bool) {
		seen := map[ssa.Value]bool{}
		var walk func(v ssa.Value, d int) (string, bool)
		walk = func(v ssa.Value, d int) (string, bool) {
			if d > 8 || v == nil || seen[v] {
				return "", false
			}
			seen[v] = true
			switch x := v.(type) {
			case *ssa.FreeVar:
				return x.Name(), true
			case *ssa.UnOp:
				if x.Op == token.MUL {
					if fv, ok := x.X.(*ssa.FreeVar); ok {
						return fv.Name(), true
					}
					// a field of a captured template
					if fa, ok := x.X.(*ssa.FieldAddr); ok {
						if fv, ok := fa.X.(*ssa.FreeVar); ok && strings.HasSuffix(fv.Type().String(), "ClientStateResponseWriter") {
							return fv.Name() + "." + fieldName(fa), true
						}
					}
				}
			case *ssa.Phi:
				for _, e := range x.Edges {
					if n, ok := walk(e, d+1); ok {
						return n, true
					}
				}
			case *ssa.ChangeInterface:
				return walk(x.X, d+1)
			case *ssa.MakeInterface:
				return walk(x.X, d+1)
			}
			return "", false
		}
		return walk(v, 0)
	}
	isRW := func(t types.Type) bool { return strings.HasSuffix(t.String(), "ClientStateReadWriter") }
	n := 0
	for _, fn := range c.P.Funcs {
		if strings.HasSuffix(pkgOf(fn), "/mocks") {
			continue
		}
		name := FuncName(fn)
		for _, call := range Calls(fn) {
			cc := call.Common()
			if !cc.IsInvoke() || (cc.Method.Name() != "ReadState" && cc.Method.Name() != "WriteState") || !isRW(cc.Value.Type()) {
				continue
			}
			n++
			cap, is := captured(cc.Value)
			r.Check(!is, rule, name, cc.Method.Name()+" receiver", posf(c, call.(ssa.Instruction)), "the store is resolved while the request is served", "the store this request is "+map[string]string{"ReadState": "read from", "WriteState": "written to"}[cc.Method.Name()]+" is "+cap+", captured when the handler was built: a store configured or replaced afterwards is ignored")
		}
		for _, b := range fn.Blocks {
			for _, in := range b.Instrs {
				st, ok := in.(*ssa.Store)
				if !ok {
					continue
				}
				if fa, ok := st.Addr.(*ssa.FieldAddr); ok && isRW(st.Val.Type()) && strings.HasSuffix(fa.X.Type().String(), "ClientStateResponseWriter") {
					n++
					cap, is := captured(st.Val)
					// the struct written is itself a cell the handler closure captures
					if al, isAl := fa.X.(*ssa.Alloc); isAl && !is {
						if refs := al.Referrers(); refs != nil {
							for _, ref := range *refs {
								if _, mc := ref.(*ssa.MakeClosure); mc {
									cap, is = al.Comment, true
								}
							}
						}
					}
					r.Check(!is, rule, name, "writer."+fieldName(fa), posf(c, st), "the writer's store is resolved while the request is served", "the response writer's "+fieldName(fa)+" comes from "+cap+", fixed when the handler was built: a store configured or replaced afterwards never receives this request's changes")
					continue
				}
				if strings.HasSuffix(st.Val.Type().String(), ".ClientStateResponseWriter") {
					if cap, is := captured(st.Val); is {
						r.Bad(rule, name, "writer = template", posf(c, st), "the response writer is stamped from "+cap+", a template built when the handler was built: its stores are not the ones configured when the request arrives")
					}
				}
			}
		}
	}
	r.Check(n >= 4, rule, "ab", "store uses", "-", strconv.Itoa(n)+" uses of the client-state stores examined", "expected at least 4 uses of the client-state stores (two reads, two writes), found "+strconv.Itoa(n))
}

// nilResultUse: a function that returns (value, ..., error) hands back a nil
// value next to its error. A caller that calls a method on the value (or
// dereferences it) before any branch has looked at the error turns the
// backend's failure into a panic instead of an error outcome. Decided for
// calls of repository functions that have a return with a nil constant in the
// value's position beside a non-nil error, and for calls of the storage
// interfaces: every such use of the value sits behind at least one branch
// condition on that call's error.
func (c *Ctx) nilResultUse(rule string) {
	r := c.R
	n := 0
	nilAt := func(g *ssa.Function, i int) bool {
		for _, b := range g.Blocks {
			for _, in := range b.Instrs {
				ret, ok := in.(*ssa.Return)
				if !ok || len(ret.Results) <= i {
					continue
				}
				if IsNilConst(ret.Results[i]) && !IsNilConst(ret.Results[len(ret.Results)-1]) {
					return true
				}
			}
		}
		return false
	}
	for _, fn := range c.P.Funcs {
		if !c.inRepo(fn) || strings.HasSuffix(pkgOf(fn), "/mocks") {
			continue
		}
		for _, call := range Calls(fn) {
			errV := ErrResult(call)
			sig := call.Common().Signature()
			if sig.Results().Len() < 2 || !IsErrorType(sig.Results().At(sig.Results().Len()-1).Type()) {
				continue
			}
			// errV == nil from here on: the caller never takes the error out of the
			// result tuple, so no branch can have looked at it
			g := StaticCallee(call)
			storage := call.Common().IsInvoke() && strings.HasSuffix(call.Common().Value.Type().String(), "Storer")
			if !storage && (g == nil || !c.inRepo(g)) {
				continue
			}
			for i := 0; i < sig.Results().Len()-1; i++ {
				switch sig.Results().At(i).Type().Underlying().(type) {
				case *types.Interface, *types.Pointer:
				default:
					continue
				}
				if !storage && !nilAt(g, i) {
					continue
				}
				val := ResultValue(call, i)
				if val == nil || val.Referrers() == nil {
					continue
				}
				for _, ref := range *val.Referrers() {
					use := ""
					switch x := ref.(type) {
					case ssa.CallInstruction:
						if x.Common().IsInvoke() && x.Common().Value == val {
							use = "calls " + x.Common().Method.Name() + " on"
						}
					case *ssa.FieldAddr:
						if x.X == val {
							use = "reads a field of"
						}
					case *ssa.UnOp:
						if x.Op == token.MUL && x.X == val {
							use = "dereferences"
						}
					case *ssa.TypeAssert:
						// the one-result form panics on a nil interface value
						if x.X == val && !x.CommaOk {
							use = "asserts the type of"
						}
					}
					if use == "" {
						continue
					}
					n++
					// "looked at" in a way that can tell the value is there: the error was
					// found nil, or found equal to one particular sentinel (a contract of its
					// own: errNoTOTPEnabled comes with the user); a bare "some error" does
					// not, it is exactly the case in which the value is nil
					looked := errV != nil && HasFact(FactsAtInstr(ref), func(f Fact) bool {
						if !mentionsValue(f.Cond, errV, 0) {
							return false
						}
						rel := f.Rel()
						if rel.X == errV && IsNilConst(rel.Y) {
							return rel.Op == token.EQL
						}
						if rel.Y == errV && IsNilConst(rel.X) {
							return rel.Op == token.EQL
						}
						if rel.Op == token.NEQ && (rel.X == errV || rel.Y == errV) {
							return false // different from one sentinel: still any other error
						}
						return true
					})
					r.Check(looked, rule, FuncName(fn), use+" result #"+strconv.Itoa(i)+" of "+Callee(call), posf(c, ref), "behind a test of the call's error", FuncName(fn)+" "+use+" what "+Callee(call)+" returned before any branch has looked at the error returned with it: when the call fails the value is nil and the request ends in a panic instead of an error outcome")
				}
			}
		}
	}
	r.Extra["nil_result_uses"] = n
}

func mentionsValue(v, want ssa.Value, depth int) bool {
	if v == nil || depth > 4 {
		return false
	}
	if v == want {
		return true
	}
	switch x := v.(type) {
	case *ssa.BinOp:
		return mentionsValue(x.X, want, depth+1) || mentionsValue(x.Y, want, depth+1)
	case *ssa.UnOp:
		return mentionsValue(x.X, want, depth+1)
	case *ssa.Phi:
		for _, e := range x.Edges {
			if mentionsValue(e, want, depth+1) {
				return true
			}
		}
	case *ssa.Call:
		// errors.Is(err, target)
		for _, a := range x.Call.Args {
			if a == want {
				return true
			}
		}
	}
	return false
}

// loginLooksUpFirst: the password and one-time-password login handlers answer
// a submitted login only after they have asked storage for the account: a
// shortcut that answers some submissions (a blank password, a malformed pid)
// without the look-up answers them without the failure event either, so such
// an attempt is neither counted nor answered by the lock — a locked account
// then answers that submission differently from every other one.
func (c *Ctx) loginLooksUpFirst(rule string) {
	r := c.R
	for _, hn := range []string{"(*ab/auth.Auth).LoginPost", "(*ab/otp.OTP).LoginPost"} {
		fn := c.P.FuncOpt(hn)
		if fn == nil || len(fn.Blocks) == 0 {
			continue
		}
		q := PathQuery{StartBlock: fn.Blocks[0], Cut: func(i ssa.Instruction) bool {
			call, ok := i.(ssa.CallInstruction)
			return ok && Callee(call) == fnLoad
		}, GoalP: c.nonErrorReturn}
		if p := q.Find(); p != nil {
			r.Bad(rule, hn, "Load ≺ every answer", posf(c, p[len(p)-1]), "a submitted login can be answered without the account having been looked up: that answer bypasses the failure event and with it the attempt counter and the lock's own answer", c.P.DescribePath(p)...)
		} else {
			r.Ok(rule, hn, "Load ≺ every answer", c.P.Pos(fn.Pos()), "every non-error answer follows the storage look-up")
		}
	}
}

// configVerbatim: the thresholds an application configures are used as
// configured. The library writes them in (*Config).Defaults only, and a value
// read from one of them is never merged with a substitute chosen by the
// library ("zero means the default", "at most …"): a clamp changes what a
// legitimate setting means (LockAfter = 1 no longer locks at the first
// failure; ExpireAfter <= 0 no longer expires every session at once).
func (c *Ctx) configVerbatim(rule string, fields ...string) {
	r := c.R
	want := map[string]bool{}
	for _, f := range fields {
		want[f] = true
	}
	n := 0
	for _, fn := range c.P.Funcs {
		if strings.HasSuffix(pkgOf(fn), "/mocks") {
			continue
		}
		name := FuncName(fn)
		for _, b := range fn.Blocks {
			for _, in := range b.Instrs {
				switch x := in.(type) {
				case *ssa.Store:
					fa, ok := x.Addr.(*ssa.FieldAddr)
					if !ok || !want[fieldName(fa)] || !strings.Contains(fa.X.Type().String(), "struct{BCryptCost") {
						continue
					}
					if name == "(*ab.Config).Defaults" {
						continue
					}
					r.Bad(rule, name, "write of Modules."+fieldName(fa), posf(c, x), "the library overwrites the configured "+fieldName(fa)+" outside Config.Defaults: a value the application chose is replaced")
				case *ssa.UnOp:
					if x.Op != token.MUL {
						continue
					}
					fa, ok := x.X.(*ssa.FieldAddr)
					if !ok || !want[fieldName(fa)] || !strings.Contains(fa.X.Type().String(), "struct{BCryptCost") || x.Referrers() == nil {
						continue
					}
					n++
					bad := false
					for _, ref := range *x.Referrers() {
						phi, isPhi := ref.(*ssa.Phi)
						if !isPhi {
							continue
						}
						for _, e := range phi.Edges {
							if _, isK := e.(*ssa.Const); isK {
								bad = true
							}
						}
					}
					r.Check(!bad, rule, name, "use of Modules."+fieldName(fa), posf(c, x), "used as configured", "the configured "+fieldName(fa)+" is replaced by a constant under some condition (a default or a clamp applied where it is used): settings the condition covers no longer mean what they say")
				}
			}
		}
	}
	r.Check(n > 0, rule, "ab", "reads of "+strings.Join(fields, ","), "-", strconv.Itoa(n)+" reads examined", "no read of the configured thresholds found")
}

// recoverStartNoOwnVerdict: once the account named in a recovery request has
// been found, the handler ends with the same quiet answer it fakes for unknown
// accounts, or with an error a backend handed it. An error the handler makes
// up itself from what it sees in the account (no usable address, already
// pending, …) is an answer only existing accounts can get.
func (c *Ctx) recoverStartNoOwnVerdict(rule string) {
	r := c.R
	fn := c.P.FuncOpt("(*ab/recover.Recover).StartPost")
	if fn == nil {
		return
	}
	loads := CallsTo(fn, fnLoad)
	if len(loads) == 0 {
		r.Unknown(rule, FuncName(fn), "Load", "-", "no account look-up found in StartPost")
		return
	}
	isCtor := func(v ssa.Value) bool {
		call, _ := CallOf(v)
		if call == nil {
			return false
		}
		n := Callee(call)
		return n == "errors.New" || n == "fmt.Errorf" || strings.HasSuffix(n, "/errors.New") || strings.HasSuffix(n, "/errors.Errorf")
	}
	var made func(v ssa.Value, d int) bool
	made = func(v ssa.Value, d int) bool {
		if d > 5 {
			return false
		}
		if phi, ok := v.(*ssa.Phi); ok {
			for _, e := range phi.Edges {
				if made(e, d+1) {
					return true
				}
			}
			return false
		}
		return isCtor(v)
	}
	bad := false
	for _, b := range fn.Blocks {
		for _, in := range b.Instrs {
			ret, ok := in.(*ssa.Return)
			if !ok || len(ret.Results) == 0 {
				continue
			}
			after := false
			for _, ld := range loads {
				if InstrDominates(ld.(ssa.Instruction), ret) {
					after = true
				}
			}
			if after && made(ret.Results[len(ret.Results)-1], 0) {
				bad = true
				r.Bad(rule, FuncName(fn), "own error after the look-up", posf(c, ret), "after the account was found the handler can end with an error of its own making: that answer (an error page instead of the quiet redirect) is given for existing accounts only and reveals that the account exists")
			}
		}
	}
	if !bad {
		r.Ok(rule, FuncName(fn), "own error after the look-up", c.P.Pos(fn.Pos()), "after the look-up only backend errors or the quiet answer")
	}
}

// noCredentialRestore: a list of one-time values (recovery codes, one-time
// passwords) put back into the user is a list computed by consuming, clearing
// or regenerating — never the stored list as it was read (kept aside to be
// "handed back" when the request fails later): that makes a spent value
// acceptable again.
func (c *Ctx) noCredentialRestore(rule string) {
	r := c.R
	pairs := map[string]string{"PutRecoveryCodes": "GetRecoveryCodes", "PutOTPs": "GetOTPs"}
	n := 0
	for _, fn := range c.P.Funcs {
		if strings.HasSuffix(pkgOf(fn), "/mocks") {
			continue
		}
		for _, call := range Calls(fn) {
			cc := call.Common()
			if !cc.IsInvoke() || pairs[cc.Method.Name()] == "" || !c.isUserType(cc.Value.Type()) || len(cc.Args) != 1 {
				continue
			}
			n++
			getter := pairs[cc.Method.Name()]
			seen := map[ssa.Value]bool{}
			var asRead func(v ssa.Value, d int) bool
			asRead = func(v ssa.Value, d int) bool {
				v = stripConv(v)
				if v == nil || d > 8 || seen[v] {
					return false
				}
				seen[v] = true
				switch x := v.(type) {
				case *ssa.Call:
					return x.Call.IsInvoke() && x.Call.Method.Name() == getter
				case *ssa.Phi:
					for _, e := range x.Edges {
						if asRead(e, d+1) {
							return true
						}
					}
				case *ssa.FreeVar:
					// what the enclosing function bound
					cl := x.Parent()
					idx := -1
					for i, fv := range cl.FreeVars {
						if fv == x {
							idx = i
						}
					}
					if par := cl.Parent(); par != nil && idx >= 0 {
						for _, b := range par.Blocks {
							for _, in := range b.Instrs {
								if mc, ok := in.(*ssa.MakeClosure); ok && mc.Fn == ssa.Value(cl) && idx < len(mc.Bindings) && asRead(mc.Bindings[idx], d+1) {
									return true
								}
							}
						}
					}
				case *ssa.UnOp:
					if x.Op == token.MUL {
						if asRead(x.X, d+1) {
							return true
						}
					}
				case *ssa.Alloc:
					if x.Referrers() != nil {
						for _, ref := range *x.Referrers() {
							if st, ok := ref.(*ssa.Store); ok && st.Addr == ssa.Value(x) && asRead(st.Val, d+1) {
								return true
							}
						}
					}
				}
				return false
			}
			r.Check(!asRead(cc.Args[0], 0), rule, FuncName(fn), cc.Method.Name()+"(<list as read>)", posf(c, call.(ssa.Instruction)), "a computed list", "the list put back is the stored list exactly as "+getter+"() returned it (kept aside and restored): values consumed in between become acceptable again")
		}
	}
	r.Extra["credential_list_puts"] = n
}

// deferredStorageError: a function that talks to the storage layer and
// returns its error is not called through `defer` (or `go`), where the error
// has nowhere to go: the request reports success for a write that failed.
func (c *Ctx) deferredStorageError(rule string) {
	r := c.R
	touches := map[*ssa.Function]int{} // 0 unknown, 1 no, 2 yes
	var storage func(f *ssa.Function, d int) bool
	storage = func(f *ssa.Function, d int) bool {
		if f == nil || !c.inRepo(f) || d > 3 {
			return false
		}
		if v := touches[f]; v != 0 {
			return v == 2
		}
		touches[f] = 1
		for _, call := range Calls(f) {
			cc := call.Common()
			if cc.IsInvoke() && strings.HasSuffix(cc.Value.Type().String(), "Storer") {
				touches[f] = 2
				return true
			}
			if g := StaticCallee(call); g != nil && storage(g, d+1) {
				touches[f] = 2
				return true
			}
		}
		return false
	}
	n := 0
	for _, fn := range c.P.Funcs {
		if !c.inRepo(fn) || strings.HasSuffix(pkgOf(fn), "/mocks") {
			continue
		}
		for _, b := range fn.Blocks {
			for _, in := range b.Instrs {
				var cc *ssa.CallCommon
				how := ""
				switch x := in.(type) {
				case *ssa.Defer:
					cc, how = &x.Call, "defer"
				case *ssa.Go:
					cc, how = &x.Call, "go"
				default:
					continue
				}
				n++
				g := cc.StaticCallee()
				invokeStorer := cc.IsInvoke() && strings.HasSuffix(cc.Value.Type().String(), "Storer")
				if g == nil && !invokeStorer {
					continue
				}
				sig := cc.Signature()
				if sig.Results().Len() == 0 || !IsErrorType(sig.Results().At(sig.Results().Len()-1).Type()) {
					continue
				}
				if invokeStorer || storage(g, 0) {
					what := "a storage call"
					if g != nil {
						what = FuncName(g)
					}
					r.Bad(rule, FuncName(fn), how+" "+what, posf(c, in), what+" returns the storage layer's error and is started with `"+how+"`, which discards it: the caller reports success although the write (a revocation, a clean-up) failed")
				}
			}
		}
	}
	r.Extra["defer_go_statements"] = n
}

// totpValidateDefaults: a TOTP code is "currently valid" in the sense of
// totp.Validate: period 30 s, one period of skew, six digits, checked against
// the present instant. A call of totp.ValidateCustom (what a test seam's
// default tends to be) must spell out exactly that: a larger skew or period
// accepts codes minutes old, a pinned instant accepts one code forever.
func (c *Ctx) totpValidateDefaults(rule string) {
	r := c.R
	for _, fn := range c.P.Funcs {
		if !c.inRepo(fn) || strings.HasSuffix(pkgOf(fn), "/mocks") {
			continue
		}
		for _, call := range CallsTo(fn, fnTOTPValidateCustom) {
			name := FuncName(fn)
			pos := posf(c, call.(ssa.Instruction))
			// the instant
			okNow := false
			tv := Arg(call, 2)
			for d := 0; d < 4 && tv != nil; d++ {
				tc, _ := CallOf(tv)
				if tc == nil {
					break
				}
				switch Callee(tc) {
				case "time.Now":
					okNow = true
					tv = nil
				case "(time.Time).UTC", "(time.Time).Local":
					tv = Arg(tc, 0)
				default:
					tv = nil
				}
			}
			r.Check(okNow, rule, name, "ValidateCustom.t = time.Now()", pos, "checked against the present instant", "the code is not validated against the present instant (time.Now()): a code stays valid, or never becomes valid")
			// the options
			fields := map[string]ssa.Value{}
			readable := false
			if ld, ok := Arg(call, 3).(*ssa.UnOp); ok && ld.Op == token.MUL {
				if a, isA := ld.X.(*ssa.Alloc); isA && a.Referrers() != nil {
					readable = true
					for _, ref := range *a.Referrers() {
						switch x := ref.(type) {
						case *ssa.FieldAddr:
							if x.Referrers() == nil {
								continue
							}
							for _, rr := range *x.Referrers() {
								if st, isSt := rr.(*ssa.Store); isSt && st.Addr == ssa.Value(x) {
									if _, dup := fields[fieldName(x)]; dup {
										readable = false
									}
									fields[fieldName(x)] = st.Val
								}
							}
						case *ssa.Store:
							if x.Addr == ssa.Value(a) {
								readable = false
							}
						}
					}
				}
			}
			if !readable {
				r.Unknown(rule, name, "ValidateCustom.opts", pos, "the validation options are not a local literal; period, skew and digits cannot be read off")
				continue
			}
			num := func(f string, def int64) (int64, bool) {
				v, ok := fields[f]
				if !ok {
					return def, true
				}
				n, isC := ConstInt(v)
				return n, isC
			}
			period, okP := num("Period", 30)
			skew, okS := num("Skew", 0)
			digits, okD := num("Digits", 6)
			r.Check(okP && (period == 30 || period == 0), rule, name, "ValidateCustom.Period", pos, "30 s steps", sprintf("codes are validated with a period of %d s instead of 30: the window in which a code counts as current is not the authenticator's", period))
			r.Check(okS && skew >= 0 && skew <= 1, rule, name, "ValidateCustom.Skew", pos, "at most one period of skew", sprintf("codes up to %d periods old (or ahead) are accepted: Skew counts periods, not seconds — a code is 'currently valid' for minutes", skew))
			r.Check(okD && digits == 6, rule, name, "ValidateCustom.Digits", pos, "six digits", sprintf("codes are validated with %d digits", digits))
		}
	}
}

// authFailSubject: the request fired on After(EventAuthFail) carries, on every
// way of arriving, the user whose credential was just rejected: lock counts the
// failure against the user it finds in the request, and with none there (the
// half-authenticated step of a 2FA login has no session user either) the
// failure is counted against nobody.
func (c *Ctx) authFailSubject(rule string) {
	r := c.R
	fail := c.Event("EventAuthFail")
	n := 0
	for _, fn := range c.P.Funcs {
		if !c.inRepo(fn) || strings.HasSuffix(pkgOf(fn), "/mocks") {
			continue
		}
		for _, f := range Fires(fn) {
			if f.Before || !f.Const || f.Event != fail {
				continue
			}
			n++
			ci := c.ctxChain(f.Req, 0)
			v, must := ci.must["user"]
			ok := must && v != nil && !IsNilConst(v)
			r.Check(ok, rule, FuncName(fn), "FireAfter(EventAuthFail).request", posf(c, f.Call), "carries the user whose credential failed", "the request handed to the failure handlers does not carry the rejected user in its context on every path: lock looks the user up from the request and counts the failure against whoever that is — or fails to find anyone")
		}
	}
	if n == 0 {
		r.Unknown(rule, "ab", "FireAfter(EventAuthFail)", "-", "no failure event site found")
	}
}

// redirectorWrites: the shipped redirector answers every request it is handed:
// each way through it reaches a write of the response (http.Redirect,
// WriteHeader, Write) — which is what delivers the session and cookie changes
// the handler queued — unless a component the integrator supplies (an
// interface method: the renderer) reported an error. A return in front of the
// write with an error the redirector made itself, or got from parsing the
// request, leaves an answer without the queued changes: a logout that removed
// nothing.
func (c *Ctx) redirectorWrites(rule string) {
	r := c.R
	n := 0
	for _, fn := range c.P.Funcs {
		if pkgOf(fn) != "ab/defaults" || fn.Signature.Recv() == nil || len(fn.Blocks) == 0 {
			continue
		}
		if !strings.Contains(fn.Signature.Recv().Type().String(), "defaults.Redirector") {
			continue
		}
		// functions that are handed the response writer
		hasW := false
		for _, p := range fn.Params {
			if p.Type().String() == "net/http.ResponseWriter" {
				hasW = true
			}
		}
		if !hasW {
			continue
		}
		n++
		name := FuncName(fn)
		writes := func(i ssa.Instruction) bool {
			call, ok := i.(ssa.CallInstruction)
			if !ok {
				return false
			}
			cc := call.Common()
			if cc.IsInvoke() {
				switch cc.Method.Name() {
				case "WriteHeader", "Write":
					return true
				}
				return false
			}
			switch Callee(call) {
			case "net/http.Redirect", "net/http.Error":
				return true
			}
			// a method of the redirector that is handed the writer answers itself (decided there)
			if g := StaticCallee(call); g != nil && pkgOf(g) == "ab/defaults" && g.Signature.Recv() != nil && strings.Contains(g.Signature.Recv().Type().String(), "defaults.Redirector") {
				return true
			}
			// a function value selected among such methods
			if _, isFn := cc.Value.Type().Underlying().(*types.Signature); isFn && StaticCallee(call) == nil {
				for _, a := range cc.Args {
					if a.Type().String() == "net/http.ResponseWriter" {
						return true
					}
				}
			}
			return false
		}
		q := PathQuery{StartBlock: fn.Blocks[0], Cut: writes, GoalP: func(i ssa.Instruction, pv PathView) bool {
			ret, ok := i.(*ssa.Return)
			if !ok {
				return false
			}
			if len(ret.Results) == 0 {
				return true
			}
			ev := ret.Results[len(ret.Results)-1]
			if !IsErrorType(ev.Type()) {
				return true
			}
			if isNil, known := pv.NilKnown(ev); known && isNil {
				return true
			}
			// an error of an integrator-supplied component may end the request
			os := c.Origins(ev)
			if len(os) == 0 {
				return true
			}
			for _, o := range os {
				ic, isCall := o.V.(ssa.CallInstruction)
				if o.Kind != "call" || !isCall || !ic.Common().IsInvoke() {
					return true
				}
			}
			return false
		}}
		if p := q.Find(); p != nil {
			r.Bad(rule, name, "every answer writes the response", posf(c, p[len(p)-1]), "the redirector can return without having written the response, for a reason other than a failure of the renderer: what the handler queued for the session and the cookies (a logout's deletions) is never delivered", c.P.DescribePath(p)...)
		} else {
			r.Ok(rule, name, "every answer writes the response", c.P.Pos(fn.Pos()), "each way through reaches a write of the response or ends with a component's error")
		}
	}
	if n < 1 {
		r.Unknown(rule, "ab/defaults", "redirector", "-", sprintf("expected the shipped redirector's answering methods, found %d", n))
	}
}

// perInstanceWiring: what a module's Init/Setup registers — event handlers,
// routes — belongs to the Authboss instance it is given. A registration that
// runs inside (*sync.Once).Do (or behind a package-level flag) happens for the
// first instance of the process only; every further instance runs without that
// handler.
func (c *Ctx) perInstanceWiring(rule string) {
	r := c.R
	n := 0
	registers := func(f *ssa.Function) ssa.CallInstruction {
		var found ssa.CallInstruction
		seen := map[*ssa.Function]bool{}
		var visit func(g *ssa.Function, d int)
		visit = func(g *ssa.Function, d int) {
			if g == nil || seen[g] || d > 3 || found != nil {
				return
			}
			seen[g] = true
			for _, call := range Calls(g) {
				switch Callee(call) {
				case "(*ab.Events).Before", "(*ab.Events).After":
					found = call
					return
				}
				cc := call.Common()
				if cc.IsInvoke() && strings.HasSuffix(cc.Value.Type().String(), ".Router") {
					found = call
					return
				}
				if h := StaticCallee(call); h != nil && c.inRepo(h) {
					visit(h, d+1)
				}
			}
			for _, an := range g.AnonFuncs {
				visit(an, d+1)
			}
		}
		visit(f, 0)
		return found
	}
	for _, fn := range c.P.Funcs {
		if !c.inRepo(fn) || strings.HasSuffix(pkgOf(fn), "/mocks") {
			continue
		}
		for _, call := range Calls(fn) {
			if Callee(call) != "(*sync.Once).Do" {
				continue
			}
			var body *ssa.Function
			switch x := Arg(call, 1).(type) {
			case *ssa.MakeClosure:
				body, _ = x.Fn.(*ssa.Function)
			case *ssa.Function:
				body = x
			}
			if body == nil {
				continue
			}
			n++
			if reg := registers(body); reg != nil {
				r.Bad(rule, FuncName(fn), "sync.Once around "+Callee(reg), posf(c, call), "a handler or route is registered inside sync.Once.Do: it is registered for the first Authboss instance of the process only, every further instance runs without it")
			}
		}
	}
	r.Extra["once_sites"] = n
	r.Ok(rule, "all packages", "registrations outside sync.Once", "-", sprintf("%d sync.Once sites examined; none wraps the registration of a handler or route (violations are listed individually)", n))
}

// confirmPairChecked: the shipped form validator accepts a non-empty field
// that has a confirmation partner only when the two submitted values are
// equal: from the read of the main value, every way to the end of Validate
// either records an error, found the main value empty, or has established
// main == confirm. A check that is skipped when the confirmation key is
// absent from the body accepts a password nobody confirmed.
func (c *Ctx) confirmPairChecked(rule string) {
	r := c.R
	fn := c.P.FuncOpt("(ab/defaults.HTTPFormValidator).Validate")
	if fn == nil || len(fn.Blocks) == 0 {
		r.Unknown(rule, "ab/defaults", "HTTPFormValidator.Validate", "-", "validator not found")
		return
	}
	name := FuncName(fn)
	pairLookup := func(v ssa.Value) *ssa.Lookup {
		if ex, ok := v.(*ssa.Extract); ok {
			v = ex.Tuple
		}
		lk, ok := v.(*ssa.Lookup)
		if !ok || fieldLoadName(lk.X) != "Values" {
			return nil
		}
		ld, ok := lk.Index.(*ssa.UnOp)
		if !ok {
			return nil
		}
		ia, ok := ld.X.(*ssa.IndexAddr)
		if !ok || fieldLoadName(ia.X) != "ConfirmFields" {
			return nil
		}
		return lk
	}
	var lks []*ssa.Lookup
	for _, b := range fn.Blocks {
		for _, in := range b.Instrs {
			if v, ok := in.(ssa.Value); ok {
				if lk := pairLookup(v); lk != nil && ssa.Value(lk) == v {
					lks = append(lks, lk)
				}
			}
		}
	}
	if len(lks) < 2 {
		r.Unknown(rule, name, "confirm pair", c.P.Pos(fn.Pos()), sprintf("expected the reads of a field and of its confirmation partner, found %d", len(lks)))
		return
	}
	// the main value: the read that dominates the others
	main := lks[0]
	for _, lk := range lks[1:] {
		if Dominates(lk.Block(), main.Block()) && lk.Block() != main.Block() {
			main = lk
		}
	}
	isMain := func(v ssa.Value) bool { return pairLookup(v) == main }
	// an error value made here (a helper's "does not match" result, inlined) is not nil
	nonNil := map[ssa.Value]bool{}
	for _, b := range fn.Blocks {
		for _, in := range b.Instrs {
			if mi, ok := in.(*ssa.MakeInterface); ok {
				nonNil[mi] = true
			}
		}
	}
	q := PathQuery{From: main, NonNil: nonNil, Cut: func(i ssa.Instruction) bool {
		call, ok := i.(*ssa.Call)
		if !ok {
			return false
		}
		b, isB := call.Call.Value.(*ssa.Builtin)
		return isB && b.Name() == "append"
	}, PruneFact: func(f Fact) bool {
		rel := f.Rel()
		if rel.Op != token.EQL {
			return false
		}
		// main == confirm (also by a constant-time comparison)
		if er := f.EqRel(); er.Op == token.EQL {
			if ex, ey := pairLookup(er.X), pairLookup(er.Y); ex != nil && ey != nil && ex != ey && (ex == main || ey == main) {
				return true
			}
		}
		lx, ly := pairLookup(rel.X), pairLookup(rel.Y)
		if lx != nil && ly != nil && lx != ly && (lx == main || ly == main) {
			return true
		}
		// len(main) == 0 / main == ""
		if k, isC := ConstInt(rel.Y); isC && k == 0 {
			if sv := StrLenValue(rel.X); sv != nil && isMain(sv) {
				return true
			}
		}
		if s, isC := ConstStr(rel.Y); isC && s == "" && isMain(rel.X) {
			return true
		}
		return false
	}, Goal: func(i ssa.Instruction) bool {
		_, ok := i.(*ssa.Return)
		return ok
	}}
	if p := q.Find(); p != nil {
		r.Bad(rule, name, "main == confirm or an error", posf(c, p[len(p)-1]), "a non-empty field with a confirmation partner can pass validation without the two submitted values having been found equal (for example when the confirmation is absent from the body): the account is created with a password nobody confirmed", c.P.DescribePath(p)...)
	} else {
		r.Ok(rule, name, "main == confirm or an error", posf(c, main), "every way on from the read of the field records an error, found it empty, or found it equal to its confirmation")
	}
}

// storedListInPlace: a list the storage layer hands out through a user
// accessor (secondary e-mail addresses, codes) is the integrator's object: it
// is read and copied, never grown or edited in place. append with it as the
// destination, slices.Insert/Delete/Compact/Sort/Reverse and sort.Strings write
// into its backing array when there is spare capacity — the next account that
// shares the array gets the previous requester's address.
func (c *Ctx) storedListInPlace(rule string, scope func(*ssa.Function) bool) {
	r := c.R
	n := 0
	var fromAccessor func(v ssa.Value) ssa.CallInstruction
	fromAccessor = func(v ssa.Value) ssa.CallInstruction {
		if phi, ok := v.(*ssa.Phi); ok {
			for _, e := range phi.Edges {
				if _, again := e.(*ssa.Phi); again {
					continue
				}
				if ic := fromAccessor(e); ic != nil {
					return ic
				}
			}
			return nil
		}
		for d := 0; d < 4; d++ {
			switch x := v.(type) {
			case *ssa.Slice:
				v = x.X
				continue
			case *ssa.ChangeType:
				v = x.X
				continue
			}
			break
		}
		ic, _ := CallOf(v)
		if ic == nil || !ic.Common().IsInvoke() || !c.isUserType(ic.Common().Value.Type()) {
			return nil
		}
		if _, isSl := v.Type().Underlying().(*types.Slice); !isSl {
			return nil
		}
		return ic
	}
	for _, fn := range c.P.Funcs {
		if !c.inRepo(fn) || strings.HasSuffix(pkgOf(fn), "/mocks") || (scope != nil && !scope(fn)) {
			continue
		}
		for _, call := range Calls(fn) {
			cc := call.Common()
			dst := -1
			what := ""
			if b, ok := cc.Value.(*ssa.Builtin); ok && b.Name() == "append" {
				dst, what = 0, "append"
			} else {
				switch gn := genericName(call); gn {
				case "slices.Insert", "slices.Delete", "slices.Compact", "slices.CompactFunc", "slices.Sort", "slices.SortFunc", "slices.Reverse", "slices.Replace", "sort.Strings":
					dst, what = 0, gn
				}
			}
			if dst < 0 || dst >= len(cc.Args) {
				continue
			}
			n++
			if src := fromAccessor(cc.Args[dst]); src != nil {
				r.Bad(rule, FuncName(fn), what+"("+Callee(src)+"(), …)", posf(c, call), "the list the storage layer handed out through "+Callee(src)+" is grown or edited in place: with spare capacity the write lands in the stored list's backing array, which another account's list may share")
			}
		}
	}
	r.Extra["in_place_sites"] = n
	r.Ok(rule, "all packages", "stored lists copied before they are edited", "-", sprintf("%d append / in-place list operations examined; none has an accessor's result as its destination (violations are listed individually)", n))
}

// recoverStartOneAnswer: once the recovery request of an existing account has
// fired its after-event, the only way to end without an error is the answer
// every recovery request gets (the redirect with the "mail sent" flash). The
// "handled" flag of an after-event is not a verdict: an exit on it is an
// answer (or the lack of one) only existing accounts can produce.
func (c *Ctx) recoverStartOneAnswer(rule string) {
	r := c.R
	fn := c.P.FuncOpt("(*ab/recover.Recover).StartPost")
	if fn == nil {
		return
	}
	name := FuncName(fn)
	ev := c.Event("EventRecoverStart")
	n := 0
	for _, call := range CallsTo(fn, fnFireAfter) {
		if k, isC := ConstInt(Arg(call, 1)); !isC || k != ev {
			continue
		}
		n++
		q := PathQuery{From: call.(ssa.Instruction), Cut: func(i ssa.Instruction) bool {
			ic, ok := i.(ssa.CallInstruction)
			return ok && ic.Common().IsInvoke() && ic.Common().Method.Name() == "Redirect"
		}, GoalP: c.nonErrorReturn}
		if p := q.Find(); p != nil {
			r.Bad(rule, name, "FireAfter(EventRecoverStart) ⇒ the common answer", posf(c, p[len(p)-1]), "after the event of an existing account's recovery request the handler can end without an error and without the redirect every request gets: that answer tells the requester the account exists", c.P.DescribePath(p)...)
		} else {
			r.Ok(rule, name, "FireAfter(EventRecoverStart) ⇒ the common answer", posf(c, call), "every non-error way on from the after-event ends in the common redirect")
		}
	}
	if n == 0 {
		r.Info(rule, name, "FireAfter(EventRecoverStart)", "-", "StartPost fires no after-event")
	}
}

// statusFailureReported: a handler that learns the outcome of a code check as
// a status text (totp2fa: validate() hands back Localizef(TxtSuccess) or the
// text of the refusal) and reports failures to the lock reports every refusal:
// from where the status is known, each way to a non-error exit has either
// found the status equal to the success text or passed
// FireAfter(EventAuthFail). A case that answers one particular refusal (a
// replayed code) on its own, in front of the general one, is not counted.
func (c *Ctx) statusFailureReported(rule string) {
	r := c.R
	fail := c.Event("EventAuthFail")
	isSuccessText := func(v ssa.Value) bool {
		call, _ := CallOf(v)
		if call == nil || !strings.HasSuffix(Callee(call), ".Localizef") {
			return false
		}
		for _, a := range call.Common().Args {
			if ld, ok := a.(*ssa.UnOp); ok && ld.Op == token.MUL {
				if g, isG := ld.X.(*ssa.Global); isG && g.Name() == "TxtSuccess" {
					return true
				}
			}
		}
		return false
	}
	n := 0
	for _, fn := range c.P.Funcs {
		if !c.inRepo(fn) || len(fn.Blocks) == 0 || strings.HasSuffix(pkgOf(fn), "/mocks") {
			continue
		}
		fires := false
		for _, call := range CallsTo(fn, fnFireAfter) {
			if k, isC := ConstInt(Arg(call, 1)); isC && k == fail {
				fires = true
			}
		}
		if !fires {
			continue
		}
		var status ssa.Value
		for _, b := range fn.Blocks {
			for _, in := range b.Instrs {
				bo, ok := in.(*ssa.BinOp)
				if !ok || (bo.Op != token.EQL && bo.Op != token.NEQ) {
					continue
				}
				switch {
				case isSuccessText(bo.X):
					status = bo.Y
				case isSuccessText(bo.Y):
					status = bo.X
				}
			}
		}
		if status == nil {
			continue
		}
		n++
		name := FuncName(fn)
		q := PathQuery{Cut: func(i ssa.Instruction) bool {
			call, ok := i.(ssa.CallInstruction)
			if !ok || Callee(call) != fnFireAfter {
				return false
			}
			k, isC := ConstInt(Arg(call, 1))
			return isC && k == fail
		}, PruneFact: func(f Fact) bool {
			rel := f.Rel()
			if rel.Op != token.EQL {
				return false
			}
			if (rel.X == status && isSuccessText(rel.Y)) || (rel.Y == status && isSuccessText(rel.X)) {
				return true
			}
			// the check did not take place: its error was one particular sentinel
			// ("no second factor enabled")
			for _, pair := range [][2]ssa.Value{{rel.X, rel.Y}, {rel.Y, rel.X}} {
				if IsErrorType(pair[0].Type()) && loadOfGlobal(pair[1]) != nil {
					return true
				}
			}
			return false
		}, GoalP: c.nonErrorReturn}
		if si, ok := status.(ssa.Instruction); ok {
			if _, isPhi := status.(*ssa.Phi); isPhi {
				q.StartBlock = si.Block()
			} else {
				q.From = si
			}
		} else {
			q.StartBlock = fn.Blocks[0]
		}
		if p := q.Find(); p != nil {
			r.Bad(rule, name, "status != success ⇒ FireAfter(EventAuthFail)", posf(c, p[len(p)-1]), "a refusal of the submitted code can be answered without the failure event (the status was not found equal to the success text, and FireAfter(EventAuthFail) was not passed): that failed attempt is not counted towards the lock", c.P.DescribePath(p)...)
		} else {
			r.Ok(rule, name, "status != success ⇒ FireAfter(EventAuthFail)", c.P.Pos(fn.Pos()), "every non-error exit follows the success text or the failure event")
		}
	}
	if n == 0 {
		r.Info(rule, "ab/otp/twofactor", "status texts", "-", "no failure-reporting handler decides on a status text")
	}
}

// pendingPIDVerbatim: the account a pending second-factor login is completed
// for is the account the session names: the key handed to the storage look-up
// is the session value as it was read (or a user's own PID), never something
// cut out of it. A value split at a separator names a different account for
// PIDs that contain the separator.
func (c *Ctx) pendingPIDVerbatim(rule string) {
	r := c.R
	n := 0
	isSessionRead := func(v ssa.Value) bool {
		call, idx := CallOf(v)
		return call != nil && idx == 0 && Callee(call) == fnGetSession
	}
	for _, fn := range c.P.Funcs {
		if !strings.HasPrefix(pkgOf(fn), "ab/otp/twofactor") || len(fn.Blocks) == 0 {
			continue
		}
		for _, call := range Calls(fn) {
			if Callee(call) != fnLoad {
				continue
			}
			key := Arg(call, len(call.Common().Args)-1)
			if call.Common().IsInvoke() {
				key = call.Common().Args[len(call.Common().Args)-1]
			}
			bad := ""
			seen := map[ssa.Value]bool{}
			var derived func(x ssa.Value, d int) bool
			derived = func(x ssa.Value, d int) bool {
				if x == nil || d > 10 || seen[x] {
					return false
				}
				seen[x] = true
				if isSessionRead(x) {
					return true
				}
				in, ok := x.(ssa.Instruction)
				if !ok {
					return false
				}
				var buf [8]*ssa.Value
				for _, op := range in.Operands(buf[:0]) {
					if *op != nil && derived(*op, d+1) {
						return true
					}
				}
				return false
			}
			var walk func(v ssa.Value, d int)
			walk = func(v ssa.Value, d int) {
				if v == nil || d > 8 || bad != "" {
					return
				}
				if isSessionRead(v) {
					return
				}
				if phi, ok := v.(*ssa.Phi); ok {
					for _, e := range phi.Edges {
						walk(e, d+1)
					}
					return
				}
				seen = map[ssa.Value]bool{}
				if derived(v, 0) {
					bad = SafeString(v)
					if ic, _ := CallOf(v); ic != nil {
						bad = Callee(ic)
					}
				}
			}
			walk(key, 0)
			n++
			r.Check(bad == "", rule, FuncName(fn), "Load(<session pid>) verbatim", posf(c, call), "the account looked up is named by the session value as read (or by a user's own PID)", "the key of the storage look-up is computed from the session's pending PID ("+bad+") instead of being that value: for a PID the computation changes, the login is completed for a different account than the one whose password was checked")
		}
	}
	if n == 0 {
		r.Info(rule, "ab/otp/twofactor", "Load", "-", "no storage look-up in the second-factor modules")
	}
}
