package rules

import (
	"go/constant"
	"go/token"
	"go/types"
	"strings"

	. "abverif/internal/engine"

	"golang.org/x/tools/go/ssa"
)

// fieldNameOfField names the field a value-struct field selection reads.
func fieldNameOfField(f *ssa.Field) string {
	st := structOf(f.X.Type())
	if st == nil || f.Field >= st.NumFields() {
		return ""
	}
	return st.Field(f.Field).Name()
}

// loadsField reports whether v is a load of the named field.
func loadsField(v ssa.Value, field string) bool { return fieldLoadName(v) == field }

// C11: client-state changes reach the client once, in order, before the body.
func C11(c *Ctx) {
	r := c.R
	r.Explanation = "Static invariants of ClientStateResponseWriter, which hold for every handler program because handlers can only act through these methods: (1) in WriteHeader and Write the call on the embedded writer is preceded, on every path, by the hasWritten==true edge or by a putClientState() call whose error is not dropped (no condition on the bytes written or the status code); (2) every putClientState call site is dominated by hasWritten==false, and inside putClientState the store hasWritten=true dominates every WriteState call and every return (re-entrancy through WriteState(c,…) and error paths included); (3) family pairing: the session store receives the session state and session queue, the cookie store the cookie ones; setState appends to the queue selected by the context key its callers pass, Put/Del/DelAll{Session,Cookie} pass their own family's key, getState/LoadClientState use the matching key and field; (4) the queues are written only by setState, by append on the same field, and are handed to WriteState unmodified; (5) the request-scoped state keys are installed only by LoadClientState and the expiry middleware; (6) MustClientStateResponseWriter unwraps *ClientStateResponseWriter, UnderlyingResponseWriter and Unwrap() wrappers and panics otherwise."
	r.NotDecided = []string{"behaviour after Hijack, and of http.ResponseController methods reaching the embedded writer through Unwrap()", "the integrator's ClientStateReadWriter"}
	c.flushDiscipline()
	// (3)(4) pairing and queues
	c.flushUnmodified("C11.queue")
	c.familyPairing()
	c.respondersWrite("C11.responder-writes")
	// (5) who installs the state keys
	c.stateKeyInstallers()
	// (6) unwrapping
	c.unwrapShape()
}

// mustQueue: every returning path of fn appends to an event queue, itself or
// through a repository function that always does. Constant arguments are
// bound to the callee's parameters, so that a helper's switch on the state
// family is followed only on the side the caller selects.
func (c *Ctx) mustQueue(fn *ssa.Function, bind map[ssa.Value]*ssa.Const, depth int, busy map[*ssa.Function]bool) (bool, []ssa.Instruction) {
	if fn == nil || fn.Blocks == nil || depth > 5 || busy[fn] {
		return false, nil
	}
	busy[fn] = true
	defer delete(busy, fn)
	constOf := func(v ssa.Value) *ssa.Const {
		if k, ok := v.(*ssa.Const); ok {
			return k
		}
		return bind[v]
	}
	queues := func(i ssa.Instruction) bool {
		switch x := i.(type) {
		case *ssa.Store:
			if queueAddr(x.Addr, 0) {
				return true
			}
		case ssa.CallInstruction:
			if g := StaticCallee(x); g != nil && c.inRepo(g) && g != fn {
				inner := map[ssa.Value]*ssa.Const{}
				for k, a := range x.Common().Args {
					if k < len(g.Params) {
						if cv := constOf(a); cv != nil {
							inner[g.Params[k]] = cv
						}
					}
				}
				ok, _ := c.mustQueue(g, inner, depth+1, busy)
				return ok
			}
		}
		return false
	}
	prune := func(from, to *ssa.BasicBlock) bool {
		if len(from.Instrs) == 0 || len(from.Succs) != 2 || from.Succs[0] == from.Succs[1] {
			return false
		}
		ifi, ok := from.Instrs[len(from.Instrs)-1].(*ssa.If)
		if !ok {
			return false
		}
		bo, ok := ifi.Cond.(*ssa.BinOp)
		if !ok || (bo.Op != token.EQL && bo.Op != token.NEQ) {
			return false
		}
		x, y := constOf(bo.X), constOf(bo.Y)
		if x == nil || y == nil || x.Value == nil || y.Value == nil {
			return false
		}
		eq := constant.Compare(x.Value, token.EQL, y.Value)
		taken := eq == (bo.Op == token.EQL) // the true successor is taken
		return (to == from.Succs[0]) != taken
	}
	q := PathQuery{StartBlock: fn.Blocks[0], Cut: queues, Prune: prune, Goal: func(i ssa.Instruction) bool { _, ok := i.(*ssa.Return); return ok }}
	p := q.Find()
	return p == nil, p
}

func (c *Ctx) familyPairing() {
	r := c.R
	sess := "session"
	cook := "cookie"
	// every call of the public API leaves its event in the queue: nothing is
	// dropped because it looks redundant against the state read at the start of
	// the request (events queued meanwhile may have changed what a put means)
	for _, n := range []string{"ab.PutSession", "ab.DelSession", "ab.DelAllSession", "ab.PutCookie", "ab.DelCookie"} {
		fn := c.P.Func(n)
		ok, p := c.mustQueue(fn, nil, 0, map[*ssa.Function]bool{})
		if ok {
			r.Ok("C11.every-call", n, "queues its event on every path", c.P.Pos(fn.Pos()), "no returning path skips the queue")
		} else {
			r.Bad("C11.every-call", n, "queues its event on every path", c.P.Pos(fn.Pos()), "a call can return without its event having been queued (a put/delete judged redundant is dropped): the store does not receive the sequence of changes the handlers made", c.P.DescribePath(p)...)
		}
	}
	// the writer's two stores are the configured ones, each in its own slot:
	// a store standing in for its sibling receives the other family's events
	want := map[string]string{"cookieStateRW": "CookieState", "sessionStateRW": "SessionState"}
	nslots := 0
	for _, fn := range c.P.Funcs {
		for _, b := range fn.Blocks {
			for _, in := range b.Instrs {
				st, ok := in.(*ssa.Store)
				if !ok {
					continue
				}
				fa, ok := st.Addr.(*ssa.FieldAddr)
				if !ok || want[fieldName(fa)] == "" || !strings.HasSuffix(fa.X.Type().String(), "ClientStateResponseWriter") {
					continue
				}
				nslots++
				var from func(v ssa.Value, d int) bool
				from = func(v ssa.Value, d int) bool {
					if phi, isPhi := v.(*ssa.Phi); isPhi && d < 4 {
						for _, e := range phi.Edges {
							if !from(e, d+1) {
								return false
							}
						}
						return true
					}
					return fieldLoadName(v) == want[fieldName(fa)]
				}
				r.Check(from(st.Val, 0), "C11.family", FuncName(fn), fieldName(fa)+" = Storage."+want[fieldName(fa)], posf(c, st), "the writer's "+fieldName(fa)+" is the configured "+want[fieldName(fa)], "the writer's "+fieldName(fa)+" can be something other than Config.Storage."+want[fieldName(fa)]+" ("+SafeString(st.Val)+"): that store is handed the events (and nil state) of the other family")
			}
		}
	}
	if nslots < 2 {
		r.Unknown("C11.family", "ab", "writer store slots", "-", sprintf("expected the writer's two store fields to be initialised, found %d stores", nslots))
	}
	// setState: switch on ctxKey -> append to matching queue
	ss := c.queueFunc()
	if ss == nil {
		r.Info("C11.family", "ab", "queue function", "-", "no single function appends to both queues (one per family): the pairing is decided per public wrapper below")
	}
	n := 0
	for _, b := range blocksOf(ss) {
		for _, in := range b.Instrs {
			st, ok := in.(*ssa.Store)
			if !ok {
				continue
			}
			fa, ok := st.Addr.(*ssa.FieldAddr)
			if !ok {
				continue
			}
			fld := fieldName(fa)
			if fld != "sessionStateEvents" && fld != "cookieStateEvents" {
				continue
			}
			n++
			want := sess
			if fld == "cookieStateEvents" {
				want = cook
			}
			ok2 := HasFact(FactsAtInstr(st), func(f Fact) bool {
				rel := f.Rel()
				s, isC := ConstStr(rel.Y)
				_, isP := rel.X.(*ssa.Parameter)
				return rel.Op.String() == "==" && isC && isP && s == want
			})
			r.Check(ok2, "C11.family", FuncName(ss), fld, posf(c, st), "appended under ctxKey=="+want, "events for key family "+want+" are not appended to "+fld+" under the matching context key")
		}
	}
	if ss != nil {
		r.Check(n == 2, "C11.family", FuncName(ss), "two queues", c.P.Pos(ss.Pos()), "both families handled", sprintf("expected 2 queue appends, found %d", n))
	}
	// public wrappers: what each of them queues, summarised through whatever
	// helpers lie between it and the queue (constant arguments are propagated
	// into the helpers' guards, so the decomposition does not matter)
	for _, w := range []struct{ fn, fam, kind string }{
		{"ab.PutSession", sess, "ClientStateEventPut"}, {"ab.DelSession", sess, "ClientStateEventDel"}, {"ab.DelAllSession", sess, "ClientStateEventDelAll"},
		{"ab.PutCookie", cook, "ClientStateEventPut"}, {"ab.DelCookie", cook, "ClientStateEventDel"},
	} {
		fn := c.P.Func(w.fn)
		effs, why := c.queueEffects(fn)
		want := c.P.ConstInt("", w.kind)
		ok := len(effs) > 0 && why == ""
		detail := why
		for _, e := range effs {
			if e.queue != w.fam+"StateEvents" {
				ok = false
				detail = "queues into " + e.queue
			}
			if !e.kindKnown || e.kind != want {
				ok = false
				detail = sprintf("records event kind %d (known=%v), expected %s", e.kind, e.kindKnown, w.kind)
			}
			if !e.keyOwn {
				ok = false
				detail = "the event's key is not the wrapper's own key argument"
			}
		}
		if len(effs) == 0 && detail == "" {
			detail = "queues nothing"
		}
		r.Check(ok, "C11.family", w.fn, "queues "+w.kind+" into the "+w.fam+" queue", c.P.Pos(fn.Pos()), "one event of its own kind, key and family", w.fn+" does not queue exactly its own kind of event, for its own key, into the "+w.fam+" queue: "+detail)
	}
	for _, w := range []struct{ fn, fam string }{{"ab.GetSession", sess}, {"ab.GetCookie", cook}} {
		fn := c.P.Func(w.fn)
		keys, why := c.ctxKeysRead(fn)
		ok := len(keys) == 1 && keys[0] == w.fam && why == ""
		r.Check(ok, "C11.family", w.fn, "reads the "+w.fam+" state", c.P.Pos(fn.Pos()), "reads the state loaded for its own family", sprintf("%s reads context state %v %s", w.fn, keys, why))
	}
	// LoadClientState: session store -> sessionState field + CTXKeySessionState
	lcs := c.P.Func("(*ab.Authboss).LoadClientState")
	for _, b := range lcs.Blocks {
		for _, in := range b.Instrs {
			st, ok := in.(*ssa.Store)
			if !ok {
				continue
			}
			fa, ok := st.Addr.(*ssa.FieldAddr)
			if !ok {
				continue
			}
			fld := fieldName(fa)
			if fld != "sessionState" && fld != "cookieState" {
				continue
			}
			fam := strings.TrimSuffix(fld, "State")
			// value read from the same family's store
			rc, _ := CallOf(st.Val)
			okSrc := rc != nil && Callee(rc) == "(ab.ClientStateReadWriter).ReadState" && hasField(c.fieldOrigins(rc.Common().Value), strings.ToUpper(fam[:1])+fam[1:]+"State")
			r.Check(okSrc, "C11.family", FuncName(lcs), fld, posf(c, st), "state read from its own store", "field "+fld+" is filled from the other family's store")
		}
	}
	// each family's state is read whatever the other family's store answered: a
	// request without a session still carries cookies (the remember cookie of a
	// returning visitor), and vice versa
	for _, fam := range []string{"SessionState", "CookieState"} {
		var reads []ssa.Instruction
		for _, call := range CallsTo(lcs, "(ab.ClientStateReadWriter).ReadState") {
			if hasField(c.fieldOrigins(call.Common().Value), fam) {
				reads = append(reads, call.(ssa.Instruction))
			}
		}
		if len(reads) == 0 {
			r.Bad("C11.family", FuncName(lcs), "ReadState("+fam+")", c.P.Pos(lcs.Pos()), "the "+fam+" store is never read")
			continue
		}
		q := PathQuery{StartBlock: lcs.Blocks[0], Cut: func(i ssa.Instruction) bool {
			for _, rd := range reads {
				if rd == i {
					return true
				}
			}
			return false
		}, GoalP: c.nonErrorReturn, Prune: func(from, to *ssa.BasicBlock) bool {
			// the edge on which this family has no store configured
			f, ok := EdgeFact(from, to)
			if !ok {
				return false
			}
			rel := f.Rel()
			x := rel.X
			for d := 0; d < 3; d++ {
				// the store narrowed to a local read-only interface is the same store
				switch ci := x.(type) {
				case *ssa.ChangeInterface:
					x = ci.X
				case *ssa.ChangeType:
					x = ci.X
				}
			}
			return rel.Op == token.EQL && IsNilConst(rel.Y) && fieldLoadName(x) == fam
		}}
		if p := q.Find(); p != nil {
			r.Bad("C11.family", FuncName(lcs), "ReadState("+fam+") on every path", posf(c, reads[0]), "the request can be handed on without the "+fam+" store having been read although one is configured (for example because the other family had no state): handlers then see no "+strings.ToLower(strings.TrimSuffix(fam, "State"))+" state for this request", c.P.DescribePath(p)...)
		} else {
			r.Ok("C11.family", FuncName(lcs), "ReadState("+fam+") on every path", posf(c, reads[0]), "read whenever a store is configured")
		}
	}
	for _, call := range CallsTo(lcs, fnWithValue) {
		key := Arg(call, 1)
		if mi, ok := key.(*ssa.MakeInterface); ok {
			key = mi.X
		}
		k, _ := ConstStr(key)
		rc, _ := CallOf(Arg(call, 2))
		if mi, ok := Arg(call, 2).(*ssa.MakeInterface); ok {
			rc, _ = CallOf(mi.X)
		}
		if mi, ok := Arg(call, 2).(*ssa.ChangeInterface); ok {
			rc, _ = CallOf(mi.X)
		}
		want := map[string]string{"session": "SessionState", "cookie": "CookieState"}[k]
		okSrc := rc != nil && want != "" && hasField(c.fieldOrigins(rc.Common().Value), want)
		r.Check(okSrc, "C11.family", FuncName(lcs), "ctx["+k+"]", posf(c, call), "request sees the state read from the matching store", "context key "+k+" is bound to the other family's state")
	}
}

func (c *Ctx) stateKeyInstallers() {
	r := c.R
	allowed := map[string]bool{"(*ab.Authboss).LoadClientState": true, "(ab/expire.expireMiddleware).ServeHTTP": true}
	n := 0
	for _, f := range c.P.Funcs {
		for _, call := range CallsTo(f, fnWithValue) {
			key := Arg(call, 1)
			if mi, ok := key.(*ssa.MakeInterface); ok {
				key = mi.X
			}
			k, isC := ConstStr(key)
			if !isC || (k != "session" && k != "cookie") || !strings.HasSuffix(key.Type().String(), ".contextKey") {
				continue
			}
			n++
			r.Check(allowed[FuncName(f)], "C11.request-state", FuncName(f), "WithValue("+k+")", posf(c, call), "state installed by the loader / expiry hider only", "request-scoped client state replaced outside LoadClientState and the expiry middleware: handlers would not see the state read at the start of the request")
			if pkgOf(f) == "ab/expire" {
				// the expiry middleware may only hide an expired session: what it installs
				// is its hider, on the expired edge — never a view that changes what a
				// live session reads
				val := Arg(call, 2)
				if mi, ok := val.(*ssa.MakeInterface); ok {
					val = mi.X
				}
				vt := val.Type().String()
				r.Check(strings.HasSuffix(vt, "stateHider"), "C11.request-state", FuncName(f), "WithValue("+k+") value", posf(c, call), "the hider of an expired session", "the expiry middleware installs a "+vt+" as the request's "+k+" state: handlers no longer read the state as it was read at the start of the request")
			}
		}
	}
	if n == 0 {
		r.Unknown("C11.request-state", "", "WithValue(session|cookie)", "-", "no installer found")
	}
}

func (c *Ctx) unwrapShape() {
	r := c.R
	fn := c.P.Func("ab.MustClientStateResponseWriter")
	name := FuncName(fn)
	var asserted []string
	for _, b := range fn.Blocks {
		for _, in := range b.Instrs {
			if ta, ok := in.(*ssa.TypeAssert); ok && ta.CommaOk {
				asserted = append(asserted, Short(ta.AssertedType.String()))
			}
		}
	}
	has := func(s string) bool {
		for _, a := range asserted {
			if a == s {
				return true
			}
		}
		return false
	}
	r.Check(has("*ab.ClientStateResponseWriter") && has("ab.UnderlyingResponseWriter") && has("ab.WrappingResponseWriter"), "C11.unwrap", name, "type switch", c.P.Pos(fn.Pos()), "unwraps "+strings.Join(asserted, ", "), "writer discovery does not try *ClientStateResponseWriter, UnderlyingResponseWriter and WrappingResponseWriter ("+strings.Join(asserted, ", ")+")")
	okPanic := false
	for _, b := range fn.Blocks {
		for _, in := range b.Instrs {
			if _, ok := in.(*ssa.Panic); ok {
				okPanic = true
			}
		}
	}
	r.Check(okPanic, "C11.unwrap", name, "panic otherwise", c.P.Pos(fn.Pos()), "an unwrappable writer is a programming error", "no panic for a writer that cannot be unwrapped (state changes would be dropped silently)")
	// the discovery gives up only on a writer that is none of the three: not after
	// a number of layers, a budget or anything else a deep (legitimate) middleware
	// stack could run into
	for _, b := range fn.Blocks {
		for _, in := range b.Instrs {
			pn, ok := in.(*ssa.Panic)
			if !ok {
				continue
			}
			fs := FactsAtInstr(pn)
			failed := 0
			for _, bb := range fn.Blocks {
				for _, x := range bb.Instrs {
					ta, isTA := x.(*ssa.TypeAssert)
					if !isTA || !ta.CommaOk || ta.Referrers() == nil {
						continue
					}
					for _, ref := range *ta.Referrers() {
						if e, isE := ref.(*ssa.Extract); isE && e.Index == 1 {
							if HasFact(fs, func(f Fact) bool { return f.SaysBool(e, false) }) {
								failed++
							}
						}
					}
				}
			}
			r.Check(failed >= 3, "C11.unwrap", name, "gives up only on an unwrappable writer", posf(c, pn), "panic behind all three failed assertions", sprintf("the writer discovery can give up although the writer at hand could still be unwrapped (only %d of the 3 assertions are known to have failed here): behind enough wrappers every session/cookie change panics instead of being queued", failed))
		}
	}
	// returns only the asserted *ClientStateResponseWriter
	for _, b := range fn.Blocks {
		for _, in := range b.Instrs {
			ret, ok := in.(*ssa.Return)
			if !ok || len(ret.Results) != 1 {
				continue
			}
			e, isE := ret.Results[0].(*ssa.Extract)
			okRet := false
			if isE {
				if ta, ok := e.Tuple.(*ssa.TypeAssert); ok && e.Index == 0 {
					okv := HasFact(FactsAtInstr(ret), func(f Fact) bool {
						rel := f.Rel()
						ee, is := rel.B.(*ssa.Extract)
						return is && rel.Pol && ee.Tuple == ta && ee.Index == 1
					})
					okRet = okv
				}
			}
			r.Check(okRet, "C11.unwrap", name, "return", posf(c, ret), "returns the writer whose assertion succeeded", "returns a value that is not a successfully asserted *ClientStateResponseWriter")
		}
	}
}

// flushDiscipline: parts (1) and (2) of C11 — the queued changes are flushed
// before the first byte, exactly once, whatever the status code or body.
func (c *Ctx) flushDiscipline() {
	r := c.R
	put := c.flushFunc()
	flushers := map[string]bool{}
	// the latch lives in the writer object the handler chain shares: a method
	// that flushes must act on that object, not on a copy of it
	sharedWriter := func(v ssa.Value) bool {
		for {
			switch x := v.(type) {
			case *ssa.FieldAddr:
				v = x.X
				continue
			case *ssa.Alloc:
				return false
			}
			return true
		}
	}

	// (1) flush before any underlying write
	for _, m := range []struct{ fn, under string }{
		{"(*ab.ClientStateResponseWriter).WriteHeader", "(net/http.ResponseWriter).WriteHeader"},
		{"(*ab.ClientStateResponseWriter).Write", "(net/http.ResponseWriter).Write"},
	} {
		fn := c.P.Func(m.fn)
		name := FuncName(fn)
		flushers[name] = true
		unders := CallsTo(fn, m.under)
		if len(unders) == 0 {
			r.Bad("C11.flush-first", name, "underlying write", "-", "method does not reach the embedded writer")
			continue
		}
		isPut := func(i ssa.Instruction) bool {
			call, ok := i.(ssa.CallInstruction)
			return ok && StaticCallee(call) == put
		}
		isUnder := func(i ssa.Instruction) bool {
			call, ok := i.(ssa.CallInstruction)
			return ok && Callee(call) == m.under
		}
		q := PathQuery{StartBlock: fn.Blocks[0], Cut: isPut, Goal: isUnder, Prune: func(from, to *ssa.BasicBlock) bool {
			f, ok := EdgeFact(from, to)
			if !ok {
				return false
			}
			rel := f.Rel()
			return rel.B != nil && rel.Pol && loadsField(rel.B, "hasWritten")
		}}
		if p := q.Find(); p != nil {
			r.Bad("C11.flush-first", name, "underlying write", posf(c, unders[0]), "the embedded writer can be reached with hasWritten==false and without putClientState(): bytes/headers are released before the queued session/cookie changes", c.P.DescribePath(p)...)
		} else {
			r.Ok("C11.flush-first", name, "underlying write", posf(c, unders[0]), "every path first flushes or has already flushed")
		}
		// flush call: guarded by !hasWritten, error not dropped
		for _, call := range Calls(fn) {
			if StaticCallee(call) != put {
				continue
			}
			okG := HasFact(FactsAtInstr(call.(ssa.Instruction)), func(f Fact) bool {
				rel := f.Rel()
				return rel.B != nil && !rel.Pol && loadsField(rel.B, "hasWritten")
			})
			r.Check(okG, "C11.flush-once", name, "putClientState()", posf(c, call), "only under !hasWritten", "putClientState can be called although the state was already flushed (double delivery)")
			k, _ := c.errHandling(call)
			r.Check(k == "tested" || k == "returned", "C11.flush-err", name, "putClientState().err", posf(c, call), "flush error is acted upon", "error of the flush is "+k)
			// on flush failure the underlying write must not happen (Write) / panic (WriteHeader)
			if e := ErrResult(call); e != nil {
				for _, u := range unders {
					okNil := ErrNilAt(u.(ssa.Instruction), e) || !Reaches(call.(ssa.Instruction), u.(ssa.Instruction))
					// the underlying call is after the if: it is reached from both the no-flush
					// and the flushed-ok paths; require that the error edge does not reach it
					if !okNil {
						q := PathQuery{From: call.(ssa.Instruction), NonNil: map[ssa.Value]bool{e: true}, Goal: func(i ssa.Instruction) bool { return i == u.(ssa.Instruction) }, Prune: func(from, to *ssa.BasicBlock) bool {
							f, ok := EdgeFact(from, to)
							return ok && f.SaysNil(e)
						}}
						okNil = q.Find() == nil
					}
					r.Check(okNil, "C11.flush-err", name, "no write after failed flush", posf(c, u), "a failed flush stops the response", "the embedded writer is used although the flush failed")
				}
			}
		}
	}
	// (1b) any other method of the writer that makes the embedded writer send
	// (Flush, ReadFrom, WriteString: what net/http or io.Copy call when the
	// wrapper offers them) is a first byte as well
	committing := map[string]bool{"Write": true, "WriteHeader": true, "WriteString": true, "ReadFrom": true, "Flush": true, "FlushError": true}
	var embedded func(v ssa.Value, d int) bool
	embedded = func(v ssa.Value, d int) bool {
		if d > 8 || v == nil {
			return false
		}
		switch x := v.(type) {
		case *ssa.TypeAssert:
			return embedded(x.X, d+1)
		case *ssa.Extract:
			return embedded(x.Tuple, d+1)
		case *ssa.ChangeInterface:
			return embedded(x.X, d+1)
		case *ssa.MakeInterface:
			return embedded(x.X, d+1)
		case *ssa.Phi:
			for _, e := range x.Edges {
				if embedded(e, d+1) {
					return true
				}
			}
			return false
		case *ssa.Field:
			return fieldNameOfField(x) == "ResponseWriter"
		case *ssa.UnOp:
			if fa, ok := x.X.(*ssa.FieldAddr); ok {
				return fieldName(fa) == "ResponseWriter"
			}
		}
		return false
	}
	for _, fn := range c.P.Funcs {
		if fn.Signature.Recv() == nil || fn.Blocks == nil || fn == put || flushers[FuncName(fn)] {
			continue
		}
		rt := fn.Signature.Recv().Type()
		if pt, ok := rt.(*types.Pointer); ok {
			rt = pt.Elem()
		}
		if nt, ok := rt.(*types.Named); !ok || nt.Obj().Name() != "ClientStateResponseWriter" || nt.Obj().Pkg() == nil || Short(nt.Obj().Pkg().Path()) != "ab" {
			continue
		}
		name := FuncName(fn)
		for _, call := range Calls(fn) {
			cc := call.Common()
			direct := cc.IsInvoke() && committing[cc.Method.Name()] && embedded(cc.Value, 0)
			// the embedded writer handed to somebody who writes to it (io.Copy,
			// io.WriteString, fmt.Fprint…, an encoder)
			handed := false
			if !direct {
				for _, a := range cc.Args {
					if embedded(a, 0) {
						handed = true
					}
				}
			}
			if !direct && !handed {
				continue
			}
			at := call.(ssa.Instruction)
			q := PathQuery{StartBlock: fn.Blocks[0], Cut: func(i ssa.Instruction) bool {
				ci, ok := i.(ssa.CallInstruction)
				return ok && StaticCallee(ci) == put
			}, Goal: func(i ssa.Instruction) bool { return i == at }, PruneFact: func(f Fact) bool {
				rel := f.Rel()
				return rel.B != nil && rel.Pol && loadsField(rel.B, "hasWritten")
			}}
			if p := q.Find(); p != nil {
				what := "handed to " + Callee(call)
				if direct {
					what = cc.Method.Name()
				}
				_ = what
				r.Bad("C11.flush-first", name, "underlying "+methodOrCallee(call), posf(c, call), "the embedded writer is made to send ("+methodOrCallee(call)+") with hasWritten==false and without putClientState(): the header goes out before the queued session/cookie changes, which are then lost", c.P.DescribePath(p)...)
			} else {
				r.Ok("C11.flush-first", name, "underlying "+methodOrCallee(call), posf(c, call), "every path first flushes or has already flushed")
			}
		}
	}
	// (1c) a writer the library itself puts in front of the state writer (a
	// wrapper with a ResponseWriter inside and its own Write) hands every write
	// on: a body write it swallows is a first byte the state writer never sees
	for _, fn := range c.P.Funcs {
		if fn.Signature.Recv() == nil || fn.Blocks == nil || fn.Name() != "Write" || !c.inRepo(fn) || strings.HasSuffix(pkgOf(fn), "/mocks") {
			continue
		}
		rt := fn.Signature.Recv().Type()
		if pt, ok := rt.(*types.Pointer); ok {
			rt = pt.Elem()
		}
		nt, ok := rt.(*types.Named)
		if !ok || nt.Obj().Name() == "ClientStateResponseWriter" {
			continue
		}
		st, ok := nt.Underlying().(*types.Struct)
		if !ok {
			continue
		}
		wraps := false
		for i := 0; i < st.NumFields(); i++ {
			if strings.HasSuffix(st.Field(i).Type().String(), "net/http.ResponseWriter") {
				wraps = true
			}
		}
		sig := fn.Signature
		if !wraps || sig.Params().Len() != 1 || sig.Results().Len() != 2 {
			continue
		}
		forwards := func(i ssa.Instruction) bool {
			call, ok := i.(ssa.CallInstruction)
			if !ok {
				return false
			}
			switch Callee(call) {
			case "(net/http.ResponseWriter).Write", "(net/http.ResponseWriter).WriteHeader", "(io.Writer).Write":
				return true
			}
			return false
		}
		q := PathQuery{StartBlock: fn.Blocks[0], Cut: forwards, GoalP: c.nonErrorReturn}
		if p := q.Find(); p != nil {
			r.Bad("C11.flush-first", FuncName(fn), "wrapper forwards writes", c.P.Pos(fn.Pos()), "a response-writer wrapper of the library reports a body write done without handing it to the writer it wraps: behind it the client-state writer never sees a first byte, the implicit header goes out without the queued session/cookie changes", c.P.DescribePath(p)...)
		} else {
			r.Ok("C11.flush-first", FuncName(fn), "wrapper forwards writes", c.P.Pos(fn.Pos()), "every successful write reaches the wrapped writer")
		}
	}
	// all other call sites of putClientState
	for _, call := range c.Callers(put) {
		fnm := fname(call)
		if args := call.Common().Args; len(args) > 0 {
			r.Check(sharedWriter(args[0]), "C11.flag-shared", fnm, "putClientState() receiver", posf(c, call), "flush acts on the shared writer", "the flush is performed on a local copy of the ClientStateResponseWriter (value receiver or struct copy): hasWritten is latched on the copy, so the next Write/WriteHeader on the shared writer flushes the queued changes again")
		}
		if flushers[fnm] {
			continue
		}
		okG := HasFact(FactsAtInstr(call.(ssa.Instruction)), func(f Fact) bool {
			rel := f.Rel()
			return rel.B != nil && !rel.Pol && loadsField(rel.B, "hasWritten")
		})
		r.Check(okG, "C11.flush-once", fnm, "putClientState()", posf(c, call), "only under !hasWritten", "additional flush site not guarded by !hasWritten")
	}

	// (2) inside putClientState
	pn := FuncName(put)
	var setTrue *ssa.Store
	for _, b := range put.Blocks {
		for _, in := range b.Instrs {
			st, ok := in.(*ssa.Store)
			if !ok {
				continue
			}
			fa, ok := st.Addr.(*ssa.FieldAddr)
			if !ok || fieldName(fa) != "hasWritten" {
				continue
			}
			if !sharedWriter(fa.X) {
				r.Bad("C11.flag-shared", pn, "hasWritten store", posf(c, st), "hasWritten is stored into a local copy of the writer (value receiver): the latch is lost when putClientState returns")
			}
			if v, isC := ConstBool(st.Val); isC && v {
				if setTrue == nil {
					setTrue = st
				}
			} else {
				r.Bad("C11.flag", pn, "hasWritten=<not true>", posf(c, st), "flag reset or set to a non-constant")
			}
		}
	}
	if setTrue == nil {
		r.Bad("C11.flag", pn, "hasWritten=true", "-", "putClientState never sets hasWritten")
	} else {
		okAll := true
		what := ""
		for _, b := range put.Blocks {
			for _, in := range b.Instrs {
				switch x := in.(type) {
				case *ssa.Return:
					if !InstrDominates(setTrue, x) {
						okAll, what = false, "a return at "+posf(c, x)
					}
				case ssa.CallInstruction:
					if Callee(x) == "(ab.ClientStateReadWriter).WriteState" && !InstrDominates(setTrue, x.(ssa.Instruction)) {
						okAll, what = false, "WriteState at "+posf(c, x)
					}
				}
			}
		}
		r.Check(okAll, "C11.flag", pn, "hasWritten=true first", posf(c, setTrue), "set before any WriteState and before every return", "hasWritten=true does not precede "+what+": a WriteState that writes through c (or a failed flush followed by another write) would flush the same events again")
	}
	// flag written nowhere else
	for _, f := range c.P.Funcs {
		if f == put {
			continue
		}
		for _, b := range f.Blocks {
			for _, in := range b.Instrs {
				if st, ok := in.(*ssa.Store); ok {
					if fa, ok := st.Addr.(*ssa.FieldAddr); ok && fieldName(fa) == "hasWritten" && strings.HasSuffix(fa.X.Type().String(), "ClientStateResponseWriter") {
						r.Bad("C11.flag", FuncName(f), "hasWritten store", posf(c, st), "flush flag written outside putClientState")
					}
				}
			}
		}
	}
}

type queueEffect struct {
	queue     string
	kind      int64
	kindKnown bool
	keyOwn    bool
}

// bindArg resolves an argument under the caller's bindings: constants stay,
// bound parameters are replaced by what they are bound to.
func bindArg(a ssa.Value, bind map[*ssa.Parameter]ssa.Value) ssa.Value {
	for {
		switch x := a.(type) {
		case *ssa.ChangeType:
			a = x.X
			continue
		case *ssa.Convert:
			a = x.X
			continue
		case *ssa.MakeInterface:
			a = x.X
			continue
		}
		break
	}
	if p, ok := a.(*ssa.Parameter); ok {
		if b, ok := bind[p]; ok {
			return b
		}
	}
	return a
}

// queueEffects summarises which event queue(s) entry appends to, with which
// event kind and key, following static calls into repository helpers with the
// arguments bound (depth 3).
func (c *Ctx) queueEffects(entry *ssa.Function) ([]queueEffect, string) {
	var out []queueEffect
	why := ""
	own := map[ssa.Value]bool{}
	for _, p := range entry.Params {
		own[p] = true
	}
	var walk func(f *ssa.Function, bind map[*ssa.Parameter]ssa.Value, depth int, inhKind, inhKey ssa.Value)
	walk = func(f *ssa.Function, bind map[*ssa.Parameter]ssa.Value, depth int, inhKind, inhKey ssa.Value) {
		if depth > 3 {
			why = "helper chain too deep"
			return
		}
		// event fields written in f (or, when the event is built by a caller and
		// handed down whole, by that caller)
		kindV, keyV := inhKind, inhKey
		for _, b := range f.Blocks {
			for _, in := range b.Instrs {
				st, ok := in.(*ssa.Store)
				if !ok {
					continue
				}
				fa, ok := st.Addr.(*ssa.FieldAddr)
				if !ok || !strings.HasSuffix(derefType(fa.X.Type()).String(), ".ClientStateEvent") {
					continue
				}
				switch fieldName(fa) {
				case "Kind":
					kindV = bindArg(st.Val, bind)
				case "Key":
					keyV = bindArg(st.Val, bind)
				}
			}
		}
		if keyV != nil && keyV != inhKey {
			// the whitelist joined into the delete-all key is still the caller's own argument
			if jc, _ := CallOf(keyV); jc != nil && Callee(jc) == "strings.Join" && own[bindArg(Arg(jc, 0), bind)] {
				own[keyV] = true
			}
		}
		for _, b := range f.Blocks {
			for _, in := range b.Instrs {
				switch x := in.(type) {
				case *ssa.Store:
					fa, ok := x.Addr.(*ssa.FieldAddr)
					if !ok {
						continue
					}
					fld := fieldName(fa)
					if fld != "sessionStateEvents" && fld != "cookieStateEvents" {
						continue
					}
					feasible := true
					for _, fct := range FactsAtInstr(x) {
						rel := fct.Rel()
						if rel.Op != token.EQL && rel.Op != token.NEQ {
							continue
						}
						p, isP := rel.X.(*ssa.Parameter)
						s, isC := ConstStr(rel.Y)
						if !isP || !isC {
							continue
						}
						if bs, ok := ConstStr(bindArg(p, bind)); ok && (bs == s) != (rel.Op == token.EQL) {
							feasible = false
						}
					}
					if !feasible {
						continue
					}
					e := queueEffect{queue: fld}
					if kindV != nil {
						e.kind, e.kindKnown = ConstInt(kindV)
					}
					if keyV != nil {
						kv := keyV
						if jc, _ := CallOf(kv); jc != nil && Callee(jc) == "strings.Join" && !own[kv] {
							kv = bindArg(Arg(jc, 0), bind)
						}
						e.keyOwn = own[kv]
					}
					out = append(out, e)
				case *ssa.Call:
					g := StaticCallee(x)
					if g == nil || !c.inRepo(g) || g.Pkg != entry.Pkg || g == f {
						continue
					}
					nb := map[*ssa.Parameter]ssa.Value{}
					for i, p := range g.Params {
						if i < len(x.Call.Args) {
							a := bindArg(x.Call.Args[i], bind)
							// the whitelist joined into the delete-all key is still the caller's own argument
							if jc, _ := CallOf(a); jc != nil && Callee(jc) == "strings.Join" && own[bindArg(Arg(jc, 0), bind)] {
								own[a] = true
							}
							// … and so is the empty key written out where the caller's list was
							// found empty (what joining it yields)
							if ks, isK := ConstStr(a); isK && ks == "" {
								for _, fct := range FactsAtInstr(x) {
									rel := fct.Rel()
									if rel.Op != token.EQL {
										continue
									}
									if n, isN := ConstInt(rel.Y); !isN || n != 0 {
										continue
									}
									if lc, ok := rel.X.(*ssa.Call); ok {
										if bi, isB := lc.Call.Value.(*ssa.Builtin); isB && bi.Name() == "len" && own[bindArg(lc.Call.Args[0], bind)] {
											own[a] = true
										}
									}
								}
							}
							nb[p] = a
						}
					}
					walk(g, nb, depth+1, kindV, keyV)
				}
			}
		}
	}
	walk(entry, map[*ssa.Parameter]ssa.Value{}, 0, nil, nil)
	return out, why
}

// ctxKeysRead lists the constant context keys entry (through its helpers)
// reads client state from.
func (c *Ctx) ctxKeysRead(entry *ssa.Function) ([]string, string) {
	seen := map[string]bool{}
	why := ""
	var walk func(f *ssa.Function, bind map[*ssa.Parameter]ssa.Value, depth int)
	walk = func(f *ssa.Function, bind map[*ssa.Parameter]ssa.Value, depth int) {
		if depth > 3 {
			return
		}
		for _, call := range Calls(f) {
			if Callee(call) == fnCtxValue {
				if k, ok := ConstStr(bindArg(Arg(call, 0), bind)); ok {
					seen[k] = true
				} else {
					why = "(a context key that is not a constant)"
				}
				continue
			}
			cc, isCall := call.(*ssa.Call)
			if !isCall {
				continue
			}
			g := StaticCallee(call)
			if g == nil || !c.inRepo(g) || g.Pkg != entry.Pkg || g == f {
				continue
			}
			nb := map[*ssa.Parameter]ssa.Value{}
			for i, p := range g.Params {
				if i < len(cc.Call.Args) {
					nb[p] = bindArg(cc.Call.Args[i], bind)
				}
			}
			walk(g, nb, depth+1)
		}
	}
	walk(entry, map[*ssa.Parameter]ssa.Value{}, 0)
	return sortedKeys(seen), why
}

// respondersWrite: the library's own responders (defaults.Responder.Respond
// and the modes of defaults.Redirector) finish every successful response with
// at least one write through the ResponseWriter they were given. The pending
// session/cookie events are flushed by that write: a responder that returns
// nil without having written leaves them undelivered (net/http then sends the
// implicit 200 on the underlying writer, past the ClientStateResponseWriter).
func (c *Ctx) respondersWrite(rule string) {
	r := c.R
	n := 0
	for _, fn := range c.P.Funcs {
		if pkgOf(fn) != "ab/defaults" || fn.Signature.Recv() == nil || fn.Blocks == nil {
			continue
		}
		rt := fn.Signature.Recv().Type().String()
		if !strings.HasSuffix(rt, "defaults.Responder") && !strings.HasSuffix(rt, "defaults.Redirector") {
			continue
		}
		// takes a ResponseWriter and returns an error
		var w *ssa.Parameter
		for _, p := range fn.Params {
			if strings.HasSuffix(p.Type().String(), "http.ResponseWriter") {
				w = p
			}
		}
		res := fn.Signature.Results()
		if w == nil || res.Len() != 1 || !IsErrorType(res.At(0).Type()) {
			continue
		}
		n++
		writes := func(i ssa.Instruction) bool {
			call, ok := i.(ssa.CallInstruction)
			if !ok {
				return false
			}
			cc := call.Common()
			if cc.IsInvoke() && (cc.Method.Name() == "WriteHeader" || cc.Method.Name() == "Write") && strings.HasSuffix(cc.Value.Type().String(), "http.ResponseWriter") {
				return true
			}
			switch Callee(call) {
			case "net/http.Redirect", "net/http.Error", "io.WriteString", "fmt.Fprintf", "fmt.Fprint", "fmt.Fprintln", "io.Copy":
				return true
			}
			// another responder of the same type, or a function value selected among them
			if g := StaticCallee(call); g != nil && g != fn && pkgOf(g) == "ab/defaults" && g.Signature.Recv() != nil {
				return true
			}
			if Callee(call) == "" && !cc.IsInvoke() {
				for _, a := range cc.Args {
					if a == ssa.Value(w) {
						return true // r.redirectAPI / r.redirectNonAPI selected into a variable
					}
				}
			}
			return false
		}
		q := PathQuery{StartBlock: fn.Blocks[0], Cut: writes, GoalP: c.nonErrorReturn}
		if p := q.Find(); p != nil {
			r.Bad(rule, FuncName(fn), "success ⇒ written through w", posf(c, p[len(p)-1]), "the responder can report success without having written anything through the ResponseWriter: the session/cookie changes queued by the handler are never flushed to their stores", c.P.DescribePath(p)...)
		} else {
			r.Ok(rule, FuncName(fn), "success ⇒ written through w", c.P.Pos(fn.Pos()), "every successful completion writes (and thereby flushes the queued client state)")
		}
	}
	r.Check(n >= 2, rule, "ab/defaults", "responders found", "-", sprintf("%d responder functions", n), sprintf("expected at least 2 responder functions in defaults, found %d", n))
}

func blocksOf(f *ssa.Function) []*ssa.BasicBlock {
	if f == nil {
		return nil
	}
	return f.Blocks
}

// queueAddr: the address of one of the writer's event queues — the field
// itself, or a pointer chosen among them (`events = &csrw.sessionStateEvents`
// in one arm of a switch, `&csrw.cookieStateEvents` in the other).
func queueAddr(v ssa.Value, d int) bool {
	switch x := v.(type) {
	case *ssa.FieldAddr:
		f := fieldName(x)
		return f == "sessionStateEvents" || f == "cookieStateEvents"
	case *ssa.Phi:
		if d > 3 || len(x.Edges) == 0 {
			return false
		}
		for _, e := range x.Edges {
			if IsNilConst(e) {
				continue // the arm that returns before anything is stored
			}
			if !queueAddr(e, d+1) {
				return false
			}
		}
		return true
	}
	return false
}

func methodOrCallee(call ssa.CallInstruction) string {
	if call.Common().IsInvoke() {
		return call.Common().Method.Name()
	}
	return Callee(call)
}
