package rules

import (
	"go/token"
	"strings"

	. "abverif/internal/engine"

	"golang.org/x/tools/go/ssa"
)

// C19: registration creates exactly one account, never overwrites, enforces the policy.
func C19(c *Ctx) {
	r := c.R
	r.Explanation = "Static necessary conditions for C19: (1) in register.Post the single Create call is dominated by Validate()==nil and GenerateHash succeeding; the user created carries PutPID(<submitted pid>) and PutPassword(<hash of the submitted password>); on the ErrUserFound edge no session is written and no storer is called again; the session write is dominated by Create==nil and by the not-handled/no-error outcome of FireAfter(EventRegister), and names the submitted pid; (2) confirm registers StartConfirmationWeb on After(EventRegister) and that handler returns handled=true on every non-error path and hands every error back; (3) whitelist: in the default body reader a submitted field reaches the arbitrary map only under equality with an entry of the page's whitelist, and PutArbitrary receives only the validator's GetValues(); (4) rule evaluation: HTTPFormValidator.Validate calls Rules.Errors for every rule unconditionally (absent fields are validated as empty) and checks every confirm pair; Rules.Errors guards each error by the strict comparison of the matching character-class tally (result index of tallyCharacters) with the matching Min* field, and the length error by the Min/Max pair; it returns nil exactly when nothing was appended."
	r.NotDecided = []string{"regexp and Unicode class semantics", "byte vs character length for non-ASCII input (out of scope per the property)", "atomicity of Create in the integrator's storage"}
	c.c19Post()
	c.c19Confirm()
	c.c19Whitelist()
	c.c19Rules()
	c.readerVerbatim("C19.reader")
	c.charClasses("C19.classes")
}

func (c *Ctx) c19Post() {
	r := c.R
	fn := c.P.FuncOpt("(*ab/register.Register).Post")
	if fn == nil {
		r.Unknown("C19.post", "(*ab/register.Register).Post", "handler", "-", "not found")
		return
	}
	name := FuncName(fn)
	creates := CallsTo(fn, fnCreate)
	r.Check(len(creates) == 1, "C19.post", name, "one Create", c.P.Pos(fn.Pos()), "exactly one Create call", sprintf("expected exactly one Create call, found %d", len(creates)))
	if len(creates) != 1 {
		return
	}
	cr := creates[0]
	at := cr.(ssa.Instruction)
	fs := FactsAtInstr(at)
	// Validate()==nil
	okVal := HasFact(fs, func(f Fact) bool {
		rel := f.Rel()
		if rel.Op != token.EQL || !IsNilConst(rel.Y) {
			return false
		}
		call, _ := CallOf(rel.X)
		return call != nil && call.Common().IsInvoke() && call.Common().Method.Name() == "Validate"
	})
	r.Check(okVal, "C19.post", name, "Validate()==nil≺Create", posf(c, cr), "nothing is created for an invalid submission", "Create is not dominated by Validate() returning no errors: an invalid submission can create an account")
	c.hashedPasswordPuts("C19.hash", fn)
	// the user created is the one that received PutPID/PutPassword
	uo := c.identityOrigins(c.Origins(Arg(cr, 1)))
	for _, m := range []string{"PutPID", "PutPassword"} {
		ok := false
		for _, pc := range c.userCalls(fn, m) {
			if sameOriginValue(c.identityOrigins(c.Origins(pc.Common().Value)), uo) && InstrDominates(pc.(ssa.Instruction), at) {
				ok = true
				if m == "PutPID" {
					src := c.rawOrigins(Arg(pc, 0))
					r.Check(HasOrigin(src, func(o Origin) bool { return o.Kind == "call" && strings.Contains(o.Name, ".GetPID#") }), "C19.post", name, "PutPID(submitted pid)", posf(c, pc), "identifier is the submitted one", "PID stored is not the submitted one")
				}
			}
		}
		r.Check(ok, "C19.post", name, m+"≺Create", posf(c, cr), m+" on the object that is created", "the object handed to Create did not receive "+m+" before")
	}
	// new user object comes from storer.New
	r.Check(HasOrigin(uo, func(o Origin) bool { return o.Kind == "call" && strings.HasPrefix(o.Name, fnNew+"#") }), "C19.post", name, "Create(storer.New())", posf(c, cr), "a fresh object is created, not a loaded one", "the object handed to Create is not a fresh storer.New() object (an existing account could be overwritten)")
	// duplicate edge
	ce := ErrResult(cr)
	for _, b := range fn.Blocks {
		for _, s := range b.Succs {
			f, ok := EdgeFact(b, s)
			if !ok {
				continue
			}
			rel := f.Rel()
			g := loadOfGlobal(rel.Y)
			if rel.Op != token.EQL || rel.X != ce || g == nil || globalName(g) != "ab.ErrUserFound" {
				continue
			}
			uid := c.P.ConstString("", "SessionKey")
			q := PathQuery{StartBlock: s, StartPred: b, Goal: func(i ssa.Instruction) bool {
				if c.isStateOp("put", "session", uid)(i) {
					return true
				}
				if call, ok := i.(ssa.CallInstruction); ok {
					if _, isW := storerWrites[Callee(call)]; isW {
						return true
					}
				}
				return false
			}}
			if p := q.Find(); p != nil {
				r.Bad("C19.duplicate", name, "ErrUserFound edge", posf(c, cr), "registering an existing identifier can write the session or the store", c.P.DescribePath(p)...)
			} else {
				r.Ok("C19.duplicate", name, "ErrUserFound edge", posf(c, cr), "duplicate registration neither logs in nor touches storage")
			}
		}
	}
	// issuance gates
	for _, s := range c.Issuances() {
		if s.Fn != fn {
			continue
		}
		iat := s.Op.Call.(ssa.Instruction)
		r.Check(ce != nil && ErrNilAt(iat, ce), "C19.login", name, "Create==nil≺PutSession(uid)", posf(c, s.Op.Call), "logged in only after the account was created", "session written although Create may have failed")
		evs := c.afterGate(iat)
		okEv := false
		for _, f := range evs {
			if f.Event == c.Event("EventRegister") {
				okEv = true
				ok, why := c.errPropagated(f.Call)
				r.Check(ok, "C19.login", name, "FireAfter(EventRegister).err", posf(c, f.Call), why, "error of the register event is not handed back: "+why)
			}
		}
		r.Check(okEv, "C19.login", name, "FireAfter(EventRegister) not handled≺PutSession(uid)", posf(c, s.Op.Call), "immediate login only when no module (confirm) took the response over", "the new user is logged in without the register event's not-handled outcome: e-mail confirmation would be skipped")
	}
}

func (c *Ctx) c19Confirm() {
	r := c.R
	if c.P.ByPath[RepoPath+"/confirm"] == nil {
		return
	}
	ws := c.wireFind(false, c.Event("EventRegister"), "ab/confirm")
	if len(ws) == 0 {
		r.Bad("C19.confirm", "(*ab/confirm.Confirm).Init", "After(EventRegister)", "-", "confirm registers no handler on After(EventRegister): new users are logged in unconfirmed")
		return
	}
	for _, w := range ws {
		if w.Handler == nil {
			r.Unknown("C19.confirm", FuncName(w.In), "After(EventRegister)", posf(c, w.Call), "handler unresolved")
			continue
		}
		h := w.Handler
		hn := FuncName(h)
		for _, b := range h.Blocks {
			for _, in := range b.Instrs {
				ret, ok := in.(*ssa.Return)
				if !ok || len(ret.Results) != 2 || c.isErrorExit(ret) {
					continue
				}
				v, isC := ConstBool(ret.Results[0])
				r.Check(isC && v, "C19.confirm", hn, "return handled", posf(c, ret), "takes the response over", "confirm's register handler can return handled=false without an error: register.Post would then log the unconfirmed user in")
			}
		}
		// it starts a confirmation
		started := false
		for _, call := range Calls(h) {
			if Callee(call) == "(*ab/confirm.Confirm).StartConfirmation" {
				started = true
				ok, why := c.errPropagatedSentinel(call)
				r.Check(ok, "C19.confirm", hn, "StartConfirmation.err", posf(c, call), why, "a failed StartConfirmation is not handed back: "+why)
			}
		}
		r.Check(started, "C19.confirm", hn, "StartConfirmation", c.P.Pos(h.Pos()), "starts e-mail confirmation", "handler does not start a confirmation")
	}
}

func (c *Ctx) c19Whitelist() {
	r := c.R
	rd := c.P.FuncOpt("(ab/defaults.HTTPBodyReader).Read")
	if rd != nil {
		name := FuncName(rd)
		n := 0
		for _, b := range rd.Blocks {
			for _, in := range b.Instrs {
				mu, ok := in.(*ssa.MapUpdate)
				if !ok {
					continue
				}
				// the arbitrary map: a MakeMap that flows into the Arbitrary field
				mm, isMM := mu.Map.(*ssa.MakeMap)
				if !isMM {
					continue
				}
				n++
				ok2 := HasFact(FactsAtInstr(mu), func(f Fact) bool {
					rel := f.Rel()
					if rel.Op != token.EQL {
						return false
					}
					x, y := rel.X, rel.Y
					for k := 0; k < 2; k++ {
						if x == mu.Key && hasField(c.fieldOrigins(y), "Whitelist") {
							return true
						}
						x, y = y, x
					}
					return false
				})
				_ = mm
				if !ok2 {
					// membership through the standard library: slices.Contains(whitelist, k),
					// slices.Index(whitelist, k) >= 0 / != -1
					ok2 = HasFact(FactsAtInstr(mu), func(f Fact) bool {
						member := func(v ssa.Value, fn string) bool {
							call, _ := CallOf(v)
							if call == nil || !strings.HasPrefix(Callee(call), fn) || len(call.Common().Args) != 2 {
								return false
							}
							return Arg(call, 1) == mu.Key && hasField(c.fieldOrigins(Arg(call, 0)), "Whitelist")
						}
						rel := f.Rel()
						if rel.Op == token.ILLEGAL && rel.Pol && member(rel.B, "slices.Contains") {
							return true
						}
						if n, isC := ConstInt(rel.Y); isC && member(rel.X, "slices.Index") {
							return (rel.Op == token.GEQ && n == 0) || (rel.Op == token.GTR && n == -1) || (rel.Op == token.NEQ && n == -1)
						}
						return false
					})
				}
				if !ok2 && hasField(c.fieldOrigins(mu.Key), "Whitelist") {
					ok2 = true // the key written is itself an entry of the page's whitelist
				}
				r.Check(ok2, "C19.whitelist", name, "arbitrary[k]=v", posf(c, mu), "only under k == <entry of Whitelist[page]>", "a submitted field is copied into the arbitrary map without matching the page's whitelist")
			}
		}
		if n == 0 {
			r.Unknown("C19.whitelist", name, "arbitrary map", "-", "no filtered copy into an arbitrary map found")
		}
		// what is handed on as the extra fields is that filtered map, not the submitted one
		for _, b := range rd.Blocks {
			for _, in := range b.Instrs {
				st, ok := in.(*ssa.Store)
				if !ok {
					continue
				}
				fa, ok := st.Addr.(*ssa.FieldAddr)
				if !ok || fieldName(fa) != "Arbitrary" {
					continue
				}
				okSrc := true
				seen := map[ssa.Value]bool{}
				var walk func(v ssa.Value, d int)
				walk = func(v ssa.Value, d int) {
					if seen[v] || d > 4 {
						return
					}
					seen[v] = true
					switch x := v.(type) {
					case *ssa.MakeMap:
					case *ssa.Phi:
						for _, e := range x.Edges {
							walk(e, d+1)
						}
					case *ssa.Const:
					default:
						okSrc = false
					}
				}
				walk(st.Val, 0)
				r.Check(okSrc, "C19.whitelist", name, "Arbitrary = filtered map", posf(c, st), "the map built by the whitelist filter", "the extra fields handed to the modules are not the map the whitelist filter built ("+SafeString(st.Val)+"): every submitted field, the clear-text password among them, reaches PutArbitrary")
			}
		}
	}
	if fn := c.P.FuncOpt("(*ab/register.Register).Post"); fn != nil {
		for _, pc := range c.userCalls(fn, "PutArbitrary") {
			os := c.rawOrigins(Arg(pc, 0))
			ok := len(os) > 0
			for _, o := range os {
				if !(o.Kind == "call" && strings.Contains(o.Name, ".GetValues#")) && o.Kind != "const" && !(o.Kind == "other") {
					ok = false
				}
			}
			r.Check(ok, "C19.whitelist", FuncName(fn), "PutArbitrary(GetValues())", posf(c, pc), "extra fields come from the validator's filtered values only", "PutArbitrary receives something other than the validator's GetValues() (origins: "+names(os)+")")
		}
	}
}

func (c *Ctx) c19Rules() {
	r := c.R
	// Validate: unconditional rule evaluation
	if v := c.P.FuncOpt("(ab/defaults.HTTPFormValidator).Validate"); v != nil {
		name := FuncName(v)
		calls := CallsTo(v, "(ab/defaults.Rules).Errors")
		r.Check(len(calls) == 1, "C19.validate", name, "rule.Errors", c.P.Pos(v.Pos()), "one evaluation site", sprintf("expected one Rules.Errors call site, found %d", len(calls)))
		for _, call := range calls {
			// facts at the call: only loop conditions (range index comparisons)
			extra := ""
			for _, f := range FactsAtInstr(call.(ssa.Instruction)) {
				rel := f.Rel()
				if rel.Op == token.LSS {
					if _, isPhiPlus := rel.X.(*ssa.BinOp); isPhiPlus {
						continue // range loop condition i+1 < len
					}
				}
				extra = SafeString(f.Cond)
			}
			r.Check(extra == "", "C19.validate", name, "rule.Errors unconditional", posf(c, call), "every rule is evaluated for every submission", "a rule is evaluated only under an extra condition ("+extra+"): rules for absent fields would be skipped, e.g. a registration without a password field passes the password policy")
			// every iteration of the rule loop reaches the call: no path from the loop body's
			// entry back to the loop header avoids it
			cb := call.Block()
			var header *ssa.BasicBlock
			for d := Idom(cb); d != nil; d = Idom(d) {
				for _, p := range d.Preds {
					if Dominates(d, p) && len(d.Succs) == 2 {
						header = d
					}
				}
				if header != nil {
					break
				}
			}
			if header != nil && len(header.Instrs) > 0 {
				body := header.Succs[0]
				q := PathQuery{StartBlock: body, StartPred: header, Cut: func(i ssa.Instruction) bool { return i == call.(ssa.Instruction) }, Goal: func(i ssa.Instruction) bool { return i == header.Instrs[0] }}
				if p := q.Find(); p != nil {
					r.Bad("C19.validate", name, "rule.Errors on every iteration", posf(c, call), "an iteration of the rule loop can skip the evaluation of its rule (e.g. for an absent, non-required field): such a rule is never enforced", c.P.DescribePath(p)...)
				} else {
					r.Ok("C19.validate", name, "rule.Errors on every iteration", posf(c, call), "no iteration skips its rule")
				}
			}
			// value validated is Values[rule.FieldName]
			lk, isLk := Arg(call, 1).(*ssa.Lookup)
			okVal := isLk && hasField(c.fieldOrigins(lk.X), "Values") && hasField(c.fieldOrigins(lk.Index), "FieldName")
			r.Check(okVal, "C19.validate", name, "Errors(Values[FieldName])", posf(c, call), "validates the submitted value of the rule's own field", "the value validated is not Values[rule.FieldName]")
		}
	}
	e := c.P.FuncOpt("(ab/defaults.Rules).Errors")
	if e == nil {
		r.Unknown("C19.rules", "(ab/defaults.Rules).Errors", "method", "-", "not found")
		return
	}
	name := FuncName(e)
	var tally ssa.CallInstruction
	for _, call := range Calls(e) {
		if Callee(call) == "ab/defaults.tallyCharacters" {
			tally = call
		}
	}
	// the classifier inlined into Errors (it hands its counts back in a struct
	// and Errors calls the same helper the exported-by-name classifier wraps): the
	// counters are the loop's phis, named by the struct's fields, and the loop is
	// decided like the classifier's own
	classIdx := map[string]int{"upper": 0, "lower": 1, "numeric": 2, "symbols": 3, "whitespace": 4}
	inlined := map[*ssa.Phi]int{}
	if tally == nil {
		named := map[*ssa.Phi]string{}
		for _, b := range e.Blocks {
			for _, in := range b.Instrs {
				if p, ok := in.(*ssa.Phi); ok {
					if k, isClass := classIdx[p.Comment]; isClass && p.Type().String() == "int" {
						inlined[p] = k
						named[p] = p.Comment
					}
				}
			}
		}
		if len(inlined) != 5 {
			r.Bad("C19.rules", name, "tallyCharacters", "-", "character classes are not counted")
			return
		}
		c.charClassesOf("C19.classes", e, named)
	}
	type row struct {
		errFn string
		field string
		idx   []int
	}
	rows := []row{{"charErr", "MinLetters", []int{0, 1}}, {"upperErr", "MinUpper", []int{0}}, {"lowerErr", "MinLower", []int{1}}, {"numericErr", "MinNumeric", []int{2}}, {"symbolErr", "MinSymbols", []int{3}}}
	tallyIdx := func(v ssa.Value) []int {
		var out []int
		var walk func(v ssa.Value)
		walk = func(v ssa.Value) {
			switch x := v.(type) {
			case *ssa.Extract:
				if tally != nil && x.Tuple == tally.Value() {
					out = append(out, x.Index)
				}
			case *ssa.Phi:
				if k, ok := inlined[x]; ok {
					out = append(out, k)
				}
			case *ssa.BinOp:
				if x.Op == token.ADD {
					walk(x.X)
					walk(x.Y)
				}
			}
		}
		walk(v)
		return out
	}
	sameIdx := func(a, b []int) bool {
		if len(a) != len(b) {
			return false
		}
		m := map[int]bool{}
		for _, x := range a {
			m[x] = true
		}
		for _, x := range b {
			if !m[x] {
				return false
			}
		}
		return true
	}
	for _, rw := range rows {
		found := false
		for _, call := range Calls(e) {
			if Callee(call) != "(ab/defaults.Rules)."+rw.errFn {
				continue
			}
			found = true
			ok := HasFact(FactsAtInstr(call.(ssa.Instruction)), func(f Fact) bool {
				rel := f.Rel()
				switch rel.Op {
				case token.LSS:
					return sameIdx(tallyIdx(rel.X), rw.idx) && fieldLoadName(rel.Y) == rw.field
				case token.GTR:
					return sameIdx(tallyIdx(rel.Y), rw.idx) && fieldLoadName(rel.X) == rw.field
				}
				return false
			})
			r.Check(ok, "C19.rules", name, rw.errFn+" iff tally<"+rw.field, posf(c, call), "error reported exactly under the strict comparison of the matching tally with "+rw.field, "the "+rw.errFn+" error is not guarded by tally"+sprintf("%v", rw.idx)+" < "+rw.field+" (wrong class, wrong field, or non-strict comparison)")
		}
		if !found {
			// table idiom: {have, want, describe} rows evaluated by one loop
			if okT, posT, why := c.rulesTableRow(e, rw.errFn, rw.field, func(v ssa.Value) bool { return sameIdx(tallyIdx(v), rw.idx) }); posT != "" {
				found = true
				r.Check(okT, "C19.rules", name, rw.errFn+" iff tally<"+rw.field, posT, "table row pairs the matching tally with "+rw.field+" and the loop reports a row exactly under have < want", "the "+rw.errFn+" row of the rule table is wrong: "+why)
			}
		}
		r.Check(found, "C19.rules", name, rw.errFn, c.P.Pos(e.Pos()), "rule present", "the "+rw.field+" rule is never evaluated")
	}
	// length rule
	byTable := c.lengthRuleTable(e)
	for _, call := range Calls(e) {
		if byTable || Callee(call) != "(ab/defaults.Rules).lengthErr" {
			continue
		}
		// the block is reached from two edges: (MinLength>0 && ln<MinLength) or (MaxLength>0 && ln>MaxLength)
		b := call.Block()
		okMin, okMax := false, false
		okAll := true
		for _, p := range b.Preds {
			edgeOK := false
			for _, f := range FactsAtEdge(p, b) {
				rel := f.Rel()
				if rel.Op == token.LSS && fieldLoadName(rel.Y) == "MinLength" && StrLenValue(rel.X) != nil {
					okMin, edgeOK = true, true
				}
				if rel.Op == token.GTR && fieldLoadName(rel.Y) == "MaxLength" && StrLenValue(rel.X) != nil {
					okMax, edgeOK = true, true
				}
				// the "is the bound set" guard compares with zero
				if fn := fieldLoadName(rel.X); (fn == "MinLength" || fn == "MaxLength") && rel.Op != token.ILLEGAL {
					if k, isC := ConstInt(rel.Y); isC && !(k == 0 && (rel.Op == token.GTR || rel.Op == token.NEQ)) {
						okAll = false
					}
				}
			}
			if !edgeOK {
				okAll = false // an edge reports the length error without a violated bound
			}
		}
		if !okAll {
			okMin = false
		}
		r.Check(okMin && okMax, "C19.rules", name, "lengthErr iff len<Min || len>Max", posf(c, call), "length bounds are strict comparisons with MinLength / MaxLength", "length error is not reported exactly under len<MinLength (when set) or len>MaxLength (when set)")
	}
	// a rule that failed is reported: from the point where its message is built
	// (or its pattern did not match) every path to a return collects an error —
	// nothing in between (an "empty message" shortcut, a deduplication) drops it
	isAppend := func(i ssa.Instruction) bool {
		call, ok := i.(*ssa.Call)
		if !ok {
			return false
		}
		bi, isB := call.Call.Value.(*ssa.Builtin)
		return isB && bi.Name() == "append"
	}
	for _, call := range Calls(e) {
		cn := Callee(call)
		isMsg := strings.HasPrefix(cn, "(ab/defaults.Rules).") && strings.HasSuffix(cn, "Err")
		isMatch := cn == "(*regexp.Regexp).MatchString" && fieldLoadName(Arg(call, 0)) == "MustMatch"
		if !isMsg && !isMatch {
			continue
		}
		q := PathQuery{From: call.(ssa.Instruction), Cut: isAppend, Goal: IsReturn}
		what := strings.TrimPrefix(cn, "(ab/defaults.Rules).")
		if isMatch {
			if call.Value() == nil {
				continue
			}
			q.Assume = map[ssa.Value]bool{call.Value(): false}
			what = "MustMatch"
		}
		if p := q.Find(); p != nil {
			r.Bad("C19.rules", name, what+" failure ⇒ error collected", posf(c, call), "a value that fails this rule can be accepted: between detecting the failure and adding its error there is a way out (an empty message, a duplicate) that adds nothing", c.P.DescribePath(p)...)
		} else {
			r.Ok("C19.rules", name, what+" failure ⇒ error collected", posf(c, call), "every path from the failure adds an error")
		}
	}
	// nil iff nothing appended
	for _, b := range e.Blocks {
		for _, in := range b.Instrs {
			ret, ok := in.(*ssa.Return)
			if !ok || len(ret.Results) != 1 {
				continue
			}
			if IsNilConst(ret.Results[0]) {
				okNil := HasFact(FactsAtInstr(ret), func(f Fact) bool {
					rel := f.Rel()
					n, isC := ConstInt(rel.Y)
					return isC && n == 0 && rel.Op == token.EQL && StrLenValue(rel.X) != nil
				})
				r.Check(okNil, "C19.rules", name, "return nil iff len(errs)==0", posf(c, ret), "accepted exactly when no rule failed", "nil is returned although errors may have been collected")
			}
		}
	}
	// default rule set for register contains a password rule with minimums, and the confirm pair
	if nb := c.P.FuncOpt("ab/defaults.NewHTTPBodyReader"); nb != nil {
		hasPw := false
		for _, b := range nb.Blocks {
			for _, in := range b.Instrs {
				if st, ok := in.(*ssa.Store); ok {
					if fa, ok := st.Addr.(*ssa.FieldAddr); ok && fieldName(fa) == "FieldName" {
						if s, isC := ConstStr(st.Val); isC && s == "password" {
							hasPw = true
						}
					}
				}
			}
		}
		r.Check(hasPw, "C19.rules", FuncName(nb), "password rule", c.P.Pos(nb.Pos()), "default rule set has a password rule", "default body reader has no rule for the password field")
	}
}

// rulesTableRow recognises a rule written as a row of a local table of
// structs {count, minimum, message func}: the row's count must be the given
// tally, its minimum the given Rules field, its message the bound errFn, and
// the loop over the table must call a row's message exactly under
// row.count < row.minimum.
func (c *Ctx) rulesTableRow(e *ssa.Function, errFn, field string, isTally func(ssa.Value) bool) (ok bool, pos string, why string) {
	for _, b := range e.Blocks {
		for _, in := range b.Instrs {
			mc, isMC := in.(*ssa.MakeClosure)
			if !isMC {
				continue
			}
			f, _ := mc.Fn.(*ssa.Function)
			if f == nil || !strings.HasSuffix(f.Name(), errFn+"$bound") {
				continue
			}
			pos = posf(c, mc)
			// the row literal this closure is stored into
			var row ssa.Value // the row being built: a local literal or the table element itself
			iDesc := -1
			for _, ref := range *mc.Referrers() {
				if st, isSt := ref.(*ssa.Store); isSt && st.Val == ssa.Value(mc) {
					if fa, isFA := st.Addr.(*ssa.FieldAddr); isFA {
						switch fa.X.(type) {
						case *ssa.Alloc, *ssa.IndexAddr:
							row, iDesc = fa.X, fa.Field
						}
					}
				}
			}
			if row == nil {
				return false, pos, "the bound message function is not stored in a row literal"
			}
			iHave, iWant := -1, -1
			for _, ref := range *row.Referrers() {
				fa, isFA := ref.(*ssa.FieldAddr)
				if !isFA || fa.Referrers() == nil {
					continue
				}
				for _, rr := range *fa.Referrers() {
					st, isSt := rr.(*ssa.Store)
					if !isSt || st.Addr != ssa.Value(fa) {
						continue
					}
					if isTally(st.Val) {
						iHave = fa.Field
					}
					if fieldLoadName(st.Val) == field {
						iWant = fa.Field
					}
				}
			}
			if iHave < 0 || iWant < 0 {
				return false, pos, "the row does not pair the matching character count with " + field
			}
			// the loop: a dynamic call of row.describe under row.have < row.want
			rowT := row.Type()
			if row.Referrers() == nil {
				return false, pos, "row literal not understood"
			}
			fieldOf := func(v ssa.Value) (ssa.Value, int) {
				u, isU := v.(*ssa.UnOp)
				if !isU {
					if fv, isF := v.(*ssa.Field); isF {
						return fv.X, fv.Field
					}
					return nil, -1
				}
				fa, isFA := u.X.(*ssa.FieldAddr)
				if !isFA {
					return nil, -1
				}
				return fa.X, fa.Field
			}
			for _, call := range Calls(e) {
				if Callee(call) != "" {
					continue
				}
				base, fi := fieldOf(call.Common().Value)
				if base == nil || fi != iDesc || base.Type().String() != rowT.String() {
					continue
				}
				guarded := HasFact(FactsAtInstr(call.(ssa.Instruction)), func(f Fact) bool {
					rel := f.Rel()
					x, y := rel.X, rel.Y
					switch rel.Op {
					case token.LSS:
					case token.GTR:
						x, y = y, x
					default:
						return false
					}
					bx, fx := fieldOf(x)
					by, fy := fieldOf(y)
					return bx == base && by == base && fx == iHave && fy == iWant
				})
				if guarded {
					return true, pos, ""
				}
				return false, posf(c, call), "the loop does not report a row exactly under count < minimum"
			}
			return false, pos, "no loop evaluates the rows' message functions"
		}
	}
	return false, "", ""
}

// lengthRuleTable decides the length rule as a truth table: with the four
// comparisons (MinLength>0, len<MinLength, MaxLength>0, len>MaxLength) given
// every combination of values, the paths of Errors that reach the evaluation
// of the character tallies must have passed the lengthErr report exactly when
// (MinLength>0 && len<MinLength) || (MaxLength>0 && len>MaxLength). A
// comparison that is none of the four (non-strict, another constant, another
// field) stays undetermined and is followed both ways, which then shows up as
// a report under a valuation that forbids it or a pass under one that demands
// it. Returns false when the anchors it needs are not there (the caller then
// applies the edge-shaped rule).
func (c *Ctx) lengthRuleTable(e *ssa.Function) bool {
	r := c.R
	name := FuncName(e)
	var lengthCall, tallyCall ssa.Instruction
	for _, call := range Calls(e) {
		switch Callee(call) {
		case "(ab/defaults.Rules).lengthErr":
			if lengthCall != nil {
				return false
			}
			lengthCall = call.(ssa.Instruction)
		case "ab/defaults.tallyCharacters":
			if tallyCall != nil {
				return false
			}
			tallyCall = call.(ssa.Instruction)
		}
	}
	if lengthCall == nil || tallyCall == nil {
		return false
	}
	isLen := func(v ssa.Value) bool { return StrLenValue(v) != nil }
	isZero := func(v ssa.Value) bool { k, ok := ConstInt(v); return ok && k == 0 }
	// atom: which of the four comparisons (0..3) a condition is, and with which polarity
	atomOf := func(v ssa.Value) (int, bool, bool) {
		if _, isBin := v.(*ssa.BinOp); !isBin {
			return 0, false, false
		}
		rel := Normalize(v, true)
		x, y, op := rel.X, rel.Y, rel.Op
		if x == nil || y == nil {
			return 0, false, false
		}
		flip := map[token.Token]token.Token{token.LSS: token.GTR, token.GTR: token.LSS, token.LEQ: token.GEQ, token.GEQ: token.LEQ, token.EQL: token.EQL, token.NEQ: token.NEQ}
		// bring the field to the right-hand side for len comparisons, to the left for zero tests
		for _, fld := range []struct {
			name     string
			set, cmp int
			viol     token.Token // len <viol> field is the violation
			ok       token.Token
		}{{"MinLength", 0, 1, token.LSS, token.GEQ}, {"MaxLength", 2, 3, token.GTR, token.LEQ}} {
			fx, fy := fieldLoadName(x) == fld.name, fieldLoadName(y) == fld.name
			switch {
			case fx && isZero(y):
				switch op {
				case token.GTR, token.NEQ:
					return fld.set, true, true
				case token.LEQ, token.EQL:
					return fld.set, false, true
				}
			case fy && isZero(x):
				switch flip[op] {
				case token.GTR, token.NEQ:
					return fld.set, true, true
				case token.LEQ, token.EQL:
					return fld.set, false, true
				}
			case fy && isLen(x):
				switch op {
				case fld.viol:
					return fld.cmp, true, true
				case fld.ok:
					return fld.cmp, false, true
				}
			case fx && isLen(y):
				switch flip[op] {
				case fld.viol:
					return fld.cmp, true, true
				case fld.ok:
					return fld.cmp, false, true
				}
			}
		}
		return 0, false, false
	}
	okAll := true
	why := ""
	reported := false
	for val := 0; val < 16; val++ {
		bit := func(i int) bool { return val&(1<<i) != 0 }
		spec := (bit(0) && bit(1)) || (bit(2) && bit(3))
		w := Walk{
			Atom: func(v ssa.Value) (bool, bool) {
				i, pol, ok := atomOf(v)
				if !ok {
					return false, false
				}
				return bit(i) == pol, true
			},
			Stop: func(in ssa.Instruction) bool { return in == lengthCall || in == tallyCall },
		}
		for _, t := range w.Traces(e) {
			switch t.End {
			case lengthCall:
				reported = true
				if !spec && okAll {
					okAll = false
					why = sprintf("the length error is reported with MinLength>0=%v len<MinLength=%v MaxLength>0=%v len>MaxLength=%v", bit(0), bit(1), bit(2), bit(3))
				}
			case tallyCall:
				if spec && okAll {
					okAll = false
					why = sprintf("no length error is reported with MinLength>0=%v len<MinLength=%v MaxLength>0=%v len>MaxLength=%v", bit(0), bit(1), bit(2), bit(3))
				}
			}
		}
	}
	if !reported {
		okAll, why = false, "the length error is never reported"
	}
	r.Check(okAll, "C19.rules", name, "lengthErr iff len<Min || len>Max", posf(c, lengthCall), "truth table over (MinLength>0, len<MinLength, MaxLength>0, len>MaxLength): reported exactly under (Min set and below) or (Max set and above)", "length error is not reported exactly under len<MinLength (when set) or len>MaxLength (when set): "+why)
	return true
}
