package rules

import (
	"go/token"
	"sort"
	"strings"

	. "abverif/internal/engine"

	"golang.org/x/tools/go/ssa"
)

// C10: logout leaves nothing behind.
func C10(c *Ctx) {
	r := c.R
	r.Explanation = "Static necessary conditions for C10: (1) in logout.Logout, from the not-handled/no-error outcome of FireBefore(EventLogout), every path to a non-error exit passes DelAllSession(w, Config.Storage.SessionStateWhitelistKeys), DelSession(uid), DelSession(halfauth), DelSession(last_action) and DelCookie(rm) — unconditionally, whatever the session contained; nothing re-puts one of those keys afterwards; (2) delAllState encodes the whitelist as a comma-joined Key of a ClientStateEventDelAll event (the documented contract for ClientStateReadWriter) and the flush hands the queued events to WriteState unmodified and in queue order; (3) method table: GET->Router.Get, POST->Router.Post, DELETE->Router.Delete, anything else is an Init error, and /logout is registered exactly once with the Logout handler; (4) inventory: every constant session/cookie key any package writes is listed in the evidence, with the keys written after the delete-all in the logout response (flash message) singled out."
	r.NotDecided = []string{"that the integrator's ClientStateReadWriter.WriteState honours the DelAll event and its whitelist", "handlers registered by the integrator on After(EventLogout)"}
	if c.P.ByPath[RepoPath+"/logout"] == nil {
		r.Unknown("C10", "ab/logout", "package", "-", "logout package not found")
		return
	}
	if !c.logoutClear("C10.clear", "C10.before-err", false) {
		return
	}
	fn := c.P.Func("(*ab/logout.Logout).Logout")
	name := FuncName(fn)

	// (2) delAllState contract and flush order
	das := c.role("ab.delAllState", func() *ssa.Function {
		return c.calleeWith(c.P.Func(fnDelAllSession), func(f *ssa.Function) bool { return len(CallsTo(f, "strings.Join")) > 0 })
	})
	ssName := "-"
	if qf := c.queueFunc(); qf != nil {
		ssName = FuncName(qf)
	}
	okJoin := false
	for _, call := range Calls(das) {
		if Callee(call) != ssName {
			continue
		}
		kind, isC := ConstInt(Arg(call, 2))
		jc, _ := CallOf(Arg(call, 3))
		sep := ""
		if jc != nil && Callee(jc) == "strings.Join" {
			sep, _ = constArgStr(jc, 1)
			if _, isP := Arg(jc, 0).(*ssa.Parameter); !isP {
				jc = nil
			}
		}
		if isC && kind == c.P.ConstInt("", "ClientStateEventDelAll") && jc != nil && sep == "," {
			okJoin = true
		}
	}
	if !okJoin {
		// the event built as a value and handed down: decided on the summary of what
		// DelAllSession queues, plus the separator of the one Join on the way
		effs, why := c.queueEffects(c.P.Func(fnDelAllSession))
		okEff := why == "" && len(effs) == 1 && effs[0].queue == "sessionStateEvents" && effs[0].kindKnown && effs[0].kind == c.P.ConstInt("", "ClientStateEventDelAll") && effs[0].keyOwn
		nJoin, okSep := 0, false
		for _, f := range []*ssa.Function{c.P.Func(fnDelAllSession), das} {
			for _, call := range CallsTo(f, "strings.Join") {
				nJoin++
				if sep, isC := constArgStr(call, 1); isC && sep == "," {
					okSep = true
				}
			}
			if das == c.P.Func(fnDelAllSession) {
				break
			}
		}
		okJoin = okEff && nJoin == 1 && okSep
	}
	r.Check(okJoin, "C10.delall-contract", FuncName(das), "DelAll event", c.P.Pos(das.Pos()), "Kind=ClientStateEventDelAll, Key=strings.Join(whitelist, \",\")", "delete-all event does not carry Kind=DelAll with the comma-joined whitelist as Key")
	c.flushUnmodified("C10.flush-order")

	// (3) method table
	c.logoutMethodTable()
	c.routerDispatch("C10.method")
	c.logoutHooks("C10.hooks")

	// (4) inventory
	keys := map[string]bool{}
	for _, f := range c.P.Funcs {
		for _, op := range c.StateOps(f) {
			if op.Op == "put" && op.Const {
				keys[op.Store+"["+op.Key+"]"] = true
			}
		}
	}
	// cookies are deleted one by one (there is no delete-all for them): every
	// cookie the library sets must be one logout deletes, by that very name
	rmName := c.P.ConstString("", "CookieRemember")
	for _, f := range c.P.Funcs {
		if strings.HasSuffix(pkgOf(f), "/mocks") {
			continue
		}
		for _, op := range c.StateOps(f) {
			if op.Op != "put" || op.Store != "cookie" {
				continue
			}
			r.Check(op.Const && op.Key == rmName, "C10.cookie-inventory", FuncName(f), "PutCookie key", posf(c, op.Call), "the cookie set is the one logout deletes ("+rmName+")", "a cookie is set under a name logout does not delete (logout deletes the constant "+rmName+"; this name: "+map[bool]string{true: op.Key, false: "not a constant"}[op.Const]+"): it survives logout and logs the browser in again")
		}
	}
	r.Extra["keys_written_anywhere"] = sortedKeys(keys)
	r.Extra["keys_written_anywhere_reference_floor"] = 16
	// keys written by the redirector in the same response
	var after []string
	if rd := c.P.FuncOpt("(ab/defaults.Redirector).redirectNonAPI"); rd != nil {
		for _, op := range c.StateOps(rd) {
			if op.Op == "put" && op.Const {
				after = append(after, op.Store+"["+op.Key+"]")
			}
		}
	}
	sort.Strings(after)
	r.Extra["keys_put_after_delall_in_logout_response"] = after
	r.Info("C10.inventory", name, "keys", "-", sprintf("%d constant keys are written somewhere in the library; after the delete-all the default redirector may put %s (flash message)", len(keys), strings.Join(after, ",")))
}

// flushUnmodified: putClientState passes the queue fields themselves to
// WriteState (no copy, sort or filter in between), session queue to the
// session store and cookie queue to the cookie store.
func (c *Ctx) flushUnmodified(rule string) {
	r := c.R
	fn := c.flushFunc()
	name := FuncName(fn)
	n := 0
	for _, call := range CallsTo(fn, "(ab.ClientStateReadWriter).WriteState") {
		n++
		rw := fieldLoadName(call.Common().Value)
		st := fieldLoadName(Arg(call, 1))
		evs := fieldLoadName(Arg(call, 2))
		fam := strings.TrimSuffix(rw, "StateRW")
		ok := (fam == "session" || fam == "cookie") && st == fam+"State" && evs == fam+"StateEvents"
		r.Check(ok, rule, name, "WriteState("+rw+")", posf(c, call), "queue field "+evs+" handed to its own store unmodified", sprintf("WriteState on %s receives state %q and events %q: the queued events are not handed over as queued (copied, reordered, filtered) or cross families", rw, st, evs))
	}
	r.Check(n == 2, rule, name, "two WriteState calls", c.P.Pos(fn.Pos()), "one per store", sprintf("expected 2 WriteState calls, found %d", n))
	// … and to nothing else on the way: whatever else receives the queue (a sort
	// in place, a filter writing through the same backing array) can reorder or
	// rewrite the events before the store sees them
	for _, b := range fn.Blocks {
		for _, in := range b.Instrs {
			ld, ok := in.(*ssa.UnOp)
			if !ok {
				continue
			}
			fld := fieldLoadName(ld)
			if (fld != "sessionStateEvents" && fld != "cookieStateEvents") || ld.Referrers() == nil {
				continue
			}
			for _, ref := range *ld.Referrers() {
				okUse := false
				switch x := ref.(type) {
				case *ssa.Call:
					if bi, isB := x.Call.Value.(*ssa.Builtin); isB && (bi.Name() == "len" || bi.Name() == "cap") {
						okUse = true
					}
					if Callee(x) == "(ab.ClientStateReadWriter).WriteState" {
						okUse = true
					}
				case *ssa.BinOp, *ssa.DebugRef, *ssa.Range:
					okUse = true
				case *ssa.IndexAddr:
					// elements read (counted, inspected), never written or handed on
					okUse = x.X == ssa.Value(ld) && readOnlyAddr(x, 0)
				}
				if !okUse {
					r.Bad(rule, name, fld+" handed on", posf(c, ref), "the queued events are handed to something other than their store before the flush ("+truncateStr(ref.String(), 60)+"): they can be reordered or rewritten in place, so the store does not receive the changes in the order the handlers made them")
				}
			}
		}
	}
	// a store that could not write makes the flush fail: the caller then panics
	// (WriteHeader) or reports the error (Write) instead of sending a response
	// that pretends the state was changed
	for _, call := range CallsTo(fn, "(ab.ClientStateReadWriter).WriteState") {
		k, _ := c.errHandling(call)
		ok := k == "returned"
		why := "error is " + k
		if k == "tested" {
			ok, why = c.errPropagated(call)
		}
		r.Check(ok, rule, name, "WriteState.err", posf(c, call), "handed back to Write/WriteHeader", "the store's write error is not handed back ("+why+"): the response goes out as if the session/cookie changes had been applied (after a logout: the remember cookie or the session survives)")
	}
	// no store to the queue fields outside setState
	for _, f := range c.P.Funcs {
		// a functional option applied by the constructor to the writer it has just
		// allocated (pre-sizing the queues) acts before anything is queued
		if c.optionOnFreshObject(f) {
			continue
		}
		for _, b := range f.Blocks {
			for _, in := range b.Instrs {
				st, ok := in.(*ssa.Store)
				if !ok {
					continue
				}
				fa, ok := st.Addr.(*ssa.FieldAddr)
				if !ok {
					continue
				}
				fld := fieldName(fa)
				if fld != "sessionStateEvents" && fld != "cookieStateEvents" {
					continue
				}
				// whoever writes a queue (setState on the pinned tree) may only append to it
				fn := FuncName(f)
				// x = append(x, ev) on the same field
				ac, _ := CallOf(st.Val)
				okApp := false
				if ac != nil {
					if bi, isB := ac.Common().Value.(*ssa.Builtin); isB && bi.Name() == "append" {
						// the queue itself — or, where it was still nil, a fresh empty list
						// made with some capacity
						var sameQueue func(v ssa.Value, d int) bool
						sameQueue = func(v ssa.Value, d int) bool {
							if fieldLoadName(v) == fld {
								return true
							}
							if phi, isPhi := v.(*ssa.Phi); isPhi && d < 3 {
								hasField := false
								for _, e := range phi.Edges {
									switch {
									case sameQueue(e, d+1):
										hasField = true
									case IsNilConst(e):
									default:
										// make([]T, 0, k): a MakeSlice of length 0, or (constant k) an
										// empty slice of a fresh array
										okEmpty := false
										if ms, isMS := e.(*ssa.MakeSlice); isMS {
											if n, isC := ConstInt(ms.Len); isC && n == 0 {
												okEmpty = true
											}
										}
										if sl, isSl := e.(*ssa.Slice); isSl && sl.High != nil {
											if _, fresh := sl.X.(*ssa.Alloc); fresh {
												if n, isC := ConstInt(sl.High); isC && n == 0 {
													okEmpty = true
												}
											}
										}
										if !okEmpty {
											return false
										}
									}
								}
								return hasField
							}
							return false
						}
						if sameQueue(Arg(ac, 0), 0) {
							okApp = true
						}
					}
				}
				r.Check(okApp, rule, fn, fld+" = append("+fld+", ev)", posf(c, st), "order-preserving append", "queue is not extended by append on the same field")
			}
		}
	}
}

func (c *Ctx) logoutMethodTable() {
	r := c.R
	init := c.P.Func("(*ab/logout.Logout).Init")
	name := FuncName(init)
	want := map[string]string{"GET": "Get", "POST": "Post", "DELETE": "Delete"}
	// the function value(s) called with "/logout": one call through a value
	// selected by a switch, or one call per arm of the switch
	var regs []ssa.CallInstruction
	for _, call := range Calls(init) {
		if p, isC := constArgStr(call, 0); isC && p == "/logout" && !call.Common().IsInvoke() {
			// through a function value: a phi, or (per arm) a bound Router method
			v := call.Common().Value
			for {
				ct, isCT := v.(*ssa.ChangeType)
				if !isCT {
					break
				}
				v = ct.X
			}
			_, isMC := v.(*ssa.MakeClosure)
			if Callee(call) == "" || isMC {
				regs = append(regs, call)
			}
		}
	}
	type selected struct {
		v      ssa.Value
		facts  []Fact
		method string
	}
	var sels []selected
	if len(regs) == 0 {
		// direct calls Router.X("/logout", …), one per arm
		for _, call := range Calls(init) {
			if call.Common().IsInvoke() && strings.HasPrefix(Callee(call), "(ab.Router).") {
				if p, isC := constArgStr(call, 0); isC && p == "/logout" {
					regs = append(regs, call)
					sels = append(sels, selected{nil, FactsAtInstr(call.(ssa.Instruction)), call.Common().Method.Name()})
				}
			}
		}
		if len(regs) == 0 {
			r.Bad("C10.method", name, "/logout", "-", "no registration of /logout found")
			return
		}
	}
	reg := regs[0]
	for _, rc := range regs {
		if rc.Common().IsInvoke() {
			continue
		}
		if phi, ok := rc.Common().Value.(*ssa.Phi); ok {
			for i, e := range phi.Edges {
				sels = append(sels, selected{e, FactsAtEdge(phi.Block().Preds[i], phi.Block()), ""})
			}
			continue
		}
		sels = append(sels, selected{rc.Common().Value, FactsAtInstr(rc.(ssa.Instruction)), ""})
	}
	if len(sels) < 2 {
		r.Unknown("C10.method", name, "/logout", posf(c, reg), "registration function is not selected by a switch")
		return
	}
	seen := map[string]bool{}
	for _, se := range sels {
		e := se.v
		method := se.method
		if method == "" {
			if IsNilConst(e) {
				continue // the rejected-method path carries no registration function
			}
			for {
				// a named function type for the registration function
				ct, isCT := e.(*ssa.ChangeType)
				if !isCT {
					break
				}
				e = ct.X
			}
			if mc, isMC := e.(*ssa.MakeClosure); isMC {
				if f, ok := mc.Fn.(*ssa.Function); ok {
					method = strings.TrimSuffix(f.Name(), "$bound")
				}
			}
		}
		// which constant selects this edge
		sel := ""
		for _, f := range se.facts {
			rel := f.Rel()
			if rel.Op == token.EQL {
				if s, isC := ConstStr(rel.Y); isC && fieldLoadName(rel.X) == "LogoutMethod" {
					sel = s
				}
			}
		}
		if sel == "" {
			r.Bad("C10.method", name, "edge "+method, posf(c, reg), "a registration method is selected without a LogoutMethod == <constant> test")
			continue
		}
		seen[sel] = true
		r.Check(want[sel] == method, "C10.method", name, sel+"->Router."+method, posf(c, reg), "configured method registers on the matching router method", sprintf("LogoutMethod %q registers the route with Router.%s", sel, method))
	}
	for k := range want {
		if !seen[k] {
			r.Bad("C10.method", name, k, posf(c, reg), "method "+k+" is not handled")
		}
	}
	// default: error return
	okDefault := false
	for _, b := range init.Blocks {
		for _, in := range b.Instrs {
			if ret, ok := in.(*ssa.Return); ok && c.isErrorExit(ret) {
				okDefault = true
			}
		}
	}
	r.Check(okDefault, "C10.method", name, "default", c.P.Pos(init.Pos()), "an unknown method is an Init error", "an unknown LogoutMethod is not rejected")
	// handler is Logout wrapped by ErrorHandler.Wrap
	okH := true
	for _, rc := range regs {
		h := Arg(rc, 1)
		wc, _ := CallOf(h)
		okOne := false
		if wc != nil && strings.HasSuffix(Callee(wc), "ErrorHandler).Wrap") {
			if f, n := c.resolveFuncValue(Arg(wc, 0)); f != nil && n == "(*ab/logout.Logout).Logout" {
				okOne = true
			}
		}
		okH = okH && okOne
	}
	r.Check(okH, "C10.method", name, "handler", posf(c, reg), "/logout -> ErrorHandler.Wrap(Logout)", "the /logout route is not served by the Logout handler")
}

// logoutClear: from the not-handled/no-error outcome of FireBefore(EventLogout)
// every completing path of logout.Logout deletes the listed state.
func (c *Ctx) logoutClear(rule, ruleErr string, cookieOnly bool) bool {
	r := c.R
	if c.P.ByPath[RepoPath+"/logout"] == nil {
		return false
	}
	fn := c.P.Func("(*ab/logout.Logout).Logout")
	name := FuncName(fn)
	ev := c.Event("EventLogout")
	uid := c.P.ConstString("", "SessionKey")
	half := c.P.ConstString("", "SessionHalfAuthKey")
	last := c.P.ConstString("", "SessionLastAction")
	rm := c.P.ConstString("", "CookieRemember")

	var before *Fire
	for _, f := range Fires(fn) {
		if f.Before && f.Const && f.Event == ev {
			ff := f
			before = &ff
		}
	}
	if before == nil {
		r.Bad(rule, name, "FireBefore(EventLogout)", "-", "Logout does not fire Before(EventLogout)")
		return false
	}
	ok, why := c.errPropagated(before.Call)
	r.Check(ok, ruleErr, name, "FireBefore(EventLogout).err", posf(c, before.Call), why, "error of the before-logout fire is not propagated: "+why)
	// nothing ends the request before the event is fired: a veto or an error of
	// the Before(EventLogout) handlers are the only ways a logout does not happen
	// (who is logged in is looked up for the log line only; failing to find out
	// must not keep the session alive)
	{
		q := PathQuery{StartBlock: fn.Blocks[0], Cut: func(i ssa.Instruction) bool { return i == before.Call.(ssa.Instruction) }, Goal: Or(IsReturn, IsPanic)}
		if p := q.Find(); p != nil {
			r.Bad(rule, name, "no exit before FireBefore(EventLogout)", posf(c, before.Call), "logout can end before the Before(EventLogout) handlers are consulted and before anything is deleted: the session, its marks and the remember cookie survive that request", c.P.DescribePath(p)...)
		} else {
			r.Ok(rule, name, "no exit before FireBefore(EventLogout)", posf(c, before.Call), "every request reaches the event")
		}
	}
	needs := []struct {
		what string
		pred func(ssa.Instruction) bool
	}{
		{"DelAllSession(SessionStateWhitelistKeys)", func(i ssa.Instruction) bool {
			call, ok := i.(ssa.CallInstruction)
			return ok && Callee(call) == fnDelAllSession && fieldLoadName(Arg(call, 1)) == "SessionStateWhitelistKeys"
		}},
		{"DelSession(" + uid + ")", c.isStateOp("del", "session", uid)},
		{"DelSession(" + half + ")", c.isStateOp("del", "session", half)},
		{"DelSession(" + last + ")", c.isStateOp("del", "session", last)},
		{"DelCookie(" + rm + ")", c.isStateOp("del", "cookie", rm)},
	}
	if cookieOnly {
		needs = needs[len(needs)-1:]
	}
	assume := map[ssa.Value]bool{}
	if before.Handled != nil {
		assume[before.Handled] = false
	}
	for _, n := range needs {
		q := PathQuery{From: before.Call.(ssa.Instruction), Assume: assume, Cut: n.pred, GoalP: c.nonErrorReturn, Prune: func(from, to *ssa.BasicBlock) bool {
			// the error edge of the fire leaves with an error
			if f, ok := EdgeFact(from, to); ok && before.Err != nil && f.SaysNotNil(before.Err) {
				return true
			}
			return false
		}}
		if p := q.Find(); p != nil {
			r.Bad(rule, name, n.what, posf(c, before.Call), "a logout that was not taken over by a Before(EventLogout) handler can complete without "+n.what+": that state survives the logout", c.P.DescribePath(p)...)
		} else {
			r.Ok(rule, name, n.what, posf(c, before.Call), "performed on every completing path")
		}
	}
	// nothing re-puts a cleared key
	for _, op := range c.StateOps(fn) {
		if op.Op != "put" || (cookieOnly && op.Store != "cookie") {
			continue
		}
		if (op.Store == "session" && (op.Key == uid || op.Key == half || op.Key == last)) || (op.Store == "cookie" && op.Key == rm) || !op.Const {
			r.Bad(rule, name, op.String(), posf(c, op.Call), "logout writes a key it is supposed to remove")
		}
	}

	return true
}

// routerDispatch: the default router serves a request from the table its
// method's registration function fills, and from no other: a route
// registered with Get is reachable by GET only. (Logout "only reacts to the
// configured HTTP method" rests on this once the route sits in one table.)
func (c *Ctx) routerDispatch(rule string) {
	r := c.R
	serve := c.P.FuncOpt("(*ab/defaults.Router).ServeHTTP")
	if serve == nil {
		return // default router absent
	}
	name := FuncName(serve)
	table := map[string]string{} // field -> HTTP method
	for meth, fnm := range map[string]string{"GET": "Get", "POST": "Post", "DELETE": "Delete"} {
		reg := c.P.FuncOpt("(*ab/defaults.Router)." + fnm)
		if reg == nil {
			r.Unknown(rule, name, "Router."+fnm, "-", "registration method not found")
			return
		}
		fld := ""
		for _, call := range Calls(reg) {
			if strings.HasSuffix(Callee(call), "ServeMux).Handle") {
				// the table may be selected by a (now inlined) helper switching on a
				// method constant: follow only the operands whose edge is consistent
				// with the constants compared on it
				fields := map[string]bool{}
				for _, v := range feasibleOperands(Arg(call, 0), 0) {
					if n, dyn := muxSlot(v); n != "" && dyn == nil {
						fields[n] = true
					} else if !IsNilConst(v) {
						fields["?"] = true
					}
				}
				if len(fields) == 1 {
					for k := range fields {
						if k != "?" {
							fld = k
						}
					}
				}
			}
		}
		if fld == "" {
			r.Unknown(rule, FuncName(reg), "table", "-", "the table this registration method fills was not recognised")
			return
		}
		if prev, dup := table[fld]; dup {
			r.Bad(rule, FuncName(reg), "table "+fld, c.P.Pos(reg.Pos()), "Router."+fnm+" fills the same table as the "+prev+" registrations: routes become reachable by both methods")
		}
		table[fld] = meth
	}
	n := 0
	for _, b := range serve.Blocks {
		for _, in := range b.Instrs {
			ld, ok := in.(*ssa.UnOp)
			if !ok {
				continue
			}
			methodIs := func(meth string) func(f Fact) bool {
				return func(f Fact) bool {
					rel := f.Rel()
					if rel.Op != token.EQL || fieldLoadName(rel.X) != "Method" {
						return false
					}
					s, isC := ConstStr(rel.Y)
					return isC && s == meth
				}
			}
			bad := func(fld, meth string) string {
				return "the table filled by Router." + strings.Title(strings.ToLower(meth)) + " is served without req.Method == \"" + meth + "\" being established: routes registered for " + meth + " (logout among them when LogoutMethod is " + meth + ") answer other methods too"
			}
			fld, dyn := muxSlot(ld)
			if dyn != nil {
				// an element of an array of tables selected by a computed index: every
				// index the selection can produce must have been chosen under its method
				phi, isPhi := dyn.(*ssa.Phi)
				if !isPhi {
					continue
				}
				here := FactsAtInstr(ld)
				for i, e := range phi.Edges {
					k, isC := ConstInt(e)
					if !isC {
						continue
					}
					// an edge that a sibling phi (the comma-ok flag) rules out at the load
					feasible := true
					for _, sib := range phi.Block().Instrs {
						sp, isP := sib.(*ssa.Phi)
						if !isP || sp == phi || i >= len(sp.Edges) {
							continue
						}
						if bv, isB := ConstBool(sp.Edges[i]); isB {
							if HasFact(here, func(f Fact) bool { return f.SaysBool(sp, !bv) }) {
								feasible = false
							}
						}
					}
					if !feasible {
						continue
					}
					slot := sprintf("%s[%d]", fld, k)
					meth, isTable := table[slot]
					if !isTable {
						continue
					}
					n++
					okSel := HasFact(FactsAtEdge(phi.Block().Preds[i], phi.Block()), methodIs(meth))
					r.Check(okSel, rule, name, "table "+slot+" only for "+meth, posf(c, ld), "selected under req.Method == "+meth, bad(slot, meth))
				}
				continue
			}
			meth, isTable := table[fld]
			if !isTable {
				continue
			}
			n++
			okSel := HasFact(FactsAtInstr(ld), methodIs(meth))
			r.Check(okSel, rule, name, "table "+fld+" only for "+meth, posf(c, ld), "selected under req.Method == "+meth, bad(fld, meth))
		}
	}
	if n < len(table) {
		r.Unknown(rule, name, "dispatch", "-", sprintf("only %d of %d tables are selected in ServeHTTP by a recognisable field load", n, len(table)))
	}
}

// logoutHooks: logout must work from every session state, including the
// states in which no user can be loaded (pending second factor, OAuth2 under
// way, expired session, deleted account). A handler the library itself hangs
// on EventLogout therefore must not fail for want of a current user: its
// error makes Logout return an error instead of the logout response.
func (c *Ctx) logoutHooks(rule string) {
	r := c.R
	ev := c.Event("EventLogout")
	n := 0
	for _, before := range []bool{true, false} {
		for _, w := range c.Handlers(before, ev) {
			if strings.HasSuffix(pkgOf(w.In), "/mocks") {
				continue
			}
			n++
			phase := map[bool]string{true: "Before", false: "After"}[before]
			if w.Handler == nil {
				r.Unknown(rule, FuncName(w.In), phase+"(EventLogout)", posf(c, w.Call), "handler value could not be resolved to a function")
				continue
			}
			h := w.Handler
			hn := FuncName(h)
			bad, at := "", "-"
			for _, call := range Calls(h) {
				switch Callee(call) {
				case fnCurrentUserP, fnLoadCurrentUserP, "(*ab.Authboss).CurrentUserIDP", "(*ab.Authboss).LoadCurrentUserIDP":
					bad, at = Callee(call)+" panics when the session names no loadable user", posf(c, call)
				case fnCurrentUser, fnLoadCurrentUser:
					e := ErrResult(call)
					if e == nil {
						continue
					}
					for _, b := range h.Blocks {
						ret, ok := b.Instrs[len(b.Instrs)-1].(*ssa.Return)
						if !ok || len(ret.Results) == 0 {
							continue
						}
						rv := ret.Results[len(ret.Results)-1]
						if !carriesErr(e, rv, 0) {
							continue
						}
						// tolerated when ErrUserNotFound was filtered out before
						filtered := HasFact(FactsAtInstr(ret), func(f Fact) bool {
							rel := f.Rel()
							if rel.Op != token.NEQ || rel.X != e {
								return false
							}
							g := loadOfGlobal(rel.Y)
							return g != nil && g.Name() == "ErrUserNotFound"
						})
						if !filtered {
							bad, at = "the error of "+Callee(call)+" (ErrUserNotFound when nobody is logged in) is returned", posf(c, ret)
						}
					}
				}
			}
			for _, op := range c.StateOps(h) {
				if op.Op == "put" {
					r.Bad(rule, hn, phase+"(EventLogout) handler writes "+op.String(), posf(c, op.Call), "a handler the library registers on "+phase+"(EventLogout) writes client state: after the delete-all was queued this value is put back and survives the logout")
				}
			}
			r.Check(bad == "", rule, hn, phase+"(EventLogout) handler works without a user", at, "does not depend on a loadable current user", "a handler registered on "+phase+"(EventLogout) fails when no user can be loaded: "+bad+"; logging out of a pending-2FA, OAuth2-in-progress or expired session then ends in an error instead of the logout response")
		}
	}
	r.Extra["library_logout_hooks"] = n
	if n == 0 {
		r.Info(rule, "-", "EventLogout handlers", "-", "the library registers no handler on EventLogout (reference: 0); integrator handlers are not decided")
	}
}

// muxSlot names the table a value was loaded from: a field ("gets") or a
// constant element of an array field ("muxes[0]"); for an element at a
// computed index it returns the field and the index value.
func muxSlot(v ssa.Value) (string, ssa.Value) {
	if n := fieldLoadName(v); n != "" {
		return n, nil
	}
	ld, ok := v.(*ssa.UnOp)
	if !ok {
		return "", nil
	}
	ia, ok := ld.X.(*ssa.IndexAddr)
	if !ok {
		return "", nil
	}
	fa, ok := ia.X.(*ssa.FieldAddr)
	if !ok {
		return "", nil
	}
	base := fieldName(fa)
	if k, isC := ConstInt(ia.Index); isC {
		return sprintf("%s[%d]", base, k), nil
	}
	return base, ia.Index
}

// feasibleOperands resolves a value through phis, dropping operands whose
// incoming edge carries a comparison of two constants that is false (the
// residue of inlining a helper that switches on a constant argument).
func feasibleOperands(v ssa.Value, d int) []ssa.Value {
	phi, ok := v.(*ssa.Phi)
	if !ok || d > 4 {
		return []ssa.Value{v}
	}
	var out []ssa.Value
	for i, e := range phi.Edges {
		feasible := true
		for _, f := range FactsAtEdge(phi.Block().Preds[i], phi.Block()) {
			b, isB := f.Cond.(*ssa.BinOp)
			if !isB || (b.Op != token.EQL && b.Op != token.NEQ) {
				continue
			}
			x, okX := ConstStr(b.X)
			y, okY := ConstStr(b.Y)
			if okX && okY && ((x == y) == (b.Op == token.EQL)) != f.Pol {
				feasible = false
			}
		}
		if feasible {
			out = append(out, feasibleOperands(e, d+1)...)
		}
	}
	return out
}

// readOnlyAddr: the address is only loaded from (possibly through field
// addresses): nothing stores through it or passes it on.
func readOnlyAddr(a ssa.Value, d int) bool {
	if a.Referrers() == nil || d > 4 {
		return false
	}
	for _, ref := range *a.Referrers() {
		switch x := ref.(type) {
		case *ssa.UnOp:
			if x.Op != token.MUL || x.X != a {
				return false
			}
		case *ssa.FieldAddr:
			if !readOnlyAddr(x, d+1) {
				return false
			}
		case *ssa.DebugRef:
		default:
			return false
		}
	}
	return true
}
