// Package rules holds the repository-specific rules, one file per property.
package rules

import (
	"fmt"
	"go/token"
	"go/types"
	"sort"
	"strings"

	. "abverif/internal/engine"

	"golang.org/x/tools/go/ssa"
)

// Callee names (see engine.Callee) of the repository's anchors.
const (
	fnPutSession      = "ab.PutSession"
	fnDelSession      = "ab.DelSession"
	fnGetSession      = "ab.GetSession"
	fnPutCookie       = "ab.PutCookie"
	fnDelCookie       = "ab.DelCookie"
	fnGetCookie       = "ab.GetCookie"
	fnDelAllSession   = "ab.DelAllSession"
	fnDelKnownSession = "ab.DelKnownSession"
	fnDelKnownCookie  = "ab.DelKnownCookie"

	fnFireBefore = "(*ab.Events).FireBefore"
	fnFireAfter  = "(*ab.Events).FireAfter"
	fnBefore     = "(*ab.Events).Before"
	fnAfter      = "(*ab.Events).After"

	fnLoad        = "(ab.ServerStorer).Load"
	fnSave        = "(ab.ServerStorer).Save"
	fnNew         = "(ab.CreatingServerStorer).New"
	fnCreate      = "(ab.CreatingServerStorer).Create"
	fnNewOAuth2   = "(ab.OAuth2ServerStorer).NewFromOAuth2"
	fnSaveOAuth2  = "(ab.OAuth2ServerStorer).SaveOAuth2"
	fnLoadConfirm = "(ab.ConfirmingServerStorer).LoadByConfirmSelector"
	fnLoadRecover = "(ab.RecoveringServerStorer).LoadByRecoverSelector"
	fnAddRemember = "(ab.RememberingServerStorer).AddRememberToken"
	fnDelRemember = "(ab.RememberingServerStorer).DelRememberTokens"
	fnUseRemember = "(ab.RememberingServerStorer).UseRememberToken"

	fnHashCompare  = "(ab.Hasher).CompareHashAndPassword"
	fnHashGenerate = "(ab.Hasher).GenerateHash"
	fnBcryptCmp    = "golang.org/x/crypto/bcrypt.CompareHashAndPassword"
	fnBcryptGen    = "golang.org/x/crypto/bcrypt.GenerateFromPassword"
	fnCTC          = "crypto/subtle.ConstantTimeCompare"
	fnCTEq         = "crypto/subtle.ConstantTimeEq"
	fnTOTPValidate = "github.com/pquerna/otp/totp.Validate"
	// the same check with its options written out (result #0 is the verdict)
	fnTOTPValidateCustom = "github.com/pquerna/otp/totp.ValidateCustom"
	fnExchangerVar       = "var:ab/oauth2.exchanger"
	fnExchange           = "(*golang.org/x/oauth2.Config).Exchange"

	fnCurrentUser       = "(*ab.Authboss).CurrentUser"
	fnCurrentUserP      = "(*ab.Authboss).CurrentUserP"
	fnCurrentUserID     = "(*ab.Authboss).CurrentUserID"
	fnCurrentUserIDP    = "(*ab.Authboss).CurrentUserIDP"
	fnLoadCurrentUser   = "(*ab.Authboss).LoadCurrentUser"
	fnLoadCurrentUserP  = "(*ab.Authboss).LoadCurrentUserP"
	fnLoadCurrentUserID = "(*ab.Authboss).LoadCurrentUserID"
	fnCurrentUserLower  = "(*ab.Authboss).currentUser"

	fnRespond   = "(ab.HTTPResponder).Respond"
	fnRedirect  = "(ab.HTTPRedirector).Redirect"
	fnBodyRead  = "(ab.BodyReader).Read"
	fnLocalizef = "(*ab.Authboss).Localizef"
	fnCtxValue  = "(context.Context).Value"
	fnWithValue = "context.WithValue"
	fnServeHTTP = "(net/http.Handler).ServeHTTP"
)

// userSources are the calls that produce a user object.
var userSources = map[string]bool{
	fnLoad: true, fnLoadRecover: true, fnLoadConfirm: true, fnNewOAuth2: true, fnNew: true,
	fnCurrentUser: true, fnCurrentUserP: true, fnLoadCurrentUser: true, fnLoadCurrentUserP: true, fnCurrentUserLower: true,
}

// Ctx is the per-run context shared by the rules.
type Ctx struct {
	P    *Prog
	R    *Report
	Tier string
	// gateOnly: C08 run for a sibling property decides who is admitted only
	gateOnly bool

	userIface *types.Interface
	callers   map[*ssa.Function][]ssa.CallInstruction
	wiring    []Wire
	ev        map[string]int64
	evName    map[int64]string
	boolSum   map[string][]Cred
	boolSumOK map[string]bool
	edgeBusy  map[[2]*ssa.BasicBlock]bool

	condReported map[string]bool
}

// NewCtx prepares shared tables.
func NewCtx(p *Prog, r *Report, tier string) *Ctx {
	c := &Ctx{P: p, R: r, Tier: tier, ev: map[string]int64{}, evName: map[int64]string{}, boolSum: map[string][]Cred{}, boolSumOK: map[string]bool{}}
	root := p.ByPath[RepoPath]
	if root == nil {
		HardFail("root package %s not loaded", RepoPath)
	}
	if tn, ok := root.Pkg.Scope().Lookup("User").(*types.TypeName); ok {
		c.userIface, _ = tn.Type().Underlying().(*types.Interface)
	}
	if c.userIface == nil {
		AnchorFail("anchor type authboss.User not found")
	}
	for name, m := range root.Members {
		if nc, ok := m.(*ssa.NamedConst); ok && strings.HasPrefix(name, "Event") {
			if v, ok := ConstInt(nc.Value); ok {
				c.ev[name] = v
				c.evName[v] = name
			}
		}
	}
	for _, need := range []string{"EventAuth", "EventAuthHijack", "EventAuthFail", "EventOAuth2", "EventRegister", "EventRecoverEnd", "EventLogout"} {
		if _, ok := c.ev[need]; !ok {
			AnchorFail("anchor constant authboss.%s not found", need)
		}
	}
	liveFuncs = p.AllFuncs
	// static callers
	c.callers = map[*ssa.Function][]ssa.CallInstruction{}
	for _, fn := range p.AllFuncs {
		for _, call := range Calls(fn) {
			if f := StaticCallee(call); f != nil {
				if f.Synthetic != "" {
					if o, ok := f.Object().(*types.Func); ok && o != nil {
						if real := p.SSA.FuncValue(o); real != nil {
							f = real
						}
					}
				}
				c.callers[f] = append(c.callers[f], call)
			}
		}
	}
	c.buildWiring()
	return c
}

// Event returns the numeric value of an Event constant.
func (c *Ctx) Event(name string) int64 { return c.ev[name] }

// EventName names an event value.
func (c *Ctx) EventName(v int64) string {
	if n, ok := c.evName[v]; ok {
		return n
	}
	return fmt.Sprintf("Event(%d)", v)
}

// isUserType reports whether t implements authboss.User.
func (c *Ctx) isUserType(t types.Type) bool {
	if t == nil {
		return false
	}
	return types.Implements(t, c.userIface)
}

// fname is the canonical name of the function containing an instruction.
func fname(i ssa.Instruction) string { return FuncName(i.Parent()) }

// ---------------------------------------------------------------------------
// client-state operations

// StateOp is one session/cookie primitive call.
type StateOp struct {
	Call  ssa.CallInstruction
	Op    string // put, del, get, delall
	Store string // session, cookie
	Key   string // constant key, "" when not constant
	Const bool
	Val   ssa.Value // value written (put)
}

func (o StateOp) String() string {
	k := o.Key
	if !o.Const {
		k = "<non-constant>"
	}
	return fmt.Sprintf("%s %s[%s]", o.Op, o.Store, k)
}

var stateFns = map[string][2]string{
	fnPutSession: {"put", "session"}, fnDelSession: {"del", "session"}, fnGetSession: {"get", "session"},
	fnPutCookie: {"put", "cookie"}, fnDelCookie: {"del", "cookie"}, fnGetCookie: {"get", "cookie"},
	fnDelAllSession: {"delall", "session"},
}

// stateOp classifies a call as a client-state primitive.
func stateOp(call ssa.CallInstruction) (StateOp, bool) {
	d, ok := stateFns[Callee(call)]
	if !ok {
		return StateOp{}, false
	}
	op := StateOp{Call: call, Op: d[0], Store: d[1]}
	if op.Op == "delall" {
		op.Const = true
		op.Key = "*"
		return op, true
	}
	k := Arg(call, 1)
	if s, ok := ConstStr(k); ok {
		op.Key, op.Const = s, true
	}
	if op.Op == "put" {
		op.Val = Arg(call, 2)
	}
	return op, true
}

// stateOpsOf is stateOp with keys taken from a constant array (a loop over a
// literal list of keys) expanded into one operation per key.
func stateOpsOf(call ssa.CallInstruction) []StateOp {
	op, ok := stateOp(call)
	if !ok {
		return nil
	}
	if op.Const || op.Op == "delall" {
		return []StateOp{op}
	}
	if cs := constSet(Arg(call, 1)); len(cs) > 0 {
		var out []StateOp
		for _, c := range cs {
			if s, ok := ConstStr(c); ok {
				o := op
				o.Key, o.Const = s, true
				out = append(out, o)
			}
		}
		if len(out) == len(cs) {
			return out
		}
	}
	return []StateOp{op}
}

// StateOps lists the client-state primitive calls of fn, expanding calls to
// repository helpers that consist of such primitives (DelKnownSession,
// DelKnownCookie, and any new straight-line helper) one level deep.
func (c *Ctx) StateOps(fn *ssa.Function) []StateOp {
	var out []StateOp
	for _, call := range Calls(fn) {
		if ops := stateOpsOf(call); len(ops) > 0 {
			out = append(out, ops...)
			continue
		}
		if f := StaticCallee(call); f != nil {
			// helper: its unconditional constant-key ops happen at this call
			for _, op := range c.helperOps(f) {
				op.Call = call
				out = append(out, op)
			}
		}
	}
	return out
}

// isStateOpAt returns a predicate matching instructions that perform the
// given op on the given store/key (directly or through a straight-line
// helper).
func (c *Ctx) isStateOp(op, store, key string) func(ssa.Instruction) bool {
	return func(i ssa.Instruction) bool {
		call, ok := i.(ssa.CallInstruction)
		if !ok {
			return false
		}
		switch i.(type) {
		case *ssa.Defer, *ssa.Go:
			return false // happens when the function returns (or whenever): not at this point of the path
		}
		for _, o := range c.opsOfCall(call) {
			if o.Op == op && o.Store == store && (o.Key == key || !o.Const) {
				return true
			}
		}
		return false
	}
}

func (c *Ctx) opsOfCall(call ssa.CallInstruction) []StateOp {
	if ops := stateOpsOf(call); len(ops) > 0 {
		return ops
	}
	var out []StateOp
	if f := StaticCallee(call); f != nil {
		for _, op := range c.helperOps(f) {
			op.Call = call
			out = append(out, op)
		}
	}
	return out
}

// ---------------------------------------------------------------------------
// events

// Fire is a FireBefore / FireAfter call site.
type Fire struct {
	Call    ssa.CallInstruction
	Before  bool
	Event   int64
	Const   bool
	Events  []int64   // all events this site fires (a loop over a literal list), len 1 for a constant
	Handled ssa.Value // result #0
	Err     ssa.Value // result #1
	Req     ssa.Value // request argument
}

// fireOf classifies a call as an event fire.
func fireOf(call ssa.CallInstruction) (Fire, bool) {
	n := Callee(call)
	if n != fnFireBefore && n != fnFireAfter {
		return Fire{}, false
	}
	f := Fire{Call: call, Before: n == fnFireBefore}
	if v, ok := ConstInt(Arg(call, 1)); ok {
		f.Event, f.Const = v, true
		f.Events = []int64{v}
	} else if cs := constSet(Arg(call, 1)); len(cs) > 0 {
		for _, c := range cs {
			if v, ok := ConstInt(c); ok {
				f.Events = append(f.Events, v)
			}
		}
	}
	f.Handled = ResultValue(call, 0)
	f.Err = ResultValue(call, 1)
	f.Req = Arg(call, 3)
	return f, true
}

// Fires lists the event fire sites of fn.
func Fires(fn *ssa.Function) []Fire {
	var out []Fire
	for _, call := range Calls(fn) {
		if f, ok := fireOf(call); ok {
			if !f.Const && len(f.Events) > 0 {
				for _, e := range f.Events {
					g := f
					g.Event, g.Const = e, true
					out = append(out, g)
				}
				continue
			}
			out = append(out, f)
		}
	}
	return out
}

// Wire is one Events.Before/After registration.
type Wire struct {
	Call    ssa.CallInstruction
	Before  bool
	Event   int64
	Const   bool
	Handler *ssa.Function // resolved handler body (method or closure), may be nil
	Name    string
	In      *ssa.Function
	// Conditional: In can complete successfully without performing this registration
	Conditional bool
}

func (c *Ctx) buildWiring() {
	for _, fn := range c.P.Funcs {
		for _, call := range CallsTo(fn, fnBefore, fnAfter) {
			w := Wire{Call: call, Before: Callee(call) == fnBefore, In: fn}
			w.Handler, w.Name = c.resolveFuncValue(Arg(call, 2))
			// a registration that a successful Init/Setup can skip (it depends on
			// which other modules happen to be loaded already, on a flag, ...) is
			// not something the flows can rely on
			// (decided below, once all registrations of the function are known)
			if v, ok := ConstInt(Arg(call, 1)); ok {
				w.Event, w.Const = v, true
			} else if tbl, evRows := RowValues(Arg(call, 1)); len(evRows) > 0 {
				// registrations made by a loop over a literal table of events, or of
				// (event, handler) rows
				hTbl, hRows := RowValues(Arg(call, 2))
				okAll := true
				var ws []Wire
				for i, ev := range evRows {
					k, isC := ConstInt(ev)
					if !isC {
						okAll = false
						break
					}
					x := w
					x.Event, x.Const = k, true
					if hTbl == tbl && len(hRows) == len(evRows) {
						x.Handler, x.Name = c.resolveFuncValue(hRows[i])
					}
					ws = append(ws, x)
				}
				if okAll {
					c.wiring = append(c.wiring, ws...)
					continue
				}
			} else if cs := constSet(Arg(call, 1)); len(cs) > 0 {
				for _, k := range cs {
					if v, ok := ConstInt(k); ok {
						x := w
						x.Event, x.Const = v, true
						c.wiring = append(c.wiring, x)
					}
				}
				continue
			}
			c.wiring = append(c.wiring, w)
		}
	}
	// conditional: the function can complete without this registration — or one
	// that is the same in every respect (the copies a specialised tail leaves:
	// one per way of arriving there)
	same := func(a, b Wire) bool {
		return a.In == b.In && a.Before == b.Before && a.Const && b.Const && a.Event == b.Event && a.Name == b.Name && a.Name != ""
	}
	for i := range c.wiring {
		w := &c.wiring[i]
		if _, isDefer := w.Call.(*ssa.Defer); isDefer {
			continue
		}
		class := map[ssa.Instruction]bool{w.Call.(ssa.Instruction): true}
		for _, o := range c.wiring {
			if same(*w, o) {
				class[o.Call.(ssa.Instruction)] = true
			}
		}
		q := PathQuery{StartBlock: w.In.Blocks[0], Cut: func(i ssa.Instruction) bool { return class[i] }, GoalP: c.nonErrorReturn}
		w.Conditional = q.Find() != nil
	}
	// the copies count once
	var out []Wire
	for _, w := range c.wiring {
		dup := false
		for _, o := range out {
			if same(w, o) && w.Call != o.Call && !w.Conditional && !o.Conditional &&
				!Reaches(w.Call.(ssa.Instruction), o.Call.(ssa.Instruction)) && !Reaches(o.Call.(ssa.Instruction), w.Call.(ssa.Instruction)) {
				dup = true // alternatives, not a second registration
			}
		}
		if !dup {
			out = append(out, w)
		}
	}
	c.wiring = out
}

// resolveFuncValue resolves a function-typed value to a function body.
func (c *Ctx) resolveFuncValue(v ssa.Value) (*ssa.Function, string) {
	switch v := v.(type) {
	case *ssa.ChangeType:
		return c.resolveFuncValue(v.X)
	case *ssa.MakeInterface:
		return c.resolveFuncValue(v.X)
	case *ssa.Function:
		return c.realFunc(v), FuncName(c.realFunc(v))
	case *ssa.MakeClosure:
		if f, ok := v.Fn.(*ssa.Function); ok {
			rf := c.realFunc(f)
			return rf, FuncName(rf)
		}
	case *ssa.Phi:
		// e.g. a local func variable assigned in two branches: unresolved
	}
	return nil, ""
}

// realFunc maps bound-method wrappers and thunks to the method itself.
func (c *Ctx) realFunc(f *ssa.Function) *ssa.Function {
	if f.Synthetic != "" {
		if o, ok := f.Object().(*types.Func); ok && o != nil {
			if real := c.P.SSA.FuncValue(o); real != nil {
				return real
			}
		}
	}
	return f
}

// Handlers returns the handler functions registered for phase/event.
func (c *Ctx) Handlers(before bool, event int64) []Wire {
	var out []Wire
	for _, w := range c.wiring {
		if w.Before == before && w.Const && w.Event == event {
			if w.Conditional {
				// not counted as registered; say so once per site and property
				key := FuncName(w.In) + c.P.InstrPos(w.Call)
				if !c.condReported[key] {
					if c.condReported == nil {
						c.condReported = map[string]bool{}
					}
					c.condReported[key] = true
					phase := map[bool]string{true: "Before", false: "After"}[before]
					c.R.Info("wiring", FuncName(w.In), phase+"("+c.EventName(event)+")->"+w.Name, c.P.InstrPos(w.Call), "registration is conditional (the function can succeed without it): not counted as registered")
				}
				continue
			}
			out = append(out, w)
		}
	}
	return out
}

// pkgOf returns the package path (relative, "ab/..." form) of a function.
func pkgOf(fn *ssa.Function) string {
	if fn == nil || fn.Pkg == nil {
		return ""
	}
	return Short(fn.Pkg.Pkg.Path())
}

// ---------------------------------------------------------------------------
// slicing configuration

// transparentRepo are repository functions through which a value flows from
// arguments to result unchanged in identity (casts, codecs, formatters).
func transparentRepo(name string) bool {
	base := name
	if i := strings.LastIndex(base, "."); i >= 0 {
		base = base[i+1:]
	}
	switch {
	case strings.HasPrefix(base, "MustBe"), strings.HasPrefix(base, "MustHave"), strings.HasPrefix(base, "EnsureCan"), strings.HasPrefix(base, "CanBe"):
		return true
	}
	switch base {
	case "MakeOAuth2PID", "splitOTPs", "joinOTPs", "DecodeRecoveryCodes", "EncodeRecoveryCodes", "mailURL", "URLValuesToMap", "ErrorMap", "NewHTMLData":
		return true
	}
	return false
}

// originCalls are calls that are always leaves of a slice.
var originCalls = map[string]bool{
	fnGetSession: true, fnGetCookie: true,
	fnCurrentUser: true, fnCurrentUserP: true, fnLoadCurrentUser: true, fnLoadCurrentUserP: true, fnCurrentUserLower: true,
	fnCurrentUserID: true, fnCurrentUserIDP: true, fnLoadCurrentUserID: true,
	"(*net/http.Request).FormValue": true, "(*net/http.Request).PostFormValue": true, "(*net/http.Request).Cookie": true, "(*net/http.Request).Referer": true, "(*net/http.Request).UserAgent": true,
	"(net/http.Header).Get": true, "(net/url.Values).Get": true, "time.Now": true, fnLocalizef: true,
	// the token exchange, whether called directly or through the package's seam variable
	fnExchange: true,
}

// Slice is the slicer configured for this repository:
//   - Get* accessors of user objects are transparent through the receiver
//   - repository casts/codecs are transparent through their arguments
//   - other repository functions and interface calls are leaves
//   - external (library) static calls are transparent through all arguments
func (c *Ctx) Slice() Slicer {
	return Slicer{Through: func(call ssa.CallInstruction, idx int) ([]ssa.Value, bool) {
		cc := call.Common()
		name := Callee(call)
		if originCalls[name] || userSources[name] {
			return nil, false
		}
		if cc.IsInvoke() {
			if strings.HasPrefix(cc.Method.Name(), "Get") && c.isUserType(cc.Value.Type()) {
				return []ssa.Value{cc.Value}, true
			}
			return nil, false
		}
		if name == "" || strings.HasPrefix(name, "var:") {
			return nil, false
		}
		if strings.HasPrefix(name, "builtin:") {
			return cc.Args, true
		}
		f := StaticCallee(call)
		if f != nil && f.Pkg != nil && c.P.ByPath[f.Pkg.Pkg.Path()] != nil {
			if transparentRepo(name) {
				return cc.Args, true
			}
			return nil, false
		}
		// external function or method: derived from its arguments
		if len(cc.Args) == 0 {
			return nil, false
		}
		return cc.Args, true
	}}
}

// Origins slices v with the repository configuration.
func (c *Ctx) Origins(v ssa.Value) []Origin { return c.Slice().Origins(v) }

// identityOrigins are the origins that identify a user: user-source calls
// and parameters/free variables of a user type.
func (c *Ctx) identityOrigins(os []Origin) []Origin {
	var out []Origin
	for _, o := range os {
		switch o.Kind {
		case "call":
			n := o.Name
			if i := strings.LastIndex(n, "#"); i >= 0 {
				n = n[:i]
			}
			if userSources[n] {
				out = append(out, o)
			} else if call, ok := o.V.(*ssa.Call); ok {
				// any other call whose result is a user object
				res := call.Call.Signature().Results()
				if o.Idx < res.Len() && c.isUserType(res.At(o.Idx).Type()) {
					out = append(out, o)
				}
			}
		case "param", "freevar":
			if c.isUserType(o.V.Type()) {
				out = append(out, o)
			}
		}
	}
	return out
}

func sameOriginValue(a, b []Origin) bool {
	for _, x := range a {
		for _, y := range b {
			if x.V == y.V {
				return true
			}
		}
	}
	return false
}

// sameNames reports whether two origin sets have the same names and at least
// one non-constant member.
func sameNames(a, b []Origin) bool {
	na, nb := OriginNames(a), OriginNames(b)
	if len(na) != len(nb) || len(na) == 0 {
		return false
	}
	nonconst := false
	for i := range na {
		if na[i] != nb[i] {
			return false
		}
		if !strings.HasPrefix(na[i], "const:") {
			nonconst = true
		}
	}
	return nonconst
}

func names(os []Origin) string { return strings.Join(OriginNames(os), ", ") }

// ---------------------------------------------------------------------------
// helpers

// Callers returns the static call sites of fn inside the repository.
func (c *Ctx) Callers(fn *ssa.Function) []ssa.CallInstruction { return c.callers[fn] }

// sortedKeys returns map keys sorted.
func sortedKeys(m map[string]bool) []string {
	var out []string
	for k := range m {
		out = append(out, k)
	}
	sort.Strings(out)
	return out
}

// loadOfGlobal returns the global a value is a direct load of, or nil.
func loadOfGlobal(v ssa.Value) *ssa.Global {
	if u, ok := v.(*ssa.UnOp); ok {
		if g, ok := u.X.(*ssa.Global); ok {
			return g
		}
	}
	return nil
}

// globalName returns "ab/pkg.Name" for a global.
func globalName(g *ssa.Global) string {
	if g == nil {
		return ""
	}
	return Short(g.Pkg.Pkg.Path()) + "." + g.Name()
}

// DerivesFrom reports whether v is computed from a leaf satisfying pred,
// looking through the arguments of leaf calls up to depth levels.
func (c *Ctx) DerivesFrom(v ssa.Value, pred func(Origin) bool, depth int) bool {
	seen := map[ssa.Value]bool{}
	var rec func(v ssa.Value, d int) bool
	rec = func(v ssa.Value, d int) bool {
		if v == nil || seen[v] {
			return false
		}
		seen[v] = true
		for _, o := range c.Origins(v) {
			if pred(o) {
				return true
			}
			if o.Kind == "call" && d > 0 {
				if call, ok := o.V.(ssa.CallInstruction); ok {
					cc := call.Common()
					if cc.IsInvoke() && rec(cc.Value, d-1) {
						return true
					}
					for _, a := range cc.Args {
						if rec(a, d-1) {
							return true
						}
					}
				}
			}
		}
		return false
	}
	return rec(v, depth)
}

// structOf returns the struct type behind t (through one pointer), or nil.
func structOf(t types.Type) *types.Struct {
	if p, ok := t.Underlying().(*types.Pointer); ok {
		t = p.Elem()
	}
	st, _ := t.Underlying().(*types.Struct)
	return st
}

// constSet: when v is an element of a local array/slice literal of constants
// (typically the loop variable of a range over such a literal), the constants.
func constSet(v ssa.Value) []*ssa.Const {
	u, ok := v.(*ssa.UnOp)
	if !ok {
		return nil
	}
	ia, ok := u.X.(*ssa.IndexAddr)
	if !ok {
		return nil
	}
	base := ia.X
	if sl, ok := base.(*ssa.Slice); ok {
		base = sl.X
	}
	if g, ok := base.(*ssa.Global); ok {
		return globalConstSet(g)
	}
	a, ok := base.(*ssa.Alloc)
	if !ok || a.Referrers() == nil {
		return nil
	}
	var out []*ssa.Const
	for _, r := range *a.Referrers() {
		e, ok := r.(*ssa.IndexAddr)
		if !ok || e.Referrers() == nil {
			continue
		}
		for _, rr := range *e.Referrers() {
			st, ok := rr.(*ssa.Store)
			if !ok {
				continue
			}
			c, isC := st.Val.(*ssa.Const)
			if !isC {
				return nil // a non-constant element: not a constant set
			}
			out = append(out, c)
		}
	}
	return out
}

// globalConstSet: the constants a package-level array/slice variable is
// initialised with (stores in the package initialiser), nil if any element is
// not a constant or the variable is written elsewhere.
func globalConstSet(g *ssa.Global) []*ssa.Const {
	init := g.Pkg.Func("init")
	if init == nil {
		return nil
	}
	var out []*ssa.Const
	for _, b := range init.Blocks {
		for _, in := range b.Instrs {
			st, ok := in.(*ssa.Store)
			if !ok {
				continue
			}
			ia, ok := st.Addr.(*ssa.IndexAddr)
			if !ok {
				continue
			}
			base := ia.X
			if sl, ok := base.(*ssa.Slice); ok {
				base = sl.X
			}
			if base != ssa.Value(g) {
				// a local literal later stored into the global
				a, isA := base.(*ssa.Alloc)
				if !isA || a.Referrers() == nil {
					continue
				}
				feeds := false
				for _, r := range *a.Referrers() {
					switch x := r.(type) {
					case *ssa.Store:
						if x.Addr == ssa.Value(g) {
							feeds = true
						}
					case *ssa.Slice:
						if x.Referrers() != nil {
							for _, rr := range *x.Referrers() {
								if s2, ok := rr.(*ssa.Store); ok && s2.Addr == ssa.Value(g) {
									feeds = true
								}
							}
						}
					case *ssa.UnOp:
						if x.Referrers() != nil {
							for _, rr := range *x.Referrers() {
								if s2, ok := rr.(*ssa.Store); ok && s2.Addr == ssa.Value(g) {
									feeds = true
								}
							}
						}
					}
				}
				if !feeds {
					continue
				}
			}
			c, isC := st.Val.(*ssa.Const)
			if !isC {
				return nil
			}
			out = append(out, c)
		}
	}
	return out
}

// helperOps: the client-state operations a repository helper performs on every
// call: operations in blocks that are not control-dependent on anything but
// loop conditions (a helper that loops over a literal list of keys).
func (c *Ctx) helperOps(f *ssa.Function) []StateOp {
	if f == nil || f.Blocks == nil || f.Pkg == nil || c.P.ByPath[f.Pkg.Pkg.Path()] == nil {
		return nil
	}
	var out []StateOp
	for _, ic := range Calls(f) {
		ops := stateOpsOf(ic)
		if len(ops) == 0 {
			continue
		}
		uncond := true
		for _, fa := range FactsAtInstr(ic.(ssa.Instruction)) {
			rel := fa.Rel()
			if rel.Op == token.LSS || rel.Op == token.GTR {
				continue // loop condition
			}
			uncond = false
		}
		if !uncond {
			continue
		}
		for _, op := range ops {
			if op.Const {
				out = append(out, op)
			}
		}
	}
	return out
}
