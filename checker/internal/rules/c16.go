package rules

import (
	"sort"
	"strings"

	. "abverif/internal/engine"

	"golang.org/x/tools/go/ssa"
)

// shape renders the client-visible content of a value structurally: constants,
// configuration fields, localisation keys, map literals. Everything that is
// not one of those is "_" (same on both sides only if it is the same value).
func (c *Ctx) shape(v ssa.Value, d int) string {
	if v == nil {
		return "nil"
	}
	if d > 8 {
		return "_"
	}
	switch x := v.(type) {
	case *ssa.Const:
		return "c:" + x.String()
	case *ssa.Parameter:
		return "p:" + x.Name()
	case *ssa.MakeInterface:
		return c.shape(x.X, d+1)
	case *ssa.ChangeType:
		return c.shape(x.X, d+1)
	case *ssa.ChangeInterface:
		return c.shape(x.X, d+1)
	case *ssa.Convert:
		return c.shape(x.X, d+1)
	case *ssa.UnOp:
		if g := loadOfGlobal(x); g != nil {
			return "g:" + globalName(g)
		}
		if n := fieldLoadName(x); n != "" {
			return "f:" + n
		}
		if a, ok := x.X.(*ssa.Alloc); ok {
			return c.structShape(a, d+1)
		}
		return "_"
	case *ssa.MakeMap:
		var kv []string
		if x.Referrers() != nil {
			for _, r := range *x.Referrers() {
				if mu, ok := r.(*ssa.MapUpdate); ok && mu.Map == x {
					kv = append(kv, c.shape(mu.Key, d+1)+"="+c.shape(mu.Value, d+1))
				}
			}
		}
		sort.Strings(kv)
		return "map{" + strings.Join(kv, ",") + "}"
	case *ssa.Call:
		name := Callee(x)
		var as []string
		for _, a := range x.Call.Args {
			s := c.shape(a, d+1)
			if strings.HasPrefix(s, "c:") || strings.HasPrefix(s, "g:") || strings.HasPrefix(s, "f:") || strings.HasPrefix(s, "map{") {
				as = append(as, s)
			}
		}
		return "call:" + name + "(" + strings.Join(as, ",") + ")"
	case *ssa.Phi:
		var es []string
		for _, e := range x.Edges {
			es = append(es, c.shape(e, d+1))
		}
		sort.Strings(es)
		return "phi[" + strings.Join(es, "|") + "]"
	}
	return "_"
}

// structShape renders a local struct literal field by field.
func (c *Ctx) structShape(a *ssa.Alloc, d int) string {
	if a.Referrers() == nil {
		return "struct{}"
	}
	var fs []string
	for _, r := range *a.Referrers() {
		fa, ok := r.(*ssa.FieldAddr)
		if !ok || fa.Referrers() == nil {
			continue
		}
		for _, rr := range *fa.Referrers() {
			if st, ok := rr.(*ssa.Store); ok {
				fs = append(fs, fieldName(fa)+":"+c.shape(st.Val, d+1))
			}
		}
	}
	sort.Strings(fs)
	return "struct{" + strings.Join(fs, ",") + "}"
}

// clientVisible: instruction with an effect the client can observe.
func (c *Ctx) clientVisible(i ssa.Instruction) bool {
	call, ok := i.(ssa.CallInstruction)
	if !ok {
		return false
	}
	for _, op := range c.opsOfCall(call) {
		if op.Op == "put" || op.Op == "del" || op.Op == "delall" {
			return true
		}
	}
	if f, ok := fireOf(call); ok {
		// handlers of any other event may answer the request; the lock/confirm veto
		// point itself (Before(EventAuth)) and the failure report are the two
		// events the rule is about
		if !(f.Const && ((f.Before && f.Event == c.Event("EventAuth")) || (!f.Before && f.Event == c.Event("EventAuthFail")))) {
			return true
		}
	}
	switch Callee(call) {
	case fnRespond, fnRedirect, "(net/http.ResponseWriter).WriteHeader", "(net/http.ResponseWriter).Write", "net/http.Redirect", "net/http.Error", "(net/http.Header).Set", "(net/http.Header).Add", "net/http.SetCookie":
		return true
	}
	return false
}

// C16: responses leak neither password correctness when locked nor existence.
func C16(c *Ctx) {
	r := c.R
	r.Explanation = "C16 is a two-run (non-interference) property; the check decides its one-program structure: (a) both password outcomes on a locked account are answered by one routine: lock's BeforeAuth and AfterAuthFail tail-call updateLockedState with constants, nothing client-visible in it (session/cookie operation, redirect, response, header) is control-dependent on wasCorrectPassword, and in the password and one-time-password login handlers no client-visible effect lies between the credential decision and the point where lock is consulted (FireBefore(EventAuth) on the success side, FireAfter(EventAuthFail) on the failure side); (b) recover.StartPost answers an unknown account and a known account through structurally identical Redirect call sites (same RedirectOptions, field by field) and performs no session/cookie operation of its own; (c) in the login handlers the unknown-user response and the wrong-password response are structurally identical Respond call sites."
	r.NotDecided = []string{"byte equality of rendered bodies (integrator's renderer)", "timing and other side channels", "differences introduced by integrator event handlers", "the locked-redirect being identical for both outcomes is a consequence of (a), not separately compared"}

	// (a1) updateLockedState
	if uls := c.P.FuncOpt("(*ab/lock.Lock).updateLockedState"); uls != nil {
		name := FuncName(uls)
		lm := c.lockModeOf(uls)
		if lm == nil {
			r.Unknown("C16.lock-oracle", name, "password outcome", "-", "how the routine is told the password outcome is not understood")
			lm = &lockMode{param: uls.Params[len(uls.Params)-1], isBool: true}
		}
		n := 0
		for _, b := range uls.Blocks {
			for _, in := range b.Instrs {
				if !c.clientVisible(in) {
					continue
				}
				n++
				dep := HasFact(FactsAtInstr(in), lm.mentions)
				r.Check(!dep, "C16.lock-oracle", name, truncateStr(in.String(), 40), posf(c, in), "not control-dependent on wasCorrectPassword", "a client-visible effect in the lock routine depends on whether the password was correct: the response to a locked account reveals password correctness")
			}
		}
		if n == 0 {
			r.Unknown("C16.lock-oracle", name, "effects", "-", "lock routine has no client-visible effect (the veto redirect is missing)")
		}
		// return values independent of the flag: every return's facts about the flag
		for _, b := range uls.Blocks {
			for _, in := range b.Instrs {
				ret, ok := in.(*ssa.Return)
				if !ok || c.isErrorExit(ret) {
					continue
				}
				dep := HasFact(FactsAtInstr(ret), lm.mentions)
				r.Check(!dep, "C16.lock-oracle", name, "return", posf(c, ret), "verdict does not depend on password correctness", "the veto verdict depends on whether the password was correct")
			}
		}
	}
	// (a2) no effect between decision and lock consultation
	evAuth, evFail := c.Event("EventAuth"), c.Event("EventAuthFail")
	nDec := 0
	seenFn := map[*ssa.Function]bool{}
	for _, s := range c.Issuances() {
		fn := s.Fn
		if seenFn[fn] {
			continue
		}
		seenFn[fn] = true
		name := FuncName(fn)
		for _, b := range fn.Blocks {
			if len(b.Instrs) == 0 {
				continue
			}
			ifi, ok := b.Instrs[len(b.Instrs)-1].(*ssa.If)
			if !ok {
				continue
			}
			for _, pol := range []bool{true, false} {
				cs := c.credOf(ifi.Cond, pol, 0)
				if len(cs) == 0 || !c.isPrimaryCred(cs) || hasKindSub(c, cs, "recover-token") {
					continue
				}
				succ, fail := b.Succs[0], b.Succs[1]
				if !pol {
					succ, fail = fail, succ
				}
				// the decision is the branch whose success side leads to the session write
				// (an inner per-candidate compare inside a search loop is decided at the loop exit)
				if !Dominates(succ, s.Op.Call.Block()) {
					continue
				}
				nDec++
				isFire := func(before bool, ev int64) func(ssa.Instruction) bool {
					return func(i ssa.Instruction) bool {
						call, ok := i.(ssa.CallInstruction)
						if !ok {
							return false
						}
						f, ok := fireOf(call)
						return ok && f.Before == before && f.Const && f.Event == ev
					}
				}
				if !Dominates(succ, b) {
					q := PathQuery{StartBlock: succ, StartPred: b, Cut: isFire(true, evAuth), Goal: c.clientVisible}
					if p := q.Find(); p != nil {
						r.Bad("C16.pre-veto", name, "success side of "+credKinds(cs), posf(c, ifi), "a client-visible effect happens after the correct credential was recognised but before lock/confirm are consulted (FireBefore(EventAuth)): on a locked account it distinguishes a correct from an incorrect password", c.P.DescribePath(p)...)
					} else {
						r.Ok("C16.pre-veto", name, "success side of "+credKinds(cs), posf(c, ifi), "nothing client-visible before FireBefore(EventAuth)")
					}
				}
				if !Dominates(fail, b) {
					q := PathQuery{StartBlock: fail, StartPred: b, Cut: isFire(false, evFail), Goal: c.clientVisible, Prune: func(from, to *ssa.BasicBlock) bool { return Dominates(to, b) && to != b }}
					if p := q.Find(); p != nil {
						r.Bad("C16.pre-veto", name, "failure side of "+credKinds(cs), posf(c, ifi), "a client-visible effect happens after the wrong credential was recognised but before the failure event (where lock answers)", c.P.DescribePath(p)...)
					} else {
						r.Ok("C16.pre-veto", name, "failure side of "+credKinds(cs), posf(c, ifi), "nothing client-visible before FireAfter(EventAuthFail)")
					}
				}
			}
		}
	}
	r.Extra["first_factor_decisions"] = nDec

	// (b) recover.StartPost
	if sp := c.P.FuncOpt("(*ab/recover.Recover).StartPost"); sp != nil {
		name := FuncName(sp)
		var unknownSite, finalSite ssa.CallInstruction
		for _, call := range CallsTo(sp, fnRedirect) {
			notFound := HasFact(FactsAtInstr(call.(ssa.Instruction)), func(f Fact) bool {
				rel := f.Rel()
				g := loadOfGlobal(rel.Y)
				return rel.Op.String() == "==" && g != nil && globalName(g) == "ab.ErrUserNotFound"
			})
			if notFound {
				unknownSite = call
			} else {
				finalSite = call
			}
		}
		if unknownSite == nil || finalSite == nil {
			r.Bad("C16.recover-eq", name, "redirect sites", "-", "could not find both the unknown-account response and the normal response (two Redirect call sites)")
		} else {
			a, b := c.shape(Arg(unknownSite, 2), 0), c.shape(Arg(finalSite, 2), 0)
			r.Check(a == b, "C16.recover-eq", name, "Redirect(unknown)≡Redirect(known)", posf(c, unknownSite), "both answers are built from the same RedirectOptions: "+a, "the response for an unknown account differs structurally from the one for a known account: "+a+"  vs  "+b)
		}
		for _, op := range c.StateOps(sp) {
			if op.Op != "get" {
				r.Bad("C16.recover-eq", name, op.String(), posf(c, op.Call), "recover start touches the session/cookies itself: visible only for existing accounts or only for unknown ones")
			}
		}
		// the mail is sent for existing accounts only: whether it could be
		// delivered must not show in the answer (an error page instead of the
		// usual redirect tells the client the account exists)
		reachesMail := func(f *ssa.Function) bool {
			seen := map[*ssa.Function]bool{}
			var visit func(f *ssa.Function, d int) bool
			visit = func(f *ssa.Function, d int) bool {
				if f == nil || seen[f] || d > 3 {
					return false
				}
				seen[f] = true
				for _, call := range Calls(f) {
					cn := Callee(call)
					if cn == "(*ab.Authboss).Email" || cn == "(ab.Mailer).Send" {
						return true
					}
					if g := StaticCallee(call); g != nil && c.inRepo(g) && visit(g, d+1) {
						return true
					}
				}
				return false
			}
			return visit(f, 0)
		}
		for _, call := range Calls(sp) {
			if _, isGo := call.(*ssa.Go); isGo {
				continue
			}
			cn := Callee(call)
			g := StaticCallee(call)
			if !(cn == "(*ab.Authboss).Email" || cn == "(ab.Mailer).Send" || (g != nil && c.inRepo(g) && reachesMail(g))) {
				continue
			}
			if ErrResult(call) == nil {
				r.Ok("C16.recover-mail", name, cn, posf(c, call), "the mail step hands no error back to the handler")
				continue
			}
			k, _ := c.errHandling(call)
			leaks := k == "returned"
			if k == "tested" {
				if p, _ := c.errPropagated(call); p {
					leaks = true
				}
			}
			r.Check(!leaks, "C16.recover-mail", name, cn+".err", posf(c, call), "a delivery failure does not change the answer", "the error of the mail step is handed back to the client: a recovery request for an existing account whose mail cannot be delivered is answered by an error, one for an unknown account by the usual redirect")
		}
		// validation happens before the look-up
		for _, call := range CallsTo(sp, fnRespond) {
			for _, l := range CallsTo(sp, fnLoad) {
				r.Check(!Reaches(l.(ssa.Instruction), call.(ssa.Instruction)), "C16.recover-eq", name, "Respond before Load", posf(c, call), "validation response is independent of account existence", "a rendered response is produced after the account look-up")
			}
		}
	}

	// (c) login handlers
	for _, hn := range []string{"(*ab/auth.Auth).LoginPost", "(*ab/otp.OTP).LoginPost"} {
		fn := c.P.FuncOpt(hn)
		if fn == nil {
			continue
		}
		var unknownSite, wrongSite ssa.CallInstruction
		for _, call := range CallsTo(fn, fnRespond) {
			fs := FactsAtInstr(call.(ssa.Instruction))
			notFound := HasFact(fs, func(f Fact) bool {
				rel := f.Rel()
				g := loadOfGlobal(rel.Y)
				return rel.Op.String() == "==" && g != nil && globalName(g) == "ab.ErrUserNotFound"
			})
			afterFail := false
			for _, f := range Fires(fn) {
				if !f.Before && f.Const && f.Event == evFail && InstrDominates(f.Call.(ssa.Instruction), call.(ssa.Instruction)) {
					afterFail = true
				}
			}
			if notFound {
				unknownSite = call
			} else if afterFail {
				wrongSite = call
			}
		}
		if unknownSite == nil || wrongSite == nil {
			r.Bad("C16.login-eq", hn, "respond sites", "-", "could not find both the unknown-user response and the wrong-credential response")
			continue
		}
		var as, bs []string
		for i := 2; i < len(unknownSite.Common().Args); i++ {
			as = append(as, c.shape(Arg(unknownSite, i), 0))
			bs = append(bs, c.shape(Arg(wrongSite, i), 0))
		}
		a, b := strings.Join(as, "; "), strings.Join(bs, "; ")
		r.Check(a == b, "C16.login-eq", hn, "Respond(unknown user)≡Respond(wrong credential)", posf(c, unknownSite), "same status, page and data: "+a, "the response for an unknown user differs structurally from the one for a wrong credential: "+a+"  vs  "+b)
		// nothing client-visible on the unknown-user path besides the response
		for _, op := range c.StateOps(fn) {
			if op.Op == "get" {
				continue
			}
			notFound := HasFact(FactsAtInstr(op.Call.(ssa.Instruction)), func(f Fact) bool {
				rel := f.Rel()
				g := loadOfGlobal(rel.Y)
				return rel.Op.String() == "==" && g != nil && globalName(g) == "ab.ErrUserNotFound"
			})
			if notFound {
				r.Bad("C16.login-eq", hn, op.String(), posf(c, op.Call), "session/cookie operation only on the unknown-user path")
			}
		}
	}
}

func truncateStr(s string, n int) string {
	if len(s) > n {
		return s[:n]
	}
	return s
}

// hasKindSub: some ctc credential has the given sub-kind.
func hasKindSub(c *Ctx, cs []Cred, sub string) bool {
	for _, cr := range cs {
		if cr.Kind == "ctc" && c.ctcSubKind(cr) == sub {
			return true
		}
	}
	return false
}
