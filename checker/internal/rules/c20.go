package rules

import (
	"go/token"
	"go/types"
	"sort"
	"strings"

	. "abverif/internal/engine"

	"golang.org/x/tools/go/ssa"
)

// initTime: functions that run while an instance is being configured, before
// it serves requests (one line of reason each).
func initTimeReason(fn *ssa.Function) string {
	n := FuncName(fn)
	base := n
	if i := strings.LastIndex(base, "."); i >= 0 {
		base = base[i+1:]
	}
	switch {
	case fn.Name() == "init" || strings.HasPrefix(fn.Name(), "init#") || strings.HasPrefix(fn.Name(), "init$"):
		return "package initialiser"
	case n == "ab.New" || n == "ab.NewEvents" || n == "ab.RegisterModule":
		return "constructor / module registration at program start"
	case n == "(*ab.Authboss).Init" || n == "(*ab.Authboss).loadModule" || n == "(*ab.Config).Defaults":
		return "instance initialisation"
	case n == "(*ab.Events).Before" || n == "(*ab.Events).After":
		return "handler registration (documented: during Init/Setup)"
	case strings.HasPrefix(n, "(*ab.Events).") && !hasRequestParams(fn) && takesHandler(fn):
		return "handler registration (a method of Events that is handed a handler to keep)"
	case base == "Init" || base == "Setup" || n == "ab/otp/twofactor.SetupEmailVerify" || n == "ab/defaults.SetCore":
		return "module Init/Setup"
	case n == "ab/defaults.NewRouter" || n == "ab/defaults.NewLogger" || n == "ab/defaults.NewResponder" || n == "ab/defaults.NewRedirector" || n == "ab/defaults.NewHTTPBodyReader" || n == "ab/defaults.NewSMTPMailer" || n == "ab/defaults.NewLogMailer" || n == "ab/defaults.NewErrorHandler" || n == "ab.NewBCryptHasher" || n == "ab.NewSha512TokenGenerator":
		return "default component construction"
	case strings.HasPrefix(n, "(*ab/defaults.Router).") && base != "ServeHTTP":
		return "route registration"
	case isWiringLayer(fn):
		return "middleware/handler constructor: runs when the handler chain is wired, returns the per-request handler"
	}
	return ""
}

// takesHandler: one of the parameters is a function value (a handler to register).
func takesHandler(fn *ssa.Function) bool {
	for _, p := range fn.Params[1:] {
		if _, ok := p.Type().Underlying().(*types.Signature); ok {
			return true
		}
	}
	return false
}

// isWiringLayer: a function without request parameters whose result is an
// http.Handler or a func(http.Handler) http.Handler.
func isWiringLayer(fn *ssa.Function) bool {
	if hasRequestParams(fn) {
		return false
	}
	res := fn.Signature.Results()
	if res.Len() != 1 {
		return false
	}
	t := res.At(0).Type().String()
	return t == "net/http.Handler" || t == "func(net/http.Handler) net/http.Handler" || t == "func(next net/http.Handler) net/http.Handler" || strings.HasPrefix(t, "func(") && strings.HasSuffix(t, ") net/http.Handler") && strings.Contains(t, "net/http.Handler)")
}

// isRequestTime: fn is (transitively nested in) code that can run per request.
func (c *Ctx) isRequestTime(fn *ssa.Function) bool {
	if fn.Parent() != nil {
		// closures: request-time iff they take (ResponseWriter, *Request) or are nested in such,
		// or their parent is request time
		if hasRequestParams(fn) {
			return true
		}
		if isWiringLayer(fn) {
			return false // middleware constructor layer: runs at wiring time
		}
		if c.isRequestTime(fn.Parent()) {
			return true
		}
		return false
	}
	return initTimeReason(fn) == ""
}

func hasRequestParams(fn *ssa.Function) bool {
	for _, p := range fn.Params {
		if strings.HasSuffix(p.Type().String(), "net/http.Request") {
			return true
		}
	}
	return false
}

// root follows an address/value to what it is rooted in.
type rootInfo struct {
	kind string // local, param, freevar, global, call, new, unknown
	v    ssa.Value
	name string
}

func (c *Ctx) rootOf(v ssa.Value, d int) []rootInfo {
	if v == nil || d > 16 {
		return []rootInfo{{kind: "unknown"}}
	}
	switch x := v.(type) {
	case *ssa.Alloc:
		return []rootInfo{{kind: "local", v: x}}
	case *ssa.MakeMap, *ssa.MakeSlice, *ssa.MakeChan:
		return []rootInfo{{kind: "new", v: v}}
	case *ssa.Global:
		return []rootInfo{{kind: "global", v: x, name: Short(x.Pkg.Pkg.Path()) + "." + x.Name()}}
	case *ssa.Parameter:
		return []rootInfo{{kind: "param", v: x, name: x.Name()}}
	case *ssa.FreeVar:
		return []rootInfo{{kind: "freevar", v: x, name: x.Name()}}
	case *ssa.FieldAddr:
		return c.rootOf(x.X, d+1)
	case *ssa.Field:
		return c.rootOf(x.X, d+1)
	case *ssa.IndexAddr:
		return c.rootOf(x.X, d+1)
	case *ssa.Index:
		return c.rootOf(x.X, d+1)
	case *ssa.Slice:
		return c.rootOf(x.X, d+1)
	case *ssa.Convert:
		return c.rootOf(x.X, d+1)
	case *ssa.ChangeType:
		return c.rootOf(x.X, d+1)
	case *ssa.ChangeInterface:
		return c.rootOf(x.X, d+1)
	case *ssa.MakeInterface:
		return c.rootOf(x.X, d+1)
	case *ssa.TypeAssert:
		return c.rootOf(x.X, d+1)
	case *ssa.Extract:
		return c.rootOf(x.Tuple, d+1)
	case *ssa.Lookup:
		return c.rootOf(x.X, d+1)
	case *ssa.UnOp:
		// load: the object loaded from a local cell is whatever was stored there
		if a, ok := x.X.(*ssa.Alloc); ok && a.Referrers() != nil {
			var out []rootInfo
			for _, r := range *a.Referrers() {
				if st, ok := r.(*ssa.Store); ok && st.Addr == a {
					out = append(out, c.rootOf(st.Val, d+1)...)
				}
			}
			if len(out) > 0 {
				return out
			}
			return []rootInfo{{kind: "local", v: a}}
		}
		// a reference (map, slice, pointer) read out of a local struct: the struct is a
		// copy, what the reference points at is whatever the copy was made from
		if fa, ok := x.X.(*ssa.FieldAddr); ok {
			if a, ok := fa.X.(*ssa.Alloc); ok && a.Referrers() != nil {
				switch x.Type().Underlying().(type) {
				case *types.Map, *types.Slice, *types.Pointer:
					var out []rootInfo
					for _, r := range *a.Referrers() {
						switch y := r.(type) {
						case *ssa.Store:
							if y.Addr == ssa.Value(a) {
								out = append(out, c.rootOf(y.Val, d+1)...)
							}
						case *ssa.FieldAddr:
							if y.Field == fa.Field && y.Referrers() != nil {
								for _, rr := range *y.Referrers() {
									if st, ok := rr.(*ssa.Store); ok && st.Addr == ssa.Value(y) {
										out = append(out, c.rootOf(st.Val, d+1)...)
									}
								}
							}
						}
					}
					if len(out) > 0 {
						return out
					}
				}
			}
		}
		return c.rootOf(x.X, d+1)
	case *ssa.Phi:
		var out []rootInfo
		for _, e := range x.Edges {
			if e != ssa.Value(x) {
				out = append(out, c.rootOf(e, d+1)...)
			}
		}
		return out
	case *ssa.Call:
		return []rootInfo{{kind: "call", v: x, name: Callee(x)}}
	case *ssa.Const:
		return []rootInfo{{kind: "new", v: x}}
	case *ssa.MakeClosure:
		return []rootInfo{{kind: "new", v: x}}
	}
	return []rootInfo{{kind: "unknown", v: v}}
}

// sharedType: values of these types held by a shared object are instance state.
func isSharedStruct(t types.Type) string {
	s := Short(t.String())
	s = strings.TrimPrefix(s, "*")
	if perCallTypes[s] {
		return ""
	}
	if componentTypes[s] {
		return s
	}
	switch {
	case s == "ab.Authboss" || s == "ab.Config" || s == "ab.Events":
		return s
	case strings.HasPrefix(s, "ab/defaults."):
		return s
	case strings.HasSuffix(s, ".Auth") || strings.HasSuffix(s, ".OTP") || strings.HasSuffix(s, ".OAuth2") || strings.HasSuffix(s, ".Remember") || strings.HasSuffix(s, ".Recover") || strings.HasSuffix(s, ".Register") || strings.HasSuffix(s, ".Confirm") || strings.HasSuffix(s, ".Lock") || strings.HasSuffix(s, ".Logout") || strings.HasSuffix(s, ".TOTP") || strings.HasSuffix(s, ".SMS") || strings.HasSuffix(s, ".SMSValidator") || strings.HasSuffix(s, ".Recovery") || strings.HasSuffix(s, ".EmailVerify") || strings.HasSuffix(s, "expire.expireMiddleware"):
		return s
	}
	return ""
}

// componentTypes: repository types that implement one of the interfaces the
// configuration holds (hasher, token generator, mailer, ...): one value of
// them is installed in the instance and serves every request.
var componentTypes = map[string]bool{}

// perCallTypes: unexported struct types every value of which is made by
// request-time code (see findComponentTypes).
var perCallTypes = map[string]bool{}

func (c *Ctx) findComponentTypes() {
	root := c.P.ByPath[RepoPath]
	cfg := root.Pkg.Scope().Lookup("Config")
	if cfg == nil {
		AnchorFail("anchor type authboss.Config not found")
	}
	var ifaces []*types.Interface
	seen := map[types.Type]bool{}
	var walk func(t types.Type)
	walk = func(t types.Type) {
		if seen[t] {
			return
		}
		seen[t] = true
		switch u := t.Underlying().(type) {
		case *types.Struct:
			for i := 0; i < u.NumFields(); i++ {
				walk(u.Field(i).Type())
			}
		case *types.Interface:
			if u.NumMethods() > 0 {
				ifaces = append(ifaces, u)
			}
		}
	}
	walk(cfg.Type())
	for path, sp := range c.P.ByPath {
		if strings.HasSuffix(path, "/mocks") {
			continue
		}
		for _, m := range sp.Members {
			tn, ok := m.(*ssa.Type)
			if !ok {
				continue
			}
			named := tn.Type()
			if _, isStruct := named.Underlying().(*types.Struct); !isStruct {
				continue
			}
			for _, it := range ifaces {
				if types.Implements(named, it) || types.Implements(types.NewPointer(named), it) {
					componentTypes[Short(named.String())] = true
				}
			}
		}
	}
	// an unexported helper type whose every value is made by request-time code
	// (a writer wrapped around a local buffer for the length of one call) is a
	// per-call object, not a component an integrator configures and shares
	made := map[string][2]int{} // type -> [request-time sites, other sites]
	note := func(t types.Type, fn *ssa.Function) {
		n, ok := derefType(t).(*types.Named)
		if !ok || n.Obj().Exported() || n.Obj().Pkg() == nil || c.P.ByPath[n.Obj().Pkg().Path()] == nil {
			return
		}
		if _, isStruct := n.Underlying().(*types.Struct); !isStruct {
			return
		}
		k := made[Short(n.String())]
		if c.isRequestTime(fn) {
			k[0]++
		} else {
			k[1]++
		}
		made[Short(n.String())] = k
	}
	for _, fn := range c.P.Funcs {
		for _, b := range fn.Blocks {
			for _, in := range b.Instrs {
				switch x := in.(type) {
				case *ssa.Alloc:
					note(x.Type(), fn)
				case *ssa.MakeInterface:
					note(x.X.Type(), fn)
				}
			}
		}
	}
	for t, k := range made {
		if k[0] > 0 && k[1] == 0 {
			delete(componentTypes, t)
			perCallTypes[t] = true
		}
	}
}

// requestOwnedCalls: calls whose result is an object owned by the current request.
var requestOwnedCalls = map[string]string{
	"ab.MustClientStateResponseWriter":       "the request's own response writer",
	"(*ab.Authboss).NewResponse":             "freshly allocated per request",
	fnCtxValue:                               "value taken from the request's context",
	"(*net/http.Request).Context":            "request context",
	"(*net/http.Request).WithContext":        "new request value",
	"(net/http.ResponseWriter).Header":       "the response's header map",
	"(*net/http.Request).ParseForm":          "request",
	"(ab/defaults.HTTPBodyReader).Read":      "per-request values",
	"ab/defaults.URLValuesToMap":             "fresh map",
	"(*net/url.URL).Query":                   "fresh map",
	"encoding/json.Marshal":                  "fresh bytes",
	"ab.NewHTMLData":                         "fresh map",
	"(ab.HTMLData).MergeKV":                  "receiver",
	"(ab.HTMLData).Merge":                    "receiver",
	"ab.ErrorMap":                            "fresh map",
	"(ab.ArbitraryValuer).GetValues":         "per-request values",
	"ab/otp.splitOTPs":                       "fresh slice",
	"strings.Split":                          "fresh slice",
	"ab/otp/twofactor.DecodeRecoveryCodes":   "fresh slice",
	"ab/otp/twofactor.UseRecoveryCode":       "fresh slice",
	"ab/otp/twofactor.GenerateRecoveryCodes": "fresh slice",
	"builtin:append":                         "append result",
}

// C20: one instance serves concurrent requests without races.
func C20(c *Ctx) {
	r := c.R
	r.Explanation = "Static ownership/effect analysis for C20 over every package: (1) OWN: in every function that can run at request time (everything except the explicit init-time table: constructors, Init/Setup, handler/route registration, package initialisers, and the wiring-time layers of middleware constructors) every memory write — store through a pointer, map update, slice element store — is classified by the root of its address: locals, fresh allocations, the request, its context values, the per-request response writer, parameters of non-shared type and results of per-request constructors are request-owned; package-level variables, fields of the instance (Authboss, Config, Events), of module structs and of default components, and variables captured from init-time scope are shared, and a write to them is a violation; (2) UNSAFE-USE: a method call on a *math/rand.Rand (or another non-concurrency-safe object: *bytes.Buffer, *strings.Builder, hash.Hash) that is held in shared state must lie between Lock and (deferred) Unlock of one sync.Mutex in the same function; (3) the goroutines the library starts receive only a context, strings and freshly built string slices — no ResponseWriter, *Request or user object; (4) the default log mailer and logger emit each mail / log line with a single Write/Fprintf on the shared writer (so concurrent mails cannot interleave); the event handler lists and module table are written only at init time."
	r.NotDecided = []string{"races inside integrator-supplied components and inside the standard library", "logical isolation of clients through shared storage (integrator)", "schedules: the analysis is schedule-independent by construction (no shared write exists to be scheduled)"}
	c.findComponentTypes()
	var comps []string
	for k := range componentTypes {
		comps = append(comps, k)
	}
	sort.Strings(comps)
	r.Extra["component_types"] = comps
	nFn, nWrites := 0, 0
	var initTable []string
	for _, fn := range c.P.Funcs {
		if !c.isRequestTime(fn) {
			why := initTimeReason(fn)
			if why == "" && fn.Parent() != nil {
				why = "wiring-time layer of a middleware constructor / closure of an init-time function"
			}
			initTable = append(initTable, FuncName(fn)+": "+why)
			continue
		}
		nFn++
		name := FuncName(fn)
		for _, b := range fn.Blocks {
			for _, in := range b.Instrs {
				var addr ssa.Value
				what := ""
				switch x := in.(type) {
				case *ssa.Store:
					addr, what = x.Addr, "store"
				case *ssa.MapUpdate:
					addr, what = x.Map, "map update"
				case *ssa.Call:
					// the map types of the standard library are written through their methods
					switch cn := Callee(x); cn {
					case "(net/url.Values).Set", "(net/url.Values).Add", "(net/url.Values).Del", "(net/http.Header).Set", "(net/http.Header).Add", "(net/http.Header).Del":
						if len(x.Call.Args) == 0 {
							continue
						}
						addr, what = x.Call.Args[0], "map write "+cn+" on"
					default:
						// library routines that fill a caller-supplied buffer
						i := fillsBufferArg(x)
						if i < 0 || i >= len(x.Call.Args) {
							continue
						}
						addr, what = x.Call.Args[i], "buffer filled by "+cn+":"
					}
				default:
					continue
				}
				nWrites++
				if bad := c.sharedWrite(fn, addr); bad != "" {
					r.Bad("C20.own", name, what+" "+truncateStr(addr.String(), 48), posf(c, in), "request-time code writes shared state: "+bad)
				}
			}
		}
	}
	r.Extra["request_time_functions"] = nFn
	r.Extra["writes_classified"] = nWrites
	r.Extra["init_time_functions"] = initTable
	if nFn < 100 || nWrites < 100 {
		r.Unknown("C20.own", "", "census", "-", sprintf("only %d request-time functions / %d writes found", nFn, nWrites))
	} else {
		r.Ok("C20.own", "all request-time functions", "writes", "-", sprintf("%d writes in %d request-time functions classified; none targets shared state (violations are listed individually)", nWrites, nFn))
	}
	c.unsafeUse()
	c.globalShare()
	c.capturedShare()
	c.handlerReceiverWrites()
	c.goArgs()
	c.singleWrite()
	c.registriesInitOnly()
}

// fillsBufferArg: index (in Call.Args, receiver first for static method calls)
// of the caller-supplied buffer that a standard-library routine writes into;
// -1 for every other call.
func fillsBufferArg(call *ssa.Call) int {
	cc := call.Common()
	if cc.IsInvoke() {
		switch cc.Method.Name() {
		case "Read", "PutUint16", "PutUint32", "PutUint64":
			if len(cc.Args) > 0 && strings.HasPrefix(cc.Args[0].Type().Underlying().String(), "[]") {
				return 0
			}
		}
		return -1
	}
	if b, ok := cc.Value.(*ssa.Builtin); ok {
		if b.Name() == "copy" {
			return 0
		}
		return -1
	}
	switch Callee(call) {
	case "io.ReadFull", "io.ReadAtLeast":
		return 1
	case "crypto/rand.Read", "math/rand.Read", "encoding/hex.Encode", "encoding/hex.Decode":
		return 0
	case "(*encoding/base64.Encoding).Encode", "(*encoding/base64.Encoding).Decode", "(*encoding/base32.Encoding).Encode", "(*encoding/base32.Encoding).Decode", "(*math/rand.Rand).Read":
		return 1
	case "(encoding/binary.bigEndian).PutUint16", "(encoding/binary.bigEndian).PutUint32", "(encoding/binary.bigEndian).PutUint64", "(encoding/binary.littleEndian).PutUint16", "(encoding/binary.littleEndian).PutUint32", "(encoding/binary.littleEndian).PutUint64":
		return 1
	}
	return -1
}

// optionOnFreshObject: fn is a closure func(*T) that its parent returns as a
// value of a named function type, and every call of a value of that type in
// the repository passes an object allocated in the calling function (the
// constructor applying its options).
func (c *Ctx) optionOnFreshObject(fn *ssa.Function) bool {
	par := fn.Parent()
	if par == nil || len(fn.Params) != 1 || fn.Signature.Results().Len() != 0 {
		return false
	}
	if _, isPtr := fn.Params[0].Type().Underlying().(*types.Pointer); !isPtr {
		return false
	}
	res := par.Signature.Results()
	if res.Len() != 1 {
		return false
	}
	named, ok := res.At(0).Type().(*types.Named)
	if !ok {
		return false
	}
	if _, isSig := named.Underlying().(*types.Signature); !isSig {
		return false
	}
	returned := false
	for _, b := range par.Blocks {
		for _, in := range b.Instrs {
			ret, isRet := in.(*ssa.Return)
			if !isRet || len(ret.Results) != 1 {
				continue
			}
			v := ret.Results[0]
			if ct, isCT := v.(*ssa.ChangeType); isCT {
				v = ct.X
			}
			if mc, isMC := v.(*ssa.MakeClosure); isMC && mc.Fn == ssa.Value(fn) {
				returned = true
			}
		}
	}
	if !returned {
		return false
	}
	for _, g := range c.P.Funcs {
		for _, call := range Calls(g) {
			cc := call.Common()
			if cc.IsInvoke() || StaticCallee(call) != nil || !types.Identical(cc.Value.Type().Underlying(), named.Underlying()) || len(cc.Args) != 1 {
				continue
			}
			a := cc.Args[0]
			for d := 0; d < 4; d++ {
				if fa, isFA := a.(*ssa.FieldAddr); isFA {
					a = fa.X
					continue
				}
				break
			}
			if ld, isLd := a.(*ssa.UnOp); isLd && ld.Op == token.MUL {
				// a local variable holding the pointer
				if cell, isCell := ld.X.(*ssa.Alloc); isCell && cell.Referrers() != nil {
					for _, ref := range *cell.Referrers() {
						if st, isSt := ref.(*ssa.Store); isSt && st.Addr == ssa.Value(cell) {
							a = st.Val
						}
					}
				}
			}
			// ... or has just obtained from a constructor
			if ic, _ := CallOf(a); ic != nil {
				if g := StaticCallee(ic); g != nil && initTimeReason(g) != "" {
					continue
				}
			}
			if _, fresh := a.(*ssa.Alloc); !fresh {
				return false
			}
		}
	}
	// no site left: the applying loop was folded away where the constructor is
	// inlined with no options — nothing in the library applies the option later
	return true
}

// sharedWrite returns a description when addr is rooted in shared state.
func (c *Ctx) sharedWrite(fn *ssa.Function, addr ssa.Value) string {
	for _, ro := range c.rootOf(addr, 0) {
		switch ro.kind {
		case "global":
			return "package-level variable " + ro.name
		case "param":
			p := ro.v.(*ssa.Parameter)
			// a functional option: the closure is applied by a constructor to the
			// object it has just allocated
			if c.optionOnFreshObject(fn) {
				continue
			}
			// the receiver / a parameter of shared type reached through a field or element
			if s := isSharedStruct(p.Type()); s != "" && addr != ssa.Value(p) {
				// writes into a by-value receiver copy are local
				if _, isPtr := p.Type().Underlying().(*types.Pointer); isPtr {
					return "field of shared " + s + " (parameter " + p.Name() + ")"
				}
			}
		case "freevar":
			fv := ro.v.(*ssa.FreeVar)
			par := fn.Parent()
			// a variable handed down through several closure layers belongs to the
			// layer that declared it
			for cur := fn; par != nil && c.isRequestTime(par); {
				var up *ssa.FreeVar
				idx := -1
				for i, x := range cur.FreeVars {
					if x == fv {
						idx = i
					}
				}
				for _, b := range par.Blocks {
					for _, in := range b.Instrs {
						if mc, ok := in.(*ssa.MakeClosure); ok && mc.Fn == ssa.Value(cur) && idx >= 0 && idx < len(mc.Bindings) {
							if pf, isFV := mc.Bindings[idx].(*ssa.FreeVar); isFV {
								up = pf
							}
						}
					}
				}
				if up == nil {
					break
				}
				fv, cur, par = up, par, par.Parent()
			}
			if par != nil && !c.isRequestTime(par) {
				// captured from wiring/init scope: shared between all requests through this closure
				if _, isMap := derefType(fv.Type()).Underlying().(*types.Map); isMap {
					return "map " + fv.Name() + " captured from init-time scope (shared by every request through this closure)"
				}
				if _, isSlice := derefType(fv.Type()).Underlying().(*types.Slice); isSlice {
					return "slice " + fv.Name() + " captured from init-time scope"
				}
				if addr == ro.v {
					return "variable " + fv.Name() + " captured from init-time scope"
				}
				if s := isSharedStruct(derefType(fv.Type())); s != "" {
					return "field of shared " + s + " captured as " + fv.Name()
				}
				if _, isStruct := derefType(derefType(fv.Type())).Underlying().(*types.Struct); isStruct {
					return "struct " + fv.Name() + " captured from init-time scope"
				}
			}
		case "call":
			if _, ok := requestOwnedCalls[ro.name]; ok {
				continue
			}
			// loads of instance fields returned by calls are not roots we can write through here
		}
	}
	return ""
}

func derefType(t types.Type) types.Type {
	if p, ok := t.Underlying().(*types.Pointer); ok {
		return p.Elem()
	}
	return t
}

var unsafeTypes = []string{"*math/rand.Rand", "*bytes.Buffer", "*strings.Builder", "hash.Hash", "*bufio.Writer", "*bufio.Reader", "*text/template.Template#"}

// unsafeUse: non-concurrency-safe objects held in shared state.
func (c *Ctx) unsafeUse() {
	r := c.R
	n := 0
	for _, fn := range c.P.Funcs {
		if !c.isRequestTime(fn) {
			continue
		}
		name := FuncName(fn)
		for _, call := range Calls(fn) {
			cc := call.Common()
			var recv ssa.Value
			if cc.IsInvoke() {
				recv = cc.Value
			} else if len(cc.Args) > 0 && cc.Signature().Recv() != nil {
				recv = cc.Args[0]
			}
			if recv == nil {
				continue
			}
			ts := recv.Type().String()
			unsafe := false
			for _, u := range unsafeTypes {
				if ts == u {
					unsafe = true
				}
			}
			if !unsafe {
				continue
			}
			// held in shared state? root is a field of a shared struct / global
			shared := ""
			for _, ro := range c.rootOf(recv, 0) {
				switch ro.kind {
				case "global":
					shared = "package-level " + ro.name
				case "param":
					if s := isSharedStruct(ro.v.Type()); s != "" {
						shared = "field of " + s
					}
				case "local":
					// a by-value receiver copy of a shared struct still shares the pointer it holds
					if a, ok := ro.v.(*ssa.Alloc); ok {
						if s := isSharedStruct(derefType(a.Type())); s != "" && recv != ssa.Value(a) {
							shared = "pointer held in a field of " + s
						}
						// a local filled with *p, p held in shared state: a shallow copy, which
						// still shares the object's internals (the generator's source, the
						// buffer's backing array)
						if recv == ssa.Value(a) && a.Referrers() != nil {
							for _, ref := range *a.Referrers() {
								st, isSt := ref.(*ssa.Store)
								if !isSt || st.Addr != ssa.Value(a) {
									continue
								}
								ld, isLd := st.Val.(*ssa.UnOp)
								if !isLd || ld.Op != token.MUL {
									continue
								}
								for _, r2 := range c.rootOf(ld.X, 0) {
									switch r2.kind {
									case "global":
										shared = "shallow copy of the object held in package-level " + r2.name
									case "param":
										if s := isSharedStruct(r2.v.Type()); s != "" {
											shared = "shallow copy of the object held in a field of " + s
										}
									case "local":
										if a2, ok := r2.v.(*ssa.Alloc); ok && a2 != a {
											if s := isSharedStruct(derefType(a2.Type())); s != "" {
												shared = "shallow copy of the object held in a field of " + s
											}
										}
									}
								}
							}
						}
					}
				}
			}
			if shared == "" {
				continue
			}
			n++
			pos := posf(c, call)
			// must be dominated by a Mutex.Lock with an Unlock (deferred or later) on the same mutex
			locked := false
			for _, l := range CallsTo(fn, "(*sync.Mutex).Lock") {
				if _, isDefer := l.(*ssa.Defer); isDefer {
					continue
				}
				if !InstrDominates(l.(ssa.Instruction), call.(ssa.Instruction)) {
					continue
				}
				mu := Arg(l, 0)
				for _, u := range CallsTo(fn, "(*sync.Mutex).Unlock") {
					if Arg(u, 0) != mu {
						continue
					}
					if _, isDefer := u.(*ssa.Defer); isDefer {
						if InstrDominates(u.(ssa.Instruction), call.(ssa.Instruction)) || InstrDominates(l.(ssa.Instruction), u.(ssa.Instruction)) {
							locked = true
						}
					} else if !Reaches(u.(ssa.Instruction), call.(ssa.Instruction)) || InstrDominates(call.(ssa.Instruction), u.(ssa.Instruction)) {
						locked = true
					}
				}
				// the mutex itself must be shared at least as widely: a global or a field of the same shared struct
				ok := false
				for _, ro := range c.rootOf(mu, 0) {
					if ro.kind == "global" || ro.kind == "param" || ro.kind == "local" {
						ok = true
					}
				}
				locked = locked && ok
			}
			r.Check(locked, "C20.unsafe-use", name, Callee(call)+" on "+ts, pos, "used under a mutex ("+shared+")", "a "+ts+" held in shared state ("+shared+") is used without a lock: it is not safe for concurrent use, and the library itself calls this from concurrently running goroutines")
		}
	}
	r.Extra["shared_unsafe_object_uses"] = n
}

// goArgs: what crosses into goroutines the library starts.
func (c *Ctx) goArgs() {
	r := c.R
	n := 0
	for _, fn := range c.P.Funcs {
		for _, b := range fn.Blocks {
			for _, in := range b.Instrs {
				g, ok := in.(*ssa.Go)
				if !ok {
					continue
				}
				n++
				bad := ""
				args := g.Call.Args
				for i, a := range args {
					if i == 0 && g.Call.Signature().Recv() != nil {
						continue // the module receiver (read-only after Init)
					}
					ts := a.Type().String()
					switch {
					case strings.HasSuffix(ts, "net/http.ResponseWriter") || strings.HasSuffix(ts, "net/http.Request"):
						bad = "passes " + ts
					case c.isUserType(a.Type()):
						bad = "passes the user object " + ts
					case strings.HasPrefix(ts, "map["):
						bad = "passes a map " + ts
					}
				}
				// bound closures: free variables
				if mc, ok := g.Call.Value.(*ssa.MakeClosure); ok {
					for _, bnd := range mc.Bindings {
						ts := bnd.Type().String()
						if strings.Contains(ts, "net/http.ResponseWriter") || strings.Contains(ts, "net/http.Request") || c.isUserType(derefType(bnd.Type())) {
							bad = "captures " + ts
						}
					}
				}
				r.Check(bad == "", "C20.go", FuncName(fn), "go "+Callee(g), posf(c, g), "goroutine receives only context, strings and string slices", "the goroutine shares per-request mutable state with its spawner: "+bad)
			}
		}
	}
	r.Extra["go_statements"] = n
	r.Extra["go_statements_reference"] = 3
	// what the goroutines run does not ask whether the request that started them
	// has ended: the context they are handed is the request's, cancelled when the
	// handler returns, and work that consults it happens or not depending on which
	// of the two gets there first
	started := map[*ssa.Function]bool{}
	var mark func(f *ssa.Function, d int)
	mark = func(f *ssa.Function, d int) {
		if f == nil || started[f] || d > 4 || !c.inRepo(f) {
			return
		}
		started[f] = true
		for _, call := range Calls(f) {
			if g := StaticCallee(call); g != nil {
				mark(g, d+1)
			}
			// the mailer behind the interface: the shipped implementations
			if cc := call.Common(); cc.IsInvoke() && cc.Method.Name() == "Send" && strings.HasSuffix(cc.Value.Type().String(), ".Mailer") {
				for _, nm := range []string{"(ab/defaults.SMTPMailer).Send", "(ab/defaults.LogMailer).Send"} {
					mark(c.P.FuncOpt(nm), d+1)
				}
			}
		}
	}
	for _, fn := range c.P.Funcs {
		for _, b := range fn.Blocks {
			for _, in := range b.Instrs {
				if g, ok := in.(*ssa.Go); ok {
					mark(g.Call.StaticCallee(), 0)
					if mc, isMC := g.Call.Value.(*ssa.MakeClosure); isMC {
						if f, isF := mc.Fn.(*ssa.Function); isF {
							mark(f, 0)
						}
					}
				}
			}
		}
	}
	for f := range started {
		for _, call := range Calls(f) {
			cc := call.Common()
			if cc.IsInvoke() && (cc.Method.Name() == "Err" || cc.Method.Name() == "Done" || cc.Method.Name() == "Deadline") && strings.HasSuffix(cc.Value.Type().String(), "context.Context") {
				r.Bad("C20.go-ctx", FuncName(f), "ctx."+cc.Method.Name()+"()", posf(c, call.(ssa.Instruction)), "code the library runs in its own goroutines asks whether the request's context has ended: the request ends when its handler returns, so whether this work (the mail) happens depends on the schedule of the two")
			}
		}
	}
	r.Extra["goroutine_functions"] = len(started)
}

// singleWrite: default components that multiplex onto one shared writer emit
// each unit with exactly one write.
func (c *Ctx) singleWrite() {
	r := c.R
	for _, fnName := range []string{"(ab/defaults.LogMailer).Send", "(ab/defaults.Logger).Info", "(ab/defaults.Logger).Error"} {
		fn := c.P.FuncOpt(fnName)
		if fn == nil {
			continue
		}
		n := 0
		other := ""
		for _, call := range Calls(fn) {
			cc := call.Common()
			usesWriter := false
			if cc.IsInvoke() && strings.HasSuffix(cc.Value.Type().String(), "io.Writer") {
				usesWriter = true
			}
			for _, a := range cc.Args {
				if strings.HasSuffix(a.Type().String(), "io.Writer") {
					if hasField(c.fieldOrigins(a), "Writer") {
						usesWriter = true
					}
				}
			}
			if !usesWriter {
				continue
			}
			cn := Callee(call)
			switch cn {
			case "(io.Writer).Write", "fmt.Fprintf", "fmt.Fprint", "fmt.Fprintln", "io.WriteString":
				n++
				// not in a loop
				b := call.Block()
				for _, p := range b.Preds {
					if Dominates(b, p) {
						other = cn + " inside a loop"
					}
				}
			default:
				other = cn
			}
		}
		r.Check(n == 1 && other == "", "C20.single-write", fnName, "one write per unit", c.P.Pos(fn.Pos()), "the shared writer receives each mail / log line in one call", sprintf("the shared writer is written %d times per unit%s: concurrent units interleave on the writer", n, map[bool]string{true: " and handed to " + other, false: ""}[other != ""]))
	}
}

// registriesInitOnly: handler lists, module tables: written only by init-time functions.
func (c *Ctx) registriesInitOnly() {
	r := c.R
	fields := map[string]bool{"before": true, "after": true, "loadedModules": true}
	n := 0
	for _, fn := range c.P.Funcs {
		for _, b := range fn.Blocks {
			for _, in := range b.Instrs {
				var base ssa.Value
				switch x := in.(type) {
				case *ssa.MapUpdate:
					base = x.Map
				case *ssa.Store:
					base = x.Addr
				default:
					continue
				}
				fld := fieldLoadName(base)
				if fa, ok := base.(*ssa.FieldAddr); ok {
					fld = fieldName(fa)
				}
				isGlobalReg := false
				if g := loadOfGlobal(base); g != nil && g.Name() == "registeredModules" {
					isGlobalReg = true
					fld = "registeredModules"
				}
				if !fields[fld] && !isGlobalReg {
					continue
				}
				n++
				r.Check(!c.isRequestTime(fn), "C20.registries", FuncName(fn), "write "+fld, posf(c, in), "written at init time only ("+initTimeReason(fn)+")", "the "+fld+" table is written by request-time code")
			}
		}
	}
	if n == 0 {
		r.Unknown("C20.registries", "", "tables", "-", "no write to the event/module tables found")
	}
}

// immutableGlobalType: values of these types can be read by any number of
// requests at once.
func immutableGlobalType(t types.Type) bool {
	switch u := t.Underlying().(type) {
	case *types.Basic, *types.Signature:
		return true
	case *types.Array:
		return immutableGlobalType(u.Elem())
	case *types.Struct:
		ts := t.String()
		if ts == "sync.Mutex" || ts == "sync.RWMutex" || ts == "sync.Once" {
			return true
		}
		for i := 0; i < u.NumFields(); i++ {
			if !immutableGlobalType(u.Field(i).Type()) {
				return false
			}
		}
		return true
	case *types.Interface:
		return t.String() == "error"
	case *types.Pointer:
		switch t.String() {
		case "*regexp.Regexp", "*text/template.Template", "*html/template.Template", "*strings.Replacer", "*time.Location":
			return true // documented safe for concurrent use
		}
	}
	return false
}

// globalShare: a package-level variable holding a mutable object (map, slice,
// pointer, pool) is one object for every request. Request-time code may read
// through it; handing it to other code (call argument, return value, stored
// into another object) lets that code write it, and an object recycled
// through a sync.Pool must have every field reset.
func (c *Ctx) globalShare() {
	r := c.R
	n := 0
	for _, fn := range c.P.Funcs {
		if !c.isRequestTime(fn) {
			continue
		}
		name := FuncName(fn)
		for _, b := range fn.Blocks {
			for _, in := range b.Instrs {
				// sync.Pool.Get
				if call, ok := in.(*ssa.Call); ok && Callee(call) == "(*sync.Pool).Get" {
					n++
					c.poolReset(fn, call)
					continue
				}
				ld, ok := in.(*ssa.UnOp)
				if !ok || ld.Op != token.MUL {
					continue
				}
				g, ok := ld.X.(*ssa.Global)
				if !ok || g.Pkg == nil || c.P.ByPath[g.Pkg.Pkg.Path()] == nil {
					continue
				}
				if immutableGlobalType(ld.Type()) {
					continue
				}
				// an injectable entropy source: a reader variable that is initialised with
				// crypto/rand.Reader, which is safe for concurrent use
				if iv := GlobalInit(g); iv != nil {
					for {
						if mi, ok := iv.(*ssa.MakeInterface); ok {
							iv = mi.X
							continue
						}
						if ci, ok := iv.(*ssa.ChangeInterface); ok {
							iv = ci.X
							continue
						}
						break
					}
					if ig := loadOfGlobal(iv); ig != nil && ig.Pkg != nil && ig.Pkg.Pkg.Path() == "crypto/rand" {
						continue
					}
					// a service object without state of its own: a package-level value of a
					// repository type none of whose methods writes through its receiver
					// (a hasher holding its cost), assigned once by the initialiser
					if c.statelessType(iv.Type()) {
						r.Ok("C20.global-share", name, Short(g.Pkg.Pkg.Path())+"."+g.Name()+" stateless", posf(c, ld), "initialised once with a value whose methods do not write their receiver")
						continue
					}
				}
				n++
				gname := Short(g.Pkg.Pkg.Path()) + "." + g.Name()
				if how, at := escapes(ld, 0); how != "" {
					r.Bad("C20.global-share", name, gname+" handed on", posf(c, at), "the mutable package-level "+ld.Type().String()+" "+gname+" is one object shared by every request, and request-time code hands it on ("+how+"): whatever receives it can write it while another request reads or writes it")
				} else {
					r.Ok("C20.global-share", name, gname+" read only", posf(c, ld), "only indexed, ranged over, measured or compared here")
				}
			}
		}
	}
	r.Extra["mutable_global_uses"] = n
}

// escapes reports how a value leaves read-only use.
func escapes(v ssa.Value, d int) (string, ssa.Instruction) {
	if v.Referrers() == nil || d > 6 {
		return "", nil
	}
	for _, ref := range *v.Referrers() {
		switch x := ref.(type) {
		case *ssa.Lookup, *ssa.Range, *ssa.Index, *ssa.BinOp, *ssa.DebugRef, *ssa.If:
			continue
		case *ssa.IndexAddr:
			// element address: reading through it is fine, storing is caught by the ownership rule
			continue
		case *ssa.Phi:
			if how, at := escapes(x, d+1); how != "" {
				return how, at
			}
		case *ssa.ChangeType:
			if how, at := escapes(x, d+1); how != "" {
				return how, at
			}
		case *ssa.Call:
			if b, ok := x.Call.Value.(*ssa.Builtin); ok && (b.Name() == "len" || b.Name() == "cap") {
				continue
			}
			// the package-level functions of bytes/strings/utf8 read their operands
			// and keep no reference to them
			if f, ok := x.Call.Value.(*ssa.Function); ok && f.Pkg != nil && f.Signature.Recv() == nil {
				switch f.Pkg.Pkg.Path() {
				case "bytes", "strings", "unicode/utf8":
					continue
				}
			}
			// the generic helpers of slices/maps that only read their operand; the
			// iterator constructors alias it (followed), the collectors consume it
			if f, ok := x.Call.Value.(*ssa.Function); ok {
				g := f
				if o := f.Origin(); o != nil {
					g = o
				}
				if g.Pkg != nil && g.Signature.Recv() == nil {
					argAt := -1
					for i, a := range x.Call.Args {
						if a == v {
							argAt = i
						}
					}
					switch g.Pkg.Pkg.Path() + "." + g.Name() {
					case "slices.Contains", "slices.ContainsFunc", "slices.Index", "slices.IndexFunc", "slices.Equal", "slices.EqualFunc", "slices.Compare", "slices.BinarySearch", "slices.BinarySearchFunc", "slices.Max", "slices.Min", "slices.IsSorted", "slices.Clone", "maps.Clone", "maps.Equal", "maps.EqualFunc", "slices.Collect", "slices.Sorted", "slices.SortedFunc", "maps.Collect":
						continue
					case "slices.AppendSeq", "maps.Insert", "maps.Copy":
						if argAt == 1 {
							continue
						}
					case "maps.Keys", "maps.Values", "maps.All", "slices.Values", "slices.All":
						if how, at := escapes(x, d+1); how != "" {
							return how, at
						}
						continue
					}
				}
			}
			return "argument of " + Callee(x), x
		case *ssa.MapUpdate:
			if x.Map == v {
				continue // a write: reported by the ownership rule
			}
			return "stored into a map", x
		case *ssa.Store:
			if x.Addr == v {
				continue
			}
			return "stored into another object", x
		case *ssa.Return:
			return "returned to the caller", x
		case *ssa.MakeInterface:
			return "converted to an interface value", x
		case *ssa.MakeClosure:
			return "captured by a closure", x
		default:
			return sprintf("%T", ref), ref
		}
	}
	return "", nil
}

// poolReset: the object taken from a sync.Pool was used by an earlier request.
func (c *Ctx) poolReset(fn *ssa.Function, get *ssa.Call) {
	r := c.R
	name := FuncName(fn)
	// find the type assertion(s) on the result
	var objs []ssa.Value
	if get.Referrers() != nil {
		for _, ref := range *get.Referrers() {
			if ta, ok := ref.(*ssa.TypeAssert); ok {
				if ta.CommaOk {
					if ta.Referrers() != nil {
						for _, e := range *ta.Referrers() {
							if ex, ok := e.(*ssa.Extract); ok && ex.Index == 0 {
								objs = append(objs, ex)
							}
						}
					}
				} else {
					objs = append(objs, ta)
				}
			}
		}
	}
	if len(objs) == 0 {
		r.Unknown("C20.pool", name, "sync.Pool.Get", posf(c, get), "object recycled between requests through a sync.Pool, use not understood")
		return
	}
	for _, o := range objs {
		if _, isMap := o.Type().Underlying().(*types.Map); isMap {
			// a map: emptied (clear, or a range over it that deletes every key) before
			// anything else looks at it
			var resets, uses []ssa.Instruction
			for _, ref := range c.poolUses(o) {
				switch x := ref.(type) {
				case *ssa.Call:
					if bi, isB := x.Call.Value.(*ssa.Builtin); isB && bi.Name() == "clear" {
						resets = append(resets, x)
						continue
					}
					if bi, isB := x.Call.Value.(*ssa.Builtin); isB && bi.Name() == "delete" {
						continue // judged with the range that drives it
					}
					uses = append(uses, x)
				case *ssa.Range:
					// a range whose loop deletes from the map is the reset loop
					deletes := false
					for _, ref2 := range c.poolUses(o) {
						if dc, ok := ref2.(*ssa.Call); ok {
							if bi, isB := dc.Call.Value.(*ssa.Builtin); isB && bi.Name() == "delete" && BlockReaches(x.Block(), dc.Block()) && BlockReaches(dc.Block(), dc.Block()) {
								deletes = true
							}
						}
					}
					if deletes {
						resets = append(resets, x)
					} else {
						uses = append(uses, x)
					}
				default:
					uses = append(uses, ref)
				}
			}
			okReset := false
			for _, rs := range resets {
				all := true
				for _, u := range uses {
					if !InstrDominates(rs, u) {
						all = false
					}
				}
				if all {
					okReset = true
				}
			}
			r.Check(okReset, "C20.pool", name, "reset of "+Short(o.Type().String())+" from sync.Pool", posf(c, get), "the map is emptied before anything reads it", "the map taken from the pool was used by an earlier request and is not emptied before it is used: entries the earlier request left (on any exit that skipped its clean-up) are visible to this one")
			continue
		}
		if hasResetMethod(o.Type()) {
			// a buffer-like object: Reset() before any other use, and what is handed
			// out of the function does not alias its memory
			var resets, uses []ssa.Instruction
			for _, ref := range c.poolUses(o) {
				if call, ok := ref.(*ssa.Call); ok && strings.HasSuffix(Callee(call), ").Reset") && len(call.Call.Args) > 0 && call.Call.Args[0] == o {
					resets = append(resets, call)
					continue
				}
				uses = append(uses, ref)
			}
			okReset := false
			for _, rs := range resets {
				all := true
				for _, u := range uses {
					if !InstrDominates(rs, u) {
						all = false
					}
				}
				if all {
					okReset = true
				}
			}
			if !r.Check(okReset, "C20.pool", name, "reset of "+Short(o.Type().String())+" from sync.Pool", posf(c, get), "Reset() precedes every use", "the "+Short(o.Type().String())+" taken from the pool was used by an earlier request and is not Reset() before it is used: what the earlier request left in it (on any exit that skipped its clean-up) becomes part of this one's output") {
				continue
			}
			for _, u := range uses {
				call, ok := u.(*ssa.Call)
				if !ok || !strings.HasSuffix(Callee(call), ").Bytes") {
					continue
				}
				if esc := aliasEscapes(call, 0); esc != nil {
					r.Bad("C20.pool", name, "Bytes() of pooled "+Short(o.Type().String())+" handed out", posf(c, esc), "the slice returned aliases the pooled buffer's memory, which goes back to the pool when this function ends: the next request that takes the buffer overwrites what the caller is still using")
				}
			}
			continue
		}
		st, ok := derefType(o.Type()).Underlying().(*types.Struct)
		if !ok {
			r.Unknown("C20.pool", name, "sync.Pool.Get "+o.Type().String(), posf(c, get), "object recycled between requests through a sync.Pool; only struct objects whose fields are all reset are understood")
			continue
		}
		written := map[int]bool{}
		whole := false
		var walk func(v ssa.Value, d int)
		walk = func(v ssa.Value, d int) {
			if v.Referrers() == nil || d > 4 {
				return
			}
			for _, ref := range *v.Referrers() {
				switch x := ref.(type) {
				case *ssa.FieldAddr:
					if x.Referrers() != nil {
						for _, rr := range *x.Referrers() {
							if s, ok := rr.(*ssa.Store); ok && s.Addr == x && InstrDominates(get, s) {
								written[x.Field] = true
							}
						}
					}
				case *ssa.Store:
					if x.Addr == v {
						whole = true
					}
				case *ssa.Phi:
					walk(x, d+1)
				}
			}
		}
		walk(o, 0)
		var missing []string
		for i := 0; i < st.NumFields(); i++ {
			if !written[i] && !whole {
				missing = append(missing, st.Field(i).Name())
			}
		}
		r.Check(len(missing) == 0, "C20.pool", name, "reset of "+Short(o.Type().String())+" from sync.Pool", posf(c, get), "every field is overwritten before use", "the object taken from the pool was used by an earlier request and these fields are not reset before use: "+strings.Join(missing, ", ")+": the earlier request's values are visible to this one")
	}
}

var readOnlyCollectionCalls = map[string]bool{
	"(net/url.Values).Get": true, "(net/url.Values).Encode": true, "(net/url.Values).Has": true,
	"(net/http.Header).Get": true, "(net/http.Header).Values": true, "(net/http.Header).Clone": true,
	"strings.Join": true, "sort.SearchStrings": true,
}

// capturedShare: a map or slice created when the handler chain is wired and
// captured by the per-request closure is one object for every request through
// that handler. The ownership rule sees direct writes; here: handing it to a
// function or method that is not known to only read it (vals.Set(...) writes
// the map inside net/url).
func (c *Ctx) capturedShare() {
	r := c.R
	n := 0
	for _, fn := range c.P.Funcs {
		par := fn.Parent()
		if par == nil || !c.isRequestTime(fn) || c.isRequestTime(par) {
			continue
		}
		name := FuncName(fn)
		for _, fv := range fn.FreeVars {
			t := derefType(fv.Type())
			_, isMap := t.Underlying().(*types.Map)
			_, isSlice := t.Underlying().(*types.Slice)
			if !isMap && !isSlice {
				continue
			}
			n++
			bad, at := "", c.P.Pos(fn.Pos())
			var walk func(v ssa.Value, d int)
			walk = func(v ssa.Value, d int) {
				if v.Referrers() == nil || d > 4 || bad != "" {
					return
				}
				for _, ref := range *v.Referrers() {
					switch x := ref.(type) {
					case *ssa.UnOp:
						walk(x, d+1) // load of the captured cell
					case *ssa.ChangeType:
						walk(x, d+1)
					case *ssa.Phi:
						walk(x, d+1)
					case ssa.CallInstruction:
						cn := Callee(x)
						if b, ok := x.Common().Value.(*ssa.Builtin); ok && (b.Name() == "len" || b.Name() == "cap") {
							continue
						}
						if readOnlyCollectionCalls[cn] {
							continue
						}
						bad, at = "handed to "+cn, posf(c, x)
					case *ssa.MakeClosure:
						// captured further down: follow into the nested closure's free variable
						if nf, ok := x.Fn.(*ssa.Function); ok {
							for i, b := range x.Bindings {
								if b == v && i < len(nf.FreeVars) {
									walk(nf.FreeVars[i], d+1)
								}
							}
						}
					}
				}
			}
			walk(fv, 0)
			r.Check(bad == "", "C20.captured", name, "captured "+fv.Name(), at, "only read here", "the "+t.String()+" "+fv.Name()+" was created when the handler chain was wired and is shared by every request through this handler; here it is "+bad+", which may write it: concurrent requests race on it and see each other's entries")
		}
	}
	r.Extra["captured_collections"] = n
}

// handlerReceiverWrites: a request handler that is a method of a pointer
// receiver (the closure of a middleware turned into a small struct) is one
// value serving every request: a field of the receiver written while serving
// (a per-request logger, user, counter kept "for the helper methods") is
// written by concurrent requests without synchronisation, and read by the
// wrong one. Per-request values belong in locals or in the request context.
// Types that are themselves created per request (they hold the request's
// ResponseWriter) are exempt.
func (c *Ctx) handlerReceiverWrites() {
	r := c.R
	n := 0
	for _, fn := range c.P.Funcs {
		if strings.HasSuffix(pkgOf(fn), "/mocks") || fn.Signature.Recv() == nil || len(fn.Params) == 0 || !hasRequestParams(fn) {
			continue
		}
		recv := fn.Params[0]
		pt, isPtr := recv.Type().Underlying().(*types.Pointer)
		if !isPtr {
			continue
		}
		st, isStruct := pt.Elem().Underlying().(*types.Struct)
		if !isStruct {
			continue
		}
		perRequest := false
		for i := 0; i < st.NumFields(); i++ {
			if ft := st.Field(i).Type().String(); strings.HasSuffix(ft, "http.ResponseWriter") || strings.HasSuffix(ft, "*net/http.Request") {
				perRequest = true
			}
		}
		if perRequest {
			continue
		}
		n++
		name := FuncName(fn)
		for _, b := range fn.Blocks {
			for _, in := range b.Instrs {
				store, ok := in.(*ssa.Store)
				if !ok {
					continue
				}
				fa, ok := store.Addr.(*ssa.FieldAddr)
				if !ok || fa.X != ssa.Value(recv) {
					continue
				}
				r.Bad("C20.handler-field", name, "receiver."+fieldName(fa)+" = …", posf(c, store), "the handler writes a field of its receiver while serving a request; the receiver is one value shared by all requests through this handler, so concurrent requests race on the field and may read each other's value")
			}
		}
	}
	r.Extra["pointer_receiver_handlers"] = n
}

// statelessType: t is a (pointer to a) named type of the repository and none of
// its methods stores through the receiver, updates a map reached from it or
// hands the receiver on.
func (c *Ctx) statelessType(t types.Type) bool {
	base := t
	if p, ok := base.(*types.Pointer); ok {
		base = p.Elem()
	}
	nt, ok := base.(*types.Named)
	if !ok || nt.Obj().Pkg() == nil || c.P.ByPath[nt.Obj().Pkg().Path()] == nil {
		return false
	}
	ms := c.P.SSA.MethodSets.MethodSet(types.NewPointer(nt))
	if ms.Len() == 0 {
		return false
	}
	for i := 0; i < ms.Len(); i++ {
		fn := c.P.SSA.MethodValue(ms.At(i))
		if fn == nil || fn.Blocks == nil {
			return false
		}
		// a promoted-method wrapper delegates to the real method; read that one
		if fn.Synthetic != "" {
			if o, ok := fn.Object().(*types.Func); ok && o != nil {
				if real := c.P.SSA.FuncValue(o); real != nil && real.Blocks != nil {
					fn = real
				}
			}
		}
		if len(fn.Params) == 0 {
			return false
		}
		recv := ssa.Value(fn.Params[0])
		var fromRecv func(v ssa.Value, d int) bool
		fromRecv = func(v ssa.Value, d int) bool {
			if d > 8 || v == nil {
				return false
			}
			if v == recv {
				return true
			}
			switch x := v.(type) {
			case *ssa.FieldAddr:
				return fromRecv(x.X, d+1)
			case *ssa.IndexAddr:
				return fromRecv(x.X, d+1)
			case *ssa.UnOp:
				return fromRecv(x.X, d+1)
			case *ssa.Field:
				return fromRecv(x.X, d+1)
			case *ssa.Alloc:
				// a value receiver spilled into a local: a private copy
				return false
			}
			return false
		}
		for _, b := range fn.Blocks {
			for _, in := range b.Instrs {
				switch x := in.(type) {
				case *ssa.Store:
					if fromRecv(x.Addr, 0) {
						return false
					}
					if x.Val == recv {
						return false
					}
				case *ssa.MapUpdate:
					if fromRecv(x.Map, 0) {
						return false
					}
				case ssa.CallInstruction:
					for _, a := range x.Common().Args {
						if a == recv {
							return false
						}
					}
					if x.Common().IsInvoke() && x.Common().Value == recv {
						return false
					}
				}
			}
		}
	}
	return true
}

// poolUses: the instructions that use a pooled object, other than handing it
// back to the pool (Put, directly or through a helper that only resets and puts).
func (c *Ctx) poolUses(o ssa.Value) []ssa.Instruction {
	var out []ssa.Instruction
	if o.Referrers() == nil {
		return nil
	}
	isPutCall := func(cc *ssa.CallCommon) bool {
		if strings.HasSuffix(Callee2(cc), "sync.Pool).Put") {
			return true
		}
		if f := cc.StaticCallee(); f != nil && c.inRepo(f) && isPutHelper(f) {
			return true
		}
		return false
	}
	for _, ref := range *o.Referrers() {
		switch x := ref.(type) {
		case *ssa.DebugRef:
			continue
		case *ssa.Call:
			if isPutCall(&x.Call) {
				continue
			}
		case *ssa.Defer:
			if isPutCall(&x.Call) {
				continue
			}
		case *ssa.MakeInterface:
			// handed to Put as an interface value
			onlyPut := x.Referrers() != nil
			if onlyPut {
				for _, r2 := range *x.Referrers() {
					switch y := r2.(type) {
					case *ssa.Call:
						if !isPutCall(&y.Call) {
							onlyPut = false
						}
					case *ssa.Defer:
						if !isPutCall(&y.Call) {
							onlyPut = false
						}
					case *ssa.DebugRef:
					default:
						onlyPut = false
					}
				}
			}
			if onlyPut {
				continue
			}
		}
		out = append(out, ref)
	}
	return out
}

// Callee2 names the callee of a call description.
func Callee2(cc *ssa.CallCommon) string {
	if f := cc.StaticCallee(); f != nil {
		return Short(f.String())
	}
	return ""
}

// isPutHelper: a function whose parameter is only Reset() and put back.
func isPutHelper(f *ssa.Function) bool {
	if len(f.Params) != 1 || f.Params[0].Referrers() == nil {
		return false
	}
	puts := false
	for _, ref := range *f.Params[0].Referrers() {
		switch x := ref.(type) {
		case *ssa.DebugRef:
		case *ssa.Call:
			if strings.HasSuffix(Callee2(&x.Call), ").Reset") {
				continue
			}
			return false
		case *ssa.MakeInterface:
			if x.Referrers() == nil {
				return false
			}
			for _, r2 := range *x.Referrers() {
				if y, ok := r2.(*ssa.Call); ok && strings.HasSuffix(Callee2(&y.Call), "sync.Pool).Put") {
					puts = true
					continue
				}
				if _, ok := r2.(*ssa.DebugRef); ok {
					continue
				}
				return false
			}
		default:
			return false
		}
	}
	return puts
}

func hasResetMethod(t types.Type) bool {
	ms := types.NewMethodSet(t)
	for i := 0; i < ms.Len(); i++ {
		m := ms.At(i).Obj()
		if m.Name() == "Reset" {
			if sig, ok := m.Type().(*types.Signature); ok && sig.Params().Len() == 0 && sig.Results().Len() == 0 {
				return true
			}
		}
	}
	return false
}

// aliasEscapes: the value (a slice into pooled memory) reaches a return,
// possibly re-sliced or merged on the way.
func aliasEscapes(v ssa.Value, d int) ssa.Instruction {
	if d > 5 || v.Referrers() == nil {
		return nil
	}
	for _, ref := range *v.Referrers() {
		switch x := ref.(type) {
		case *ssa.Return:
			return x
		case *ssa.Slice:
			if e := aliasEscapes(x, d+1); e != nil {
				return e
			}
		case *ssa.Phi:
			if e := aliasEscapes(x, d+1); e != nil {
				return e
			}
		case *ssa.ChangeType:
			if e := aliasEscapes(x, d+1); e != nil {
				return e
			}
		case *ssa.Call:
			// library functions that hand back a sub-slice of their argument
			if n := Callee(x); strings.HasPrefix(n, "bytes.Trim") && len(x.Call.Args) > 0 && x.Call.Args[0] == v {
				if e := aliasEscapes(x, d+1); e != nil {
					return e
				}
			}
		case *ssa.Extract:
			if e := aliasEscapes(x, d+1); e != nil {
				return e
			}
		case *ssa.Store:
			// a result spilled to a local because the function defers
			if al, ok := x.Addr.(*ssa.Alloc); ok && x.Val == v && al.Referrers() != nil {
				for _, r2 := range *al.Referrers() {
					if ld, ok := r2.(*ssa.UnOp); ok && ld.X == ssa.Value(al) {
						if e := aliasEscapes(ld, d+1); e != nil {
							return e
						}
					}
				}
			}
		}
	}
	return nil
}
