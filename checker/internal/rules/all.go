package rules

// seq runs several rule groups under one property. Sub-rules borrowed from a
// sibling property keep their own rule prefix in obligation keys (e.g. a
// C12.* obligation evaluated under C01): the property statements overlap
// there ("unconsumed one-time password" in C01 is C12's consumption rule).
func seq(fs ...func(*Ctx)) func(*Ctx) {
	return func(c *Ctx) {
		for _, f := range fs {
			f(c)
		}
	}
}

// All maps property ids to their rule sets.
var All = map[string]func(*Ctx){
	"C01": seq(C01, (*Ctx).c12OTP, (*Ctx).c12Recovery),
	"C02": seq(C02, (*Ctx).c12Recovery, (*Ctx).c12SMS),
	"C03": C03,
	"C04": C04,
	"C05": C05,
	"C06": C06,
	"C07": C07,
	"C08": C08,
	"C09": C09,
	"C10": C10,
	"C11": C11,
	"C12": C12,
	"C13": C13,
	"C14": C14,
	"C15": C15,
	"C16": C16,
	"C17": C17,
	"C18": C18,
	"C19": C19,
	"C20": C20,
}
