package rules

import (
	"strings"

	. "abverif/internal/engine"

	"golang.org/x/tools/go/ssa"
)

// seq runs several rule groups under one property. Sub-rules borrowed from a
// sibling property keep their own rule prefix in obligation keys (e.g. a
// C12.* obligation evaluated under C01): the property statements overlap
// there ("unconsumed one-time password" in C01 is C12's consumption rule).
func seq(fs ...func(*Ctx)) func(*Ctx) {
	return func(c *Ctx) {
		for _, f := range fs {
			f(c)
		}
	}
}

// All maps property ids to their rule sets.
var All = map[string]func(*Ctx){
	"C01": seq(C01, (*Ctx).c12OTP, (*Ctx).c12Recovery, (*Ctx).hasherPassThrough, (*Ctx).smsInvariant, func(c *Ctx) {
		c.flushUnmodified("C01.queue")
		c.presenceRule("C01.presence")
		c.oauthPIDCodec("C01.oauth-pid")
		c.compareWhole("C01.compare-whole", nil)
		c.utcInstants("C01.utc")
		issuers := map[*ssa.Function]bool{}
		for _, s := range c.Issuances() {
			issuers[s.Fn] = true
		}
		c.loopVarCapture("C01.loop-capture", func(f *ssa.Function) bool { return issuers[f] })
		c.registerSessionPID("C01.register-pid")
	}, withExplanation(C05)),
	"C02": seq(C02, (*Ctx).c12Recovery, (*Ctx).c12SMS, (*Ctx).c01Pending, (*Ctx).c01Hijack, func(c *Ctx) {
		c.beforeHandlersIssueNothing("C02.before-no-issue")
		c.localizeFallback("C02.status-text")
		c.halfAuthUpgradeGated("C02.halfauth-upgrade")
		c.registryStable("C02.registry")
		c.secretEntropy("C02.entropy")
		c.totpValidateDefaults("C02.totp-window")
		c.perInstanceWiring("C02.per-instance")
		c.pendingPIDVerbatim("C02.pending-verbatim")
		c.totpNormalised("C02.totp-normalised")
		c.compareWhole("C02.compare-whole", exactPkgs("ab/otp/twofactor/sms2fa", "ab/otp/twofactor/totp2fa"))
	}),
	"C03": seq(C03, func(c *Ctx) {
		c.ctxUserFirst("C03.subject")
		c.eventsCallShape("C03")
		c.registryStable("C03.registry")
		c.utcInstants("C03.clock")
	}),
	"C04": seq(C04, func(c *Ctx) {
		c.statusFailureReported("C04.status-report")
		c.vetoOnlyAfterCheck("C04.veto-after-check")
		c.lockEnforced("C04.lock-enforced")
		c.hasherPassThrough()
		c.successResets("C04.success-resets")
		c.afterHandlersUnconditional("C04.after-unconditional")
		c.utcInstants("C04.utc")
		c.registryStable("C04.registry")
		c.ctxUserFirst("C04.subject")
		c.loginLooksUpFirst("C04.lookup-first")
		c.authFailSubject("C04.fail-subject")
		c.configVerbatim("C04.config-verbatim", "LockAfter", "LockWindow", "LockDuration")
		c.compareWhole("C04.compare-whole", exactPkgs("ab/otp", "ab/otp/twofactor/sms2fa", "ab/otp/twofactor/totp2fa"))
	}),
	"C05": seq(C05, func(c *Ctx) {
		c.moduleCopied("C05.instance")
		c.readerVerbatim("C05.reader")
		c.secretEntropy("C05.entropy")
		c.utcInstants("C05.utc")
		c.supersededOnEveryRequest("C05.supersede-always")
		c.compareWhole("C05.compare-whole", inPkgs("ab/confirm", "ab/recover"))
		c.configVerbatim("C05.config-verbatim", "RecoverTokenDuration")
		c.expiryWriters("C05.expiry-writers")
	}),
	"C06": seq(C06, func(c *Ctx) { c.ctxUserFirst("C06.subject") }, withExplanation(C07)),
	"C07": seq(C07, func(c *Ctx) {
		c.logoutClear("C07.logout-cookie", "C07.logout-cookie", true)
		c.flushUnmodified("C07.queue")
		c.rememberRevokeWire("C07.revoke-wire", "C07.revoke")
		c.revokeSubject("C07.revoke-subject")
		c.ctxUserFirst("C07.subject")
		c.rememberOnlyOnTrue("C07.on-request")
		c.oauthRememberLiteral("C07.on-request")
		c.secretEntropy("C07.entropy")
		c.halfAuthUpgradeGated("C07.halfauth-upgrade")
		c.afterHandlersUnconditional("C07.after-unconditional")
		c.perInstanceWiring("C07.per-instance")
		c.cookieReaderTotal("C07.reader-total")
		c.rotatedBeforeAuthenticated("C07.rotated-first")
	}, borrow(C01, "C01.vgate", "C07.use-gate", func(o Obligation) bool {
		// a cookie logs in only through a successful UseRememberToken of this request
		return o.Rule == "C01.vgate" && strings.Contains(o.Func, "ab/remember.")
	}), borrow(C11, "C11.family", "C07.cookie-loaded", func(o Obligation) bool {
		// the remember cookie reaches the middleware only if the request's cookie state was loaded
		return o.Rule == "C11.family" && strings.Contains(o.Func, "LoadClientState") && strings.Contains(o.Key, "ReadState(")
	})),
	"C08": seq(C08, func(c *Ctx) {
		c.mwOutermost("C08.outermost")
		c.apiStatusVerbatim("C08.api-status")
		c.refusalConfigMapped("C08.refusal-config")
		c.routeRequirements("C08.route-reqs")
		c.clientStoresPerRequest("C08.stores-per-request")
	}, borrow(C18, "C18.propagate", "C08.load-err", func(o Obligation) bool {
		// a storage failure while loading the user is the 500 outcome: the loaders
		// the middleware relies on hand every such error back
		return o.Rule == "C18.propagate" && (strings.Contains(o.Func, "CurrentUser") || strings.Contains(o.Func, "MountedMiddleware2") || strings.Contains(o.Func, "currentUser"))
	})),
	"C09": seq(C09, (*Ctx).flushDiscipline, func(c *Ctx) {
		c.flushUnmodified("C09.queue")
		c.noStateAfterWrite("C09.before-write")
		c.afterHandlersUnconditional("C09.after-unconditional")
		c.delAllQueued("C09.delall-queued")
		c.configVerbatim("C09.config-verbatim", "ExpireAfter")
		c.stampSurvives("C09.stamp-survives")
	}, borrow(C10, "C10.delall-contract", "C09.delall-contract", func(o Obligation) bool { return o.Rule == "C10.delall-contract" })),
	"C10": seq(C10, (*Ctx).flushDiscipline, func(c *Ctx) {
		c.delAllQueued("C10.delall-queued")
		c.redirectorWrites("C10.answer-written")
		c.zeroValueInvoke("C10.zero-value", func(f *ssa.Function) bool { return pkgOf(f) == "ab/logout" })
		c.logoutHooksInfallible("C10.hooks-infallible")
	}, borrow(func(c *Ctx) { c.nilResultUse("C18.nil-result") }, "C18.nil-result", "C10.nil-result", func(o Obligation) bool {
		// logout does its work whoever (if anybody) the session names
		return o.Rule == "C18.nil-result" && strings.Contains(o.Func, "ab/logout.")
	})),
	"C11": seq(C11, func(c *Ctx) {
		c.noStateAfterWrite("C11.before-write")
		c.readStateErrors("C11.read-err")
		c.clientStoresPerRequest("C11.stores-per-request")
		c.ctxParentIsRequest("C11.ctx-parent")
	}),
	"C12": seq(C12, (*Ctx).smsInvariant, func(c *Ctx) {
		c.localizeFallback("C12.status-text")
		c.secretEntropy("C12.entropy")
		c.compareWhole("C12.compare-whole", exactPkgs("ab/otp", "ab/otp/twofactor/sms2fa", "ab/otp/twofactor/totp2fa"))
		c.totpValidateDefaults("C12.totp-window")
		c.issuanceGated("C12.issued-only", exactPkgs("ab/otp", "ab/otp/twofactor/sms2fa", "ab/otp/twofactor/totp2fa"))
		c.totpNormalised("C12.totp-normalised")
	}),
	"C13": seq(C13, (*Ctx).c12Recovery, func(c *Ctx) {
		c.localizeFallback("C13.status-text")
		c.halfAuthUpgradeGated("C13.halfauth-upgrade")
		c.secretEntropy("C13.entropy")
		c.totpValidateDefaults("C13.totp-window")
		c.compareWhole("C13.compare-whole", inPkgs("ab/otp/twofactor"))
	}, withExplanation(C09), withExplanation(C10), withExplanation(func(c *Ctx) {
		c.gateOnly = true
		C08(c)
		c.gateOnly = false
	})),
	"C14": seq(C14, func(c *Ctx) {
		c.flushUnmodified("C14.queue")
		c.providerErrors("C14.details-err")
		c.providerUIDVerbatim("C14.details-uid")
		c.secretEntropy("C14.entropy")
		c.loopVarCapture("C14.loop-capture", inPkgs("ab/oauth2"))
	}),
	"C15": seq(C15, func(c *Ctx) {
		c.oauthParamsReset("C15.params-reset")
		c.followRedirSites("C15.follow-sites")
	}, borrow(C20, "C20.", "C15.shared.", func(o Obligation) bool {
		// the return target is this request's: no object shared between requests
		// in the handlers that compute it
		return strings.Contains(o.Func, "ab/oauth2.") || strings.Contains(strings.ToLower(o.Func), "redirect")
	})),
	"C16": seq(C16, func(c *Ctx) {
		c.verdictNotAnError("C16.verdict")
		c.ctxUserFirst("C16.subject")
		c.vetoesFirst("C16.vetoes-first")
		c.lockedResponseFixed("C16.locked-response")
		c.ctxParentIsRequest("C16.ctx-parent")
		c.beforeHandledHonoured("C16.before-handled")
		c.lockWiring("C16.lock-wire")
		c.lockAnswersLocked("C16.locked-answer")
		c.recoverStartQuiet("C16.recover-quiet")
		c.loginLooksUpFirst("C16.lookup-first")
		c.recoverStartNoOwnVerdict("C16.recover-own-error")
		c.recoverStartOneAnswer("C16.recover-one-answer")
		if uls := c.P.FuncOpt("(*ab/lock.Lock).updateLockedState"); uls != nil {
			c.lockEveryAttempt("C16.every-attempt", uls)
		}
		if uls := c.P.FuncOpt("(*ab/lock.Lock).updateLockedState"); uls != nil {
			c.lockStateStructure(uls)
		}
	}),
	"C17": seq(C17, (*Ctx).hasherPassThrough, (*Ctx).c19Whitelist, func(c *Ctx) {
		c.storedListInPlace("C17.stored-list", nil)
		c.lastCodeNotRecovery("C17.lastcode-not-recovery")
	},
		// what is mailed is assembled from this request's values only: the rules
		// on shared state (C20), for the functions that build and send mail
		borrow(C20, "C20.", "C17.mail-shared.", func(o Obligation) bool {
			return strings.Contains(strings.ToLower(o.Func+" "+o.Pos), "mail")
		})),
	"C18": seq(C18, func(c *Ctx) {
		c.readStateErrors("C18.read-err")
		c.flushSites("C18.flush-sites")
		c.errorPathsPutNothing("C18.error-path-puts")
		c.storeBeforeSession("C18.store-before-session")
		c.zeroValueInvoke("C18.zero-value", nil)
		c.assertAfterErrCheck("C18.assert-after-check")
		c.nilResultUse("C18.nil-result")
		c.noCredentialRestore("C18.no-restore")
		c.deferredStorageError("C18.defer-err")
		c.middlewareFailClosed("C18.mw-fail-closed")
	}, borrow(C05, "C05.supersede", "C18.mail-after-save", func(o Obligation) bool { return o.Rule == "C05.supersede" })),
	"C19": seq(C19, (*Ctx).hasherPassThrough, func(c *Ctx) {
		c.confirmPairChecked("C19.confirm-pair")
		c.registerAfterCreated("C19.after-created")
	}),
	"C20": seq(C20, func(c *Ctx) {
		c.moduleCopied("C20.instance")
		c.ctxDataReadOnly("C20.ctx-data")
		c.perInstanceWiring("C20.per-instance")
		c.slotPairing("C20.slot-pairing")
	}),
}

// inPkgs selects the functions of the named packages and of the packages below them.
func inPkgs(pkgs ...string) func(*ssa.Function) bool {
	return func(f *ssa.Function) bool {
		p := pkgOf(f)
		for _, q := range pkgs {
			if p == q || (len(p) > len(q) && p[:len(q)] == q && p[len(q)] == '/') {
				return true
			}
		}
		return false
	}
}

func exactPkgs(pkgs ...string) func(*ssa.Function) bool {
	return func(f *ssa.Function) bool {
		p := pkgOf(f)
		for _, q := range pkgs {
			if p == q {
				return true
			}
		}
		return false
	}
}

// borrow runs a sibling property's rules and keeps the obligations selected
// by keep under this property's own prefix: the sibling's rule, applied to
// the functions this property depends on.
func borrow(f func(*Ctx), fromPfx, toPfx string, keep func(Obligation) bool) func(*Ctx) {
	return func(c *Ctx) {
		orig := c.R
		tmp := NewReport(c.P, orig.Property, orig.Tier)
		c.R = tmp
		f(c)
		c.R = orig
		for _, o := range tmp.Obls {
			if !strings.HasPrefix(o.Rule, fromPfx) || o.Status == Note || !keep(o) {
				continue
			}
			o.Rule = toPfx + o.Rule[len(fromPfx):]
			if strings.HasPrefix(o.Key, fromPfx) {
				o.Key = toPfx + o.Key[len(fromPfx):]
			}
			orig.Add(o)
		}
	}
}
