package rules

// All maps property ids to their rule sets.
var All = map[string]func(*Ctx){
	"C01": C01,
}
