package rules

// All maps property ids to their rule sets.
var All = map[string]func(*Ctx){
	"C01": C01,
	"C02": C02,
	"C03": C03,
	"C04": C04,
	"C05": C05,
	"C06": C06,
	"C07": C07,
	"C08": C08,
	"C09": C09,
	"C10": C10,
	"C11": C11,
}
