package rules

import (
	"go/token"
	"go/types"
	"net/url"
	"strings"

	. "abverif/internal/engine"

	"golang.org/x/tools/go/ssa"
)

// aval is an abstract value of the guard evaluator.
type aval struct {
	kind   int // 0 unknown, 1 string, 2 bool, 3 int, 4 *url.URL, 5 error
	s      string
	b      bool
	i      int64
	u      *url.URL
	nilErr bool
	tuple  []aval
}

const defaultMarker = "\x00DEFAULT\x00"

// guardEval evaluates the string/boolean fragment a redirect guard is written
// in, for one witness value of the tainted parameter. It evaluates pure
// library predicates on constants; no repository code is run.
type guardEval struct {
	c       *Ctx
	tainted ssa.Value
	witness string
	phi     func(*ssa.Phi) ssa.Value
	unknown []string
}

func (g *guardEval) ev(v ssa.Value, d int) aval {
	if v == nil || d > 24 {
		return aval{}
	}
	if v == g.tainted {
		return aval{kind: 1, s: g.witness}
	}
	if s, ok := ConstStr(v); ok {
		return aval{kind: 1, s: s}
	}
	if b, ok := ConstBool(v); ok {
		return aval{kind: 2, b: b}
	}
	if n, ok := ConstInt(v); ok {
		return aval{kind: 3, i: n}
	}
	if IsNilConst(v) {
		return aval{kind: 5, nilErr: true}
	}
	switch x := v.(type) {
	case *ssa.Phi:
		if g.phi != nil {
			if e := g.phi(x); e != nil {
				return g.ev(e, d+1)
			}
		}
		return aval{}
	case *ssa.Convert:
		return g.ev(x.X, d+1)
	case *ssa.ChangeType:
		return g.ev(x.X, d+1)
	case *ssa.UnOp:
		if x.Op == token.NOT {
			a := g.ev(x.X, d+1)
			if a.kind == 2 {
				return aval{kind: 2, b: !a.b}
			}
			return aval{}
		}
		if x.Op == token.MUL {
			if fa, ok := x.X.(*ssa.FieldAddr); ok {
				fld := fieldName(fa)
				// fields of the RedirectOptions parameter copy
				if strings.HasSuffix(fa.X.Type().String(), "RedirectOptions") {
					switch fld {
					case "RedirectPath":
						return aval{kind: 1, s: defaultMarker}
					case "FollowRedirParam":
						return aval{kind: 2, b: true}
					case "Success", "Failure":
						return aval{kind: 1, s: ""}
					}
				}
				base := g.ev(fa.X, d+1)
				if base.kind == 4 && base.u != nil {
					switch fld {
					case "Host":
						return aval{kind: 1, s: base.u.Host}
					case "Scheme":
						return aval{kind: 1, s: base.u.Scheme}
					case "Path":
						return aval{kind: 1, s: base.u.Path}
					case "Opaque":
						return aval{kind: 1, s: base.u.Opaque}
					}
				}
			}
			// single-store local cell
			if a, ok := x.X.(*ssa.Alloc); ok && a.Referrers() != nil {
				var st *ssa.Store
				n := 0
				for _, r := range *a.Referrers() {
					if s, ok := r.(*ssa.Store); ok && s.Addr == a {
						st = s
						n++
					}
				}
				if n == 1 {
					return g.ev(st.Val, d+1)
				}
			}
		}
		return aval{}
	case *ssa.Extract:
		t := g.ev(x.Tuple, d+1)
		if x.Index < len(t.tuple) {
			return t.tuple[x.Index]
		}
		return aval{}
	case *ssa.BinOp:
		l, r := g.ev(x.X, d+1), g.ev(x.Y, d+1)
		switch {
		case x.Op == token.ADD && l.kind == 1 && r.kind == 1:
			return aval{kind: 1, s: l.s + r.s}
		case l.kind == 1 && r.kind == 1:
			switch x.Op {
			case token.EQL:
				return aval{kind: 2, b: l.s == r.s}
			case token.NEQ:
				return aval{kind: 2, b: l.s != r.s}
			}
		case l.kind == 3 && r.kind == 3:
			switch x.Op {
			case token.EQL:
				return aval{kind: 2, b: l.i == r.i}
			case token.NEQ:
				return aval{kind: 2, b: l.i != r.i}
			case token.LSS:
				return aval{kind: 2, b: l.i < r.i}
			case token.LEQ:
				return aval{kind: 2, b: l.i <= r.i}
			case token.GTR:
				return aval{kind: 2, b: l.i > r.i}
			case token.GEQ:
				return aval{kind: 2, b: l.i >= r.i}
			case token.ADD:
				return aval{kind: 3, i: l.i + r.i}
			case token.SUB:
				return aval{kind: 3, i: l.i - r.i}
			}
		case l.kind == 2 && r.kind == 2:
			switch x.Op {
			case token.EQL:
				return aval{kind: 2, b: l.b == r.b}
			case token.NEQ:
				return aval{kind: 2, b: l.b != r.b}
			}
		case l.kind == 5 && r.kind == 5:
			switch x.Op {
			case token.EQL:
				return aval{kind: 2, b: l.nilErr == r.nilErr}
			case token.NEQ:
				return aval{kind: 2, b: l.nilErr != r.nilErr}
			}
		case (l.kind == 4 && r.kind == 5) || (l.kind == 5 && r.kind == 4):
			// u == nil / u != nil
			isNil := (l.kind == 4 && l.u == nil) || (r.kind == 4 && r.u == nil)
			if x.Op == token.EQL {
				return aval{kind: 2, b: isNil}
			}
			if x.Op == token.NEQ {
				return aval{kind: 2, b: !isNil}
			}
		}
		return aval{}
	case *ssa.Lookup:
		s, i := g.ev(x.X, d+1), g.ev(x.Index, d+1)
		if s.kind == 1 && i.kind == 3 && i.i >= 0 && int(i.i) < len(s.s) {
			return aval{kind: 3, i: int64(s.s[i.i])}
		}
		return aval{}
	case *ssa.Slice:
		s := g.ev(x.X, d+1)
		if s.kind != 1 {
			return aval{}
		}
		lo, hi := 0, len(s.s)
		if x.Low != nil {
			a := g.ev(x.Low, d+1)
			if a.kind != 3 {
				return aval{}
			}
			lo = int(a.i)
		}
		if x.High != nil {
			a := g.ev(x.High, d+1)
			if a.kind != 3 {
				return aval{}
			}
			hi = int(a.i)
		}
		if lo < 0 || hi > len(s.s) || lo > hi {
			return aval{}
		}
		return aval{kind: 1, s: s.s[lo:hi]}
	case *ssa.Call:
		return g.call(x, d)
	}
	return aval{}
}

func (g *guardEval) call(x *ssa.Call, d int) aval {
	name := Callee(x)
	args := make([]aval, len(x.Call.Args))
	for i, a := range x.Call.Args {
		args[i] = g.ev(a, d+1)
	}
	str := func(i int) (string, bool) {
		if i < len(args) && args[i].kind == 1 && !strings.Contains(args[i].s, defaultMarker) {
			return args[i].s, true
		}
		return "", false
	}
	b := func(v bool) aval { return aval{kind: 2, b: v} }
	s0, ok0 := str(0)
	s1, ok1 := str(1)
	switch name {
	case "builtin:len":
		if ok0 {
			return aval{kind: 3, i: int64(len(s0))}
		}
	case "strings.Contains":
		if ok0 && ok1 {
			return b(strings.Contains(s0, s1))
		}
	case "strings.HasPrefix":
		if ok0 && ok1 {
			return b(strings.HasPrefix(s0, s1))
		}
	case "strings.HasSuffix":
		if ok0 && ok1 {
			return b(strings.HasSuffix(s0, s1))
		}
	case "strings.ContainsAny":
		if ok0 && ok1 {
			return b(strings.ContainsAny(s0, s1))
		}
	case "strings.ContainsRune":
		if ok0 && len(args) > 1 && args[1].kind == 3 {
			return b(strings.ContainsRune(s0, rune(args[1].i)))
		}
	case "strings.EqualFold":
		if ok0 && ok1 {
			return b(strings.EqualFold(s0, s1))
		}
	case "strings.Index":
		if ok0 && ok1 {
			return aval{kind: 3, i: int64(strings.Index(s0, s1))}
		}
	case "strings.IndexByte":
		if ok0 && len(args) > 1 && args[1].kind == 3 {
			return aval{kind: 3, i: int64(strings.IndexByte(s0, byte(args[1].i)))}
		}
	case "strings.IndexAny":
		if ok0 && ok1 {
			return aval{kind: 3, i: int64(strings.IndexAny(s0, s1))}
		}
	case "strings.TrimSpace":
		if ok0 {
			return aval{kind: 1, s: strings.TrimSpace(s0)}
		}
	case "strings.ToLower":
		if ok0 {
			return aval{kind: 1, s: strings.ToLower(s0)}
		}
	case "strings.TrimPrefix":
		if ok0 && ok1 {
			return aval{kind: 1, s: strings.TrimPrefix(s0, s1)}
		}
	case "strings.TrimLeft":
		if ok0 && ok1 {
			return aval{kind: 1, s: strings.TrimLeft(s0, s1)}
		}
	case "net/url.Parse":
		if ok0 {
			u, err := url.Parse(s0)
			return aval{tuple: []aval{{kind: 4, u: u}, {kind: 5, nilErr: err == nil}}}
		}
	case "(*net/url.URL).IsAbs":
		if len(args) > 0 && args[0].kind == 4 && args[0].u != nil {
			return b(args[0].u.IsAbs())
		}
	case "(*net/url.URL).Hostname":
		if len(args) > 0 && args[0].kind == 4 && args[0].u != nil {
			return aval{kind: 1, s: args[0].u.Hostname()}
		}
	case "(*net/http.Request).FormValue":
		if x == g.tainted {
			return aval{kind: 1, s: g.witness}
		}
	}
	// an unmodelled call matters only when it is applied to the tainted value
	for _, a := range args {
		if a.kind == 1 && g.witness != "" && strings.Contains(a.s, g.witness) && name != "" {
			g.unknown = append(g.unknown, name)
			break
		}
	}
	return aval{}
}

// offsite witnesses: values a browser resolves to another origin, by class.
var offsiteWitnesses = []struct{ class, w string }{
	{"absolute", "http://evil.example/"},
	{"absolute", "https://evil.example"},
	{"absolute", "HtTpS://evil.example/x"},
	{"absolute", "https://evil.example/%zz"},
	{"absolute", " https://evil.example/"},
	{"absolute", "ftp://evil.example/"},
	{"scheme-relative", "//evil.example/"},
	{"scheme-relative", "///evil.example"},
	{"scheme-relative", "//evil.example@good.example/"},
	{"backslash", "/\\evil.example"},
	{"backslash", "\\\\evil.example"},
	{"backslash", "\\/evil.example"},
	{"control-char", "/\t/evil.example"},
	{"control-char", "\t//evil.example"},
	{"control-char", "\n//evil.example"},
	{"control-char", " //evil.example"},
	{"scheme-no-slashes", "javascript:alert(1)"},
	{"scheme-no-slashes", "http:/evil.example"},
	{"scheme-no-slashes", "data:text/html,x"},
}

// clientSources: origin of a value the client controls.
func (c *Ctx) clientSource(o Origin, taintedKeys map[string]bool) string {
	switch o.Kind {
	case "call":
		switch {
		case strings.HasPrefix(o.Name, "(*net/http.Request).FormValue#"), strings.HasPrefix(o.Name, "(*net/http.Request).PostFormValue#"):
			return "request parameter"
		case strings.HasPrefix(o.Name, "(*net/url.URL).Query#"):
			return "request query"
		case strings.HasPrefix(o.Name, "(*net/http.Request).Referer#"):
			return "request Referer header"
		case strings.HasPrefix(o.Name, "(*net/http.Request).UserAgent#"), strings.HasPrefix(o.Name, "(*net/http.Request).Cookie#"):
			return "request header"
		case strings.HasPrefix(o.Name, fnBodyRead+"#"):
			return "request body"
		case strings.HasPrefix(o.Name, "(net/url.Values).Get#"), strings.HasPrefix(o.Name, "(net/http.Header).Get#"), strings.HasPrefix(o.Name, "(net/http.Header).Values#"):
			// a value picked from a parameter/header collection: client data when the collection is the request's
			if call, ok := o.V.(ssa.CallInstruction); ok && len(call.Common().Args) > 0 {
				for _, ro := range c.fieldOrigins(call.Common().Args[0]) {
					if ro.V == o.V {
						continue
					}
					if s := c.clientSource(ro, taintedKeys); s != "" {
						return s
					}
				}
			}
		case strings.HasPrefix(o.Name, fnGetSession+"#"):
			if k, ok := constArgStr(o.V.(ssa.CallInstruction), 1); ok && taintedKeys[k] {
				return "session[" + k + "] (client-supplied when stored)"
			}
		}
		if call, ok := o.V.(ssa.CallInstruction); ok && call.Common().IsInvoke() {
			m := call.Common().Method.Name()
			if strings.HasPrefix(m, "Get") && !c.isUserType(call.Common().Value.Type()) && strings.Contains(call.Common().Value.Type().String(), "Valuer") {
				return "request body value " + m
			}
		}
	case "field":
		if strings.HasSuffix(o.Name, "URL.RawQuery") || strings.HasSuffix(o.Name, "URL.Path") || strings.HasSuffix(o.Name, "URL.RawPath") || strings.HasSuffix(o.Name, "URL.Fragment") || strings.HasSuffix(o.Name, "Request.RequestURI") || strings.HasSuffix(o.Name, "Request.Form") || strings.HasSuffix(o.Name, "Request.Header") || strings.HasSuffix(o.Name, "Request.URL") || strings.HasSuffix(o.Name, "Request.PostForm") || strings.HasSuffix(o.Name, "Request.Body") {
			return "request " + o.Name
		}
	}
	return ""
}

// safePrefixed: the string expression starts with a component the client does
// not control (a constant beginning with '/', or a configured path), so that
// whatever follows stays on this site.
func (c *Ctx) safePrefixed(v ssa.Value, taintedKeys map[string]bool, d int) bool {
	if v == nil || d > 10 {
		return false
	}
	if s, ok := ConstStr(v); ok {
		return strings.HasPrefix(s, "/") && !strings.HasPrefix(s, "//")
	}
	switch x := v.(type) {
	case *ssa.BinOp:
		if x.Op == token.ADD {
			if s, ok := ConstStr(x.X); ok && s == "" {
				return c.safePrefixed(x.Y, taintedKeys, d+1)
			}
			// config prefix (may be empty) followed by a safe-prefixed rest
			if c.untainted(x.X, taintedKeys) {
				if c.safePrefixed(x.X, taintedKeys, d+1) {
					return true
				}
				return c.safePrefixed(x.Y, taintedKeys, d+1)
			}
			return false
		}
	case *ssa.Phi:
		for _, e := range x.Edges {
			if !c.safePrefixed(e, taintedKeys, d+1) {
				return false
			}
		}
		return len(x.Edges) > 0
	case *ssa.Call:
		switch Callee(x) {
		case "path.Join":
			// varargs slice: first elements
			elems := varargElems(Arg(x, 0))
			for _, e := range elems {
				if s, ok := ConstStr(e); ok {
					return strings.HasPrefix(s, "/") || s != ""
				}
				if !c.untainted(e, taintedKeys) {
					return false
				}
				if c.safePrefixed(e, taintedKeys, d+1) {
					return true
				}
			}
			return false
		case "(*strings.Builder).String":
			// a local builder: what was written first decides where the result starts
			if first := firstBuilderWrite(x); first != nil {
				return c.safePrefixed(first, taintedKeys, d+1)
			}
			return false
		case "fmt.Sprintf":
			if f, ok := constArgStr(x, 0); ok {
				if strings.HasPrefix(f, "/") && !strings.HasPrefix(f, "//") {
					return true
				}
				if strings.HasPrefix(f, "%s") {
					elems := varargElems(Arg(x, 1))
					if len(elems) > 0 {
						return c.untainted(elems[0], taintedKeys) && c.configOrSafe(elems[0], taintedKeys, d+1)
					}
				}
			}
			return false
		}
	}
	return c.configOrSafe(v, taintedKeys, d)
}

func (c *Ctx) configOrSafe(v ssa.Value, taintedKeys map[string]bool, d int) bool {
	// a configured value (Config.Paths.*, Mount, RootURL) is trusted
	return c.untainted(v, taintedKeys)
}

func (c *Ctx) untainted(v ssa.Value, taintedKeys map[string]bool) bool {
	for _, o := range c.fieldOrigins(v) {
		if c.clientSource(o, taintedKeys) != "" {
			return false
		}
	}
	return true
}

// deepClientSource follows v through calls (receiver and arguments), string
// operations, phis and extracts to a client-controlled source.
func (c *Ctx) deepClientSource(v ssa.Value, tk map[string]bool, d int, seen map[ssa.Value]bool) string {
	if v == nil || d > 10 || seen[v] {
		return ""
	}
	seen[v] = true
	for _, o := range c.fieldOrigins(v) {
		if s := c.clientSource(o, tk); s != "" {
			return s
		}
		if o.Kind == "call" && o.V != nil && o.V != v {
			if s := c.deepClientSource(o.V, tk, d+1, seen); s != "" {
				return s
			}
		}
	}
	var ops []ssa.Value
	switch x := v.(type) {
	case *ssa.Call:
		if x.Call.IsInvoke() {
			ops = append(ops, x.Call.Value)
		}
		ops = append(ops, x.Call.Args...)
	case *ssa.Extract:
		ops = append(ops, x.Tuple)
	case *ssa.Phi:
		ops = append(ops, x.Edges...)
	case *ssa.BinOp:
		ops = append(ops, x.X, x.Y)
	case *ssa.UnOp:
		ops = append(ops, x.X)
	case *ssa.FieldAddr:
		ops = append(ops, x.X)
	case *ssa.Field:
		ops = append(ops, x.X)
	case *ssa.Slice:
		ops = append(ops, x.X)
	case *ssa.Convert:
		ops = append(ops, x.X)
	case *ssa.ChangeType:
		ops = append(ops, x.X)
	case *ssa.MakeInterface:
		ops = append(ops, x.X)
	}
	for _, o := range ops {
		if s := c.deepClientSource(o, tk, d+1, seen); s != "" {
			return s
		}
	}
	return ""
}

func stripMI(v ssa.Value) ssa.Value {
	for {
		switch x := v.(type) {
		case *ssa.MakeInterface:
			v = x.X
		case *ssa.ChangeInterface:
			v = x.X
		default:
			return v
		}
	}
}

// varargElems returns the elements stored into a varargs slice, in order.
func varargElems(v ssa.Value) []ssa.Value {
	sl, ok := v.(*ssa.Slice)
	if !ok {
		return nil
	}
	a, ok := sl.X.(*ssa.Alloc)
	if !ok || a.Referrers() == nil {
		return nil
	}
	m := map[int64]ssa.Value{}
	for _, r := range *a.Referrers() {
		// elements rewritten through a slice of the array (a loop that normalises
		// every element in place): what is joined is not what was stored
		if s2, isSl := r.(*ssa.Slice); isSl && s2.Referrers() != nil {
			for _, rr := range *s2.Referrers() {
				if ia2, isIA := rr.(*ssa.IndexAddr); isIA && ia2.Referrers() != nil {
					for _, r3 := range *ia2.Referrers() {
						if _, isSt := r3.(*ssa.Store); isSt {
							return nil
						}
					}
				}
			}
		}
		ia, ok := r.(*ssa.IndexAddr)
		if !ok || ia.Referrers() == nil {
			continue
		}
		n, isC := ConstInt(ia.Index)
		if !isC {
			continue
		}
		for _, rr := range *ia.Referrers() {
			if st, ok := rr.(*ssa.Store); ok {
				m[n] = stripMI(st.Val)
			}
		}
	}
	var out []ssa.Value
	for i := int64(0); ; i++ {
		v, ok := m[i]
		if !ok {
			break
		}
		out = append(out, v)
	}
	return out
}

// taintedSessionKeys: session keys into which some handler stores a
// client-supplied value.
func (c *Ctx) taintedSessionKeys() map[string]bool {
	out := map[string]bool{}
	for _, fn := range c.P.Funcs {
		for _, op := range c.StateOps(fn) {
			if op.Op != "put" || op.Store != "session" || !op.Const {
				continue
			}
			for _, o := range c.fieldOrigins(op.Val) {
				if c.clientSource(o, nil) != "" {
					out[op.Key] = true
				}
			}
		}
	}
	return out
}

// redirectOptField returns every value stored into the named field of the
// RedirectOptions passed to a Redirect call.
func redirectOptField(opts ssa.Value, field string) ([]ssa.Value, bool) {
	return redirectOptFieldD(opts, field, 0)
}

func redirectOptFieldD(opts ssa.Value, field string, depth int) ([]ssa.Value, bool) {
	// the options handed back by a callback the middleware was built with
	// (`ro := redirect()`): read in every closure bound to that callback
	if call, isCall := opts.(*ssa.Call); isCall && depth < 3 && !call.Call.IsInvoke() {
		fns := boundFuncs(call.Call.Value, 0)
		if len(fns) == 0 {
			return nil, false
		}
		var all []ssa.Value
		for _, g := range fns {
			found := false
			for _, b := range g.Blocks {
				for _, in := range b.Instrs {
					ret, ok := in.(*ssa.Return)
					if !ok || len(ret.Results) != 1 {
						continue
					}
					vs, ok := redirectOptFieldD(ret.Results[0], field, depth+1)
					if !ok {
						return nil, false
					}
					found = true
					all = append(all, vs...)
				}
			}
			if !found {
				return nil, false
			}
		}
		return all, true
	}
	u, ok := opts.(*ssa.UnOp)
	if !ok {
		return nil, false
	}
	a, ok := u.X.(*ssa.Alloc)
	if !ok || a.Referrers() == nil {
		return nil, false
	}
	var vals []ssa.Value
	for _, r := range *a.Referrers() {
		switch x := r.(type) {
		case *ssa.FieldAddr:
			if fieldName(x) != field || x.Referrers() == nil {
				continue
			}
			for _, rr := range *x.Referrers() {
				if st, ok := rr.(*ssa.Store); ok {
					vals = append(vals, st.Val)
				}
			}
		case *ssa.Store:
			// whole-struct store (copy of a parameter or another literal): opaque
			if x.Addr == a {
				if _, isP := x.Val.(*ssa.Parameter); isP {
					return nil, false
				}
			}
		}
	}
	return vals, true
}

// C15: client-supplied return targets never redirect off-site.
func C15(c *Ctx) {
	r := c.R
	r.Explanation = "Static decision of C15 in three parts. (1) Taint of RedirectOptions.RedirectPath (which the redirector sends to the client without any guard): for every HTTPRedirector.Redirect call in every package, a RedirectPath that derives from a client-controlled source — request parameters, query, body values, or a session key into which some handler stores such a value (computed over all PutSession sites) — must start with a component the client does not control (constant '/…' or configured path). (2) In the default redirector both response modes take the return target from req.FormValue(FormValueName), only when ro.FollowRedirParam is set, and pass it to the sinks (http.Redirect URL, JSON \"location\") only through a guard that replaces it by the default. (3) Guard adequacy: the guard region is evaluated, by an evaluator of the string predicates it is written in (strings.Contains/HasPrefix/…, len, indexing, ==, net/url.Parse), on a fixed set of witnesses of the off-site language (absolute URLs, scheme-relative //host, backslash spellings, leading control characters/space, scheme without slashes); each witness must be replaced by the default on every path; constructs outside the vocabulary are UNDECIDED; the two modes must agree witness by witness."
	r.NotDecided = []string{"strings outside the witness set (the witness set samples each class of the off-site language; it is not a language-inclusion proof)", "what the target page does", "integrator-supplied redirectors"}
	tk := c.taintedSessionKeys()
	r.Extra["client_tainted_session_keys"] = sortedKeys(tk)

	// (1) RedirectPath taint
	n := 0
	badSites := map[string]int{}
	for _, fn := range c.P.Funcs {
		for _, call := range CallsTo(fn, fnRedirect) {
			n++
			name := FuncName(fn)
			pos := posf(c, call)
			rps, ok := redirectOptField(Arg(call, 2), "RedirectPath")
			if !ok {
				r.Unknown("C15.redirect-path", name, "RedirectPath", pos, "RedirectOptions is not a local literal; cannot see how RedirectPath is built")
				continue
			}
			if len(rps) == 0 {
				r.Ok("C15.redirect-path", name, "RedirectPath", pos, "no RedirectPath set")
				continue
			}
			var srcs []string
			safe := true
			for _, rp := range rps {
				tainted := false
				for _, o := range c.fieldOrigins(rp) {
					if s := c.clientSource(o, tk); s != "" {
						srcs = append(srcs, s)
						tainted = true
					}
				}
				if tainted && !c.safePrefixed(rp, tk, 0) {
					safe = false
				}
			}
			if len(srcs) == 0 {
				r.Ok("C15.redirect-path", name, "RedirectPath", pos, "not client-controlled")
				continue
			}
			if safe {
				r.Ok("C15.redirect-path", name, "RedirectPath", pos, "client data only after a constant/configured same-site prefix ("+strings.Join(uniq(srcs), ", ")+")")
				continue
			}
			// one obligation per offending site of the function (the first keeps the plain
			// name, so that what is known about one site does not cover another)
			badSites[name]++
			construct := "RedirectPath"
			if badSites[name] > 1 {
				construct = sprintf("RedirectPath#%d", badSites[name])
			}
			r.Bad("C15.redirect-path", name, construct, pos, "RedirectPath, which the redirector follows without any guard, is client-controlled from its first byte: "+strings.Join(uniq(srcs), ", ")+" — an absolute URL there sends the browser off-site")
		}
	}
	r.Extra["redirect_call_sites"] = n

	// (2a) inside the default redirector the options are what the handler set:
	// the client's parameter reaches the sinks through the guard only, never by
	// way of ro.RedirectPath, which is followed unexamined
	for _, fn := range c.P.Funcs {
		if pkgOf(fn) != "ab/defaults" {
			continue
		}
		for _, b := range fn.Blocks {
			for _, in := range b.Instrs {
				st, ok := in.(*ssa.Store)
				if !ok {
					continue
				}
				fa, ok := st.Addr.(*ssa.FieldAddr)
				if !ok || fieldName(fa) != "RedirectPath" || !strings.HasSuffix(strings.TrimPrefix(fa.X.Type().String(), "*"), "RedirectOptions") {
					continue
				}
				src := c.deepClientSource(st.Val, tk, 0, map[ssa.Value]bool{})
				ok2 := src == "" || c.safePrefixed(st.Val, tk, 0)
				r.Check(ok2, "C15.redirect-path", FuncName(fn), "ro.RedirectPath rewritten", posf(c, st), "not client-controlled", "the redirector overwrites RedirectPath — which it follows without any guard — with a value derived from the "+src+" ("+SafeString(st.Val)+"): the client's target bypasses the guard")
			}
		}
	}

	// (2)+(3) default redirector
	var verdicts [][]string
	var fnNames []string
	for _, fnName := range []string{"(ab/defaults.Redirector).redirectNonAPI", "(ab/defaults.Redirector).redirectAPI"} {
		fn := c.P.FuncOpt(fnName)
		kind := ""
		if fn == nil {
			// the mode folded into another function of the redirector: found by its sink
			api := strings.HasSuffix(fnName, "redirectAPI")
			var cands, both []*ssa.Function
			for _, f := range c.P.Funcs {
				if pkgOf(f) != "ab/defaults" {
					continue
				}
				hasRedirect := len(CallsTo(f, "net/http.Redirect")) > 0
				hasLocation := false
				for _, b := range f.Blocks {
					for _, in := range b.Instrs {
						if mu, ok := in.(*ssa.MapUpdate); ok {
							if k, isC := ConstStr(stripMI(mu.Key)); isC && k == "location" {
								hasLocation = true
							}
						}
					}
				}
				if (api && hasLocation && !hasRedirect) || (!api && hasRedirect && !hasLocation) {
					cands = append(cands, f)
				}
				if hasLocation && hasRedirect {
					both = append(both, f)
				}
			}
			if len(cands) == 1 {
				fn = cands[0]
			} else if len(cands) == 0 && len(both) == 1 {
				// both modes live in one function (their helpers were inlined into the
				// dispatcher): each is read by its own sink
				fn = both[0]
				kind = map[bool]string{true: "json", false: "http"}[api]
			}
		}
		if fn == nil {
			r.Unknown("C15.guard", fnName, "function", "-", "default redirector mode not found")
			continue
		}
		v := c.redirectorMode(fn, fnName, kind)
		if v != nil {
			verdicts = append(verdicts, v)
			fnNames = append(fnNames, fnName)
		}
	}
	if len(verdicts) == 2 {
		same := true
		var diff []string
		for i := range verdicts[0] {
			if verdicts[0][i] != verdicts[1][i] {
				same = false
				diff = append(diff, offsiteWitnesses[i].w)
			}
		}
		r.Check(same, "C15.siblings", "ab/defaults.Redirector", "redirectAPI≡redirectNonAPI", "-", "both response modes treat every witness alike", "the two response modes disagree on witnesses "+strings.Join(diff, ", ")+": one of them follows a target the other refuses")
	}
}

// redirectorMode analyses one mode of the default redirector; returns the
// verdict per witness ("blocked", "followed", "undecided").
func (c *Ctx) redirectorMode(fn *ssa.Function, name string, kind string) []string {
	r := c.R
	// (obligations keep the mode's canonical name when the mode was folded into
	// another function, so that what is known about the mode stays attached to it)
	// source
	var src *ssa.Call
	var srcs []*ssa.Call
	for _, call := range CallsTo(fn, "(*net/http.Request).FormValue") {
		if fieldLoadName(Arg(call, 1)) == "FormValueName" {
			src, _ = call.(*ssa.Call)
			srcs = append(srcs, src)
		}
	}
	if src == nil {
		r.Unknown("C15.guard", name, "FormValue(FormValueName)", "-", "return-target parameter read not found")
		return nil
	}
	// sinks (of the mode asked for, when one function holds both)
	type sink struct {
		in  ssa.Instruction
		val ssa.Value
		wh  string
	}
	var sinks []sink
	if kind != "json" {
		for _, call := range CallsTo(fn, "net/http.Redirect") {
			sinks = append(sinks, sink{call.(ssa.Instruction), Arg(call, 2), "http.Redirect"})
		}
	}
	if kind != "http" {
		for _, b := range fn.Blocks {
			for _, in := range b.Instrs {
				if mu, ok := in.(*ssa.MapUpdate); ok {
					if k, isC := ConstStr(stripMI(mu.Key)); isC && k == "location" {
						sinks = append(sinks, sink{mu, stripMI(mu.Value), `data["location"]`})
					}
				}
			}
		}
	}
	if len(sinks) == 0 {
		r.Unknown("C15.guard", name, "sink", "-", "no redirect sink found")
		return nil
	}
	// the read that feeds this mode's sink (each inlined copy of a shared
	// target computation has its own)
	if len(srcs) > 1 {
		var feeds func(v ssa.Value, d int, seen map[ssa.Value]bool) *ssa.Call
		feeds = func(v ssa.Value, d int, seen map[ssa.Value]bool) *ssa.Call {
			if v == nil || d > 10 || seen[v] {
				return nil
			}
			seen[v] = true
			for _, sc := range srcs {
				if v == ssa.Value(sc) {
					return sc
				}
			}
			if phi, ok := v.(*ssa.Phi); ok {
				for _, e := range phi.Edges {
					if sc := feeds(e, d+1, seen); sc != nil {
						return sc
					}
				}
			}
			return nil
		}
		if sc := feeds(sinks[0].val, 0, map[ssa.Value]bool{}); sc != nil {
			src = sc
		}
	}
	// also: any other use of the tainted value in a header write
	verdict := make([]string, len(offsiteWitnesses))
	classBad := map[string][]string{}
	classUnd := map[string][]string{}
	for wi, ow := range offsiteWitnesses {
		ge := &guardEval{c: c, tainted: src, witness: ow.w}
		w := Walk{AtomP: func(v ssa.Value, phi func(*ssa.Phi) ssa.Value) (bool, bool) {
			ge.phi = phi
			a := ge.ev(v, 0)
			if a.kind == 2 {
				return a.b, true
			}
			return false, false
		}, MaxTraces: 512}
		res := "blocked"
		for _, t := range w.Traces(fn) {
			resolve := PhiResolver(t.Blocks)
			for _, sk := range sinks {
				on := false
				for _, in := range t.Instrs {
					if in == sk.in {
						on = true
					}
				}
				if !on {
					continue
				}
				ge.phi = resolve
				a := ge.ev(sk.val, 0)
				switch {
				case a.kind == 1 && a.s == defaultMarker:
				case a.kind == 1 && strings.Contains(a.s, ow.w):
					res = "followed"
				case a.kind == 1:
					// something else: e.g. cleaned value; treat as followed if not default-derived
					if !strings.HasPrefix(a.s, defaultMarker) {
						res = "followed"
					}
				default:
					if res != "followed" {
						res = "undecided"
					}
				}
			}
		}
		// a path on which the witness value decided a branch through an unknown construct
		if res == "blocked" && len(ge.unknown) > 0 {
			// unknown calls that take the tainted value: the guard uses vocabulary we do not model
			res = "undecided"
		}
		verdict[wi] = res
		switch res {
		case "followed":
			classBad[ow.class] = append(classBad[ow.class], ow.w)
		case "undecided":
			classUnd[ow.class] = append(classUnd[ow.class], ow.w+" (via "+strings.Join(uniq(ge.unknown), ",")+")")
		}
	}
	pos := posf(c, src)
	classes := map[string]bool{}
	for _, ow := range offsiteWitnesses {
		classes[ow.class] = true
	}
	for _, cl := range sortedKeys(classes) {
		switch {
		case len(classBad[cl]) > 0:
			r.Bad("C15.guard", name, cl, pos, "the guard lets off-site targets of class '"+cl+"' through to the redirect sink, e.g. "+quoteList(classBad[cl]))
		case len(classUnd[cl]) > 0:
			r.Unknown("C15.guard", name, cl, pos, "the guard uses constructs outside the evaluator's vocabulary; cannot decide witnesses "+quoteList(classUnd[cl]))
		default:
			r.Ok("C15.guard", name, cl, pos, "every witness of this class is replaced by the default")
		}
	}
	// the string sent is the string the guard examined: nothing decodes, trims or
	// rewrites the client's value between the guard and the sink
	for _, sk := range sinks {
		bad := ""
		seen := map[ssa.Value]bool{}
		var walk func(v ssa.Value, d int)
		walk = func(v ssa.Value, d int) {
			if d > 8 || v == nil || seen[v] || bad != "" {
				return
			}
			seen[v] = true
			if v == ssa.Value(src) {
				return
			}
			if phi, ok := v.(*ssa.Phi); ok {
				for _, e := range phi.Edges {
					walk(e, d+1)
				}
				return
			}
			// any other value: fine unless computed from the client's value — also
			// through library calls (parsed as a URL, its query read, unescaped)
			var derived func(x ssa.Value, dd int) bool
			dseen := map[ssa.Value]bool{}
			derived = func(x ssa.Value, dd int) bool {
				if x == nil || dd > 10 || dseen[x] {
					return false
				}
				dseen[x] = true
				if x == ssa.Value(src) {
					return true
				}
				in, isIn := x.(ssa.Instruction)
				if !isIn {
					return false
				}
				if _, isAlloc := x.(*ssa.Alloc); isAlloc {
					return false
				}
				var buf [8]*ssa.Value
				for _, op := range in.Operands(buf[:0]) {
					if *op != nil && derived(*op, dd+1) {
						return true
					}
				}
				return false
			}
			if derived(v, 0) || HasOrigin(c.rawOrigins(v), func(o Origin) bool { return o.V == ssa.Value(src) }) {
				bad = SafeString(v)
				if call, _ := CallOf(v); call != nil {
					bad = Callee(call)
				}
			}
		}
		walk(sk.val, 0)
		r.Check(bad == "", "C15.guard-verbatim", name, sk.wh, posf(c, sk.in), "the value sent is the value the guard examined (or the default)", "the client's return target is transformed ("+bad+") between the guard and "+sk.wh+": the guard examined a different string than the one sent, so an encoded off-site target passes it and is decoded afterwards")
	}
	// FollowRedirParam gate: the tainted value reaches a sink only under ro.FollowRedirParam
	for _, sk := range sinks {
		okGate := true
		var walk func(v ssa.Value, d int, gated bool)
		walk = func(v ssa.Value, d int, gated bool) {
			if d > 8 || v == nil {
				return
			}
			if v == ssa.Value(src) {
				if !gated {
					okGate = false
				}
				return
			}
			if phi, ok := v.(*ssa.Phi); ok {
				for i, e := range phi.Edges {
					g := gated || HasFact(FactsAtEdge(phi.Block().Preds[i], phi.Block()), func(f Fact) bool {
						rel := f.Rel()
						return rel.B != nil && rel.Pol && fieldLoadName(rel.B) == "FollowRedirParam"
					})
					walk(e, d+1, g)
				}
			}
		}
		walk(sk.val, 0, false)
		r.Check(okGate, "C15.follow-flag", name, sk.wh, posf(c, sk.in), "the parameter is followed only when the handler set FollowRedirParam", "the client's return target reaches "+sk.wh+" without ro.FollowRedirParam being set")
	}
	return verdict
}

func quoteList(ss []string) string {
	var out []string
	for _, s := range ss {
		out = append(out, strings.NewReplacer("\t", "\\t", "\n", "\\n").Replace("‹"+s+"›"))
	}
	return strings.Join(out, " ")
}

// boundFuncs resolves a function value that is a free variable of a closure
// (or a load of such a captured cell) to the functions bound to it at every
// place the closure is made; nil when some binding is not a function literal
// or named function.
func boundFuncs(v ssa.Value, d int) []*ssa.Function {
	if d > 4 || v == nil {
		return nil
	}
	switch x := v.(type) {
	case *ssa.Function:
		return []*ssa.Function{x}
	case *ssa.MakeClosure:
		if f, ok := x.Fn.(*ssa.Function); ok {
			return []*ssa.Function{f}
		}
	case *ssa.ChangeType:
		return boundFuncs(x.X, d+1)
	case *ssa.UnOp:
		// a captured variable: the closure holds the cell, the cell holds the function
		if fv, ok := x.X.(*ssa.FreeVar); ok {
			var out []*ssa.Function
			cells, ok := cellsOf(fv, 0)
			if !ok || len(cells) == 0 {
				return nil
			}
			for _, a := range cells {
				if a.Referrers() == nil {
					return nil
				}
				n := 0
				for _, ref := range *a.Referrers() {
					if st, ok := ref.(*ssa.Store); ok && st.Addr == ssa.Value(a) {
						fs := boundFuncs(st.Val, d+1)
						if fs == nil {
							return nil
						}
						out = append(out, fs...)
						n++
					}
				}
				if n == 0 {
					return nil
				}
			}
			return out
		}
	case *ssa.FreeVar:
		var out []*ssa.Function
		bs := bindingsOf(x)
		if len(bs) == 0 {
			return nil
		}
		for _, bound := range bs {
			fs := boundFuncs(bound, d+1)
			if fs == nil {
				return nil
			}
			out = append(out, fs...)
		}
		return out
	}
	return nil
}

// bindingsOf lists what is bound to free variable fv wherever its closure is made.
func bindingsOf(fv *ssa.FreeVar) []ssa.Value {
	f := fv.Parent()
	idx := -1
	for i, x := range f.FreeVars {
		if x == fv {
			idx = i
		}
	}
	if idx < 0 {
		return nil
	}
	var out []ssa.Value
	var scan func(g *ssa.Function)
	seen := map[*ssa.Function]bool{}
	scan = func(g *ssa.Function) {
		if g == nil || seen[g] {
			return
		}
		seen[g] = true
		for _, b := range g.Blocks {
			for _, in := range b.Instrs {
				if mc, ok := in.(*ssa.MakeClosure); ok && mc.Fn == ssa.Value(f) && idx < len(mc.Bindings) {
					out = append(out, mc.Bindings[idx])
				}
			}
		}
		if liveFuncs == nil {
			for _, a := range g.AnonFuncs {
				scan(a)
			}
		}
	}
	// the closure is made in its lexical parent — or wherever that parent was inlined
	for _, g := range allFuncsOf(f.Prog) {
		scan(g)
	}
	return out
}

var allFuncsCache = map[*ssa.Program][]*ssa.Function{}

// liveFuncs, when set, lists the functions that are part of the analysed
// program after normalisation (helpers that were inlined everywhere are gone).
var liveFuncs []*ssa.Function

func allFuncsOf(prog *ssa.Program) []*ssa.Function {
	if liveFuncs != nil {
		return liveFuncs
	}
	if fs, ok := allFuncsCache[prog]; ok {
		return fs
	}
	var fs []*ssa.Function
	for _, pkg := range prog.AllPackages() {
		if !strings.Contains(pkg.Pkg.Path(), "volatiletech/authboss") {
			continue
		}
		for _, m := range pkg.Members {
			switch x := m.(type) {
			case *ssa.Function:
				fs = append(fs, x)
			case *ssa.Type:
				for _, t := range []types.Type{x.Type(), types.NewPointer(x.Type())} {
					ms := prog.MethodSets.MethodSet(t)
					for i := 0; i < ms.Len(); i++ {
						if mf := prog.MethodValue(ms.At(i)); mf != nil {
							fs = append(fs, mf)
						}
					}
				}
			}
		}
	}
	allFuncsCache[prog] = fs
	return fs
}

// cellsOf: the local cells a captured variable can be, following the capture
// through enclosing closures to where the variable lives.
func cellsOf(fv *ssa.FreeVar, d int) ([]*ssa.Alloc, bool) {
	if d > 4 {
		return nil, false
	}
	var out []*ssa.Alloc
	for _, bound := range bindingsOf(fv) {
		switch x := bound.(type) {
		case *ssa.Alloc:
			out = append(out, x)
		case *ssa.FreeVar:
			cs, ok := cellsOf(x, d+1)
			if !ok {
				return nil, false
			}
			out = append(out, cs...)
		default:
			return nil, false
		}
	}
	return out, true
}

// firstBuilderWrite: for `b.String()` on a local strings.Builder, the string
// (or constant byte, as a string constant) written by the write that precedes
// every other write; nil when that is not determined.
func firstBuilderWrite(str *ssa.Call) ssa.Value {
	if len(str.Call.Args) == 0 {
		return nil
	}
	b, ok := str.Call.Args[0].(*ssa.Alloc)
	if !ok || b.Referrers() == nil {
		return nil
	}
	var writes []*ssa.Call
	for _, ref := range *b.Referrers() {
		call, ok := ref.(*ssa.Call)
		if !ok {
			continue
		}
		switch Callee(call) {
		case "(*strings.Builder).WriteString", "(*strings.Builder).WriteByte", "(*strings.Builder).WriteRune", "(*strings.Builder).Write":
			writes = append(writes, call)
		case "(*strings.Builder).Grow", "(*strings.Builder).String", "(*strings.Builder).Len", "(*strings.Builder).Cap":
		default:
			return nil // handed to something else that may write
		}
	}
	for _, w := range writes {
		first := true
		for _, o := range writes {
			if o != w && !InstrDominates(w, o) {
				first = false
			}
		}
		if first && Callee(w) == "(*strings.Builder).WriteString" {
			return Arg(w, 1)
		}
	}
	return nil
}
