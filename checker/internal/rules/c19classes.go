package rules

import (
	"go/token"
	"strings"
	"unicode"

	. "abverif/internal/engine"

	"golang.org/x/tools/go/ssa"
)

// charClassSpec is the reference classification of the password policy:
// letters count as upper or lower by unicode.IsUpper, other characters as
// digits (unicode.IsDigit), then white space (unicode.IsSpace), and whatever
// remains is a symbol. Every character falls into exactly one class.
func charClassSpec(c rune) string {
	switch {
	case unicode.IsLetter(c):
		if unicode.IsUpper(c) {
			return "upper"
		}
		return "lower"
	case unicode.IsDigit(c):
		return "numeric"
	case unicode.IsSpace(c):
		return "whitespace"
	}
	return "symbols"
}

var unicodePreds = map[string]func(rune) bool{
	"unicode.IsLetter": unicode.IsLetter, "unicode.IsUpper": unicode.IsUpper, "unicode.IsLower": unicode.IsLower,
	"unicode.IsDigit": unicode.IsDigit, "unicode.IsNumber": unicode.IsNumber, "unicode.IsSpace": unicode.IsSpace,
	"unicode.IsPunct": unicode.IsPunct, "unicode.IsSymbol": unicode.IsSymbol, "unicode.IsControl": unicode.IsControl,
	"unicode.IsTitle": unicode.IsTitle, "unicode.IsGraphic": unicode.IsGraphic, "unicode.IsPrint": unicode.IsPrint, "unicode.IsMark": unicode.IsMark,
}

// charClasses decides the character classifier of the password policy as a
// decision tree: the loop body of tallyCharacters is a tree of tests on the
// current character (unicode predicates and comparisons with constants) whose
// leaves add one to one counter. For every character of the reference domain
// the tests are evaluated on that character — the tree is read, the function
// is not run — and the leaf reached must be the counter of the character's
// reference class.
func (c *Ctx) charClasses(rule string) {
	fn := c.P.FuncOpt("ab/defaults.tallyCharacters")
	if fn == nil {
		c.R.Unknown(rule, "ab/defaults", "tallyCharacters", "-", "character classifier not found")
		return
	}
	c.charClassesOf(rule, fn, nil)
}

// charClassesOf decides the classifier loop found in fn. named, when given,
// names the class each counter of the loop stands for (a classifier inlined
// into its user has no results to name them by).
func (c *Ctx) charClassesOf(rule string, fn *ssa.Function, named map[*ssa.Phi]string) {
	r := c.R
	name := FuncName(fn)
	pos := c.P.Pos(fn.Pos())
	var next *ssa.Next
	for _, b := range fn.Blocks {
		for _, in := range b.Instrs {
			if n, ok := in.(*ssa.Next); ok && n.IsString {
				next = n
			}
		}
	}
	if next == nil {
		r.Unknown(rule, name, "loop", pos, "the classifier does not range over the characters of the string; shape not understood")
		return
	}
	header := next.Block()
	var okV, runeV ssa.Value
	for _, ref := range *next.Referrers() {
		if e, isE := ref.(*ssa.Extract); isE {
			switch e.Index {
			case 0:
				okV = e
			case 2:
				runeV = e
			}
		}
	}
	hif, _ := header.Instrs[len(header.Instrs)-1].(*ssa.If)
	if okV == nil || runeV == nil || hif == nil || hif.Cond != okV {
		r.Unknown(rule, name, "loop", pos, "range loop shape not understood")
		return
	}
	body := header.Succs[0]
	// counters: header phis, mapped to result names
	var phis []*ssa.Phi
	for _, in := range header.Instrs {
		if p, ok := in.(*ssa.Phi); ok {
			phis = append(phis, p)
		}
	}
	classOf := map[*ssa.Phi]string{}
	res := fn.Signature.Results()
	for _, b := range fn.Blocks {
		ret, ok := b.Instrs[len(b.Instrs)-1].(*ssa.Return)
		if !ok {
			continue
		}
		for i, v := range ret.Results {
			if p, isP := v.(*ssa.Phi); isP && i < res.Len() {
				classOf[p] = res.At(i).Name()
			}
		}
	}
	for p, cl := range named {
		classOf[p] = cl
	}
	want := map[string]bool{"upper": true, "lower": true, "numeric": true, "symbols": true, "whitespace": true}
	got := map[string]bool{}
	for _, p := range phis {
		got[classOf[p]] = true
	}
	// counters kept in a local array indexed by class: the results are loads of
	// its constant elements
	var counts *ssa.Alloc
	slotClass := map[int64]string{}
	if len(got) == 0 || !got["upper"] {
		for _, b := range fn.Blocks {
			ret, ok := b.Instrs[len(b.Instrs)-1].(*ssa.Return)
			if !ok {
				continue
			}
			for i, v := range ret.Results {
				ld, isLd := v.(*ssa.UnOp)
				if !isLd || i >= res.Len() {
					continue
				}
				ia, isIA := ld.X.(*ssa.IndexAddr)
				if !isIA {
					continue
				}
				a, isA := ia.X.(*ssa.Alloc)
				k, isC := ConstInt(ia.Index)
				if !isA || !isC || (counts != nil && counts != a) {
					continue
				}
				if _, dup := slotClass[k]; dup {
					continue
				}
				counts = a
				slotClass[k] = res.At(i).Name()
				got[res.At(i).Name()] = true
			}
		}
		if counts != nil {
			phis = nil
		}
	}
	for k := range want {
		if !got[k] {
			r.Unknown(rule, name, "counters", pos, "no loop counter is returned as result '"+k+"'; shape not understood")
			return
		}
	}
	isRune := func(v ssa.Value) bool {
		for {
			switch x := v.(type) {
			case *ssa.Convert:
				v = x.X
				continue
			case *ssa.ChangeType:
				v = x.X
				continue
			}
			return v == runeV
		}
	}
	var domain []rune
	for ch := rune(0); ch <= 0x24FF; ch++ {
		domain = append(domain, ch)
	}
	domain = append(domain, 0x3000, 0x3042, 0x4E2D, 0xFF10, 0xFF21, 0xFF41, 0xFEFF, 0x10400, 0x10428, 0x1D400, 0x1D7CE, 0x1F600, unicode.MaxRune)
	type mis struct {
		ch        rune
		got, want string
	}
	var bad []mis
	undecided := ""
	for _, ch := range domain {
		// walk the tree
		prev, cur := header, body
		var evalBool func(v ssa.Value, d int) (bool, bool)
		var path []*ssa.BasicBlock
		evalBool = func(v ssa.Value, d int) (bool, bool) {
			if d > 6 {
				return false, false
			}
			switch x := v.(type) {
			case *ssa.Const:
				return ConstBool(x)
			case *ssa.UnOp:
				if x.Op == token.NOT {
					b, ok := evalBool(x.X, d+1)
					return !b, ok
				}
			case *ssa.Call:
				if f, ok := unicodePreds[Callee(x)]; ok && len(x.Call.Args) == 1 && isRune(x.Call.Args[0]) {
					return f(ch), true
				}
			case *ssa.Phi:
				// value chosen by the edge the path arrived on
				for i := len(path) - 1; i > 0; i-- {
					if path[i] == x.Block() {
						for j, p := range x.Block().Preds {
							if p == path[i-1] {
								return evalBool(x.Edges[j], d+1)
							}
						}
					}
				}
			case *ssa.BinOp:
				var a, b int64
				var okA, okB bool
				if isRune(x.X) {
					a, okA = int64(ch), true
				} else {
					a, okA = ConstInt(x.X)
				}
				if isRune(x.Y) {
					b, okB = int64(ch), true
				} else {
					b, okB = ConstInt(x.Y)
				}
				if okA && okB {
					switch x.Op {
					case token.EQL, token.NEQ, token.LSS, token.LEQ, token.GTR, token.GEQ:
						return cmpHolds(a, x.Op, b), true
					}
				}
			}
			return false, false
		}
		path = []*ssa.BasicBlock{prev, cur}
		steps := 0
		for cur != header && steps < 64 {
			steps++
			last := cur.Instrs[len(cur.Instrs)-1]
			var nxt *ssa.BasicBlock
			switch t := last.(type) {
			case *ssa.Jump:
				nxt = cur.Succs[0]
			case *ssa.If:
				b, ok := evalBool(t.Cond, 0)
				if !ok {
					undecided = "a test on the character is outside the vocabulary (unicode predicates, comparisons with constants): " + SafeString(t.Cond) + " at " + c.P.InstrPos(t)
				} else if b {
					nxt = cur.Succs[0]
				} else {
					nxt = cur.Succs[1]
				}
			default:
				undecided = "the loop body leaves the loop at " + c.P.InstrPos(last)
			}
			if nxt == nil {
				break
			}
			prev, cur = cur, nxt
			path = append(path, cur)
		}
		if undecided != "" {
			break
		}
		if cur != header {
			undecided = "the loop body does not return to the loop header within 64 blocks"
			break
		}
		// which counters moved
		predIdx := -1
		for j, p := range header.Preds {
			if p == prev {
				predIdx = j
			}
		}
		var moved []string
		if counts != nil {
			// every store into the array on the path walked: element k = element k + 1
			resolve := func(v ssa.Value) ssa.Value {
				for d := 0; d < 8; d++ {
					x, isPhi := v.(*ssa.Phi)
					if !isPhi {
						return v
					}
					found := false
					for i := len(path) - 1; i > 0 && !found; i-- {
						if path[i] == x.Block() {
							for j, pb := range x.Block().Preds {
								if pb == path[i-1] {
									v = x.Edges[j]
									found = true
								}
							}
							break
						}
					}
					if !found {
						return v
					}
				}
				return v
			}
			slotOf := func(addr ssa.Value) (int64, bool) {
				ia, ok := addr.(*ssa.IndexAddr)
				if !ok || ia.X != ssa.Value(counts) {
					return 0, false
				}
				return ConstInt(resolve(ia.Index))
			}
			for _, pb := range path[1:] {
				if pb == header {
					continue
				}
				for _, in := range pb.Instrs {
					st, isSt := in.(*ssa.Store)
					if !isSt {
						continue
					}
					ia, isIA := st.Addr.(*ssa.IndexAddr)
					if !isIA || ia.X != ssa.Value(counts) {
						continue
					}
					k, okK := slotOf(st.Addr)
					add, isAdd := st.Val.(*ssa.BinOp)
					okUpd := false
					var n int64
					if okK && isAdd && add.Op == token.ADD {
						x, y := add.X, add.Y
						if _, isC := ConstInt(x); isC {
							x, y = y, x
						}
						if c1, isC := ConstInt(y); isC {
							if ld, isLd := x.(*ssa.UnOp); isLd {
								if k2, ok2 := slotOf(ld.X); ok2 && k2 == k {
									okUpd, n = true, c1
								}
							}
						}
					}
					if !okUpd {
						undecided = "update of the counter array not understood at " + c.P.InstrPos(st)
						break
					}
					cls, known := slotClass[k]
					if !known {
						cls = sprintf("slot%d", k)
					}
					for j := int64(0); j < n; j++ {
						moved = append(moved, cls)
					}
				}
			}
		}
		for _, p := range phis {
			var delta func(v ssa.Value, d int) (int64, bool)
			delta = func(v ssa.Value, d int) (int64, bool) {
				if d > 8 {
					return 0, false
				}
				if v == ssa.Value(p) {
					return 0, true
				}
				switch x := v.(type) {
				case *ssa.BinOp:
					if x.Op == token.ADD {
						if n, ok := ConstInt(x.Y); ok {
							dd, ok2 := delta(x.X, d+1)
							return dd + n, ok2
						}
						if n, ok := ConstInt(x.X); ok {
							dd, ok2 := delta(x.Y, d+1)
							return dd + n, ok2
						}
					}
				case *ssa.Phi:
					for i := len(path) - 1; i > 0; i-- {
						if path[i] == x.Block() && x.Block() != header {
							for j, pb := range x.Block().Preds {
								if pb == path[i-1] {
									return delta(x.Edges[j], d+1)
								}
							}
						}
					}
				}
				return 0, false
			}
			dd, ok := delta(p.Edges[predIdx], 0)
			if !ok {
				undecided = "update of counter '" + classOf[p] + "' not understood: " + SafeString(p.Edges[predIdx])
				break
			}
			for k := int64(0); k < dd; k++ {
				moved = append(moved, classOf[p])
			}
		}
		if undecided != "" {
			break
		}
		g := strings.Join(moved, "+")
		if g == "" {
			g = "none"
		}
		if w := charClassSpec(ch); g != w {
			bad = append(bad, mis{ch, g, w})
		}
	}
	if undecided != "" {
		r.Unknown(rule, name, "classification", pos, undecided)
		return
	}
	if len(bad) > 0 {
		var ex []string
		for i, m := range bad {
			if i >= 6 {
				break
			}
			ex = append(ex, sprintf("%q (U+%04X) counts as %s, reference class %s", m.ch, m.ch, m.got, m.want))
		}
		r.Bad(rule, name, "classification", pos, sprintf("%d of %d characters of the reference domain are counted in the wrong class: %s — a password is accepted or refused against the configured minimums", len(bad), len(domain), strings.Join(ex, "; ")))
		return
	}
	r.Ok(rule, name, "classification", pos, sprintf("decision tree agrees with the reference classes on all %d characters of the domain (U+0000–U+24FF and samples of later blocks); every character moves exactly one counter", len(domain)))
}
