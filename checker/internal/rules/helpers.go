package rules

import (
	"fmt"
	"go/token"
	"go/types"
	"strings"

	. "abverif/internal/engine"

	"golang.org/x/tools/go/ssa"
)

// ---------------------------------------------------------------------------
// user mutations and storer writes

var storerWrites = map[string]int{ // callee -> index of the user argument
	fnSave: 1, fnCreate: 1, fnSaveOAuth2: 1,
}

// UserPut is a Put* call on a user object.
type UserPut struct {
	Call   ssa.CallInstruction
	Method string
	Recv   ssa.Value
}

// userPuts lists invoke calls of Put* methods on user-typed receivers.
func (c *Ctx) userPuts(fn *ssa.Function) []UserPut {
	var out []UserPut
	for _, call := range Calls(fn) {
		cc := call.Common()
		if !cc.IsInvoke() || !strings.HasPrefix(cc.Method.Name(), "Put") {
			continue
		}
		if !c.isUserType(cc.Value.Type()) {
			continue
		}
		out = append(out, UserPut{Call: call, Method: cc.Method.Name(), Recv: cc.Value})
	}
	return out
}

// isStorerWriteOf returns a predicate matching storer writes whose user
// argument shares an identity with recv.
func (c *Ctx) isStorerWriteOf(recv ssa.Value) func(ssa.Instruction) bool {
	rid := c.identityOrigins(c.Origins(recv))
	return func(i ssa.Instruction) bool {
		call, ok := i.(ssa.CallInstruction)
		if !ok {
			return false
		}
		idx, ok := storerWrites[Callee(call)]
		if !ok {
			return false
		}
		u := Arg(call, idx)
		if u == recv {
			return true
		}
		return sameOriginValue(c.identityOrigins(c.Origins(u)), rid)
	}
}

// nonErrorReturn is the goal "a return that does not certainly hand back an
// error", decided on the path walked when the returned error is a merged
// value (what inlining a helper with several `return …, err` leaves).
func (c *Ctx) nonErrorReturn(i ssa.Instruction, pv PathView) bool {
	ret, ok := i.(*ssa.Return)
	if !ok {
		return false
	}
	if len(ret.Results) > 0 {
		ev := ret.Results[len(ret.Results)-1]
		if IsErrorType(ev.Type()) {
			if isNil, known := pv.NilKnown(ev); known {
				return isNil
			}
		}
	}
	return !c.isErrorExit(ret)
}

// isErrorExit reports whether ret certainly returns a non-nil error: a fact
// says its error operand is non-nil, or it is freshly constructed.
func (c *Ctx) isErrorExit(ret *ssa.Return) bool {
	if len(ret.Results) == 0 {
		return false
	}
	ev := ret.Results[len(ret.Results)-1]
	if !IsErrorType(ev.Type()) {
		return false
	}
	if IsNilConst(ev) {
		return false
	}
	if HasFact(FactsAtInstr(ret), func(f Fact) bool { return f.SaysNotNil(ev) }) {
		return true
	}
	// err == Sentinel facts also make it non-nil
	if HasFact(FactsAtInstr(ret), func(f Fact) bool {
		r := f.Rel()
		return r.Op == token.EQL && r.X == ev && loadOfGlobal(r.Y) != nil
	}) {
		return true
	}
	if call, _ := CallOf(ev); call != nil {
		n := Callee(call)
		if strings.HasPrefix(n, "github.com/friendsofgo/errors.") || strings.HasPrefix(n, "errors.") || n == "fmt.Errorf" {
			// Wrap(nil) is nil: only constructors of fresh errors count
			if strings.HasSuffix(n, ".New") || strings.HasSuffix(n, ".Errorf") {
				return true
			}
			if strings.Contains(n, ".Wrap") {
				inner := Arg(call, 0)
				if HasFact(FactsAtInstr(ret), func(f Fact) bool { return f.SaysNotNil(inner) }) {
					return true
				}
			}
		}
	}
	if g := loadOfGlobal(ev); g != nil {
		return true // a sentinel
	}
	return false
}

// mustSaveAfterPut: every Put* on a user object in fn is followed, on every
// path to an exit that does not report an error, by a storer write of the
// same object. except lists Put methods exempted (reason given by caller).
// When fn is reached only through static calls, a path that returns is
// continued in the callers (one level).
func (c *Ctx) mustSaveAfterPut(rule string, fn *ssa.Function, except map[string]string) (n int) {
	r := c.R
	name := FuncName(fn)
	for _, p := range c.userPuts(fn) {
		pos := c.P.InstrPos(p.Call)
		construct := p.Method
		if why, ok := except[p.Method]; ok {
			r.Info(rule, name, construct, pos, "exempt: "+why)
			continue
		}
		n++
		isWrite := c.isStorerWriteOf(p.Recv)
		q := PathQuery{From: p.Call.(ssa.Instruction), Cut: isWrite, GoalP: c.nonErrorReturn}
		path := q.Find()
		if path == nil {
			r.Ok(rule, name, construct, pos, "followed by a storer write of the same user on every non-error path")
			continue
		}
		// lift into callers when fn hands the user back
		callers := c.Callers(fn)
		if len(callers) > 0 && !c.isEntry(fn) {
			okAll := true
			var bad []string
			for _, call := range callers {
				// identity in the caller: results of the call
				cq := PathQuery{From: call.(ssa.Instruction), Cut: func(i ssa.Instruction) bool {
					ic, ok := i.(ssa.CallInstruction)
					if !ok {
						return false
					}
					idx, ok := storerWrites[Callee(ic)]
					if !ok {
						return false
					}
					return HasOrigin(c.Origins(Arg(ic, idx)), func(o Origin) bool { return o.V == call.Value() })
				}, GoalP: c.nonErrorReturn}
				if cp := cq.Find(); cp != nil {
					okAll = false
					bad = append(bad, c.P.DescribePath(append(path, cp...))...)
				}
			}
			if okAll {
				r.Ok(rule, name, construct, pos, "saved by every caller before a non-error exit")
				continue
			}
			r.Bad(rule, name, construct, pos, "mutation of the user object can reach a non-error exit (through a caller) without a storer write of that object", bad...)
			continue
		}
		r.Bad(rule, name, construct, pos, "mutation of the user object can reach a non-error exit without a storer write of that object: the change is lost or success is reported for an unsaved change", c.P.DescribePath(path)...)
	}
	return n
}

// ---------------------------------------------------------------------------
// error discipline

// testsValue reports whether cond compares e (directly or through phis)
// against nil.
func testsNil(cond ssa.Value, e ssa.Value) bool {
	r := Normalize(cond, true)
	if r.Op != token.EQL && r.Op != token.NEQ {
		return false
	}
	if !IsNilConst(r.Y) {
		return false
	}
	return flowsTo(e, r.X, 0)
}

// flowsTo reports whether value e is x or an operand of phi x (transitively).
func flowsTo(e, x ssa.Value, d int) bool {
	if e == x {
		return true
	}
	if d > 4 {
		return false
	}
	if phi, ok := x.(*ssa.Phi); ok {
		for _, ed := range phi.Edges {
			if flowsTo(e, ed, d+1) {
				return true
			}
		}
	}
	return false
}

// errHandling classifies what happens to the error result of a call:
//
//	"returned"  the error is an operand of a return (possibly wrapped)
//	"tested"    every path from the call meets a nil-test of the error before
//	            any exit (edges on which the error equals a sentinel count as
//	            handled)
//	"dropped"   the error result is never read
//	"escapes"   a path reaches an exit without a nil test — the path is returned
func (c *Ctx) errHandling(call ssa.CallInstruction) (string, []ssa.Instruction) {
	e := ErrResult(call)
	sig := call.Common().Signature()
	n := sig.Results().Len()
	if n == 0 || !IsErrorType(sig.Results().At(n-1).Type()) {
		return "noerr", nil
	}
	if e == nil {
		return "dropped", nil
	}
	refs := e.Referrers()
	if refs == nil || len(*refs) == 0 {
		return "dropped", nil
	}
	isNilTest := func(i ssa.Instruction) bool {
		ifi, ok := i.(*ssa.If)
		return ok && testsNil(ifi.Cond, e)
	}
	isRetOfE := func(i ssa.Instruction) bool { return returnsErr(e, i) }
	q := PathQuery{From: call.(ssa.Instruction), Cut: Or(isNilTest, isRetOfE), Goal: Or(IsReturn, IsPanic),
		Prune: func(from, to *ssa.BasicBlock) bool {
			// edge on which e equals a sentinel: handled
			f, ok := EdgeFact(from, to)
			if !ok {
				return false
			}
			r := f.Rel()
			if r.Op == token.EQL && flowsTo(e, r.X, 0) && loadOfGlobal(r.Y) != nil {
				return true
			}
			if r.Op == token.EQL && flowsTo(e, r.Y, 0) && loadOfGlobal(r.X) != nil {
				return true
			}
			return false
		}}
	if path := q.Find(); path != nil {
		return "escapes", path
	}
	return "tested", nil
}

// errPropagated: on the edge where the call's error is non-nil, every path
// returns that error (possibly wrapped) before any client-visible effect.
func (c *Ctx) errPropagated(call ssa.CallInstruction) (bool, string) {
	e := ErrResult(call)
	if e == nil {
		return false, "error result is dropped"
	}
	// (that e is an operand of some return proves nothing: `if err == nil { return err }`;
	// the path checks below decide)
	// returned without a test (possibly merged with other results in a phi): every
	// return reachable from the call hands e back
	fn := call.Parent()
	{
		hasRet := false
		for _, b := range fn.Blocks {
			if len(b.Instrs) > 0 && returnsErr(e, b.Instrs[len(b.Instrs)-1]) {
				hasRet = true
			}
		}
		if hasRet {
			q := PathQuery{From: call.(ssa.Instruction), Goal: func(i ssa.Instruction) bool {
				ifi, ok := i.(*ssa.If)
				return ok && testsNil(ifi.Cond, e) // a test comes first: judged below
			}, GoalP: notReturning(e)}
			if q.Find() == nil {
				return true, "returned (merged with the other outcomes)"
			}
		}
	}
	// find the nil test
	for _, b := range fn.Blocks {
		if len(b.Instrs) == 0 {
			continue
		}
		ifi, ok := b.Instrs[len(b.Instrs)-1].(*ssa.If)
		if !ok || !testsNil(ifi.Cond, e) {
			continue
		}
		rel := Normalize(ifi.Cond, true)
		nonNil := b.Succs[0]
		if rel.Op == token.EQL {
			nonNil = b.Succs[1]
		}
		// every path from nonNil must hit a return of e before anything else notable
		q := PathQuery{StartBlock: nonNil, StartPred: b, NonNil: map[ssa.Value]bool{e: true, rel.X: true}, Cut: func(i ssa.Instruction) bool {
			return returnsErr(e, i)
		}, Goal: func(i ssa.Instruction) bool {
			if IsReturn(i) {
				return true
			}
			return false
		}}
		if p := q.Find(); p != nil {
			return false, "on the non-nil edge a return does not hand the error back (" + c.P.InstrPos(p[len(p)-1]) + ")"
		}
		if !InstrDominates(call.(ssa.Instruction), ifi) {
			// the error may reach the test through a phi (the call sits in an inlined
			// helper that can also return without calling): then the call need not
			// dominate the test, it only has to flow into it
			if rel.X == e || !Reaches(call.(ssa.Instruction), ifi) {
				continue
			}
		}
		// the error must still be the one that is tested when it is non-nil: a later
		// call that overwrites the variable before the test (a loop that goes on
		// after a failure) loses it
		qq := PathQuery{From: call.(ssa.Instruction), NonNil: map[ssa.Value]bool{e: true}, GoalP: notReturning(e)}
		if p := qq.Find(); p != nil {
			return false, "a path from the call to the return at " + c.P.InstrPos(p[len(p)-1]) + " does not hand a non-nil error back (it is overwritten or skipped before it is tested)"
		}
		return true, "non-nil edge returns the error"
	}
	return false, "no nil test of the error found"
}

// ---------------------------------------------------------------------------
// event gates

// gated reports whether instruction at can only be reached, from the fire
// site, over the fire's "not handled" and "no error" outcomes: no path from
// the fire call to at avoids the edge on which handled is false, and none
// avoids the edge on which the error is nil. (For straight-line code this is
// edge dominance; it also covers a fire inside a loop over a list of events
// that returns as soon as one is handled.)
func (c *Ctx) gated(f Fire, at ssa.Instruction) bool {
	if f.Handled == nil || f.Err == nil {
		return false
	}
	from := f.Call.(ssa.Instruction)
	if from.Parent() != at.Parent() {
		return false
	}
	if !InstrDominates(from, at) && !Reaches(from, at) {
		return false
	}
	if !InstrDominates(from, at) {
		// the site must not be reachable without passing the fire at all
		q0 := PathQuery{StartBlock: at.Parent().Blocks[0], Cut: func(i ssa.Instruction) bool { return i == from }, Goal: func(i ssa.Instruction) bool { return i == at }}
		if q0.Find() != nil {
			return false
		}
	}
	// dominance-style facts (including those derived through phis)
	fs := FactsAtInstr(at)
	if HasFact(fs, func(x Fact) bool { return x.SaysBool(f.Handled, false) }) && HasFact(fs, func(x Fact) bool { return x.SaysNil(f.Err) }) {
		return true
	}
	avoid := func(isGood func(Fact) bool) bool {
		q := PathQuery{From: from, Goal: func(i ssa.Instruction) bool { return i == at }, Prune: func(a, b *ssa.BasicBlock) bool {
			ef, ok := EdgeFact(a, b)
			if !ok {
				return false
			}
			if isGood(ef) {
				return true
			}
			for _, d := range deriveOne(ef) {
				if isGood(d) {
					return true
				}
			}
			return false
		}}
		return q.Find() != nil
	}
	if avoid(func(x Fact) bool { return x.SaysBool(f.Handled, false) }) {
		return false
	}
	if avoid(func(x Fact) bool { return x.SaysNil(f.Err) }) {
		return false
	}
	return true
}

func deriveOne(f Fact) []Fact { return DeriveFacts([]Fact{f}) }

// gateFires returns the FireBefore sites whose "not handled, no error"
// outcome gates instruction at.
func (c *Ctx) gateFires(at ssa.Instruction) []Fire {
	var out []Fire
	for _, f := range Fires(at.Parent()) {
		if !f.Before || !f.Const {
			continue
		}
		if c.gated(f, at) {
			out = append(out, f)
		}
	}
	return out
}

// afterGate: FireAfter sites whose not-handled/no-error outcome gates at.
func (c *Ctx) afterGate(at ssa.Instruction) []Fire {
	var out []Fire
	for _, f := range Fires(at.Parent()) {
		if f.Before || !f.Const {
			continue
		}
		if c.gated(f, at) {
			out = append(out, f)
		}
	}
	return out
}

func (c *Ctx) fireNames(fs []Fire) string {
	var s []string
	for _, f := range fs {
		ph := "After"
		if f.Before {
			ph = "Before"
		}
		s = append(s, ph+"("+c.EventName(f.Event)+")")
	}
	return strings.Join(s, ", ")
}

// ---------------------------------------------------------------------------
// misc

// ctcSubKind classifies a ConstantTimeCompare credential by where its
// operands come from.
func (c *Ctx) ctcSubKind(cr Cred) string {
	if cr.Kind != "ctc" {
		return cr.Kind
	}
	for _, a := range checkOperands(cr.Check) {
		for _, o := range c.Origins(a) {
			if o.Kind != "call" {
				continue
			}
			switch {
			case strings.HasPrefix(o.Name, fnLoadRecover+"#"):
				return "recover-token"
			case strings.HasPrefix(o.Name, fnLoadConfirm+"#"):
				return "confirm-token"
			case strings.HasPrefix(o.Name, fnGetSession+"#"):
				return "session-secret"
			}
		}
	}
	for _, a := range checkOperands(cr.Check) {
		if len(c.identityOrigins(c.Origins(a))) > 0 {
			return "stored-secret"
		}
	}
	return "ctc"
}

// sessionGetOf returns the GetSession/GetCookie calls among the origins of v.
func (c *Ctx) sessionGetsOf(v ssa.Value) []ssa.CallInstruction {
	var out []ssa.CallInstruction
	for _, o := range c.Origins(v) {
		if o.Kind == "call" && (strings.HasPrefix(o.Name, fnGetSession+"#") || strings.HasPrefix(o.Name, fnGetCookie+"#")) {
			out = append(out, o.V.(ssa.CallInstruction))
		}
	}
	return out
}

// presenceChecked: at instruction at, the value read by get is known to be
// present (ok result true) or non-empty.
func (c *Ctx) presenceChecked(at ssa.Instruction, get ssa.CallInstruction) bool {
	okv := ResultValue(get, 1)
	val := ResultValue(get, 0)
	return HasFact(FactsAtInstr(at), func(f Fact) bool {
		return (okv != nil && f.SaysBool(okv, true)) || (val != nil && f.SaysNonEmpty(val))
	})
}

// constArgStr returns the string constant passed as argument i.
func constArgStr(call ssa.CallInstruction, i int) (string, bool) {
	a := Arg(call, i)
	if a == nil {
		return "", false
	}
	return ConstStr(a)
}

// invokeCalls lists invoke calls of a method name on user-typed receivers.
func (c *Ctx) userCalls(fn *ssa.Function, method string) []ssa.CallInstruction {
	var out []ssa.CallInstruction
	for _, call := range Calls(fn) {
		cc := call.Common()
		if cc.IsInvoke() && cc.Method.Name() == method && c.isUserType(cc.Value.Type()) {
			out = append(out, call)
		}
	}
	return out
}

func posf(c *Ctx, i ssa.Instruction) string { return c.P.InstrPos(i) }

func sprintf(f string, a ...interface{}) string { return fmt.Sprintf(f, a...) }

// wireExists reports whether a registration (phase,event) exists whose
// handler's name ends in handlerSuffix, registered inside package pkg.
func (c *Ctx) wireFind(before bool, event int64, pkg string) []Wire {
	var out []Wire
	for _, w := range c.Handlers(before, event) {
		if pkgOf(w.In) == pkg {
			out = append(out, w)
		}
	}
	return out
}

// carriesErr: v hands error e on: it is e, a phi with an operand that carries
// e, or a wrap/format call one of whose arguments carries e.
func carriesErr(e, v ssa.Value, d int) bool {
	if v == nil || d > 6 {
		return false
	}
	if e == v {
		return true
	}
	switch x := v.(type) {
	case *ssa.Phi:
		for _, ed := range x.Edges {
			if ed != v && carriesErr(e, ed, d+1) {
				return true
			}
		}
	case *ssa.Call:
		n := Callee(x)
		if strings.Contains(n, "errors.Wrap") || strings.Contains(n, "errors.WithMessage") || strings.Contains(n, "errors.WithStack") || n == "fmt.Errorf" || strings.HasSuffix(n, "errors.Errorf") {
			for _, a := range x.Call.Args {
				if carriesErr(e, a, d+1) {
					return true
				}
				for _, el := range varargElems(a) {
					if carriesErr(e, el, d+1) {
						return true
					}
				}
			}
		}
	case *ssa.MakeInterface:
		return carriesErr(e, x.X, d+1)
	case *ssa.ChangeInterface:
		return carriesErr(e, x.X, d+1)
	case *ssa.UnOp:
		// results spilled to a local cell (functions with defer, named results):
		// the value loaded is the one stored last before the load in this block,
		// or, failing that, whatever is stored into the cell on the way here
		if a, ok := x.X.(*ssa.Alloc); ok && x.Op == token.MUL {
			b := x.Block()
			var last *ssa.Store
			for _, in := range b.Instrs {
				if in == ssa.Instruction(x) {
					break
				}
				if st, ok := in.(*ssa.Store); ok && st.Addr == ssa.Value(a) {
					last = st
				}
			}
			if last != nil {
				return carriesErr(e, last.Val, d+1)
			}
			if a.Referrers() != nil {
				for _, ref := range *a.Referrers() {
					if st, ok := ref.(*ssa.Store); ok && st.Addr == ssa.Value(a) && carriesErr(e, st.Val, d+1) && Reaches(st, x) {
						return true
					}
				}
			}
		}
	}
	return false
}

// returnsErr: ret hands e back in one of its results.
// notReturning is the goal "a return that does not hand e back on the path
// walked": the returned values are resolved through the phis the path selects
// (a variable that a later call overwrites no longer carries e at the return).
func notReturning(e ssa.Value) func(ssa.Instruction, PathView) bool {
	return func(i ssa.Instruction, pv PathView) bool {
		ret, ok := i.(*ssa.Return)
		if !ok {
			return false
		}
		for _, rv := range ret.Results {
			if pv.Precise() {
				if carriesErr(e, pv.Resolve(rv), 0) {
					return false
				}
				continue
			}
			// no path to resolve on: the return possibly does not hand e back if some
			// operand of the merged result does not
			if !mayNotCarry(e, rv, 0) {
				return false
			}
		}
		return true
	}
}

func mayNotCarry(e, rv ssa.Value, d int) bool {
	if phi, ok := rv.(*ssa.Phi); ok && d < 4 {
		for _, x := range phi.Edges {
			if mayNotCarry(e, x, d+1) {
				return true
			}
		}
		return false
	}
	return !carriesErr(e, rv, 0)
}

func returnsErr(e ssa.Value, i ssa.Instruction) bool {
	ret, ok := i.(*ssa.Return)
	if !ok {
		return false
	}
	for _, rv := range ret.Results {
		if carriesErr(e, rv, 0) {
			return true
		}
	}
	return false
}

// readerVerbatim: the default body reader hands every submitted string field
// to the modules exactly as it was submitted — the same map entry that the
// validator's rules look at. A field that is transformed on the way (trimmed,
// case-folded, truncated) makes the module act on a value the rules did not
// validate and the user did not type: for passwords the stored hash then
// verifies a different string than the one the login form submits.
func (c *Ctx) readerVerbatim(rule string) {
	r := c.R
	fn := c.P.FuncOpt("(ab/defaults.HTTPBodyReader).Read")
	if fn == nil {
		return // default reader absent: nothing of the library to check
	}
	name := FuncName(fn)
	var verbatim func(v ssa.Value, d int) bool
	verbatim = func(v ssa.Value, d int) bool {
		if d > 6 {
			return false
		}
		switch x := v.(type) {
		case *ssa.Lookup:
			_, isMap := x.X.Type().Underlying().(*types.Map)
			_, isConst := ConstStr(x.Index)
			return isMap && isConst && !x.CommaOk
		case *ssa.Phi:
			for _, e := range x.Edges {
				if e != v && !verbatim(e, d+1) {
					return false
				}
			}
			return true
		case *ssa.UnOp:
			// load of a local cell: whatever was stored there
			if a, ok := x.X.(*ssa.Alloc); ok && a.Referrers() != nil {
				n := 0
				for _, ref := range *a.Referrers() {
					if st, ok := ref.(*ssa.Store); ok && st.Addr == a {
						n++
						if !verbatim(st.Val, d+1) {
							return false
						}
					}
				}
				return n > 0
			}
		case *ssa.Const:
			return true
		}
		return false
	}
	n := 0
	for _, b := range fn.Blocks {
		for _, in := range b.Instrs {
			st, ok := in.(*ssa.Store)
			if !ok {
				continue
			}
			fa, ok := st.Addr.(*ssa.FieldAddr)
			if !ok {
				continue
			}
			if bt, ok := st.Val.Type().Underlying().(*types.Basic); !ok || bt.Kind() != types.String {
				continue
			}
			if _, isLocal := fa.X.(*ssa.Alloc); !isLocal {
				continue
			}
			if _, isParam := st.Val.(*ssa.Parameter); isParam {
				continue // the page name the module asked for, not a submitted value
			}
			if fn := fieldName(fa); fn == "PID" || fn == "PhoneNumber" {
				continue // identifiers: normalising them is the integrator's/reader's call, not a secret
			}
			n++
			fld := Short(derefType(fa.X.Type()).String()) + "." + fieldName(fa)
			r.Check(verbatim(st.Val, 0), rule, name, fld, posf(c, st), "the submitted map entry, unmodified", "the value handed to the modules as "+fld+" is not the submitted form field verbatim (it is computed from it): the modules act on a value that differs from what was validated and from what the other pages read for the same field")
		}
	}
	if n < 6 {
		r.Unknown(rule, name, "census", "-", sprintf("only %d secret string fields built by the reader (confirmed by hand: 11)", n))
	}
}

// ctxUserOnly: every call the value derives from is CurrentUser/CurrentUserP,
// which prefer the user object the firing handler attached to the request.
// The session's own identity (CurrentUserID, GetSession) is in general a
// different account while an event handler runs.
func (c *Ctx) ctxUserOnly(v ssa.Value) (bool, string) {
	isCtxUser := func(o Origin) bool {
		return o.Kind == "call" && (strings.HasPrefix(o.Name, fnCurrentUser+"#") || strings.HasPrefix(o.Name, fnCurrentUserP+"#"))
	}
	os := c.Origins(v)
	ok := HasOrigin(os, isCtxUser)
	for _, o := range os {
		if o.Kind == "call" && !isCtxUser(o) {
			ok = false
		}
	}
	return ok, names(os)
}

// role resolves an unexported helper the rules are anchored in: by its name
// on the pinned tree and, when a refactoring renamed, merged or inlined it,
// by what it does. Unexported names are not part of anybody's contract, so a
// missing name alone must not fail a check.
func (c *Ctx) role(name string, find func() *ssa.Function) *ssa.Function {
	if f := c.P.FuncOpt(name); f != nil {
		return f
	}
	if find != nil {
		if f := find(); f != nil {
			return f
		}
	}
	AnchorFail("anchor function %s not found (neither by name nor by what it does)", name)
	return nil
}

// storesField finds the repository functions storing into the named field.
func (c *Ctx) storesField(field string, pred func(*ssa.Store) bool) []*ssa.Function {
	var out []*ssa.Function
	for _, f := range c.P.Funcs {
		found := false
		for _, b := range f.Blocks {
			for _, in := range b.Instrs {
				if st, ok := in.(*ssa.Store); ok {
					if fa, ok := st.Addr.(*ssa.FieldAddr); ok && fieldName(fa) == field && (pred == nil || pred(st)) {
						found = true
					}
				}
			}
		}
		if found {
			out = append(out, f)
		}
	}
	return out
}

// KeepRole tells the normaliser which helper functions, although unknown to
// the rules by name, must stay functions because a rule looks for them by
// what they do: the one function that appends to both event queues.
func KeepRole(f *ssa.Function) bool {
	stores := func(field string) bool {
		for _, b := range f.Blocks {
			for _, in := range b.Instrs {
				if st, ok := in.(*ssa.Store); ok {
					if fa, ok := st.Addr.(*ssa.FieldAddr); ok && fieldName(fa) == field {
						return true
					}
				}
			}
		}
		return false
	}
	if strings.HasSuffix(f.Name(), "NewResponse") || strings.HasSuffix(f.Name(), "LoadClientState") {
		return false
	}
	return stores("sessionStateEvents") && stores("cookieStateEvents")
}

// flushFunc: the function that latches hasWritten=true (putClientState).
func (c *Ctx) flushFunc() *ssa.Function {
	return c.role("(*ab.ClientStateResponseWriter).putClientState", func() *ssa.Function {
		fs := c.storesField("hasWritten", func(st *ssa.Store) bool { v, ok := ConstBool(st.Val); return ok && v })
		if len(fs) == 1 {
			return fs[0]
		}
		return nil
	})
}

// queueFunc: the function that appends to both event queues (setState).
// queueFunc: the one function that appends to both event queues, selected by
// a family argument (setState) — nil when the code has one function per
// family instead; the per-wrapper summaries (queueEffects) then carry the
// pairing on their own.
func (c *Ctx) queueFunc() *ssa.Function {
	if f := c.P.FuncOpt("ab.setState"); f != nil {
		return f
	}
	a := c.storesField("sessionStateEvents", nil)
	b := c.storesField("cookieStateEvents", nil)
	for _, f := range a {
		for _, g := range b {
			if f == g && !c.isRequestEntryLike(f) {
				return f
			}
		}
	}
	return nil
}

// isRequestEntryLike: constructors of the writer also store the queue fields (as nil/empty).
func (c *Ctx) isRequestEntryLike(f *ssa.Function) bool {
	n := FuncName(f)
	return strings.HasSuffix(n, ".NewResponse") || strings.HasSuffix(n, ".LoadClientState")
}

// calleeWith: the unique repository function statically called by `from`
// that satisfies pred; `from` itself when it satisfies pred (helper inlined).
func (c *Ctx) calleeWith(from *ssa.Function, pred func(*ssa.Function) bool) *ssa.Function {
	var found []*ssa.Function
	for _, call := range Calls(from) {
		if g := StaticCallee(call); g != nil && c.inRepo(g) && g != from && pred(g) {
			dup := false
			for _, x := range found {
				if x == g {
					dup = true
				}
			}
			if !dup {
				found = append(found, g)
			}
		}
	}
	if len(found) == 1 {
		return found[0]
	}
	if len(found) == 0 && pred(from) {
		return from
	}
	return nil
}

func isBoolType(t types.Type) bool {
	b, ok := t.Underlying().(*types.Basic)
	return ok && b.Info()&types.IsBoolean != 0
}
