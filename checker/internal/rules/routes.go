package rules

import (
	"fmt"
	"go/token"
	"go/types"
	"strings"

	. "abverif/internal/engine"

	"golang.org/x/tools/go/ssa"
)

// Route is one Router.Get/Post/Delete registration with its handler resolved
// into wrapper chain alternatives.
type Route struct {
	Call   ssa.CallInstruction
	Method string
	Path   string // constant path, or "<prefix>…<suffix>" for concatenations
	In     *ssa.Function
	Alts   []Chain
}

// Chain is one way the handler value can be composed: outermost wrapper first.
type Chain struct {
	Wrappers []Wrapper
	Inner    *ssa.Function // innermost handler body (method or function)
	Recv     ssa.Value     // receiver bound to Inner (for method values), may be nil
	Cond     []string      // path conditions (informational)
	Unknown  string        // non-empty when resolution stopped
}

// Wrapper is one wrapping step.
type Wrapper struct {
	Kind string // MW2, ErrorHandler.Wrap, EmailVerify.Wrap, other:<callee>
	Reqs int64  // MW2: requirement bits (-1 if not constant)
	Call ssa.CallInstruction
}

func (ch Chain) String() string {
	var ws []string
	for _, w := range ch.Wrappers {
		if w.Kind == "MW2" {
			ws = append(ws, fmt.Sprintf("MW2(reqs=%d)", w.Reqs))
		} else {
			ws = append(ws, w.Kind)
		}
	}
	in := "?"
	if ch.Inner != nil {
		in = FuncName(ch.Inner)
	}
	if ch.Unknown != "" {
		in += " [unresolved: " + ch.Unknown + "]"
	}
	return strings.Join(append(ws, in), " → ")
}

// env maps the parameters of closures being inlined to argument expressions.
type hEnv struct {
	params map[*ssa.Parameter]hVal
	binds  map[*ssa.FreeVar]ssa.Value
	outer  *hEnv
}

// hVal is a value together with the environment to interpret it in.
type hVal struct {
	v   ssa.Value
	env *hEnv
}

// resolveHandler expands a handler expression into chains.
func (c *Ctx) resolveHandler(hv hVal, depth int) []Chain {
	if depth > 14 {
		return []Chain{{Unknown: "depth"}}
	}
	v := hv.v
	switch x := v.(type) {
	case *ssa.Parameter:
		for e := hv.env; e != nil; e = e.outer {
			if a, ok := e.params[x]; ok {
				return c.resolveHandler(a, depth+1)
			}
		}
		return []Chain{{Unknown: "parameter " + x.Name()}}
	case *ssa.FreeVar:
		for e := hv.env; e != nil; e = e.outer {
			if b, ok := e.binds[x]; ok {
				return c.resolveHandler(hVal{b, e.outer}, depth+1)
			}
		}
		return []Chain{{Unknown: "free variable " + x.Name()}}
	case *ssa.Phi:
		var out []Chain
		for i, e := range x.Edges {
			cond := edgeCond(x.Block().Preds[i], x.Block())
			for _, ch := range c.resolveHandler(hVal{e, hv.env}, depth+1) {
				if cond != "" {
					ch.Cond = append(ch.Cond, cond)
				}
				out = append(out, ch)
			}
		}
		return out
	case *ssa.UnOp:
		// load of a local cell: single store
		if a, ok := x.X.(*ssa.Alloc); ok {
			return c.resolveCell(a, hv.env, depth)
		}
		if fa, ok := x.X.(*ssa.FieldAddr); ok {
			if fv, ok := c.structField(hVal{fa.X, hv.env}, fa.Field, depth+1); ok {
				return c.resolveHandler(fv, depth+1)
			}
		}
		if fv, ok := x.X.(*ssa.FreeVar); ok {
			// captured cell
			for e := hv.env; e != nil; e = e.outer {
				if b, ok := e.binds[fv]; ok {
					if a, ok := b.(*ssa.Alloc); ok {
						return c.resolveCell(a, e.outer, depth)
					}
					return c.resolveHandler(hVal{b, e.outer}, depth+1)
				}
			}
		}
		return []Chain{{Unknown: "load " + x.String()}}
	case *ssa.MakeInterface:
		return c.resolveHandler(hVal{x.X, hv.env}, depth+1)
	case *ssa.ChangeType:
		return c.resolveHandler(hVal{x.X, hv.env}, depth+1)
	case *ssa.ChangeInterface:
		return c.resolveHandler(hVal{x.X, hv.env}, depth+1)
	case *ssa.Function:
		return []Chain{{Inner: c.realFunc(x)}}
	case *ssa.MakeClosure:
		f, _ := x.Fn.(*ssa.Function)
		if f == nil {
			return []Chain{{Unknown: "closure"}}
		}
		if f.Synthetic != "" { // bound method value
			var recv ssa.Value
			if len(x.Bindings) == 1 {
				recv = x.Bindings[0]
			}
			return []Chain{{Inner: c.realFunc(f), Recv: recv}}
		}
		// a literal closure used as the handler itself
		return []Chain{{Inner: f}}
	case *ssa.Call:
		return c.resolveCall(x, hv.env, depth)
	}
	return []Chain{{Unknown: fmt.Sprintf("%T", v)}}
}

func (c *Ctx) resolveCell(a *ssa.Alloc, env *hEnv, depth int) []Chain {
	var out []Chain
	if a.Referrers() != nil {
		for _, r := range *a.Referrers() {
			if st, ok := r.(*ssa.Store); ok && st.Addr == a {
				out = append(out, c.resolveHandler(hVal{st.Val, env}, depth+1)...)
			}
		}
	}
	if len(out) == 0 {
		return []Chain{{Unknown: "cell without store"}}
	}
	return out
}

// resolveCall: a call producing an http.Handler.
func (c *Ctx) resolveCall(call *ssa.Call, env *hEnv, depth int) []Chain {
	cc := call.Common()
	name := Callee(call)
	wrap := func(w Wrapper, arg ssa.Value) []Chain {
		var out []Chain
		for _, ch := range c.resolveHandler(hVal{arg, env}, depth+1) {
			ch.Wrappers = append([]Wrapper{w}, ch.Wrappers...)
			out = append(out, ch)
		}
		return out
	}
	switch {
	case cc.IsInvoke() && cc.Method.Name() == "Wrap" && strings.HasSuffix(name, "ErrorHandler).Wrap"):
		return wrap(Wrapper{Kind: "ErrorHandler.Wrap", Call: call}, cc.Args[0])
	case name == "(ab/otp/twofactor.EmailVerify).Wrap":
		return wrap(Wrapper{Kind: "EmailVerify.Wrap", Call: call}, cc.Args[1])
	}
	// call of a function value: either the result of MountedMiddleware2(...) or a local closure
	if name == "" || strings.HasPrefix(name, "(*") && false {
		fvs := c.funcValues(hVal{cc.Value, env}, depth+1)
		var out []Chain
		for _, fv := range fvs {
			var got []Chain
			switch {
			case fv.mw2 != nil:
				reqs := int64(-1)
				if n, ok := ConstInt(Arg(fv.mw2, 2)); ok {
					reqs = n
				}
				got = wrap(Wrapper{Kind: "MW2", Reqs: reqs, Call: fv.mw2}, cc.Args[0])
			case fv.closure != nil:
				got = c.inlineClosure(fv, cc.Args, env, depth)
			default:
				got = []Chain{{Unknown: "function value " + fv.why}}
			}
			for _, ch := range got {
				ch.Cond = append(ch.Cond, fv.cond...)
				out = append(out, ch)
			}
		}
		return out
	}
	// direct call of a local closure literal or of a known middleware constructor result
	if mc, ok := cc.Value.(*ssa.MakeClosure); ok {
		if f, ok := mc.Fn.(*ssa.Function); ok && f.Synthetic == "" {
			return c.inlineClosure(funcVal{closure: f, mc: mc, env: env}, cc.Args, env, depth)
		}
	}
	return wrap(Wrapper{Kind: "other:" + name, Call: call}, nil)
}

type funcVal struct {
	mw2     ssa.CallInstruction // call of MountedMiddleware2/Middleware2 producing this func
	closure *ssa.Function
	recv    *hVal // bound method value: the receiver the method is called on
	mc      *ssa.MakeClosure
	env     *hEnv
	why     string
	cond    []string
}

// edgeCond names the configuration flag (a loaded struct field) an edge into
// a phi is taken under.
func edgeCond(from, to *ssa.BasicBlock) string {
	cond := ""
	for _, f := range FactsAtEdge(from, to) {
		if n := fieldLoadName(f.Cond); n != "" {
			cond = fmt.Sprintf("%s=%v", n, f.Pol)
		}
	}
	return cond
}

// funcValues resolves a function-typed value to what it can be.
func (c *Ctx) funcValues(hv hVal, depth int) []funcVal {
	if depth > 14 {
		return []funcVal{{why: "depth"}}
	}
	switch x := hv.v.(type) {
	case *ssa.Call:
		n := Callee(x)
		if n == "ab.MountedMiddleware2" {
			return []funcVal{{mw2: x}}
		}
		if n == "ab.Middleware2" {
			// Middleware2(ab, reqs, resp): reqs is argument 1; normalise by reporting the call
			return []funcVal{{why: "Middleware2"}}
		}
		return []funcVal{{why: "result of " + n}}
	case *ssa.MakeClosure:
		if f, ok := x.Fn.(*ssa.Function); ok {
			if strings.HasPrefix(f.Synthetic, "bound method wrapper") && len(x.Bindings) == 1 {
				// a method value of a repository type used as a wrapper: the method, called on the bound receiver
				if m := c.realFunc(f); m != nil && m != f && c.inRepo(m) && len(m.Params) > 0 {
					return []funcVal{{closure: m, recv: &hVal{x.Bindings[0], hv.env}, env: hv.env}}
				}
			}
			return []funcVal{{closure: f, mc: x, env: hv.env}}
		}
	case *ssa.ChangeType:
		// conversion between a func type and a named func type
		return c.funcValues(hVal{x.X, hv.env}, depth+1)
	case *ssa.Phi:
		var out []funcVal
		for i, e := range x.Edges {
			if IsNilConst(e) && len(x.Edges) > 1 {
				// a nil function value cannot serve a route (calling it panics): the
				// error path of a helper that returns (wrapper, error)
				continue
			}
			cond := edgeCond(x.Block().Preds[i], x.Block())
			for _, fv := range c.funcValues(hVal{e, hv.env}, depth+1) {
				if cond != "" {
					fv.cond = append(fv.cond, cond)
				}
				out = append(out, fv)
			}
		}
		return out
	case *ssa.UnOp:
		resolveAlloc := func(a *ssa.Alloc, env *hEnv) []funcVal {
			var out []funcVal
			if a.Referrers() != nil {
				for _, r := range *a.Referrers() {
					if st, ok := r.(*ssa.Store); ok && st.Addr == a {
						out = append(out, c.funcValues(hVal{st.Val, env}, depth+1)...)
					}
				}
			}
			return out
		}
		if a, ok := x.X.(*ssa.Alloc); ok {
			return resolveAlloc(a, hv.env)
		}
		if fa, ok := x.X.(*ssa.FieldAddr); ok {
			if fv, ok := c.structField(hVal{fa.X, hv.env}, fa.Field, depth+1); ok {
				return c.funcValues(fv, depth+1)
			}
		}
		if fv, ok := x.X.(*ssa.FreeVar); ok {
			for e := hv.env; e != nil; e = e.outer {
				if b, ok := e.binds[fv]; ok {
					if a, ok := b.(*ssa.Alloc); ok {
						return resolveAlloc(a, e.outer)
					}
					return c.funcValues(hVal{b, e.outer}, depth+1)
				}
			}
		}
	case *ssa.Field:
		if fv, ok := c.structField(hVal{x.X, hv.env}, x.Field, depth+1); ok {
			return c.funcValues(fv, depth+1)
		}
	case *ssa.FreeVar:
		for e := hv.env; e != nil; e = e.outer {
			if b, ok := e.binds[x]; ok {
				return c.funcValues(hVal{b, e.outer}, depth+1)
			}
		}
	case *ssa.Parameter:
		for e := hv.env; e != nil; e = e.outer {
			if a, ok := e.params[x]; ok {
				return c.funcValues(a, depth+1)
			}
		}
	}
	return []funcVal{{why: hv.v.String()}}
}

// inlineClosure evaluates "closure(args)" by resolving the closure's return
// expression with its parameters bound to args.
func (c *Ctx) inlineClosure(fv funcVal, args []ssa.Value, callerEnv *hEnv, depth int) []Chain {
	f := fv.closure
	env := &hEnv{params: map[*ssa.Parameter]hVal{}, binds: map[*ssa.FreeVar]ssa.Value{}, outer: fv.env}
	params := f.Params
	if fv.recv != nil && len(params) > 0 {
		env.params[params[0]] = *fv.recv
		params = params[1:]
	}
	for i, p := range params {
		if i < len(args) {
			env.params[p] = hVal{args[i], callerEnv}
		}
	}
	if fv.mc != nil {
		for i, b := range fv.mc.Bindings {
			if i < len(f.FreeVars) {
				env.binds[f.FreeVars[i]] = b
			}
		}
	}
	var out []Chain
	for _, b := range f.Blocks {
		for _, in := range b.Instrs {
			if ret, ok := in.(*ssa.Return); ok && len(ret.Results) == 1 {
				out = append(out, c.resolveHandler(hVal{ret.Results[0], env}, depth+1)...)
			}
		}
	}
	if len(out) == 0 {
		return []Chain{{Unknown: "closure without return"}}
	}
	return out
}

// Routes extracts the route table of the whole repository.
func (c *Ctx) Routes() []Route {
	var out []Route
	for _, fn := range c.P.Funcs {
		for _, call := range Calls(fn) {
			var method string
			var pathV, hV ssa.Value
			name := Callee(call)
			switch name {
			case "(ab.Router).Get", "(ab.Router).Post", "(ab.Router).Delete":
				method = strings.TrimPrefix(name, "(ab.Router).")
				pathV, hV = Arg(call, 0), Arg(call, 1)
			case "":
				// a selected router method value: f(path, handler)
				if len(call.Common().Args) == 2 && strings.HasSuffix(call.Common().Args[1].Type().String(), "net/http.Handler") {
					if fvs := c.routerMethodValues(call.Common().Value); len(fvs) > 0 {
						method = strings.Join(fvs, "|")
						pathV, hV = Arg(call, 0), Arg(call, 1)
					}
				}
			}
			if method == "" {
				continue
			}
			rt := Route{Call: call, Method: method, In: fn}
			if s, ok := ConstStr(pathV); ok {
				rt.Path = s
			} else {
				rt.Path = pathPattern(pathV)
			}
			rt.Alts = c.resolveHandler(hVal{hV, nil}, 0)
			out = append(out, rt)
		}
	}
	return out
}

// routerMethodValues: v is a phi of bound Router methods; returns their names.
func (c *Ctx) routerMethodValues(v ssa.Value) []string {
	var out []string
	var walk func(v ssa.Value, d int)
	walk = func(v ssa.Value, d int) {
		if d > 4 {
			return
		}
		switch x := v.(type) {
		case *ssa.Phi:
			for _, e := range x.Edges {
				walk(e, d+1)
			}
		case *ssa.MakeClosure:
			if f, ok := x.Fn.(*ssa.Function); ok && f.Synthetic != "" && len(x.Bindings) == 1 && strings.HasSuffix(x.Bindings[0].Type().String(), ".Router") {
				out = append(out, strings.TrimSuffix(f.Name(), "$bound"))
			}
		}
	}
	walk(v, 0)
	return out
}

func pathPattern(v ssa.Value) string {
	if s, ok := ConstStr(v); ok {
		return s
	}
	if b, ok := v.(*ssa.BinOp); ok {
		return pathPattern(b.X) + pathPattern(b.Y)
	}
	if c, ok := v.(*ssa.Call); ok && Callee(c) == "fmt.Sprintf" {
		if f, ok := ConstStr(Arg(c, 0)); ok {
			return f
		}
	}
	return "…"
}

// structField: the value held by field number field of the struct that hv
// is (or points to), as far as it can be read off: a local composite literal
// (field stores), a copy of one (whole store), a receiver or parameter bound
// in the environment, a captured variable.
func (c *Ctx) structField(hv hVal, field int, depth int) (hVal, bool) {
	if depth > 14 || hv.v == nil {
		return hVal{}, false
	}
	switch x := hv.v.(type) {
	case *ssa.Alloc:
		if x.Referrers() == nil {
			return hVal{}, false
		}
		var found *hVal
		n := 0
		for _, ref := range *x.Referrers() {
			switch r := ref.(type) {
			case *ssa.FieldAddr:
				if r.Field != field || r.Referrers() == nil {
					continue
				}
				for _, rr := range *r.Referrers() {
					if st, ok := rr.(*ssa.Store); ok && st.Addr == ssa.Value(r) {
						found = &hVal{st.Val, hv.env}
						n++
					}
				}
			case *ssa.Store:
				if r.Addr == ssa.Value(x) {
					if fv, ok := c.structField(hVal{r.Val, hv.env}, field, depth+1); ok {
						found = &fv
						n++
					}
				}
			}
		}
		if n == 1 {
			return *found, true
		}
	case *ssa.UnOp:
		// a copy taken at this point (a method value of a value receiver binds
		// the struct as it is now): only what was stored before counts
		if a, isA := x.X.(*ssa.Alloc); isA && x.Op == token.MUL && a.Referrers() != nil {
			var found *hVal
			n := 0
			for _, ref := range *a.Referrers() {
				switch r := ref.(type) {
				case *ssa.FieldAddr:
					if r.Field != field || r.Referrers() == nil {
						continue
					}
					for _, rr := range *r.Referrers() {
						st, ok := rr.(*ssa.Store)
						if !ok || st.Addr != ssa.Value(r) {
							continue
						}
						switch {
						case InstrDominates(st, x):
							found = &hVal{st.Val, hv.env}
							n++
						case InstrDominates(x, st):
							// assigned after the copy was taken: not part of it
						default:
							n += 2 // unordered: cannot tell
						}
					}
				case *ssa.Store:
					if r.Addr == ssa.Value(a) {
						switch {
						case InstrDominates(r, x):
							if fv, ok := c.structField(hVal{r.Val, hv.env}, field, depth+1); ok {
								found = &fv
								n++
							}
						case InstrDominates(x, r):
						default:
							n += 2
						}
					}
				}
			}
			if n == 1 {
				return *found, true
			}
			if n == 0 {
				// never assigned before the copy: the zero value
				if pt, isP := a.Type().Underlying().(*types.Pointer); isP {
					if st, isS := pt.Elem().Underlying().(*types.Struct); isS && field < st.NumFields() {
						return hVal{ssa.NewConst(nil, st.Field(field).Type()), hv.env}, true
					}
				}
			}
			return hVal{}, false
		}
		return c.structField(hVal{x.X, hv.env}, field, depth+1)
	case *ssa.MakeInterface:
		return c.structField(hVal{x.X, hv.env}, field, depth+1)
	case *ssa.ChangeType:
		return c.structField(hVal{x.X, hv.env}, field, depth+1)
	case *ssa.Parameter:
		for e := hv.env; e != nil; e = e.outer {
			if a, ok := e.params[x]; ok {
				return c.structField(a, field, depth+1)
			}
		}
	case *ssa.FreeVar:
		for e := hv.env; e != nil; e = e.outer {
			if b, ok := e.binds[x]; ok {
				return c.structField(hVal{b, e.outer}, field, depth+1)
			}
		}
	case *ssa.FieldAddr:
		if inner, ok := c.structField(hVal{x.X, hv.env}, x.Field, depth+1); ok {
			return c.structField(inner, field, depth+1)
		}
	case *ssa.Field:
		if inner, ok := c.structField(hVal{x.X, hv.env}, x.Field, depth+1); ok {
			return c.structField(inner, field, depth+1)
		}
	}
	return hVal{}, false
}
