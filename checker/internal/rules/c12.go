package rules

import (
	"go/token"
	"strings"

	. "abverif/internal/engine"

	"golang.org/x/tools/go/ssa"
)

const fnUseRecoveryCode = "ab/otp/twofactor.UseRecoveryCode"

// savedBefore: on every path from 'from' (under assumptions) to an instruction
// satisfying goal, a storer write of user passes first.
func (c *Ctx) savedBefore(from ssa.Instruction, assume map[ssa.Value]bool, user ssa.Value, goal func(ssa.Instruction) bool) []ssa.Instruction {
	q := PathQuery{From: from, Assume: assume, Cut: c.isStorerWriteOf(user), Goal: goal}
	return q.Find()
}

// C12: one-time secrets are consumed by the login they enable.
func C12(c *Ctx) {
	r := c.R
	r.Explanation = "Static necessary conditions for C12: (1) one-time passwords: in otp.LoginPost the write of session[uid] is dominated by PutOTPs(<shrunken list>) and by Storage.Save(user)==nil, in that order; the element overwritten/removed is the one at the matched index and the list is cut by exactly one; (2) recovery codes (both 2FA modules): from UseRecoveryCode(...)→true, every path to a success outcome (success-token return, session write, factor removal) passes PutRecoveryCodes(Encode(result #0 of that call)) and a Save of the same user; UseRecoveryCode returns a list that omits exactly the matched element; (3) SMS login code: the session write is paired with DelSession(sms_secret); (4) TOTP replay protection: for a UserOneTime the last code equal to the input yields a non-success return before totp.Validate, the input is recorded with PutTOTPLastCode, and PostValidate saves it before the session is written; (5) limit: otp.AddPost appends only under len(current) < maxOTPs and saves; ClearPost stores the empty list; regenerated recovery codes are bcrypt hashes of fresh codes and are saved."
	r.NotDecided = []string{"that stored hashes match only issued values (cryptography)", "atomicity of Load/Save across concurrent requests (integrator's storage)"}
	c.c12OTP()
	c.c12Recovery()
	c.c12SMS()
	c.c12TOTPReplay()
	c.c12Limits()
}

func (c *Ctx) c12OTP() {
	r := c.R
	fn := c.P.FuncOpt("(*ab/otp.OTP).LoginPost")
	if fn == nil {
		r.Unknown("C12.otp-consume", "(*ab/otp.OTP).LoginPost", "handler", "-", "not found")
		return
	}
	name := FuncName(fn)
	uid := c.P.ConstString("", "SessionKey")
	var issue *StateOp
	ops := c.StateOps(fn)
	for i := range ops {
		if ops[i].Op == "put" && ops[i].Store == "session" && ops[i].Key == uid {
			issue = &ops[i]
		}
	}
	if issue == nil {
		r.Unknown("C12.otp-consume", name, "PutSession(uid)", "-", "no issuance in otp.LoginPost")
		return
	}
	puts := c.userCalls(fn, "PutOTPs")
	saves := CallsTo(fn, fnSave)
	at := issue.Call.(ssa.Instruction)
	var put ssa.CallInstruction
	for _, p := range puts {
		if InstrDominates(p.(ssa.Instruction), at) {
			put = p
		}
	}
	if put == nil {
		r.Bad("C12.otp-consume", name, "PutOTPs≺PutSession(uid)", posf(c, issue.Call), "the session is written without the used one-time password having been removed from the user first")
	} else {
		r.Ok("C12.otp-consume", name, "PutOTPs≺PutSession(uid)", posf(c, put), "used password removed before the session write")
	}
	okSave := false
	for _, s := range saves {
		se := ErrResult(s)
		if se != nil && ErrNilAt(at, se) && (put == nil || InstrDominates(put.(ssa.Instruction), s.(ssa.Instruction))) {
			okSave = true
		}
	}
	r.Check(okSave, "C12.otp-consume", name, "Save==nil≺PutSession(uid)", posf(c, issue.Call), "removal saved (and the save succeeded) before the session write", "the session is written without the removal of the used one-time password having been saved successfully first: the same password works again")
	// the same holds for the hand-over to the second factor
	for _, f := range Fires(fn) {
		if f.Before && f.Const && f.Event == c.Event("EventAuthHijack") {
			ok := false
			for _, s := range saves {
				if se := ErrResult(s); se != nil && ErrNilAt(f.Call.(ssa.Instruction), se) {
					ok = true
				}
			}
			r.Check(ok, "C12.otp-consume", name, "Save==nil≺FireBefore(EventAuthHijack)", posf(c, f.Call), "consumed before the login is parked for the second factor", "login can be parked for the second factor before the one-time password is consumed")
		}
	}
	if put == nil {
		return
	}
	// shape of the shrunken list: Put(join(list[:len-1])) after list[match] = list[len-1]
	arg := Arg(put, 0)
	var sl *ssa.Slice
	var findSlice func(v ssa.Value, d int)
	findSlice = func(v ssa.Value, d int) {
		if d > 6 || sl != nil || v == nil {
			return
		}
		switch x := v.(type) {
		case *ssa.Slice:
			sl = x
		case *ssa.Call:
			for _, a := range x.Call.Args {
				findSlice(a, d+1)
			}
		case *ssa.Phi:
			for _, e := range x.Edges {
				findSlice(e, d+1)
			}
		}
	}
	findSlice(arg, 0)
	if sl == nil {
		r.Unknown("C12.otp-remove", name, "PutOTPs.arg", posf(c, put), "stored list is not a slice expression of the loaded list; removal idiom not understood")
		return
	}
	// match index phi: the value compared "< 0" that gates the issuance
	var match ssa.Value
	for _, f := range FactsAtInstr(at) {
		rel := f.Rel()
		if phi, ok := rel.X.(*ssa.Phi); ok {
			if n, isC := ConstInt(rel.Y); isC && n == 0 && (rel.Op == token.GEQ) {
				match = phi
			}
			if n, isC := ConstInt(rel.Y); isC && n == -1 && (rel.Op == token.GTR || rel.Op == token.NEQ) {
				match = phi
			}
		}
	}
	if match == nil {
		r.Unknown("C12.otp-remove", name, "match index", posf(c, put), "no 'index of match' value gating the issuance found")
		return
	}
	list := stripConv(sl.X)
	// the index counts positions of the list that is stored back: a match found
	// while walking another list (a filtered or decoded copy) names another element
	{
		var walk func(v ssa.Value, d int)
		seenPhi := map[*ssa.Phi]bool{}
		walk = func(v ssa.Value, d int) {
			if d > 4 {
				return
			}
			if k, isC := ConstInt(v); isC && k < 0 {
				return
			}
			idx := v
			if b, ok := v.(*ssa.BinOp); ok && b.Op == token.ADD {
				idx = b.X
			}
			phi, ok := idx.(*ssa.Phi)
			if !ok {
				return
			}
			// a range index: phi [-1, phi+1] whose header compares phi+1 with len(L)
			isRange := false
			for _, e := range phi.Edges {
				if k, isC := ConstInt(e); isC && k == -1 {
					for _, e2 := range phi.Edges {
						if b, ok := e2.(*ssa.BinOp); ok && b.Op == token.ADD && b.X == ssa.Value(phi) {
							isRange = true
						}
					}
				}
			}
			if !isRange {
				if seenPhi[phi] {
					return
				}
				seenPhi[phi] = true
				for _, e := range phi.Edges {
					walk(e, d+1)
				}
				return
			}
			for _, in := range phi.Block().Instrs {
				cmp, ok := in.(*ssa.BinOp)
				if !ok || cmp.Op != token.LSS {
					continue
				}
				lc, _ := CallOf(cmp.Y)
				if lc == nil {
					continue
				}
				if bi, isB := lc.Common().Value.(*ssa.Builtin); isB && bi.Name() == "len" {
					if L := stripConv(Arg(lc, 0)); L != list {
						r.Bad("C12.otp-remove", name, "match index ranges over the stored list", posf(c, in), "the index of the matching one-time password is a position in another list ("+SafeString(L)+") than the one the element is removed from and that is stored back: when the two differ in length or order another password is removed and the used one stays valid")
					} else {
						r.Ok("C12.otp-remove", name, "match index ranges over the stored list", posf(c, in), "index and removal refer to the same list")
					}
				}
			}
		}
		walk(match, 0)
	}
	hi, okHi := linearOf(sl.High, 0)
	lowOK := sl.Low == nil
	cutOne := okHi && lowOK && hi.K == -1 && len(hi.Lens) == 1
	for k, v := range hi.Lens {
		if v != 1 || stripConv(k) != list {
			cutOne = false
		}
	}
	// store list[match] = list[len-1] dominating the slice
	okStore := false
	for _, b := range fn.Blocks {
		for _, in := range b.Instrs {
			st, ok := in.(*ssa.Store)
			if !ok {
				continue
			}
			ia, ok := st.Addr.(*ssa.IndexAddr)
			if !ok || stripConv(ia.X) != list || ia.Index != match {
				continue
			}
			// value: load of list[len-1]
			if u, ok := st.Val.(*ssa.UnOp); ok {
				if sa, ok := u.X.(*ssa.IndexAddr); ok && stripConv(sa.X) == list {
					if li, ok := linearOf(sa.Index, 0); ok && li.K == -1 && len(li.Lens) == 1 && InstrDominates(st, put.(ssa.Instruction)) {
						okStore = true
					}
				}
			}
		}
	}
	if cutOne && okStore {
		r.Ok("C12.otp-remove", name, "list[match]=list[last]; list[:len-1]", posf(c, put), "the matched element is the one dropped")
	} else {
		// alternative idiom: append(list[:match], list[match+1:]...)
		alt := false
		for _, call := range Calls(fn) {
			if bi, ok := call.Common().Value.(*ssa.Builtin); ok && bi.Name() == "append" && InstrDominates(call.(ssa.Instruction), put.(ssa.Instruction)) {
				a0, ok0 := Arg(call, 0).(*ssa.Slice)
				a1, ok1 := Arg(call, 1).(*ssa.Slice)
				if ok0 && ok1 && a0.High == match && stripConv(a0.X) == list && stripConv(a1.X) == list {
					if b, ok := a1.Low.(*ssa.BinOp); ok && b.Op == token.ADD && b.X == match {
						if n, isC := ConstInt(b.Y); isC && n == 1 {
							alt = true
						}
					}
				}
			}
		}
		r.Check(alt, "C12.otp-remove", name, "removal of the matched element", posf(c, put), "append(list[:match], list[match+1:]...)", "the list stored after a successful one-time-password login does not drop exactly the element at the matched index (a different element is dropped, or none): the used password stays valid")
	}
}

func (c *Ctx) c12Recovery() {
	r := c.R
	uid := c.P.ConstString("", "SessionKey")
	n := 0
	for _, fn := range c.P.Funcs {
		for _, call := range Calls(fn) {
			if Callee(call) != fnUseRecoveryCode {
				continue
			}
			n++
			name := FuncName(fn)
			pos := posf(c, call)
			okv := ResultValue(call, 1)
			rest := ResultValue(call, 0)
			if okv == nil || rest == nil {
				r.Bad("C12.recovery-consume", name, "UseRecoveryCode results", pos, "result of UseRecoveryCode is dropped: a matched code cannot be removed")
				continue
			}
			// whose codes: identity of the first argument
			ids := c.identityOrigins(c.Origins(Arg(call, 0)))
			if len(ids) == 0 {
				r.Unknown("C12.recovery-consume", name, "UseRecoveryCode.codes", pos, "stored codes are not read from a user object")
				continue
			}
			var user ssa.Value
			for _, pc := range c.userCalls(fn, "PutRecoveryCodes") {
				if HasOrigin(c.rawOrigins(Arg(pc, 0)), func(o Origin) bool { return o.V == call.Value() && o.Idx == 0 }) &&
					sameOriginValue(c.identityOrigins(c.Origins(pc.Common().Value)), ids) {
					user = pc.Common().Value
				}
			}
			if user == nil {
				r.Bad("C12.recovery-consume", name, "PutRecoveryCodes(Encode(rest))", pos, "the shrunken list returned by UseRecoveryCode is never put back into the same user: the used recovery code stays valid")
				continue
			}
			assume := map[ssa.Value]bool{okv: true}
			isPut := func(i ssa.Instruction) bool {
				pc, ok := i.(ssa.CallInstruction)
				return ok && pc.Common().IsInvoke() && pc.Common().Method.Name() == "PutRecoveryCodes" && HasOrigin(c.rawOrigins(Arg(pc, 0)), func(o Origin) bool { return o.V == call.Value() && o.Idx == 0 })
			}
			success := func(i ssa.Instruction) bool {
				if ret, ok := i.(*ssa.Return); ok {
					return !c.isErrorExit(ret)
				}
				if c.isStateOp("put", "session", uid)(i) {
					return true
				}
				if pc, ok := i.(ssa.CallInstruction); ok && pc.Common().IsInvoke() {
					m := pc.Common().Method.Name()
					if strings.HasPrefix(m, "Put") && m != "PutRecoveryCodes" && m != "PutTOTPLastCode" && c.isUserType(pc.Common().Value.Type()) {
						return true
					}
				}
				return false
			}
			q1 := PathQuery{From: call.(ssa.Instruction), Assume: assume, Cut: isPut, Goal: success}
			if p := q1.Find(); p != nil {
				r.Bad("C12.recovery-consume", name, "PutRecoveryCodes≺success", pos, "after a recovery code matched, a success outcome is reachable without the shrunken list being put back", c.P.DescribePath(p)...)
				continue
			}
			if p := c.savedBefore(call.(ssa.Instruction), assume, user, success); p != nil {
				// the function may hand the user back to a caller that saves: accept only if this function is not an entry
				// (only when what is reached unsaved is the return itself: a session or a
				// factor change written here has happened before any caller runs)
				_, handsBack := p[len(p)-1].(*ssa.Return)
				if handsBack && !c.isEntry(fn) && len(c.Callers(fn)) > 0 && c.callersSaveBeforeSuccess(fn, uid) {
					r.Ok("C12.recovery-consume", name, "Save≺success", pos, "saved by every caller before a success outcome")
				} else {
					r.Bad("C12.recovery-consume", name, "Save≺success", pos, "after a recovery code matched, a success outcome is reachable without the shrunken list being saved: the code works again", c.P.DescribePath(p)...)
				}
				continue
			}
			r.Ok("C12.recovery-consume", name, "Put+Save≺success", pos, "used code removed and saved before any success outcome")
			// save error is acted on
			for _, s := range CallsTo(fn, fnSave) {
				k, _ := c.errHandling(s)
				if k == "dropped" || k == "escapes" {
					r.Bad("C12.recovery-consume", name, "Save.err", posf(c, s), "error of Save is "+k)
					continue
				}
				// the save that burns the code: a failure must stop the flow (a logged and
				// otherwise ignored error lets the login complete with the code still stored)
				if k == "tested" && Reaches(call.(ssa.Instruction), s.(ssa.Instruction)) {
					if okP, why := c.errPropagated(s); !okP {
						r.Bad("C12.recovery-consume", name, "Save.err", posf(c, s), "the error of the save that removes the used recovery code is not handed back ("+why+"): the login completes although the code was not consumed")
					}
				}
			}
		}
	}
	r.Extra["use_recovery_code_sites"] = n
	if n == 0 && c.P.ByPath[RepoPath+"/otp/twofactor"] != nil {
		r.Unknown("C12.recovery-consume", "", "UseRecoveryCode", "-", "no call of UseRecoveryCode found")
	}
	// UseRecoveryCode itself: returned list omits exactly the matched element
	if f := c.P.FuncOpt(fnUseRecoveryCode); f != nil {
		c.useRecoveryCodeShape(f)
	}
}

// callersSaveBeforeSuccess: every caller saves the returned user (result 0)
// before writing the session.
func (c *Ctx) callersSaveBeforeSuccess(fn *ssa.Function, uid string) bool {
	for _, call := range c.Callers(fn) {
		q := PathQuery{From: call.(ssa.Instruction), Cut: func(i ssa.Instruction) bool {
			ic, ok := i.(ssa.CallInstruction)
			if !ok {
				return false
			}
			idx, ok := storerWrites[Callee(ic)]
			return ok && HasOrigin(c.Origins(Arg(ic, idx)), func(o Origin) bool { return o.V == call.Value() })
		}, Goal: c.isStateOp("put", "session", uid)}
		if q.Find() != nil {
			return false
		}
	}
	return true
}

func (c *Ctx) useRecoveryCodeShape(f *ssa.Function) {
	r := c.R
	name := FuncName(f)
	// (a) true only on a bcrypt match (bool summary)
	cs := c.boolSummary(f, 1, 0)
	r.Check(len(cs) > 0 && (hasKind(cs, "bcrypt") || hasKind(cs, "password")), "C12.use-code", name, "returns true only on a bcrypt match", c.P.Pos(f.Pos()), credKinds(cs), "UseRecoveryCode can return true without a successful bcrypt comparison")
	// (b) result list has len(codes)-1 elements and skips index 'use'
	okLen := false
	for _, b := range f.Blocks {
		for _, in := range b.Instrs {
			if ms, ok := in.(*ssa.MakeSlice); ok {
				if l, ok := linearOf(ms.Len, 0); ok && l.K == -1 && len(l.Lens) == 1 {
					okLen = true
				}
			}
		}
	}
	// alternative idiom: append(codes[:i], codes[i+1:]...) into a fresh slice
	if !okLen {
		var lo, hi *ssa.Slice
		for _, b := range f.Blocks {
			for _, in := range b.Instrs {
				sl, ok := in.(*ssa.Slice)
				if !ok {
					continue
				}
				if _, isP := stripConv(sl.X).(*ssa.Parameter); !isP {
					continue
				}
				if sl.Low == nil && sl.High != nil {
					lo = sl
				}
				if sl.High == nil && sl.Low != nil {
					hi = sl
				}
			}
		}
		if lo != nil && hi != nil {
			if bo, ok := hi.Low.(*ssa.BinOp); ok && bo.Op == token.ADD && bo.X == lo.High {
				if n, isC := ConstInt(bo.Y); isC && n == 1 {
					r.Ok("C12.use-code", name, "append(codes[:i], codes[i+1:]...)", c.P.Pos(f.Pos()), "result omits exactly the matched element")
					return
				}
			}
		}
	}
	// alternative idiom: slices.Delete(slices.Clone(codes), i, i+1)
	if !okLen {
		for _, call := range Calls(f) {
			if genericName(call) != "slices.Delete" || len(call.Common().Args) != 3 {
				continue
			}
			cl, _ := CallOf(Arg(call, 0))
			if cl == nil || genericName(cl) != "slices.Clone" {
				continue
			}
			if _, isP := stripConv(Arg(cl, 0)).(*ssa.Parameter); !isP {
				continue
			}
			if bo, ok := Arg(call, 2).(*ssa.BinOp); ok && bo.Op == token.ADD && bo.X == Arg(call, 1) {
				if n, isC := ConstInt(bo.Y); isC && n == 1 {
					r.Ok("C12.use-code", name, "slices.Delete(slices.Clone(codes), i, i+1)", posf(c, call), "result is a copy that omits exactly the matched element")
					return
				}
			}
		}
	}
	r.Check(okLen, "C12.use-code", name, "make([]string, len(codes)-1)", c.P.Pos(f.Pos()), "result is one shorter than the input", "the list returned is not exactly one element shorter than the stored list")
	// skip: a branch 'j == use' that continues without storing
	okSkip := false
	for _, b := range f.Blocks {
		if len(b.Instrs) == 0 {
			continue
		}
		ifi, ok := b.Instrs[len(b.Instrs)-1].(*ssa.If)
		if !ok {
			continue
		}
		rel := Normalize(ifi.Cond, true)
		if rel.Op != token.EQL {
			continue
		}
		_, xPhi := rel.X.(*ssa.Phi)
		_, yPhi := rel.Y.(*ssa.Phi)
		if !(xPhi || yPhi) {
			if _, xb := rel.X.(*ssa.BinOp); !xb {
				continue
			}
		}
		// true successor must not contain a store into the result
		hasStore := false
		for _, in := range b.Succs[0].Instrs {
			if _, isSt := in.(*ssa.Store); isSt {
				hasStore = true
			}
		}
		if !hasStore {
			okSkip = true
		}
	}
	r.Check(okSkip, "C12.use-code", name, "skip j==use", c.P.Pos(f.Pos()), "the matched element is skipped when copying", "copy loop does not skip the matched index")
}

func (c *Ctx) c12SMS() {
	r := c.R
	if c.P.ByPath[RepoPath+"/otp/twofactor/sms2fa"] == nil {
		return
	}
	uid := c.P.ConstString("", "SessionKey")
	secret := c.P.ConstString("otp/twofactor/sms2fa", "SessionSMSSecret")
	for _, s := range c.Issuances() {
		if pkgOf(s.Fn) != "ab/otp/twofactor/sms2fa" || !s.Op.Const {
			continue
		}
		name := FuncName(s.Fn)
		q := PathQuery{From: s.Op.Call.(ssa.Instruction), Cut: c.isStateOp("del", "session", secret), Goal: Or(IsReturn, IsPanic)}
		del := false
		for _, op := range c.StateOps(s.Fn) {
			if op.Op == "del" && op.Key == secret && InstrDominates(op.Call.(ssa.Instruction), s.Op.Call.(ssa.Instruction)) {
				del = true
			}
		}
		p := q.Find()
		if p == nil || del {
			r.Ok("C12.sms-code", name, "PutSession("+uid+")=>DelSession("+secret+")", posf(c, s.Op.Call), "the code is deleted with the login it enabled")
		} else {
			r.Bad("C12.sms-code", name, "PutSession("+uid+")=>DelSession("+secret+")", posf(c, s.Op.Call), "an SMS login completes without the session's code being deleted: the same code completes another pending login", c.P.DescribePath(p)...)
		}
	}
}

func (c *Ctx) c12TOTPReplay() {
	r := c.R
	v := c.P.FuncOpt("(*ab/otp/twofactor/totp2fa.TOTP).validate")
	pv := c.P.FuncOpt("(*ab/otp/twofactor/totp2fa.TOTP).PostValidate")
	if v == nil || pv == nil {
		return
	}
	vn := FuncName(v)
	// in validate: totp.Validate dominated by (not UserOneTime) or (last != input)
	vals := CallsTo(v, fnTOTPValidate, fnTOTPValidateCustom)
	if len(vals) == 0 {
		r.Bad("C12.totp-replay", vn, "totp.Validate", "-", "validate never checks the code")
		return
	}
	for _, tv := range vals {
		input := Arg(tv, 0)
		// path from entry to totp.Validate on which the user IS a UserOneTime must pass PutTOTPLastCode(input)
		// and the comparison last==input must have been false
		var ta *ssa.TypeAssert
		for _, b := range v.Blocks {
			for _, in := range b.Instrs {
				if x, ok := in.(*ssa.TypeAssert); ok && x.CommaOk && strings.HasSuffix(x.AssertedType.String(), "UserOneTime") {
					ta = x
				}
			}
		}
		if ta == nil {
			r.Bad("C12.totp-replay", vn, "UserOneTime", posf(c, tv), "validate does not look for the optional replay-protection interface")
			continue
		}
		// ... of the user whose secret the code is checked against: the guard
		// applied to an earlier reading of "the user" (the current user, before the
		// pending login's account was loaded) is absent exactly for pending logins
		userBase := func(v ssa.Value) ssa.Value {
			for d := 0; d < 6; d++ {
				switch x := v.(type) {
				case *ssa.TypeAssert:
					v = x.X
					continue
				case *ssa.Extract:
					if t, ok := x.Tuple.(*ssa.TypeAssert); ok && x.Index == 0 {
						v = t.X
						continue
					}
				case *ssa.ChangeInterface:
					v = x.X
					continue
				case *ssa.MakeInterface:
					v = x.X
					continue
				}
				break
			}
			return v
		}
		for _, b := range v.Blocks {
			for _, in := range b.Instrs {
				sc, ok := in.(ssa.CallInstruction)
				if !ok || !sc.Common().IsInvoke() || sc.Common().Method.Name() != "GetTOTPSecretKey" {
					continue
				}
				same := userBase(sc.Common().Value) == userBase(ta.X)
				r.Check(same, "C12.totp-replay", vn, "replay guard on the validated user", posf(c, ta), "the optional interface is looked for on the user whose secret is used", "the replay-protection interface is looked for on "+SafeString(userBase(ta.X))+", not on the user whose secret the code is checked against ("+SafeString(userBase(sc.Common().Value))+"): where the two differ (a pending login, whose account is loaded later) the guard is skipped and the same code is accepted twice")
			}
		}
		var okOT ssa.Value
		for _, ref := range *ta.Referrers() {
			if e, ok := ref.(*ssa.Extract); ok && e.Index == 1 {
				okOT = e
			}
		}
		assume := map[ssa.Value]bool{}
		if okOT != nil {
			assume[okOT] = true
		}
		isRecord := func(i ssa.Instruction) bool {
			pc, ok := i.(ssa.CallInstruction)
			return ok && pc.Common().IsInvoke() && pc.Common().Method.Name() == "PutTOTPLastCode" && Arg(pc, 0) == input
		}
		q := PathQuery{From: ta, Assume: assume, Cut: isRecord, Goal: func(i ssa.Instruction) bool { return i == tv.(ssa.Instruction) }}
		if p := q.Find(); p != nil {
			r.Bad("C12.totp-replay", vn, "PutTOTPLastCode(input)≺totp.Validate", posf(c, tv), "for a replay-protected user the code can be validated without being recorded as the last code", c.P.DescribePath(p)...)
		} else {
			r.Ok("C12.totp-replay", vn, "PutTOTPLastCode(input)≺totp.Validate", posf(c, tv), "input recorded before validation for replay-protected users")
		}
		// repeated code rejected: at the record call, fact last != input
		okRej := false
		for _, b := range v.Blocks {
			for _, in := range b.Instrs {
				if !isRecord(in) {
					continue
				}
				okRej = HoldsAtJoin(in, func(f Fact) bool {
					rel := f.EqRel()
					if rel.Op != token.NEQ {
						return false
					}
					x, y := rel.X, rel.Y
					for k := 0; k < 2; k++ {
						if y == input {
							if lc, _ := CallOf(x); lc != nil && lc.Common().IsInvoke() && lc.Common().Method.Name() == "GetTOTPLastCode" {
								return true
							}
						}
						x, y = y, x
					}
					return false
				})
			}
		}
		r.Check(okRej, "C12.totp-replay", vn, "last==input rejected", posf(c, tv), "a code equal to the last accepted one never reaches validation", "the previous code is not compared with the input before it is overwritten")
	}
	// every other place that records a last code (enrolment records the code
	// that confirmed the setup) must save it, or that code is accepted again
	for _, fn := range c.P.Funcs {
		if fn == v || pkgOf(fn) != pkgOf(v) {
			continue
		}
		except := map[string]string{}
		has := false
		for _, p := range c.userPuts(fn) {
			if p.Method == "PutTOTPLastCode" {
				has = true
			} else {
				except[p.Method] = "not a one-time secret (decided under C13)"
			}
		}
		if !has && len(CallsTo(fn, fnTOTPValidate, fnTOTPValidateCustom)) > 0 {
			// a code is validated here (enrolment is confirmed with one) and never
			// recorded: the first login afterwards accepts the very same code
			r.Bad("C12.totp-replay-save", FuncName(fn), "PutTOTPLastCode after totp.Validate", posf(c, CallsTo(fn, fnTOTPValidate, fnTOTPValidateCustom)[0]), "a TOTP code is validated here but not recorded as the user's last code (for users with replay protection): the same code is accepted again by the next validation inside its time window")
		}
		if has {
			c.mustSaveAfterPut("C12.totp-replay-save", fn, except)
			// for a replay-protected user the code is recorded on every path from its
			// validation to the save
			for _, tv := range CallsTo(fn, fnTOTPValidate, fnTOTPValidateCustom) {
				var okOT ssa.Value
				for _, b := range fn.Blocks {
					for _, in := range b.Instrs {
						if x, ok := in.(*ssa.TypeAssert); ok && x.CommaOk && strings.HasSuffix(x.AssertedType.String(), "UserOneTime") && x.Referrers() != nil {
							for _, ref := range *x.Referrers() {
								if e, ok := ref.(*ssa.Extract); ok && e.Index == 1 {
									okOT = e
								}
							}
						}
					}
				}
				if okOT == nil {
					continue
				}
				q := PathQuery{From: tv.(ssa.Instruction), Assume: map[ssa.Value]bool{okOT: true, ResultValue(tv, 0): true}, Cut: func(i ssa.Instruction) bool {
					pc, ok := i.(ssa.CallInstruction)
					return ok && pc.Common().IsInvoke() && pc.Common().Method.Name() == "PutTOTPLastCode"
				}, Goal: IsCallTo(fnSave)}
				if p := q.Find(); p != nil {
					r.Bad("C12.totp-replay-save", FuncName(fn), "PutTOTPLastCode≺Save|UserOneTime", posf(c, tv), "for a replay-protected user the validated code can reach the save without being recorded as the last code: it is accepted again", c.P.DescribePath(p)...)
				} else {
					r.Ok("C12.totp-replay-save", FuncName(fn), "PutTOTPLastCode≺Save|UserOneTime", posf(c, tv), "recorded on every path to the save")
				}
			}
			// what is recorded as the last code is the code that was validated
			for _, call := range Calls(fn) {
				cc := call.Common()
				if !cc.IsInvoke() || cc.Method.Name() != "PutTOTPLastCode" {
					continue
				}
				okArg := false
				for _, tv := range CallsTo(fn, fnTOTPValidate, fnTOTPValidateCustom) {
					if Arg(tv, 0) == Arg(call, 0) {
						okArg = true
					}
				}
				r.Check(okArg, "C12.totp-replay-save", FuncName(fn), "PutTOTPLastCode(<validated code>)", posf(c, call), "records the code that was checked", "the value recorded as the last accepted code is not the code that was validated here: the code that was actually used is accepted again")
			}
		}
	}
	// PostValidate: for a UserOneTime, Save before the session write
	pn := FuncName(pv)
	uid := c.P.ConstString("", "SessionKey")
	for _, call := range Calls(pv) {
		if StaticCallee(call) != v {
			continue
		}
		var okOT ssa.Value
		for _, b := range pv.Blocks {
			for _, in := range b.Instrs {
				if x, ok := in.(*ssa.TypeAssert); ok && x.CommaOk && strings.HasSuffix(x.AssertedType.String(), "UserOneTime") && x.Referrers() != nil {
					for _, ref := range *x.Referrers() {
						if e, ok := ref.(*ssa.Extract); ok && e.Index == 1 {
							okOT = e
						}
					}
				}
			}
		}
		if okOT == nil {
			r.Bad("C12.totp-replay", pn, "UserOneTime save", posf(c, call), "PostValidate does not save the recorded code for replay-protected users")
			continue
		}
		q := PathQuery{From: call.(ssa.Instruction), Assume: map[ssa.Value]bool{okOT: true}, Cut: func(i ssa.Instruction) bool {
			ic, ok := i.(ssa.CallInstruction)
			if !ok {
				return false
			}
			idx, ok := storerWrites[Callee(ic)]
			return ok && HasOrigin(c.Origins(Arg(ic, idx)), func(o Origin) bool { return o.V == call.Value() })
		}, Goal: c.isStateOp("put", "session", uid)}
		if p := q.Find(); p != nil {
			r.Bad("C12.totp-replay", pn, "Save≺PutSession(uid)|UserOneTime", posf(c, call), "for a replay-protected user the session is written without the accepted code having been saved: the same code is accepted again", c.P.DescribePath(p)...)
		} else {
			r.Ok("C12.totp-replay", pn, "Save≺PutSession(uid)|UserOneTime", posf(c, call), "accepted code saved before the session write")
		}
		// and the Save must have succeeded
		at := ssa.Instruction(nil)
		for _, op := range c.StateOps(pv) {
			if op.Op == "put" && op.Key == uid {
				at = op.Call.(ssa.Instruction)
			}
		}
		if at != nil {
			for _, s := range CallsTo(pv, fnSave) {
				if !InstrDominates(s.(ssa.Instruction), at) && !Reaches(s.(ssa.Instruction), at) {
					continue
				}
				k, _ := c.errHandling(s)
				r.Check(k == "tested" || k == "returned", "C12.totp-replay", pn, "Save.err", posf(c, s), "save error stops the login", "error of the Save that records the accepted code is "+k+": the session is issued although the code's consumption was not saved")
			}
		}
	}
}

func (c *Ctx) c12Limits() {
	r := c.R
	add := c.P.FuncOpt("(*ab/otp.OTP).AddPost")
	if add != nil {
		name := FuncName(add)
		max := c.P.ConstInt("otp", "maxOTPs")
		ok := false
		pos := c.P.Pos(add.Pos())
		for _, s := range CallsTo(add, fnSave) {
			pos = posf(c, s)
			if HasFact(FactsAtInstr(s.(ssa.Instruction)), func(f Fact) bool {
				rel := f.Rel()
				n, isC := ConstInt(rel.Y)
				if !isC || StrLenValue(rel.X) == nil {
					return false
				}
				// the list measured is the split of GetOTPs()
				if !HasOrigin(c.rawOrigins(StrLenValue(rel.X)), func(o Origin) bool { return o.Kind == "call" && strings.Contains(o.Name, ".GetOTPs#") }) {
					return false
				}
				return (rel.Op == token.LSS && n == max) || (rel.Op == token.LEQ && n == max-1)
			}) {
				ok = true
			}
		}
		r.Check(ok, "C12.otp-limit", name, "len(otps)<maxOTPs≺Save", pos, sprintf("a password is added only while fewer than %d exist", max), sprintf("a one-time password can be added although %d already exist (limit comparison missing or changed)", max))
		c.mustSaveAfterPut("C12.save", add, nil)
		// stores the hash, shows the otp
		for _, pc := range c.userCalls(add, "PutOTPs") {
			okH := HasOrigin(c.rawOrigins(Arg(pc, 0)), func(o Origin) bool { return o.Kind == "call" && strings.HasPrefix(o.Name, "ab/otp.generateOTP#1") })
			noPlain := !HasOrigin(c.rawOrigins(Arg(pc, 0)), func(o Origin) bool { return o.Kind == "call" && strings.HasPrefix(o.Name, "ab/otp.generateOTP#0") })
			r.Check(okH && noPlain, "C12.otp-limit", name, "PutOTPs(…hash…)", posf(c, pc), "appends the hash (result #1 of generateOTP)", "the value appended to the stored list is not the hash returned by generateOTP")
		}
	}
	if clr := c.P.FuncOpt("(*ab/otp.OTP).ClearPost"); clr != nil {
		ok := false
		for _, pc := range c.userCalls(clr, "PutOTPs") {
			if s, isC := ConstStr(Arg(pc, 0)); isC && s == "" {
				ok = true
			}
			// the join of no passwords is the empty list as well
			if jc, _ := CallOf(Arg(pc, 0)); jc != nil && (Callee(jc) == "strings.Join" || Callee(jc) == "ab/otp.joinOTPs") && IsNilConst(Arg(jc, 0)) {
				ok = true
			}
		}
		r.Check(ok, "C12.otp-limit", FuncName(clr), `PutOTPs("")`, c.P.Pos(clr.Pos()), "clears the list", "ClearPost does not store the empty list")
		c.mustSaveAfterPut("C12.save", clr, nil)
	}
	if rg := c.P.FuncOpt("(*ab/otp/twofactor.Recovery).PostRegen"); rg != nil {
		name := FuncName(rg)
		for _, pc := range c.userCalls(rg, "PutRecoveryCodes") {
			os := c.rawOrigins(Arg(pc, 0))
			okH := HasOrigin(os, func(o Origin) bool {
				return o.Kind == "call" && strings.HasPrefix(o.Name, "ab/otp/twofactor.BCryptRecoveryCodes#0")
			})
			noPlain := !HasOrigin(os, func(o Origin) bool {
				return o.Kind == "call" && strings.HasPrefix(o.Name, "ab/otp/twofactor.GenerateRecoveryCodes#")
			})
			r.Check(okH && noPlain, "C12.regen", name, "PutRecoveryCodes(Encode(bcrypt(codes)))", posf(c, pc), "stores hashes of the fresh codes", "regenerated codes are not stored as BCryptRecoveryCodes output")
		}
		c.mustSaveAfterPut("C12.save", rg, nil)
	}
}

// issuanceGated: in the packages that log a user in on a one-time value, the
// write of session[uid] is edge-dominated by a recognised credential check and
// the identity written is the checked one. A comparison the credential table
// does not know (a hand-written loop over the bytes, say) is no check.
func (c *Ctx) issuanceGated(rule string, scope func(*ssa.Function) bool) {
	r := c.R
	for _, s := range c.Issuances() {
		if !scope(s.Fn) || !s.Op.Const {
			continue
		}
		fn := FuncName(s.Fn)
		creds := c.CredsAt(s.Op.Call)
		if len(creds) == 0 {
			r.Bad(rule, fn, "PutSession(uid)", posf(c, s.Op.Call), "the session is issued without a dominating check of the one-time value from the credential table: a value that was never issued can succeed", factList(c, s.Op.Call)...)
			continue
		}
		r.Ok(rule, fn, "PutSession(uid)", posf(c, s.Op.Call), "dominated by "+credKinds(creds))
		c.bindIssuance(s, creds)
	}
}

// genericName: "pkg.Func" of the (possibly instantiated generic) package-level
// function a call invokes statically, "" otherwise.
func genericName(call ssa.CallInstruction) string {
	f := StaticCallee(call)
	if f == nil {
		return ""
	}
	if o := f.Origin(); o != nil {
		f = o
	}
	if f.Pkg == nil || f.Signature.Recv() != nil {
		return ""
	}
	return f.Pkg.Pkg.Path() + "." + f.Name()
}
