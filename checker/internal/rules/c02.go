package rules

import (
	"go/token"
	"strings"

	. "abverif/internal/engine"

	"golang.org/x/tools/go/ssa"
)

// isPrimaryCred: first-factor credentials (knowledge of a stored secret) as
// opposed to second-factor completions, remember tokens, registration, oauth2.
func (c *Ctx) isPrimaryCred(cs []Cred) bool {
	for _, cr := range cs {
		switch cr.Kind {
		case "password", "bcrypt":
			return true
		case "ctc":
			k := c.ctcSubKind(cr)
			if k == "stored-secret" || k == "recover-token" {
				return true
			}
		}
		if strings.HasPrefix(cr.Kind, "via:") && (strings.Contains(cr.Kind, "VerifyPassword")) {
			return true
		}
	}
	return false
}

// secondFactorPackages are the packages that define a second factor.
var secondFactorPackages = []string{"ab/otp/twofactor/totp2fa", "ab/otp/twofactor/sms2fa"}

// C02: with a second factor enabled, password knowledge alone never yields a session.
func C02(c *Ctx) {
	r := c.R
	r.Explanation = "Static necessary conditions for C02: (1) every session issuance whose dominating credential is a first factor (password, stored one-time password, recovery token) is also dominated by the not-handled/no-error outcome of FireBefore(EventAuthHijack), and the fire's error is propagated; (2) each second-factor package registers its hijack handler on Before(EventAuthHijack); (3) a hijack handler declines (returns false,nil) only when already handled or when the user's factor field is empty, and every other non-error return is true; Events.call accumulates 'handled' monotonically; (4) the SMS session invariant: whenever the pending-login key or the enrolment-number key is written, the session's SMS code is re-issued or deleted on every path to every exit, so a code is never inherited by a different pending account or number; (5) a compare against a session-held secret is dominated by a presence/non-empty check of that secret; (6) the TOTP/recovery completion is bound to the pending user's own secret (C01.bind on the 2FA sites)."
	r.NotDecided = []string{"TOTP time-window arithmetic", "that an SMS is delivered to the number", "timing of the 10 s resend limiter", "behaviour of an integrator-supplied ClientStateReadWriter when applying queued events"}
	hij := c.Event("EventAuthHijack")

	// (1) hijack gate on primary issuances
	nPrimary := 0
	for _, s := range c.Issuances() {
		if !s.Op.Const {
			continue
		}
		creds := c.CredsAt(s.Op.Call)
		if !c.isPrimaryCred(creds) {
			continue
		}
		nPrimary++
		fn := FuncName(s.Fn)
		pos := posf(c, s.Op.Call)
		gates := c.gateFires(s.Op.Call)
		var hf *Fire
		for i := range gates {
			if gates[i].Event == hij {
				hf = &gates[i]
			}
		}
		if hf == nil {
			r.Bad("C02.hijack-gate", fn, "PutSession(uid)", pos, "first-factor login writes the session without being dominated by the not-handled outcome of FireBefore(EventAuthHijack): a 2FA-enabled account would be logged in on the password alone (gates seen: "+c.fireNames(gates)+")")
			continue
		}
		r.Ok("C02.hijack-gate", fn, "PutSession(uid)", pos, "dominated by not-handled/no-error of FireBefore(EventAuthHijack) at "+posf(c, hf.Call))
		ok, why := c.errPropagated(hf.Call)
		r.Check(ok, "C02.hijack-err", fn, "FireBefore(EventAuthHijack).err", posf(c, hf.Call), why, "error of the hijack fire is not propagated: "+why)
	}
	r.Extra["primary_issuance_sites"] = nPrimary
	r.Extra["primary_issuance_sites_reference"] = 3
	if nPrimary == 0 {
		r.Unknown("C02.hijack-gate", "", "primary sites", "-", "no first-factor issuance site was recognised although the auth/otp/recover packages exist")
	}

	// (2) wiring + (3) handler shape
	for _, pkg := range secondFactorPackages {
		if c.P.ByPath[strings.Replace(pkg, "ab", RepoPath, 1)] == nil {
			continue
		}
		ws := c.wireFind(true, hij, pkg)
		if len(ws) == 0 {
			r.Bad("C02.wire", pkg, "Before(EventAuthHijack)", "-", "second-factor package registers no handler on Before(EventAuthHijack): its users would never be asked for the factor")
			continue
		}
		for _, w := range ws {
			if w.Handler == nil {
				r.Unknown("C02.wire", FuncName(w.In), "Before(EventAuthHijack)", posf(c, w.Call), "handler value could not be resolved to a function")
				continue
			}
			r.Ok("C02.wire", FuncName(w.In), "Before(EventAuthHijack)->"+w.Name, posf(c, w.Call), "registered")
			c.hijackHandlerShape(w.Handler)
		}
	}
	c.eventsCallShape("C02")

	// (4) session invariant for session-held codes
	c.smsInvariant()

	// (5) presence
	c.presenceRule("C02.presence")
}

// hijackHandlerShape: GUARDED-EXIT on a Before(EventAuthHijack) handler.
func (c *Ctx) hijackHandlerShape(h *ssa.Function) {
	r := c.R
	name := FuncName(h)
	if len(h.Params) < 4 {
		r.Unknown("C02.hijack-exit", name, "signature", "-", "unexpected handler signature")
		return
	}
	handledParam := h.Params[len(h.Params)-1]
	for _, b := range h.Blocks {
		for _, in := range b.Instrs {
			ret, ok := in.(*ssa.Return)
			if !ok || len(ret.Results) != 2 {
				continue
			}
			pos := posf(c, ret)
			hv, isC := ConstBool(ret.Results[0])
			if c.isErrorExit(ret) {
				continue
			}
			if isC && hv {
				r.Ok("C02.hijack-exit", name, "return true", pos, "takes the login over")
				continue
			}
			if !isC {
				r.Unknown("C02.hijack-exit", name, "return <non-constant handled>", pos, "handled result is not a constant; rule cannot decide whether the handler declines")
				continue
			}
			// return false, <nil or unknown error>: must be under handled==true or empty factor
			fs := FactsAtInstr(ret)
			guard := func(f Fact) bool {
				if f.SaysBool(handledParam, true) {
					return true
				}
				rel := f.Rel()
				x := StrLenValue(rel.X)
				if x == nil {
					x = rel.X
				}
				if !(f.SaysEmpty(x)) {
					return false
				}
				// x is a Get* accessor of the context user
				call, _ := CallOf(x)
				if call == nil || !call.Common().IsInvoke() || !strings.HasPrefix(call.Common().Method.Name(), "Get") {
					return false
				}
				return c.isUserType(call.Common().Value.Type())
			}
			// established at the return, or on every branch that reaches a shared return
			okGuard := HasFact(fs, guard) || HoldsEntering(ret.Block(), guard, 0)
			if okGuard {
				r.Ok("C02.hijack-exit", name, "return false", pos, "declines only when already handled or the user's factor field is empty")
			} else {
				r.Bad("C02.hijack-exit", name, "return false", pos, "hijack handler can decline (return false with no error) although the user's factor may be enabled: the first-factor handler would then issue the session", factList(c, ret)...)
			}
		}
	}
	// the handler itself never issues
	for _, op := range c.StateOps(h) {
		if op.Op == "put" && op.Store == "session" && op.Const && op.Key == c.P.ConstString("", "SessionKey") {
			r.Bad("C02.hijack-exit", name, "PutSession(uid)", posf(c, op.Call), "hijack handler writes the session's user identity")
		}
	}
}

// eventsCallShape: (*Events).call returns handled=true iff some handler
// interrupted, and aborts on error.
func (c *Ctx) eventsCallShape(pfx string) {
	r := c.R
	// the dispatcher is whichever repository function FireBefore/FireAfter run
	// the registered handlers in (themselves, or a helper they call)
	isHandlerCall := func(call ssa.CallInstruction) bool {
		if Callee(call) != "" {
			return false
		}
		sig := call.Common().Signature()
		return sig.Params().Len() == 3 && sig.Results().Len() == 2 && IsErrorType(sig.Results().At(1).Type()) && strings.HasSuffix(sig.Params().At(1).Type().String(), "net/http.Request")
	}
	var dispatchers []*ssa.Function
	seenD := map[*ssa.Function]bool{}
	for _, entry := range []string{"(*ab.Events).FireBefore", "(*ab.Events).FireAfter"} {
		found := false
		var visit func(f *ssa.Function, d int)
		visit = func(f *ssa.Function, d int) {
			if d > 3 {
				return
			}
			for _, call := range Calls(f) {
				if isHandlerCall(call) {
					found = true
					if !seenD[f] {
						seenD[f] = true
						dispatchers = append(dispatchers, f)
					}
				}
				if g := StaticCallee(call); g != nil && c.inRepo(g) && g != f {
					visit(g, d+1)
				}
			}
		}
		visit(c.P.Func(entry), 0)
		if !found {
			r.Bad(pfx+".events-call", entry, "handler invocation", "-", "no invocation of the registered handlers found below "+entry)
		}
	}
	for _, fn := range dispatchers {
		c.dispatchShape(pfx, fn, isHandlerCall)
	}
}

func (c *Ctx) dispatchShape(pfx string, fn *ssa.Function, isHandlerCall func(ssa.CallInstruction) bool) {
	r := c.R
	name := FuncName(fn)
	okShape := true
	detail := ""
	nret := 0
	for _, b := range fn.Blocks {
		for _, in := range b.Instrs {
			ret, ok := in.(*ssa.Return)
			if !ok || len(ret.Results) != 2 {
				continue
			}
			nret++
			if c.isErrorExit(ret) {
				continue
			}
			// handled result: an accumulation of constants and handler interrupt results
			seen := map[ssa.Value]bool{}
			var check func(v ssa.Value, d int) bool
			check = func(v ssa.Value, d int) bool {
				if d > 6 {
					return false
				}
				if seen[v] {
					return true
				}
				seen[v] = true
				if _, ok := ConstBool(v); ok {
					return true
				}
				if phi, ok := v.(*ssa.Phi); ok {
					for _, e := range phi.Edges {
						if !check(e, d+1) {
							return false
						}
					}
					return true
				}
				if bo, ok := v.(*ssa.BinOp); ok && (bo.Op == token.OR || bo.Op == token.LOR) {
					return check(bo.X, d+1) && check(bo.Y, d+1)
				}
				if call, idx := CallOf(v); call != nil && idx == 0 {
					if ci, ok := call.(ssa.CallInstruction); ok && isHandlerCall(ci) {
						return true
					}
					// a nested dispatcher's own verdict
					if g := StaticCallee(call); g != nil && c.inRepo(g) {
						return true
					}
				}
				return false
			}
			if !check(ret.Results[0], 0) {
				okShape = false
				detail = "handled result is not an accumulation of constants and handler verdicts: " + SafeString(ret.Results[0])
			}
		}
	}
	// every dynamic handler call's error is tested
	ncall := 0
	for _, call := range Calls(fn) {
		if !isHandlerCall(call) {
			continue
		}
		ncall++
		if k, _ := c.errHandling(call); k != "tested" && k != "returned" {
			okShape = false
			detail = "handler error is " + k
		}
		// handled=true only under interrupt==true
		intr := ResultValue(call, 0)
		if intr == nil {
			okShape = false
			detail = "handler's interrupt result is dropped"
		}
	}
	if ncall == 0 {
		okShape = false
		detail = "no handler invocation found"
	}
	// every registered handler runs: the loop around the invocation is left
	// only when the list is exhausted, or towards an error return
	reach := func(from *ssa.BasicBlock) map[*ssa.BasicBlock]bool {
		seen := map[*ssa.BasicBlock]bool{}
		work := []*ssa.BasicBlock{from}
		for len(work) > 0 {
			b := work[len(work)-1]
			work = work[:len(work)-1]
			for _, s := range b.Succs {
				if !seen[s] {
					seen[s] = true
					work = append(work, s)
				}
			}
		}
		return seen
	}
	isLen := func(v ssa.Value) bool {
		call, ok := v.(*ssa.Call)
		if !ok {
			return false
		}
		bi, ok := call.Call.Value.(*ssa.Builtin)
		return ok && bi.Name() == "len"
	}
	for _, call := range Calls(fn) {
		if !isHandlerCall(call) {
			continue
		}
		hb := call.Block()
		fwd := reach(hb)
		if !fwd[hb] {
			continue // not in a loop (a single handler invoked directly)
		}
		inLoop := map[*ssa.BasicBlock]bool{}
		for b := range fwd {
			if reach(b)[hb] {
				inLoop[b] = true
			}
		}
		for b := range inLoop {
			for _, s := range b.Succs {
				if inLoop[s] {
					continue
				}
				if f, ok := EdgeFact(b, s); ok {
					if bo, isB := f.Cond.(*ssa.BinOp); isB && (isLen(bo.X) || isLen(bo.Y)) {
						continue // the list is exhausted
					}
				}
				q := PathQuery{StartBlock: s, StartPred: b, GoalP: c.nonErrorReturn}
				if p := q.Find(); p != nil || c.blockNonErrorReturn(s) {
					r.Bad(pfx+".events-all", name, "loop exit "+posOfBlock(c, b), posf(c, call), "the dispatcher can leave the loop over the registered handlers without an error before the list is exhausted: a handler registered later (a veto, the second-factor hijack) does not run and the event reports \"not handled\"", c.P.DescribePath(p)...)
					okShape = false
					detail = "handlers can be skipped"
				}
			}
		}
	}
	r.Check(okShape && nret > 0, pfx+".events-call", name, "handled accumulation", c.P.Pos(fn.Pos()), "handled is a monotone accumulation over handler interrupts; handler errors abort", detail)
}

// smsInvariant: PAIR(PutSession(K) => Put|Del(secret)) for the keys that
// select what a session-held code is valid for.
func (c *Ctx) smsInvariant() {
	r := c.R
	pkg := c.P.ByPath[RepoPath+"/otp/twofactor/sms2fa"]
	if pkg == nil {
		return
	}
	secret := c.P.ConstString("otp/twofactor/sms2fa", "SessionSMSSecret")
	selectors := []string{c.P.ConstString("otp/twofactor/sms2fa", "SessionSMSPendingPID"), c.P.ConstString("otp/twofactor/sms2fa", "SessionSMSNumber")}
	n := 0
	for _, fn := range c.P.Funcs {
		if fn.Pkg != pkg {
			continue
		}
		name := FuncName(fn)
		for _, op := range c.StateOps(fn) {
			if op.Op != "put" || op.Store != "session" || !op.Const {
				continue
			}
			sel := false
			for _, k := range selectors {
				if op.Key == k {
					sel = true
				}
			}
			if !sel {
				continue
			}
			n++
			pos := posf(c, op.Call)
			// every path from the put to ANY exit passes a put/del of the secret (directly; a
			// callee that may decline to re-issue does not count)
			cut := Or(c.isStateOp("put", "session", secret), c.isStateOp("del", "session", secret))
			q := PathQuery{From: op.Call.(ssa.Instruction), Cut: cut, Goal: Or(IsReturn, IsPanic)}
			// the reset may also precede the put in the same block run: accept when a del/put of
			// the secret dominates the put and nothing in between can exit
			if path := q.Find(); path != nil {
				// try "reset just before": a cut instruction that dominates op with no exit between
				before := false
				for _, call := range Calls(fn) {
					if cut(call.(ssa.Instruction)) && InstrDominates(call.(ssa.Instruction), op.Call.(ssa.Instruction)) {
						before = true
					}
				}
				if before {
					r.Ok("C02.code-binding", name, "PutSession("+op.Key+")", pos, "session code reset before the selector key is written")
					continue
				}
				r.Bad("C02.code-binding", name, "PutSession("+op.Key+")", pos, "the key that decides whom/what the session's SMS code is valid for is written, and an exit is reachable without the code being re-issued or deleted: a code sent for another account or number stays valid", c.P.DescribePath(path)...)
				continue
			}
			r.Ok("C02.code-binding", name, "PutSession("+op.Key+")", pos, "every path to every exit re-issues or deletes session["+secret+"]")
		}
	}
	if n == 0 {
		r.Unknown("C02.code-binding", "ab/otp/twofactor/sms2fa", "selector keys", "-", "no write of the pending/number keys found in sms2fa")
	}
	// the code is issued together with its delivery: in the function that puts the secret
	// with a generated value, the same value is handed to Sender.Send with the number argument
	for _, fn := range c.P.Funcs {
		if fn.Pkg != pkg {
			continue
		}
		for _, op := range c.StateOps(fn) {
			if op.Op != "put" || op.Key != secret || !op.Const {
				continue
			}
			name := FuncName(fn)
			sends := CallsTo(fn, "(ab/otp/twofactor/sms2fa.SMSSender).Send")
			ok := false
			for _, s := range sends {
				if Arg(s, 2) == op.Val || sameNames(c.Origins(Arg(s, 2)), c.Origins(op.Val)) {
					ok = true
				}
			}
			r.Check(ok, "C02.code-send", name, "PutSession("+secret+")", posf(c, op.Call), "the code stored is the code handed to Sender.Send", "the code stored in the session is not the value handed to Sender.Send in the same function")
			// every code issued is new: nothing read from the request's session (a code issued
			// earlier, possibly for another account or number) is issued again
			fresh := true
			for _, o := range c.rawOrigins(op.Val) {
				if o.Kind == "call" && (strings.HasPrefix(o.Name, fnGetSession+"#") || strings.HasPrefix(o.Name, fnCtxValue+"#") || strings.HasPrefix(o.Name, "(ab.ClientState).Get#")) {
					fresh = false
				}
			}
			r.Check(fresh, "C02.code-fresh", name, "PutSession("+secret+").value", posf(c, op.Call), "a newly generated code", "the code issued can be one read back from the request's session: the deletion queued by the hijack handler is not visible to GetSession in the same request, so the code sent for the previous pending account is issued again for the new one")
		}
	}
}

// presenceRule: every credential compare whose expected operand is read from
// the session is dominated by a presence / non-empty check of that read.
func (c *Ctx) presenceRule(rule string) {
	r := c.R
	n := 0
	for _, fn := range c.P.Funcs {
		for _, call := range CallsTo(fn, fnCTC) {
			for _, a := range call.Common().Args {
				for _, g := range c.sessionGetsOf(a) {
					n++
					k, _ := constArgStr(g, 1)
					r.Check(c.presenceChecked(call.(ssa.Instruction), g), rule, FuncName(fn), "ConstantTimeCompare(session["+k+"])", posf(c, call),
						"compare is dominated by a presence/non-empty check of session["+k+"]",
						"expected operand read from session["+k+"] is compared without checking that it is present and non-empty: an empty submission matches a session in which nothing was issued")
				}
			}
		}
	}
	r.Extra["session_secret_compares"] = n
}

// blockNonErrorReturn: block b itself ends in a return that is not certainly
// an error (PathQuery starts scanning after the start block's phis, so this
// covers a start block that is the return).
func (c *Ctx) blockNonErrorReturn(b *ssa.BasicBlock) bool {
	if len(b.Instrs) == 0 {
		return false
	}
	ret, ok := b.Instrs[len(b.Instrs)-1].(*ssa.Return)
	return ok && !c.isErrorExit(ret)
}

func posOfBlock(c *Ctx, b *ssa.BasicBlock) string {
	for i := len(b.Instrs) - 1; i >= 0; i-- {
		if p := c.P.InstrPos(b.Instrs[i]); p != "-" && p != "" {
			return p
		}
	}
	return "-"
}
