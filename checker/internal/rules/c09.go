package rules

import (
	"go/token"
	"strings"

	. "abverif/internal/engine"

	"golang.org/x/tools/go/ssa"
)

// ctxInstalls describes the context values installed on every path / some path.
type ctxInstalls struct {
	must map[string]ssa.Value
	may  map[string][]ssa.Value
}

// ctxChain follows request/context construction backwards: WithContext,
// WithValue, phis. Keys are the string values of the contextKey constants.
func (c *Ctx) ctxChain(v ssa.Value, depth int) ctxInstalls {
	return c.ctxChainV(v, depth, map[*ssa.Phi]bool{})
}

func (c *Ctx) ctxChainV(v ssa.Value, depth int, visiting map[*ssa.Phi]bool) ctxInstalls {
	out := ctxInstalls{must: map[string]ssa.Value{}, may: map[string][]ssa.Value{}}
	if v == nil || depth > 24 {
		return out
	}
	switch x := v.(type) {
	case *ssa.Phi:
		if visiting[x] {
			return ctxInstalls{} // cycle: nil maps mark "no information" (neutral for the meet)
		}
		visiting[x] = true
		defer delete(visiting, x)
		first := true
		for _, e := range x.Edges {
			if e == x {
				continue
			}
			ci := c.ctxChainV(e, depth+1, visiting)
			if ci.must == nil {
				continue // loop-carried operand: whatever the other operands guarantee is kept
			}
			for k, vs := range ci.may {
				out.may[k] = append(out.may[k], vs...)
			}
			if first {
				for k, val := range ci.must {
					out.must[k] = val
				}
				first = false
			} else {
				for k := range out.must {
					if _, ok := ci.must[k]; !ok {
						delete(out.must, k)
					}
				}
			}
		}
		return out
	case *ssa.Call:
		switch Callee(x) {
		case "(*net/http.Request).WithContext":
			return c.ctxChainV(Arg(x, 1), depth+1, visiting)
		case "(*net/http.Request).Context":
			return c.ctxChainV(Arg(x, 0), depth+1, visiting)
		case fnWithValue:
			out = c.ctxChainV(Arg(x, 0), depth+1, visiting)
			if out.must == nil {
				// parent is loop-carried: this call still installs its own key
				out = ctxInstalls{must: nil, may: map[string][]ssa.Value{}}
				key := Arg(x, 1)
				if mi, ok := key.(*ssa.MakeInterface); ok {
					key = mi.X
				}
				if k, ok := ConstStr(key); ok {
					out.may[k] = append(out.may[k], Arg(x, 2))
				}
				return out
			}
			key := Arg(x, 1)
			if mi, ok := key.(*ssa.MakeInterface); ok {
				key = mi.X
			}
			if k, ok := ConstStr(key); ok {
				out.must[k] = Arg(x, 2)
				out.may[k] = append(out.may[k], Arg(x, 2))
			}
			return out
		}
	}
	return out
}

// C09: idle sessions expire and are hidden.
func C09(c *Ctx) {
	r := c.R
	r.Explanation = "Static necessary conditions for C09 on expireMiddleware.ServeHTTP and its helpers: (1) under session[uid] present and timeToExpiry()==0, every path to next.ServeHTTP passes DelAllSession(w, the configured whitelist), DelSession(uid), DelSession(last_action), and the request handed on carries ctx[pid]=nil, ctx[user]=nil and, whenever a session state exists, ctx[session]=stateHider built from that state and the whitelist; (2) stateHider.Get forwards to the hidden state only when an exact map look-up of the key in the whitelist succeeds, and the map holds exactly the whitelist entries; (3) on the live edge every path to next.ServeHTTP refreshes the stamp, unconditionally; (4) refreshExpiry stamps now in RFC3339 under session[last_action], timeToExpiry parses the same key with the same layout and returns remaining=stamp+expireAfter-now when >0, else 0, and expireAfter when no stamp exists; (5) every event after which a session is issued has a stamping handler registered by expire.Setup."
	r.NotDecided = []string{"clock arithmetic at the threshold", "request sequences (a session survives iff every gap is below the threshold)", "remember.Authenticate issues a session without an event: documented upstream as incompatible with expire (note only)"}
	if c.P.ByPath[RepoPath+"/expire"] == nil {
		r.Unknown("C09", "ab/expire", "package", "-", "expire package not found")
		return
	}
	fn := c.P.Func("(ab/expire.expireMiddleware).ServeHTTP")
	name := FuncName(fn)
	uid := c.P.ConstString("", "SessionKey")
	last := c.P.ConstString("", "SessionLastAction")
	// the remaining-time computation: the unexported helper on the pinned tree, or
	// the exported TimeToExpiry when the helper was folded into it
	tteExported := c.P.Func("ab/expire.TimeToExpiry")
	tte := c.role("ab/expire.timeToExpiry", func() *ssa.Function {
		if len(CallsTo(tteExported, "time.Parse")) > 0 {
			return tteExported
		}
		return c.calleeWith(tteExported, func(f *ssa.Function) bool { return len(CallsTo(f, "time.Parse")) > 0 })
	})
	refresh := c.role("ab/expire.refreshExpiry", func() *ssa.Function {
		// whoever stamps last_action for the middleware
		return c.calleeWith(fn, func(f *ssa.Function) bool {
			for _, op := range c.StateOps(f) {
				if op.Op == "put" && op.Store == "session" && op.Key == last {
					return true
				}
			}
			return false
		})
	})

	// locate the decision: If on (timeToExpiry(...) == 0) under GetSession(uid) ok
	var decide *ssa.If
	var expiredSucc, liveSucc *ssa.BasicBlock
	for _, b := range fn.Blocks {
		if len(b.Instrs) == 0 {
			continue
		}
		ifi, ok := b.Instrs[len(b.Instrs)-1].(*ssa.If)
		if !ok {
			continue
		}
		rel := Normalize(ifi.Cond, true)
		call, _ := CallOf(rel.X)
		if call == nil || (StaticCallee(call) != tte && StaticCallee(call) != tteExported) {
			continue
		}
		n, isC := ConstInt(rel.Y)
		if !isC || n != 0 {
			continue
		}
		switch rel.Op {
		case token.EQL, token.LEQ:
			decide, expiredSucc, liveSucc = ifi, b.Succs[0], b.Succs[1]
		case token.NEQ, token.GTR:
			decide, expiredSucc, liveSucc = ifi, b.Succs[1], b.Succs[0]
		}
		// expireAfter argument is the configured one
		r.Check(fieldLoadName(Arg(call, 1)) == "expireAfter", "C09.decide", name, "timeToExpiry(r, expireAfter)", posf(c, call), "uses the configured idle allowance", "timeToExpiry is not called with the middleware's expireAfter")
	}
	if decide == nil {
		r.Bad("C09.decide", name, "timeToExpiry()==0", "-", "the expired/live decision (timeToExpiry(r, expireAfter) == 0) was not found")
		return
	}
	// decision only under uid present
	okUID := false
	for _, f := range FactsAtInstr(decide) {
		rel := f.Rel()
		if rel.B != nil && rel.Pol {
			if g, idx := CallOf(rel.B); g != nil && idx == 1 && Callee(g) == fnGetSession {
				if k, isC := constArgStr(g, 1); isC && k == uid {
					okUID = true
				}
			}
		}
	}
	r.Check(okUID, "C09.decide", name, "under session[uid] present", posf(c, decide), "expiry applies to authenticated sessions", "decision is not taken under session[uid] present")

	serve := CallsTo(fn, fnServeHTTP)
	if len(serve) == 0 {
		r.Bad("C09.expired", name, "next.ServeHTTP", "-", "wrapped handler is never called")
		return
	}
	isServe := func(i ssa.Instruction) bool {
		call, ok := i.(ssa.CallInstruction)
		return ok && Callee(call) == fnServeHTTP
	}
	// (1) expired edge deletions
	type need struct {
		what string
		pred func(ssa.Instruction) bool
	}
	needs := []need{
		{"DelAllSession(whitelist)", func(i ssa.Instruction) bool {
			call, ok := i.(ssa.CallInstruction)
			return ok && Callee(call) == fnDelAllSession && fieldLoadName(Arg(call, 1)) == "sessionWhitelist"
		}},
		{"DelSession(" + uid + ")", c.isStateOp("del", "session", uid)},
		{"DelSession(" + last + ")", c.isStateOp("del", "session", last)},
	}
	for _, n := range needs {
		q := PathQuery{StartBlock: expiredSucc, StartPred: decide.Block(), Cut: n.pred, Goal: Or(isServe, IsReturn)}
		if p := q.Find(); p != nil {
			r.Bad("C09.expired", name, n.what, posf(c, decide), "on the expired edge the wrapped handler (or the end of the request) is reachable without "+n.what+": the expired session is not removed from the client", c.P.DescribePath(p)...)
		} else {
			r.Ok("C09.expired", name, n.what, posf(c, decide), "performed on every path of the expired edge")
		}
	}
	// hiding: request operand of ServeHTTP arriving from the expired side
	nHide := 0
	defer func() {
		if nHide == 0 {
			r.Bad("C09.hide", name, "request on expired edge", posf(c, decide), "no request value reaches the wrapped handler from the expired branch: an expired request is not served as unauthenticated")
		}
	}()
	for _, s := range serve {
		req := Arg(s, 1)
		var operands []ssa.Value
		if phi, ok := req.(*ssa.Phi); ok {
			for i, e := range phi.Edges {
				if Dominates(expiredSucc, phi.Block().Preds[i]) || phi.Block().Preds[i] == expiredSucc {
					operands = append(operands, e)
				}
			}
		} else if Dominates(expiredSucc, s.Block()) {
			operands = append(operands, req)
		}
		if len(operands) == 0 {
			continue // this call site is not on the expired branch
		}
		nHide++
		for _, op := range operands {
			ci := c.ctxChain(op, 0)
			for _, k := range []string{"pid", "user"} {
				v, ok := ci.must[k]
				r.Check(ok && IsNilConst(v), "C09.hide", name, "ctx["+k+"]=nil", posf(c, s), "downstream sees no current "+k, "the request handed downstream on the expired edge does not carry ctx["+k+"]=nil on every path: a cached "+k+" stays visible")
			}
			// session hider
			hiders := ci.may["session"]
			if len(hiders) == 0 {
				// a request built on its own exit of the expired branch: no hider is
				// needed exactly where the request was found to have no session state
				noState := func(f Fact) bool {
					rel := f.Rel()
					if rel.Op != token.EQL || !IsNilConst(rel.Y) {
						return false
					}
					call, _ := CallOf(rel.X)
					if call == nil || Callee(call) != fnCtxValue {
						return false
					}
					k, isC := ConstStr(ctxKeyArg(call))
					return isC && k == "session"
				}
				if def, isI := op.(ssa.Instruction); isI && def.Block() != nil && HasFact(FactsAtInstr(def), noState) {
					r.Ok("C09.hide", name, "hider skipped only without state", posf(c, def), "this exit of the expired branch is taken only when the request has no session state")
					continue
				}
			}
			okH := len(hiders) > 0
			for _, h := range hiders {
				mi, isMI := h.(*ssa.MakeInterface)
				if !isMI || !strings.HasSuffix(mi.X.Type().String(), "expire.stateHider") {
					okH = false
					continue
				}
				// built from the request's session state and the whitelist
				os := c.fieldOrigins(mi.X)
				fromState := HasOrigin(os, func(o Origin) bool {
					if o.Kind != "call" || !strings.HasPrefix(o.Name, fnCtxValue+"#") {
						return false
					}
					k, isC := ConstStr(ctxKeyArg(o.V.(ssa.CallInstruction)))
					return isC && k == "session"
				})
				fromWL := hasField(os, "sessionWhitelist") || c.derivedWhitelistField(os)
				if !fromState || !fromWL {
					okH = false
				}
			}
			r.Check(okH, "C09.hide", name, "ctx[session]=stateHider", posf(c, s), "session state replaced by a hider built from the state and the whitelist", "the session state is not replaced by a stateHider{state, whitelist} on the expired edge")
			// where it is not installed, no state exists
			if _, always := ci.must["session"]; !always && okH {
				okNil := true
				var chk func(v ssa.Value, d int)
				chk = func(v ssa.Value, d int) {
					if d > 6 {
						return
					}
					switch x := v.(type) {
					case *ssa.Phi:
						for i, e := range x.Edges {
							if _, has := c.ctxChain(e, 0).must["session"]; has {
								continue
							}
							fs := FactsAtEdge(x.Block().Preds[i], x.Block())
							if !HasFact(fs, func(f Fact) bool {
								rel := f.Rel()
								if rel.Op != token.EQL || !IsNilConst(rel.Y) {
									return false
								}
								call, _ := CallOf(rel.X)
								return call != nil && Callee(call) == fnCtxValue
							}) {
								okNil = false
							}
						}
					case *ssa.Call:
						if Callee(x) == "(*net/http.Request).WithContext" {
							chk(Arg(x, 1), d+1)
						}
					}
				}
				chk(op, 0)
				r.Check(okNil, "C09.hide", name, "hider skipped only without state", posf(c, s), "hider omitted only when the request has no session state", "the hider can be skipped although a session state exists")
			}
		}
	}
	// (3) live edge refresh
	isRefresh := func(i ssa.Instruction) bool {
		call, ok := i.(ssa.CallInstruction)
		if !ok {
			return false
		}
		if StaticCallee(call) == refresh {
			return true
		}
		return c.isStateOp("put", "session", last)(i)
	}
	q := PathQuery{StartBlock: liveSucc, StartPred: decide.Block(), Cut: isRefresh, Goal: Or(isServe, IsReturn)}
	if p := q.Find(); p != nil {
		r.Bad("C09.live", name, "refreshExpiry", posf(c, decide), "a live request can reach the wrapped handler without pushing the deadline forward", c.P.DescribePath(p)...)
	} else {
		r.Ok("C09.live", name, "refreshExpiry", posf(c, decide), "every live request refreshes the stamp")
	}
	// live edge must not delete the session
	for _, op := range c.StateOps(fn) {
		if (op.Op == "del" || op.Op == "delall") && !Dominates(expiredSucc, op.Call.Block()) {
			r.Bad("C09.live", name, op.String(), posf(c, op.Call), "session deleted outside the expired branch")
		}
	}

	// (2) stateHider.Get
	c.stateHiderGet(fn)
	// (4) stamp codec
	c.expiryCodec(tte, refresh, last)
	// (5) login stamps
	c.loginStamps(refresh, last)
}

func (c *Ctx) stateHiderGet(serve *ssa.Function) {
	r := c.R
	get := c.P.FuncOpt("(ab/expire.stateHider).Get")
	if get == nil {
		r.Unknown("C09.hider", "(ab/expire.stateHider).Get", "method", "-", "not found")
		return
	}
	name := FuncName(get)
	inner := CallsTo(get, "(ab.ClientState).Get")
	if len(inner) == 0 {
		r.Bad("C09.hider", name, "inner Get", "-", "hider never consults the hidden state (whitelisted keys would be lost)")
	}
	for _, call := range inner {
		ok := HasFact(FactsAtInstr(call.(ssa.Instruction)), func(f Fact) bool {
			rel := f.Rel()
			// an exact comparison of the requested key with an element of the
			// whitelist (a scan of the list), or slices.Contains over it
			if rel.Op == token.EQL && rel.X != nil && rel.Y != nil {
				elemOf := func(v ssa.Value) bool {
					u, ok := v.(*ssa.UnOp)
					if !ok {
						return false
					}
					ia, ok := u.X.(*ssa.IndexAddr)
					return ok && hasField(c.fieldOrigins(ia.X), "whitelist")
				}
				_, xp := rel.X.(*ssa.Parameter)
				_, yp := rel.Y.(*ssa.Parameter)
				if (xp && elemOf(rel.Y)) || (yp && elemOf(rel.X)) {
					return true
				}
			}
			if rel.B != nil && rel.Pol {
				if call, _ := CallOf(rel.B); call != nil && strings.HasPrefix(Callee(call), "slices.Contains") {
					if _, kp := Arg(call, 1).(*ssa.Parameter); kp && hasField(c.fieldOrigins(Arg(call, 0)), "whitelist") {
						return true
					}
				}
			}
			if rel.B == nil || !rel.Pol {
				return false
			}
			e, isE := rel.B.(*ssa.Extract)
			if !isE || e.Index != 1 {
				return false
			}
			lk, isL := e.Tuple.(*ssa.Lookup)
			if !isL || !lk.CommaOk {
				return false
			}
			// key is the requested key (the parameter), map is the whitelist field
			_, keyIsParam := lk.Index.(*ssa.Parameter)
			return keyIsParam && hasField(c.fieldOrigins(lk.X), "whitelist")
		})
		r.Check(ok, "C09.hider", name, "inner Get|whitelisted", posf(c, call), "forwards only keys found by exact look-up in the whitelist", "the hidden state is consulted without an exact whitelist look-up of the requested key succeeding (substring / prefix matches would expose uid, twofactor, …)")
		// same key forwarded
		_, sameKey := Arg(call, 0).(*ssa.Parameter)
		r.Check(sameKey, "C09.hider", name, "inner Get.key", posf(c, call), "forwards the requested key", "a different key is forwarded")
	}
	// the whitelist map is filled with the configured entries only
	n := 0
	for _, b := range serve.Blocks {
		for _, in := range b.Instrs {
			mu, ok := in.(*ssa.MapUpdate)
			if !ok {
				continue
			}
			n++
			okKey := hasField(c.fieldOrigins(mu.Key), "sessionWhitelist")
			r.Check(okKey, "C09.hider", FuncName(serve), "whitelist[w]=…", posf(c, mu), "map keys are the configured whitelist entries", "whitelist map is filled from something other than the configured whitelist")
		}
	}
	if n == 0 {
		r.Info("C09.hider", FuncName(serve), "whitelist map", "-", "no map fill found in ServeHTTP (hider may take the slice directly)")
	}
	// and the middleware's whitelist is the configured one, nothing added
	nw := 0
	for _, fn := range c.P.Funcs {
		if pkgOf(fn) != "ab/expire" {
			continue
		}
		for _, b := range fn.Blocks {
			for _, in := range b.Instrs {
				st, ok := in.(*ssa.Store)
				if !ok {
					continue
				}
				fa, ok := st.Addr.(*ssa.FieldAddr)
				if !ok || fieldName(fa) != "sessionWhitelist" {
					continue
				}
				nw++
				var cfg func(v ssa.Value, d int) bool
				cfg = func(v ssa.Value, d int) bool {
					if phi, isPhi := v.(*ssa.Phi); isPhi && d < 4 {
						for _, e := range phi.Edges {
							if !cfg(e, d+1) {
								return false
							}
						}
						return true
					}
					return fieldLoadName(v) == "SessionStateWhitelistKeys"
				}
				r.Check(cfg(st.Val, 0), "C09.hider", FuncName(fn), "sessionWhitelist = configured keys", posf(c, st), "the middleware's whitelist is Config.Storage.SessionStateWhitelistKeys", "the middleware's whitelist is not the configured SessionStateWhitelistKeys verbatim ("+SafeString(st.Val)+"): keys the integrator did not list survive and stay visible after the session expired")
			}
		}
	}
	if nw == 0 {
		r.Unknown("C09.hider", "ab/expire", "sessionWhitelist initialisation", "-", "no store to the middleware's whitelist found")
	}
}

func (c *Ctx) expiryCodec(tte, refresh *ssa.Function, last string) {
	r := c.R
	rn := FuncName(refresh)
	okPut := false
	var layoutW string
	for _, op := range c.StateOps(refresh) {
		if op.Op == "put" && op.Store == "session" && op.Key == last {
			fc, _ := CallOf(op.Val)
			if fc != nil && Callee(fc) == "(time.Time).Format" {
				layoutW, _ = constArgStr(fc, 1)
				if HasOrigin(c.rawOrigins(Arg(fc, 0)), func(o Origin) bool {
					return (o.Kind == "call" && (strings.HasPrefix(o.Name, "time.Now#") || strings.HasPrefix(o.Name, "var:ab/expire.nowTime#"))) || (o.Kind == "global" && o.Name == "ab/expire.nowTime")
				}) {
					okPut = true
				}
			}
		}
	}
	r.Check(okPut && layoutW != "", "C09.stamp", rn, "PutSession(last_action, now.Format(layout))", c.P.Pos(refresh.Pos()), "stamps the current time", "refreshExpiry does not store the formatted current time under "+last)
	tn := FuncName(tte)
	var layoutR string
	var parse ssa.CallInstruction
	for _, call := range CallsTo(tte, "time.Parse") {
		layoutR, _ = constArgStr(call, 0)
		parse = call
	}
	okRead := false
	var getOK ssa.Value
	if parse != nil {
		for _, g := range c.sessionGetsOf(Arg(parse, 1)) {
			if k, isC := constArgStr(g, 1); isC && k == last {
				okRead = true
				getOK = ResultValue(g, 1)
			}
		}
	}
	r.Check(okRead && layoutR == layoutW && layoutR != "", "C09.stamp", tn, "time.Parse(layout, session[last_action])", c.P.Pos(tte.Pos()), "reads the stamp with the writer's layout", sprintf("reader does not parse session[%s] with the writer's layout (%q vs %q)", last, layoutR, layoutW))
	// returns
	for _, b := range tte.Blocks {
		for _, in := range b.Instrs {
			ret, ok := in.(*ssa.Return)
			if !ok || len(ret.Results) != 1 {
				continue
			}
			v := ret.Results[0]
			pos := posf(c, ret)
			if n, isC := ConstInt(v); isC {
				// 0 only when remaining <= 0
				okZ := n == 0 && HasFact(FactsAtInstr(ret), func(f Fact) bool {
					rel := f.Rel()
					m, isM := ConstInt(rel.Y)
					return isM && m == 0 && rel.Op == token.LEQ && isRemaining(c, rel.X)
				})
				r.Check(okZ, "C09.cmp", tn, "return 0", pos, "expired iff stamp+expireAfter-now <= 0", "0 is returned without remaining<=0 having been established")
				continue
			}
			if _, isP := v.(*ssa.Parameter); isP {
				okNoStamp := getOK != nil && BoolAt(ret, getOK, false)
				r.Check(okNoStamp, "C09.cmp", tn, "return expireAfter", pos, "full allowance only when no stamp exists", "full allowance returned although a stamp may exist")
				continue
			}
			okRem := isRemaining(c, v) && HasFact(FactsAtInstr(ret), func(f Fact) bool {
				rel := f.Rel()
				m, isM := ConstInt(rel.Y)
				return isM && m == 0 && rel.Op == token.GTR && rel.X == v
			})
			r.Check(okRem, "C09.cmp", tn, "return remaining", pos, "remaining = stamp+expireAfter-now when positive", "returned duration is not stamp.Add(expireAfter).Sub(now) under >0")
		}
	}
}

// isRemaining: v == date.Add(expireAfter).Sub(now) with date parsed from the stamp.
func isRemaining(c *Ctx, v ssa.Value) bool {
	sub, _ := CallOf(v)
	if sub == nil || Callee(sub) != "(time.Time).Sub" {
		return false
	}
	add, _ := CallOf(Arg(sub, 0))
	if add == nil || Callee(add) != "(time.Time).Add" {
		return false
	}
	_, durIsParam := Arg(add, 1).(*ssa.Parameter)
	dateParsed := chainCall(Arg(add, 0), "time.Parse", 0) != nil
	nowOK := HasOrigin(c.rawOrigins(Arg(sub, 1)), func(o Origin) bool {
		return (o.Kind == "call" && (strings.HasPrefix(o.Name, "time.Now#") || strings.HasPrefix(o.Name, "var:ab/expire.nowTime#"))) || (o.Kind == "global" && o.Name == "ab/expire.nowTime")
	})
	return durIsParam && dateParsed && nowOK
}

func (c *Ctx) loginStamps(refresh *ssa.Function, last string) {
	r := c.R
	// events stamped by expire.Setup
	stamped := map[int64]bool{}
	for _, w := range c.wiring {
		if w.Before || !w.Const || w.Conditional || pkgOf(w.In) != "ab/expire" || w.Handler == nil {
			continue
		}
		stamps := false
		for _, call := range Calls(w.Handler) {
			if StaticCallee(call) == refresh || c.isStateOp("put", "session", last)(call.(ssa.Instruction)) {
				stamps = true
			}
		}
		if stamps {
			stamped[w.Event] = true
		}
	}
	for _, s := range c.Issuances() {
		if !s.Op.Const {
			continue
		}
		name := FuncName(s.Fn)
		pos := posf(c, s.Op.Call)
		var evs []string
		ok := false
		for _, f := range Fires(s.Fn) {
			if f.Before || !f.Const {
				continue
			}
			// the event is fired on the issuing path: before (gating) or after the write
			onPath := Reaches(s.Op.Call.(ssa.Instruction), f.Call.(ssa.Instruction)) || InstrDominates(f.Call.(ssa.Instruction), s.Op.Call.(ssa.Instruction))
			if !onPath {
				continue
			}
			evs = append(evs, c.EventName(f.Event))
			if stamped[f.Event] {
				ok = true
			}
		}
		if (len(evs) == 0 || !ok) && pkgOf(s.Fn) == "ab/remember" {
			r.Info("C09.login-stamp", name, "PutSession(uid)", pos, "issues a session without firing any After event (remember cookie login: documented upstream as incompatible with the expire middleware)")
			continue
		}
		if len(evs) == 0 {
			r.Bad("C09.login-stamp", name, "PutSession(uid)", pos, "this login issues a session without firing any After event: expire.Setup has nothing to stamp, so the session starts without an idle clock (and a stale last_action of an earlier session would expire it at once)")
			continue
		}
		if ok {
			// the stamped event is fired on every completing path after the write
			// (or was fired before it)
			q := PathQuery{From: s.Op.Call.(ssa.Instruction), Cut: func(i ssa.Instruction) bool {
				for _, f := range Fires(s.Fn) {
					if !f.Before && f.Const && stamped[f.Event] && f.Call.(ssa.Instruction) == i {
						return true
					}
				}
				return false
			}, Goal: func(i ssa.Instruction) bool {
				ret, isRet := i.(*ssa.Return)
				return isRet && !c.isErrorExit(ret)
			}}
			dominated := false
			for _, f := range Fires(s.Fn) {
				if !f.Before && f.Const && stamped[f.Event] && InstrDominates(f.Call.(ssa.Instruction), s.Op.Call.(ssa.Instruction)) {
					dominated = true
				}
			}
			if p := q.Find(); p != nil && !dominated {
				r.Bad("C09.login-stamp", name, "PutSession(uid)|every path", pos, "a completing path after the session write fires no After event that expire.Setup stamps: that login starts no idle clock", c.P.DescribePath(p)...)
				continue
			}
		}
		r.Check(ok, "C09.login-stamp", name, "PutSession(uid)", pos, "the login's After event ("+strings.Join(evs, ",")+") is stamped by expire.Setup", "login starts no idle clock: none of the After events fired on this login path ("+strings.Join(evs, ",")+") has a stamping handler registered by expire.Setup")
	}
}

// derivedWhitelistField: the hider's whitelist comes from a field of the
// middleware that its constructor fills with a set built from the configured
// whitelist (the set precomputed once instead of per expired request).
func (c *Ctx) derivedWhitelistField(os []Origin) bool {
	for _, o := range os {
		if o.Kind != "field" || !strings.Contains(o.Name, "expire") {
			continue
		}
		fname := o.Name[strings.LastIndex(o.Name, ".")+1:]
		found, okAll := false, true
		for _, fn := range c.P.Funcs {
			if pkgOf(fn) != "ab/expire" {
				continue
			}
			for _, b := range fn.Blocks {
				for _, in := range b.Instrs {
					st, ok := in.(*ssa.Store)
					if !ok {
						continue
					}
					fa, ok := st.Addr.(*ssa.FieldAddr)
					if !ok || fieldName(fa) != fname {
						continue
					}
					found = true
					// the stored map: every key put into it derives from the configured list
					nkeys := 0
					for _, bb := range fn.Blocks {
						for _, ii := range bb.Instrs {
							mu, isMU := ii.(*ssa.MapUpdate)
							if !isMU || mu.Map != st.Val {
								continue
							}
							nkeys++
							ko := c.fieldOrigins(mu.Key)
							if !(hasField(ko, "SessionStateWhitelistKeys") || hasField(ko, "sessionWhitelist")) {
								okAll = false
							}
						}
					}
					if nkeys == 0 {
						okAll = false
					}
				}
			}
		}
		if found && okAll {
			return true
		}
	}
	return false
}
