package rules

import (
	. "abverif/internal/engine"

	"golang.org/x/tools/go/ssa"
)

// backendCalls: calls into integrator-supplied components whose failure C18 is about.
func isBackendCall(call ssa.CallInstruction) (string, bool) {
	n := Callee(call)
	switch n {
	case fnLoad, fnSave, fnCreate, fnNewOAuth2, fnSaveOAuth2, fnLoadConfirm, fnLoadRecover, fnAddRemember, fnDelRemember, fnUseRemember:
		return "storage", true
	case fnHashGenerate, fnHashCompare:
		return "hasher", true
	case "(ab.Renderer).Render", "(ab.Renderer).Load":
		return "renderer", true
	case "(ab.Mailer).Send":
		return "mailer", true
	case "(ab/otp/twofactor/sms2fa.SMSSender).Send":
		return "sms sender", true
	case fnBodyRead:
		return "body reader", true
	case fnRespond, fnRedirect:
		return "responder", true
	case fnGenToken:
		return "token generator", true
	case fnExchangerVar, fnExchange:
		return "oauth2 exchange", true
	}
	if n == "" && isFieldFunc(call.Common().Value, "FindUserDetails") {
		return "oauth2 provider", true
	}
	return "", false
}

// documented exceptions to the error discipline
var errIgnoreAllowed = map[string]string{
	"(*ab.Authboss).CurrentUserID": "never returns a non-nil error (documented TODO in context.go); callers may ignore it",
}

// errors that are tested and deliberately not handed back (function|callee -> reason)
var errTolerated = map[string]string{
	"(*ab/logout.Logout).Logout|(*ab.Authboss).CurrentUser": "the user is loaded only for the log line; logout must proceed for a session whose user cannot be loaded",
}

// C18: backend failures never panic, fake success or weaken security state.
func C18(c *Ctx) {
	r := c.R
	r.Explanation = "Static error discipline for C18 over every package: (1) at every call of a backend component (storage, hasher, renderer, mailer, SMS sender, body reader, responder/redirector, token generator, OAuth2 exchange/provider) and of every repository function or event fire that returns an error, the error is returned, or every path from the call meets a nil-test of it before any exit (an edge on which it equals a declared sentinel counts as handled: ErrUserNotFound, ErrUserFound, ErrTokenNotFound, errSMSRateLimit, errNoTOTPEnabled); a dropped or overwritten error is a violation; (2) in functions that return an error, the non-nil edge of such an error reaches only returns that hand that error back (possibly wrapped) — it is not swallowed, logged-and-continued, or replaced by another variable; (3) no panic on a backend failure: callers of the panicking helpers (CurrentUserP, LoadCurrentUserP, CurrentUserIDP) are either event handlers all of whose fire sites install the user in the request context, or are reported (the lock/confirm middlewares panic by documented design: known finding); (4) one-time credentials: consumption is saved, and the save tested, before the session is written (C12's consumption rules re-evaluated here)."
	r.NotDecided = []string{"behaviour for each injected fault value at run time", "the default silent error handler's empty 200 (it is the configured outcome)", "panics of ClientStateResponseWriter.WriteHeader on a failing client-state writer (documented: WriteHeader cannot return an error; the client-state writer is not among the components C18 names)", "panics on programming errors (failed interface upgrades in Must*/EnsureCan*, invalid configuration in Init)"}

	nBackend, nInternal := 0, 0
	for _, fn := range c.P.Funcs {
		name := FuncName(fn)
		sig := fn.Signature
		returnsErr := sig.Results().Len() > 0 && IsErrorType(sig.Results().At(sig.Results().Len()-1).Type())
		seen := map[string]int{}
		for _, call := range Calls(fn) {
			if _, isGo := call.(*ssa.Go); isGo {
				continue
			}
			if _, isDefer := call.(*ssa.Defer); isDefer {
				continue
			}
			kind, isB := isBackendCall(call)
			cn := Callee(call)
			if !isB {
				// repository-internal calls and event fires returning an error
				csig := call.Common().Signature()
				n := csig.Results().Len()
				if n == 0 || !IsErrorType(csig.Results().At(n-1).Type()) {
					continue
				}
				f := StaticCallee(call)
				internal := (f != nil && c.inRepo(f)) || cn == fnFireBefore || cn == fnFireAfter
				if !internal {
					continue
				}
				kind = "internal"
				nInternal++
			} else {
				nBackend++
			}
			if cn == "" {
				cn = "FindUserDetails"
			}
			seen[cn]++
			construct := cn
			if seen[cn] > 1 {
				construct = sprintf("%s#%d", cn, seen[cn])
			}
			pos := posf(c, call)
			k, path := c.errHandling(call)
			if k == "noerr" {
				continue
			}
			if why, ok := errIgnoreAllowed[cn]; ok && (k == "dropped" || k == "escapes") {
				r.Info("C18.errchk", name, construct, pos, "exempt: "+why)
				continue
			}
			switch k {
			case "dropped":
				r.Bad("C18.errchk", name, construct, pos, "error of the "+kind+" call is dropped (never read): a failure goes unnoticed and the handler carries on as if it had succeeded")
				continue
			case "escapes":
				r.Bad("C18.errchk", name, construct, pos, "a path from the "+kind+" call reaches an exit without a nil test of its error", c.P.DescribePath(path)...)
				continue
			}
			r.Ok("C18.errchk", name, construct, pos, kind+" error "+k)
			if cn == fnHashCompare {
				continue // its error is the verdict of the comparison, answered as a failed login (C04)
			}
			if why, ok := errTolerated[name+"|"+cn]; ok {
				r.Info("C18.propagate", name, construct, pos, "exempt: "+why)
				continue
			}
			if returnsErr && k == "tested" {
				ok, why := c.errPropagatedSentinel(call)
				if ok {
					r.Ok("C18.propagate", name, construct, pos, why)
				} else {
					r.Bad("C18.propagate", name, construct, pos, "the "+kind+" error is tested but not handed back: "+why+" — the request ends as if nothing had failed")
				}
			}
		}
	}
	r.Extra["backend_call_sites"] = nBackend
	r.Extra["internal_error_call_sites"] = nInternal
	r.Extra["backend_call_sites_reference_floor"] = 60
	if nBackend < 40 {
		r.Unknown("C18.errchk", "", "backend census", "-", sprintf("only %d backend call sites found; the backend table no longer matches the code", nBackend))
	}
	c.panicCallers()
	// (4)
	c.c12OTP()
	c.c12Recovery()
	c.c12TOTPReplay()
}

// errPropagatedSentinel is errPropagated with sentinel-equality edges treated
// as handled (the caller deliberately answers them).
func (c *Ctx) errPropagatedSentinel(call ssa.CallInstruction) (bool, string) {
	e := ErrResult(call)
	if e == nil {
		return false, "error result is dropped"
	}
	fn := call.Parent()
	found := false
	for _, b := range fn.Blocks {
		if len(b.Instrs) == 0 {
			continue
		}
		ifi, ok := b.Instrs[len(b.Instrs)-1].(*ssa.If)
		if !ok || !testsNil(ifi.Cond, e) {
			continue
		}
		found = true
		rel := Normalize(ifi.Cond, true)
		nonNil := b.Succs[0]
		if rel.Op.String() == "==" {
			nonNil = b.Succs[1]
		}
		isRetOfE := func(i ssa.Instruction) bool { return returnsErr(e, i) }
		q := PathQuery{StartBlock: nonNil, StartPred: b, NonNil: map[ssa.Value]bool{e: true, rel.X: true}, Cut: isRetOfE, Goal: IsReturn, Prune: func(from, to *ssa.BasicBlock) bool {
			f, ok := EdgeFact(from, to)
			if !ok {
				return false
			}
			r := f.Rel()
			if r.Op.String() != "==" {
				return false
			}
			return (flowsTo(e, r.X, 0) && loadOfGlobal(r.Y) != nil) || (flowsTo(e, r.Y, 0) && loadOfGlobal(r.X) != nil)
		}}
		if p := q.Find(); p != nil {
			return false, "on its non-nil edge a return at " + c.P.InstrPos(p[len(p)-1]) + " does not return it"
		}
	}
	if !found {
		return true, "handled through sentinel comparison"
	}
	// the error must still be the tested one when it is non-nil: a loop that goes
	// on after a failure, or a later call assigning the same variable before the
	// test, loses it
	prune := func(from, to *ssa.BasicBlock) bool {
		f, ok := EdgeFact(from, to)
		if !ok {
			return false
		}
		r := f.Rel()
		if r.Op.String() != "==" {
			return false
		}
		return (flowsTo(e, r.X, 0) && loadOfGlobal(r.Y) != nil) || (flowsTo(e, r.Y, 0) && loadOfGlobal(r.X) != nil)
	}
	qq := PathQuery{From: call.(ssa.Instruction), NonNil: map[ssa.Value]bool{e: true}, GoalP: notReturning(e), Prune: prune}
	if p := qq.Find(); p != nil {
		return false, "a path from the call to the return at " + c.P.InstrPos(p[len(p)-1]) + " does not hand a non-nil error back (it is overwritten or skipped before it is tested)"
	}
	return true, "non-nil edge returns the error"
}

// panicCallers: request-time callers of the panicking helpers.
func (c *Ctx) panicCallers() {
	r := c.R
	helpers := map[string]bool{fnCurrentUserP: true, fnLoadCurrentUserP: true, fnCurrentUserIDP: true, "(*ab.Authboss).LoadCurrentUserIDP": true}
	// handler -> events it is registered on
	regs := map[*ssa.Function][]Wire{}
	for _, w := range c.wiring {
		if w.Handler != nil {
			regs[w.Handler] = append(regs[w.Handler], w)
		}
	}
	n := 0
	for _, fn := range c.P.Funcs {
		name := FuncName(fn)
		if helpers[name] {
			continue
		}
		for _, call := range Calls(fn) {
			cn := Callee(call)
			if !helpers[cn] {
				continue
			}
			n++
			pos := posf(c, call)
			ws := regs[fn]
			if len(ws) > 0 {
				okAll := true
				detail := ""
				for _, w := range ws {
					for _, g := range c.P.Funcs {
						for _, f := range Fires(g) {
							if !f.Const || f.Event != w.Event || f.Before != w.Before {
								continue
							}
							ci := c.ctxChain(f.Req, 0)
							if v, ok := ci.must["user"]; !ok || IsNilConst(v) {
								okAll = false
								detail = "fire site " + posf(c, f.Call) + " in " + FuncName(g) + " does not install the user in the request context"
							}
						}
					}
				}
				r.Check(okAll, "C18.panic", name, cn, pos, "event handler: every fire site of its events puts the user in the context, so the helper never reaches storage", "the panicking helper can reach storage: "+detail)
				continue
			}
			// key middlewares by role, not by the name of the closure/type that implements them
			keyFns := []string{name}
			if hasRequestParams(fn) && len(CallsTo(fn, fnServeHTTP)) > 0 {
				keyFns = []string{pkgOf(fn) + ".middleware"}
				// a middleware body shared by several packages (a skeleton in the root
				// package that lock and confirm instantiate with their own check) is
				// each instantiating package's middleware
				if owners := c.ownerPkgs(fn); len(owners) > 0 {
					keyFns = nil
					for _, o := range owners {
						keyFns = append(keyFns, o+".middleware")
					}
				}
			}
			for _, keyFn := range keyFns {
				r.Add(Obligation{Rule: "C18.panic", Key: "C18.panic|" + keyFn + "|" + cn, Func: name, Pos: pos, Status: Violated, Detail: "request-time code calls " + cn + ", which panics when the storage layer fails to load the user"})
			}
		}
	}
	r.Extra["panicking_helper_call_sites"] = n
	// direct panics whose operand is a backend error
	for _, fn := range c.P.Funcs {
		name := FuncName(fn)
		if helpers[name] {
			continue
		}
		for _, b := range fn.Blocks {
			for _, in := range b.Instrs {
				p, ok := in.(*ssa.Panic)
				if !ok {
					continue
				}
				bad := ""
				for _, o := range c.rawOrigins(p.X) {
					if o.Kind != "call" {
						continue
					}
					if call, ok := o.V.(ssa.CallInstruction); ok {
						if kind, isB := isBackendCall(call); isB {
							bad = kind + " call " + Callee(call)
						}
					}
				}
				if bad != "" {
					r.Bad("C18.panic", name, "panic(<backend error>)", posf(c, p), "panics with the error of a "+bad)
				}
			}
		}
	}
}

// ownerPkgs: the packages whose functions instantiate closure fn (or one of
// the closures it is nested in) — for a closure whose lexical parent was a
// helper inlined into several packages. Empty when fn is instantiated only by
// its own package.
func (c *Ctx) ownerPkgs(fn *ssa.Function) []string {
	chain := map[*ssa.Function]bool{}
	for f := fn; f != nil; f = f.Parent() {
		chain[f] = true
	}
	if len(chain) < 2 {
		return nil
	}
	set := map[string]bool{}
	for _, g := range c.P.AllFuncs {
		if chain[g] {
			continue
		}
		for _, b := range g.Blocks {
			for _, in := range b.Instrs {
				mc, ok := in.(*ssa.MakeClosure)
				if !ok {
					continue
				}
				if f, isF := mc.Fn.(*ssa.Function); isF && chain[f] {
					set[pkgOf(g)] = true
				}
			}
		}
	}
	if len(set) == 0 || (len(set) == 1 && set[pkgOf(fn)]) {
		return nil
	}
	return sortedKeys(set)
}
