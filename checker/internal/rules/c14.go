package rules

import (
	"go/token"
	"strings"

	. "abverif/internal/engine"

	"golang.org/x/tools/go/ssa"
)

// C14: OAuth2 callbacks need the session's own unused state.
func C14(c *Ctx) {
	r := c.R
	r.Explanation = "Static necessary conditions for C14 on oauth2.Start/End and the PID codec: (1) in End the session write (and every storer call, token exchange and event) is dominated by: session[oauth2_state] present, submitted state == that value (operands: r.FormValue(\"state\") and the session read), and an empty provider error for the login itself; (2) from the state-match edge, DelSession(oauth2_state) is passed before anything acts on the callback (exchange, provider call, storer call, event, redirect, session write): the state is spent by the first callback that matches it, whatever its outcome; (3) identity chain: code→exchanger→FindUserDetails→NewFromOAuth2(provider, details)→SaveOAuth2→session uid = MakeOAuth2PID(provider, user.GetOAuth2UID()), each step on the previous one's nil-error edge, with the same provider value that selected the configuration and is put into the user; (4) Start stores in the session exactly the state value it hands to AuthCodeURL, freshly drawn from crypto/rand, and resets the pass-along parameters; (5) codec: MakeOAuth2PID formats prefix‖sep‖provider‖sep‖uid with one separator literal, ParseOAuth2PID splits on the same literal, demands exactly the writer's number of segments and the writer's prefix, and returns the segments in the writer's order."
	r.NotDecided = []string{"injectivity of the PID format for provider-returned uids that contain the separator (value-level; the parser rejects them, the writer does not)", "cross-browser delivery (follows from the session being the sole holder of the state)", "behaviour of the provider and of golang.org/x/oauth2"}
	if c.P.ByPath[RepoPath+"/oauth2"] == nil {
		r.Unknown("C14", "ab/oauth2", "package", "-", "oauth2 package not found")
		return
	}
	end := c.P.Func("(*ab/oauth2.OAuth2).End")
	start := c.P.Func("(*ab/oauth2.OAuth2).Start")
	en := FuncName(end)
	stateKey := c.P.ConstString("", "SessionOAuth2State")
	uid := c.P.ConstString("", "SessionKey")

	// locate the session read and the compare
	var get ssa.CallInstruction
	for _, g := range CallsTo(end, fnGetSession) {
		if k, _ := constArgStr(g, 1); k == stateKey {
			get = g
		}
	}
	if get == nil {
		r.Bad("C14.state", en, "GetSession("+stateKey+")", "-", "End never reads the state from the session")
		return
	}
	want := ResultValue(get, 0)
	present := ResultValue(get, 1)
	isMatch := func(f Fact) bool {
		rel := f.EqRel()
		if rel.Op != token.EQL {
			return false
		}
		x, y := rel.X, rel.Y
		for k := 0; k < 2; k++ {
			if y == want {
				fc, _ := CallOf(x)
				if fc != nil && Callee(fc) == "(*net/http.Request).FormValue" {
					if s, isC := constArgStr(fc, 1); isC && s == "state" {
						return true
					}
				}
			}
			x, y = y, x
		}
		return false
	}
	isPresent := func(f Fact) bool { return present != nil && f.SaysBool(present, true) }
	noProvErr := func(f Fact) bool {
		rel := f.Rel()
		x := StrLenValue(rel.X)
		if x == nil {
			x = rel.X
		}
		if !f.SaysEmpty(x) {
			return false
		}
		fc, _ := CallOf(x)
		if fc == nil || Callee(fc) != "(*net/http.Request).FormValue" {
			return false
		}
		s, isC := constArgStr(fc, 1)
		return isC && s == "error"
	}
	// effects that act on the callback
	type eff struct {
		in      ssa.Instruction
		what    string
		isLogin bool
	}
	var effs []eff
	for _, call := range Calls(end) {
		n := Callee(call)
		switch {
		case n == fnExchangerVar || n == fnExchange:
			effs = append(effs, eff{call.(ssa.Instruction), "token exchange", true})
		case n == "" && isFieldFunc(call.Common().Value, "FindUserDetails"):
			effs = append(effs, eff{call.(ssa.Instruction), "FindUserDetails", true})
		case n == fnNewOAuth2 || n == fnSaveOAuth2:
			effs = append(effs, eff{call.(ssa.Instruction), strings.TrimPrefix(n, "(ab.OAuth2ServerStorer)."), true})
		case n == fnFireBefore || n == fnFireAfter:
			f, _ := fireOf(call)
			effs = append(effs, eff{call.(ssa.Instruction), "event " + c.EventName(f.Event), f.Event != c.Event("EventOAuth2Fail")})
		case n == fnRedirect:
			effs = append(effs, eff{call.(ssa.Instruction), "redirect", false})
		}
	}
	for _, op := range c.StateOps(end) {
		if op.Op == "put" && op.Store == "session" && op.Key == uid {
			effs = append(effs, eff{op.Call.(ssa.Instruction), "PutSession(uid)", true})
		}
	}
	if len(effs) < 5 {
		r.Unknown("C14.state", en, "effects", "-", sprintf("only %d callback effects recognised", len(effs)))
	}
	dels := func(i ssa.Instruction) bool { return c.isStateOp("del", "session", stateKey)(i) }
	seenWhat := map[string]int{}
	for _, e := range effs {
		seenWhat[e.what]++
		what := e.what
		if seenWhat[e.what] > 1 {
			what = sprintf("%s#%d", e.what, seenWhat[e.what])
		}
		fs := FactsAtInstr(e.in)
		pos := posf(c, e.in)
		var missing []string
		if !HoldsGiven(fs, isPresent) {
			missing = append(missing, "session state present")
		}
		if !HoldsGiven(fs, isMatch) {
			missing = append(missing, "submitted state == session state")
		}
		if e.isLogin && !HoldsGiven(fs, noProvErr) {
			missing = append(missing, "no provider error")
		}
		if len(missing) == 0 {
			r.Ok("C14.state", en, what, pos, "dominated by presence+equality of the state"+map[bool]string{true: " and an empty provider error", false: ""}[e.isLogin])
		} else {
			r.Bad("C14.state", en, what, pos, "the callback acts ("+e.what+") without: "+strings.Join(missing, ", "), factList(c, e.in)...)
		}
		// spent before acting
		spent := false
		for _, call := range Calls(end) {
			if dels(call.(ssa.Instruction)) && InstrDominates(call.(ssa.Instruction), e.in) {
				spent = true
			}
		}
		if !spent {
			// the deletion sits on the success path of a helper that checks the state:
			// every feasible path to the effect passes it
			at := e.in
			spent = PathQuery{StartBlock: end.Blocks[0], Cut: dels, Goal: func(i ssa.Instruction) bool { return i == at }}.Find() == nil
		}
		r.Check(spent, "C14.spent", en, what, pos, "the state is deleted before the callback acts", "the callback can act ("+e.what+") while the state is still in the session: the same callback can be replayed (the state is not spent by the first callback that matches it)")
	}

	// (3) identity chain
	var ex, fud, nfo, sav ssa.CallInstruction
	for _, call := range Calls(end) {
		switch n := Callee(call); {
		case n == fnExchangerVar || n == fnExchange:
			ex = call
		case n == "" && isFieldFunc(call.Common().Value, "FindUserDetails"):
			fud = call
		case n == fnNewOAuth2:
			nfo = call
		case n == fnSaveOAuth2:
			sav = call
		}
	}
	if ex == nil || fud == nil || nfo == nil || sav == nil {
		r.Bad("C14.chain", en, "exchange→details→user→save", "-", "one of token exchange, FindUserDetails, NewFromOAuth2, SaveOAuth2 is missing")
	} else {
		codeOK := false
		for _, a := range ex.Common().Args {
			if HasOrigin(c.rawOrigins(a), func(o Origin) bool {
				if o.Kind != "call" || !strings.HasPrefix(o.Name, "(*net/http.Request).FormValue#") {
					return false
				}
				s, _ := constArgStr(o.V.(ssa.CallInstruction), 1)
				return s == "code"
			}) {
				codeOK = true
			}
		}
		r.Check(codeOK, "C14.chain", en, "exchange(code)", posf(c, ex), "exchanges the submitted code", "token exchange does not use the callback's code parameter")
		tok := ResultValue(ex, 0)
		r.Check(tok != nil && anyArgDerives(c, fud, ex.Value()) && ErrNilAt(fud.(ssa.Instruction), ErrResult(ex)), "C14.chain", en, "FindUserDetails(token)", posf(c, fud), "details fetched with the exchanged token, after the exchange succeeded", "FindUserDetails does not use the exchanged token on the exchange's success edge")
		det := ResultValue(fud, 0)
		r.Check(det != nil && Arg(nfo, 2) == det && ErrResult(fud) != nil && ErrNilAt(nfo.(ssa.Instruction), ErrResult(fud)), "C14.chain", en, "NewFromOAuth2(details)", posf(c, nfo), "user built from the provider's details", "NewFromOAuth2 does not receive the details FindUserDetails returned on its success edge")
		usr := ResultValue(nfo, 0)
		r.Check(usr != nil && Arg(sav, 1) == usr && ErrResult(nfo) != nil && ErrNilAt(sav.(ssa.Instruction), ErrResult(nfo)), "C14.chain", en, "SaveOAuth2(user)", posf(c, sav), "saves the user NewFromOAuth2 built", "SaveOAuth2 does not save the user NewFromOAuth2 returned on its success edge")
		// provider consistency
		prov := Arg(nfo, 1)
		okProv := true
		nProv := 0
		for _, call := range c.userCalls(end, "PutOAuth2Provider") {
			if Arg(call, 0) != prov {
				okProv = false
			} else if InstrDominates(call.(ssa.Instruction), sav.(ssa.Instruction)) {
				nProv++
			}
		}
		if nProv == 0 {
			okProv = false // the provider must be recorded in the user before it is saved
		}
		// config look-up with the same provider
		lookupOK := false
		for _, b := range end.Blocks {
			for _, in := range b.Instrs {
				if lk, ok := in.(*ssa.Lookup); ok && lk.Index == prov && fieldLoadName(lk.X) == "OAuth2Providers" {
					lookupOK = true
				}
			}
		}
		r.Check(okProv && lookupOK, "C14.chain", en, "provider", posf(c, nfo), "one provider value selects the configuration, builds the user and is stored", "the provider used to build/store the user is not the one that selected the configuration")
		// issuance
		for _, op := range c.StateOps(end) {
			if op.Op != "put" || op.Key != uid {
				continue
			}
			mk, _ := CallOf(op.Val)
			okPID := mk != nil && Callee(mk) == "ab.MakeOAuth2PID" && Arg(mk, 0) == prov
			if okPID {
				uc, _ := CallOf(Arg(mk, 1))
				okPID = uc != nil && uc.Common().IsInvoke() && uc.Common().Method.Name() == "GetOAuth2UID" && Resolve(uc.(ssa.Instruction), uc.Common().Value) == usr
			}
			r.Check(okPID, "C14.chain", en, "PutSession(uid)=MakeOAuth2PID(provider, user.GetOAuth2UID())", posf(c, op.Call), "session names the (provider, uid) pair the provider reported", "session identity is not MakeOAuth2PID(provider, uid of the user built from the provider's details)")
			saveErr := ErrResult(sav)
			r.Check(saveErr != nil && HoldsAt(op.Call.(ssa.Instruction), func(f Fact) bool { return f.SaysNil(saveErr) }), "C14.chain", en, "SaveOAuth2==nil≺PutSession(uid)", posf(c, op.Call), "logged in only after the user was saved", "session written although SaveOAuth2 may have failed")
		}
	}

	// (4) Start
	sn := FuncName(start)
	var putState *StateOp
	ops := c.StateOps(start)
	for i := range ops {
		if ops[i].Op == "put" && ops[i].Key == stateKey {
			putState = &ops[i]
		}
	}
	if putState == nil {
		r.Bad("C14.start", sn, "PutSession("+stateKey+")", "-", "Start does not store a state")
	} else {
		okURL := false
		for _, call := range CallsTo(start, "(*golang.org/x/oauth2.Config).AuthCodeURL") {
			if Arg(call, 1) == putState.Val || Resolve(call.(ssa.Instruction), Arg(call, 1)) == Resolve(putState.Call.(ssa.Instruction), putState.Val) {
				okURL = true
			}
		}
		r.Check(okURL, "C14.start", sn, "AuthCodeURL(state)", posf(c, putState.Call), "the value stored is the value sent to the provider", "the state sent to the provider is not the value stored in the session")
		// fresh randomness: encoded buffer filled by io.ReadFull(crypto/rand.Reader, buf)
		fresh := false
		stVal := Resolve(putState.Call.(ssa.Instruction), putState.Val)
		if enc, _ := CallOf(stVal); enc != nil && Callee(enc) == fnB64Encode {
			buf := stripConv(Arg(enc, 1))
			for _, call := range CallsTo(start, "io.ReadFull") {
				if stripConv(Arg(call, 1)) == buf {
					if c.isCryptoRandReader(Arg(call, 0)) {
						if e := ErrResult(call); e != nil && HoldsAt(putState.Call.(ssa.Instruction), func(f Fact) bool { return f.SaysNil(e) }) {
							fresh = true
						}
					}
				}
			}
			if ms, ok := buf.(*ssa.MakeSlice); ok {
				if lowerBoundInt(ms.Len, 0) < 16 {
					fresh = false
				}
			}
		}
		r.Check(fresh, "C14.start", sn, "state=base64(crypto/rand)", posf(c, putState.Call), "state is ≥16 fresh random bytes, read successfully", "state is not a successfully read crypto/rand value of at least 16 bytes")
	}

	// (5) codec
	c.oauthPIDCodec("C14.codec")
}

func (c *Ctx) oauthPIDCodec(rule string) {
	r := c.R
	mk := c.P.Func("ab.MakeOAuth2PID")
	ps := c.P.Func("ab.ParseOAuth2PID")
	format := ""
	for _, call := range CallsTo(mk, "fmt.Sprintf") {
		format, _ = constArgStr(call, 0)
	}
	viaConcat := false
	if format == "" {
		// the writer may build the identifier by concatenation
		for _, b := range mk.Blocks {
			for _, in := range b.Instrs {
				if ret, ok := in.(*ssa.Return); ok && len(ret.Results) == 1 {
					format = concatFormat(ret.Results[0], mk, 0)
					viaConcat = format != ""
				}
			}
		}
	}
	sep := ""
	for _, call := range CallsTo(ps, "strings.Split") {
		sep, _ = constArgStr(call, 1)
	}
	// SplitN with a bound above the writer's segment count (or negative) splits
	// the same inputs into three segments as Split does
	for _, call := range CallsTo(ps, "strings.SplitN") {
		if n, isC := ConstInt(Arg(call, 2)); isC && (n < 0 || n > 3) {
			sep, _ = constArgStr(call, 1)
		}
	}
	// the reader may take the identifier apart with two strings.Cut calls
	var cut1, cut2 ssa.CallInstruction
	if sep == "" {
		for _, call := range CallsTo(ps, "strings.Cut") {
			s1, _ := constArgStr(call, 1)
			if s1 == "" {
				continue
			}
			if _, isParam := Arg(call, 0).(*ssa.Parameter); isParam {
				cut1, sep = call, s1
			}
		}
		for _, call := range CallsTo(ps, "strings.Cut") {
			s2, _ := constArgStr(call, 1)
			if cut1 != nil && call != cut1 && s2 == sep && resolvesTo(Arg(call, 0), ResultValue(cut1, 1), 0) {
				cut2 = call
			}
		}
		if cut1 == nil || cut2 == nil {
			sep = ""
		}
	}
	if format == "" || sep == "" {
		r.Unknown(rule, FuncName(mk), "format/separator", "-", "writer format or reader separator not constant")
		return
	}
	parts := strings.Split(format, sep)
	isVerb := func(s string) bool { return s == "%s" || s == "%[1]s" || s == "%[2]s" }
	okW := len(parts) == 3 && isVerb(parts[1]) && isVerb(parts[2]) && !strings.Contains(parts[0], "%")
	r.Check(okW, rule, FuncName(mk), "format", c.P.Pos(mk.Pos()), sprintf("%q splits on %q into prefix, provider, uid", format, sep), sprintf("writer format %q is not prefix%sprovider%suid", format, sep, sep))
	if !okW {
		return
	}
	// what is returned is the formatted text itself: a post-processing step
	// (case folding, trimming, truncation) maps distinct (provider, uid) pairs
	// to one identifier
	for _, b := range mk.Blocks {
		for _, in := range b.Instrs {
			ret, ok := in.(*ssa.Return)
			if !ok || len(ret.Results) != 1 {
				continue
			}
			direct := false
			if call, _ := CallOf(ret.Results[0]); call != nil && Callee(call) == "fmt.Sprintf" {
				direct = true
			}
			if viaConcat && concatFormat(ret.Results[0], mk, 0) != "" {
				direct = true
			}
			r.Check(direct, rule, FuncName(mk), "identifier returned as formatted", posf(c, ret), "no transformation after formatting", "the identifier is transformed after it was formatted ("+SafeString(ret.Results[0])+"): distinct (provider, uid) pairs can collapse into one account identifier, and ParseOAuth2PID no longer returns what the provider reported")
		}
	}
	if viaConcat {
		// concatFormat numbers the parameters: %[1]s must precede %[2]s
		r.Check(strings.Index(format, "%[1]s") >= 0 && strings.Index(format, "%[1]s") < strings.Index(format, "%[2]s"), rule, FuncName(mk), "argument order", c.P.Pos(mk.Pos()), "provider then uid", "writer does not concatenate (provider, uid) in that order")
	}
	// writer passes (provider, uid) in that order
	for _, call := range CallsTo(mk, "fmt.Sprintf") {
		// varargs slice: stores of the two parameters at index 0 and 1
		ok := true
		idx := map[int64]*ssa.Parameter{}
		for _, b := range mk.Blocks {
			for _, in := range b.Instrs {
				if st, isSt := in.(*ssa.Store); isSt {
					if ia, isIA := st.Addr.(*ssa.IndexAddr); isIA {
						if n, isC := ConstInt(ia.Index); isC {
							if mi, isMI := st.Val.(*ssa.MakeInterface); isMI {
								if p, isP := mi.X.(*ssa.Parameter); isP {
									idx[n] = p
								}
							}
						}
					}
				}
			}
		}
		if idx[0] != mk.Params[0] || idx[1] != mk.Params[1] {
			ok = false
		}
		r.Check(ok, rule, FuncName(mk), "argument order", posf(c, call), "provider then uid", "writer does not format (provider, uid) in that order")
	}
	// reader: success return under len(splits)==3 and splits[0]==prefix, returns splits[1], splits[2]
	pn := FuncName(ps)
	// … of the identifier as it was handed in: a decoding or normalising step in
	// front of the split rewrites identifiers the writer produced verbatim
	for _, call := range CallsTo(ps, "strings.Split", "strings.SplitN") {
		_, isParam := Arg(call, 0).(*ssa.Parameter)
		r.Check(isParam, rule, pn, "splits the identifier verbatim", posf(c, call), "the text split is the parameter itself", "the identifier is transformed before it is split ("+SafeString(Arg(call, 0))+"): Parse(Make(provider, uid)) no longer returns (provider, uid) for every uid, so the session's identifier resolves to another pair than the provider reported")
	}
	// the success exits: a return with a nil error, or — in a single-exit
	// function — the ways of arriving at the return on which the error is nil
	type exit struct {
		fs       []Fact
		prov, id ssa.Value
		pos      string
	}
	var exits []exit
	for _, b := range ps.Blocks {
		for _, in := range b.Instrs {
			ret, ok := in.(*ssa.Return)
			if !ok || len(ret.Results) != 3 {
				continue
			}
			if IsNilConst(ret.Results[2]) {
				exits = append(exits, exit{FactsAtInstr(ret), ret.Results[0], ret.Results[1], posf(c, ret)})
				continue
			}
			if ephi, isPhi := ret.Results[2].(*ssa.Phi); isPhi && ephi.Block() == ret.Block() {
				for i, e := range ephi.Edges {
					if !IsNilConst(e) {
						continue
					}
					pick := func(v ssa.Value) ssa.Value {
						if p, ok := v.(*ssa.Phi); ok && p.Block() == ephi.Block() && i < len(p.Edges) {
							return p.Edges[i]
						}
						return v
					}
					pred := ephi.Block().Preds[i]
					fs := append(append([]Fact{}, FactsAt(pred)...), FactsAtEdge(pred, ephi.Block())...)
					exits = append(exits, exit{fs, pick(ret.Results[0]), pick(ret.Results[1]), posf(c, ret)})
				}
			}
		}
	}
	if len(exits) == 0 {
		r.Unknown(rule, pn, "success exit", "-", "no return with a nil error found in the reader")
	}
	for _, ex := range exits {
		if cut2 != nil {
			fs := ex.fs
			pos := ex.pos
			// found twice and no third separator: exactly the writer's three segments
			okFound := HasFact(fs, func(f Fact) bool {
				rel := f.Rel()
				return rel.B != nil && rel.Pol && resolvesTo(rel.B, ResultValue(cut2, 2), 0)
			})
			okNoMore := HasFact(fs, func(f Fact) bool {
				rel := f.Rel()
				if rel.B == nil || rel.Pol {
					return false
				}
				call, _ := CallOf(rel.B)
				if call == nil || Callee(call) != "strings.Contains" {
					return false
				}
				s2, _ := constArgStr(call, 1)
				return s2 == sep && resolvesTo(Arg(call, 0), ResultValue(cut2, 1), 0)
			})
			r.Check(okFound && okNoMore, rule, pn, "len(segments)==3", pos, "accepts exactly the writer's number of segments (two cuts found, no separator left in the uid)", "reader accepts a pid whose number of segments differs from what the writer produces: a uid containing the separator decodes to a different (provider, uid) pair than the one encoded")
			okPrefix := HasFact(fs, func(f Fact) bool {
				rel := f.Rel()
				s, isC := ConstStr(rel.Y)
				return isC && s == parts[0] && rel.Op == token.EQL && resolvesTo(rel.X, ResultValue(cut1, 0), 0)
			})
			r.Check(okPrefix, rule, pn, "segments[0]==prefix", pos, "demands the writer's prefix", "reader does not demand the writer's prefix "+parts[0])
			r.Check(resolvesTo(ex.prov, ResultValue(cut2, 0), 0) && resolvesTo(ex.id, ResultValue(cut2, 1), 0), rule, pn, "returns segments[1], segments[2]", pos, "provider and uid in the writer's order", "reader returns the segments in a different order than the writer wrote them")
			continue
		}
		{
			fs := ex.fs
			pos := ex.pos
			okLen := HasFact(fs, func(f Fact) bool {
				rel := f.Rel()
				n, isC := ConstInt(rel.Y)
				return isC && n == int64(len(parts)) && rel.Op == token.EQL && StrLenValue(rel.X) != nil
			})
			r.Check(okLen, rule, pn, "len(segments)==3", pos, "accepts exactly the writer's number of segments", "reader accepts a pid whose number of segments differs from what the writer produces: a uid containing the separator decodes to a different (provider, uid) pair than the one that was encoded")
			okPrefix := HasFact(fs, func(f Fact) bool {
				rel := f.Rel()
				s, isC := ConstStr(rel.Y)
				return isC && s == parts[0] && rel.Op == token.EQL && indexConst(rel.X) == 0
			})
			r.Check(okPrefix, rule, pn, "segments[0]==prefix", pos, "demands the writer's prefix", "reader does not demand the writer's prefix "+parts[0])
			r.Check(indexConst(ex.prov) == 1 && indexConst(ex.id) == 2, rule, pn, "returns segments[1], segments[2]", pos, "provider and uid in the writer's order", "reader returns the segments in a different order than the writer wrote them")
		}
	}
}

// resolvesTo: v is target, possibly behind joins whose other ways of arriving
// contribute a zero constant or a flag known to be false on that way.
func resolvesTo(v, target ssa.Value, d int) bool {
	if v == nil || target == nil || d > 3 {
		return false
	}
	if v == target {
		return true
	}
	phi, ok := v.(*ssa.Phi)
	if !ok {
		return false
	}
	some := false
	for i, e := range phi.Edges {
		if resolvesTo(e, target, d+1) {
			some = true
			continue
		}
		if k, isC := e.(*ssa.Const); isC && (k.Value == nil || k.Value.String() == `""` || k.Value.String() == "false") {
			continue
		}
		if HasFact(FactsAtEdge(phi.Block().Preds[i], phi.Block()), func(f Fact) bool {
			rel := f.Rel()
			return rel.B == e && !rel.Pol
		}) {
			continue
		}
		return false
	}
	return some
}

// indexConst: v is a load of x[k] with constant k; returns k or -1.
func indexConst(v ssa.Value) int64 {
	u, ok := v.(*ssa.UnOp)
	if !ok {
		return -1
	}
	ia, ok := u.X.(*ssa.IndexAddr)
	if !ok {
		return -1
	}
	n, isC := ConstInt(ia.Index)
	if !isC {
		return -1
	}
	return n
}

// isFieldFunc: v is the value of a struct field (of function type) with the given name.
func isFieldFunc(v ssa.Value, field string) bool {
	if strings.HasSuffix(FieldOf(v), "."+field) {
		return true
	}
	return fieldLoadName(v) == field
}

func anyArgDerives(c *Ctx, call ssa.CallInstruction, from ssa.Value) bool {
	for _, a := range call.Common().Args {
		if c.DerivesFrom(a, func(o Origin) bool { return o.V == from }, 1) {
			return true
		}
	}
	return false
}

// concatFormat renders a string built by concatenation of constants and
// parameters as a format string ("%[i]s" for the i-th parameter), "" if the
// expression contains anything else.
func concatFormat(v ssa.Value, fn *ssa.Function, d int) string {
	if d > 12 {
		return ""
	}
	if s, ok := ConstStr(v); ok {
		return s
	}
	switch x := v.(type) {
	case *ssa.Parameter:
		return sprintf("%%[%d]s", paramIndex(x)+1)
	case *ssa.BinOp:
		l, r := concatFormat(x.X, fn, d+1), concatFormat(x.Y, fn, d+1)
		if l == "" || r == "" {
			if sx, ok := ConstStr(x.X); ok && sx == "" {
				return r
			}
			return ""
		}
		return l + r
	case *ssa.Convert:
		return concatFormat(x.X, fn, d+1)
	case *ssa.Call:
		// strings.Join([]string{a, b, c}, sep)
		if Callee(x) == "strings.Join" && len(x.Call.Args) == 2 {
			sep, okSep := ConstStr(x.Call.Args[1])
			elems := varargElems(x.Call.Args[0])
			if !okSep || len(elems) == 0 {
				return ""
			}
			out := ""
			for i, e := range elems {
				if e == nil {
					return ""
				}
				p := concatFormat(e, fn, d+1)
				if p == "" {
					if s, isC := ConstStr(e); !isC || s != "" {
						return ""
					}
				}
				if i > 0 {
					out += sep
				}
				out += p
			}
			return out
		}
	}
	return ""
}

// lowerBoundInt: a lower bound of an integer value that is a constant or a
// choice between constants and values an edge condition bounds from below
// (`size := 32; if n > size { size = n }`); -1 when none is known.
func lowerBoundInt(v ssa.Value, d int) int64 {
	if k, isC := ConstInt(v); isC {
		return k
	}
	if cv, ok := v.(*ssa.Convert); ok && d < 4 {
		return lowerBoundInt(cv.X, d+1)
	}
	phi, ok := v.(*ssa.Phi)
	if !ok || d > 3 {
		return -1
	}
	lb := int64(1 << 40)
	for i, e := range phi.Edges {
		b := lowerBoundInt(e, d+1)
		if b < 0 {
			for _, f := range append(append([]Fact{}, FactsAt(phi.Block().Preds[i])...), FactsAtEdge(phi.Block().Preds[i], phi.Block())...) {
				rel := f.Rel()
				if k, isC := ConstInt(rel.Y); isC && rel.X == e {
					switch rel.Op {
					case token.GTR:
						if k+1 > b {
							b = k + 1
						}
					case token.GEQ:
						if k > b {
							b = k
						}
					}
				}
				if k, isC := ConstInt(rel.X); isC && rel.Y == e {
					switch rel.Op {
					case token.LSS:
						if k+1 > b {
							b = k + 1
						}
					case token.LEQ:
						if k > b {
							b = k
						}
					}
				}
			}
		}
		if b < lb {
			lb = b
		}
	}
	return lb
}
