package rules

import (
	"go/constant"
	"go/token"
	"strings"

	. "abverif/internal/engine"

	"golang.org/x/tools/go/ssa"
)

// Rules added after round 18 (bug fixes for a reported symptom that overlook
// one consequence). Each is a structural necessary condition of a clause of
// the property named in its rule id; DESIGN.md, section 4, "Round 18".

// registerAfterCreated (C19): the register event announces an account that
// this request created. Fired on any other way through Post (the duplicate
// branch, a failed Create) its handlers — confirm saves the user in the
// request context — write the submitted object over the stored account.
func (c *Ctx) registerAfterCreated(rule string) {
	r := c.R
	fn := c.P.FuncOpt("(*ab/register.Register).Post")
	if fn == nil {
		return
	}
	name := FuncName(fn)
	creates := CallsTo(fn, fnCreate)
	if len(creates) != 1 {
		return // C19.post reports this
	}
	ce := ErrResult(creates[0])
	ev := c.Event("EventRegister")
	n := 0
	for _, f := range Fires(fn) {
		if f.Event != ev {
			continue
		}
		n++
		phase := map[bool]string{true: "FireBefore", false: "FireAfter"}[f.Before]
		if f.Before {
			continue
		}
		ok := ce != nil && ErrNilAt(f.Call.(ssa.Instruction), ce)
		r.Check(ok, rule, name, "Create==nil≺"+phase+"(EventRegister)", posf(c, f.Call), "the register event is fired only for the account this request created", "the register event can be fired although Create did not succeed (duplicate identifier or storage error): its handlers (confirm stores the request's user object) act on an account this request did not create")
	}
	if n == 0 {
		r.Unknown(rule, name, "FireAfter(EventRegister)", "-", "no fire of the register event found in register.Post")
	}
}

// registerSessionPID (C01): the identity the registration login writes into
// the session is the identifier the created account received.
func (c *Ctx) registerSessionPID(rule string) {
	r := c.R
	fn := c.P.FuncOpt("(*ab/register.Register).Post")
	if fn == nil {
		return
	}
	name := FuncName(fn)
	puts := c.userCalls(fn, "PutPID")
	for _, s := range c.Issuances() {
		if s.Fn != fn {
			continue
		}
		v := stripConv18(s.Op.Val)
		ok := false
		for _, pc := range puts {
			if stripConv18(Arg(pc, 0)) == v {
				ok = true
			}
		}
		if !ok {
			// or read back from the created object
			if call, _ := CallOf(v); call != nil && call.Common().IsInvoke() && call.Common().Method.Name() == "GetPID" && c.isUserType(call.Common().Value.Type()) {
				ok = true
			}
		}
		r.Check(ok, rule, name, "PutSession(uid)=PutPID value", posf(c, s.Op.Call), "the session names the account that was created", "the identifier written to the session is not the value the created account received through PutPID: the browser is logged in under a spelling that can name another, existing account")
	}
}

// logoutHooksInfallible (C10): Logout hands an error of its events back
// before the redirect is written, and queued deletions reach the client only
// with a written response. A handler the library registers on EventLogout
// that can fail (storage work) therefore leaves the browser logged in when
// it does.
func (c *Ctx) logoutHooksInfallible(rule string) {
	r := c.R
	ev := c.Event("EventLogout")
	for _, before := range []bool{true, false} {
		for _, w := range c.Handlers(before, ev) {
			if strings.HasSuffix(pkgOf(w.In), "/mocks") || w.Handler == nil {
				continue
			}
			phase := map[bool]string{true: "Before", false: "After"}[before]
			h := w.Handler
			bad, at := false, "-"
			for _, b := range h.Blocks {
				if len(b.Instrs) == 0 {
					continue
				}
				ret, ok := b.Instrs[len(b.Instrs)-1].(*ssa.Return)
				if !ok || len(ret.Results) == 0 {
					continue
				}
				if !IsNilConst(ret.Results[len(ret.Results)-1]) {
					bad, at = true, posf(c, ret)
				}
			}
			r.Check(!bad, rule, FuncName(h), phase+"(EventLogout) handler cannot fail", at, "returns no error", "a handler the library registers on "+phase+"(EventLogout) can return an error: Logout hands it back before the response is written, the queued deletions are never delivered and the browser stays logged in")
		}
	}
}

// expiryWriters (C05): the recovery deadline is set when a token is issued
// (StartPost, decided by C05.supersede) and is otherwise only ever moved to
// "now" (the token was used). Any other writer — a later deadline written
// without a fresh token — keeps a link alive beyond RecoverTokenDuration.
func (c *Ctx) expiryWriters(rule string) {
	r := c.R
	n := 0
	for _, fn := range c.P.Funcs {
		if strings.HasSuffix(pkgOf(fn), "/mocks") || fn.Blocks == nil {
			continue
		}
		name := FuncName(fn)
		if name == "(*ab/recover.Recover).StartPost" {
			continue
		}
		for _, call := range c.userCalls(fn, "PutRecoverExpiry") {
			n++
			v := Arg(call, 0)
			isNow := HasOrigin(c.rawOrigins(v), func(o Origin) bool { return o.Kind == "call" && strings.HasPrefix(o.Name, "time.Now#") })
			moved := false
			for x, i := v, 0; i < 8; i++ {
				tc, _ := CallOf(x)
				if tc == nil {
					break
				}
				cal := Callee(tc)
				if cal == "(time.Time).Add" || cal == "(time.Time).AddDate" {
					moved = true
				}
				if !strings.HasPrefix(cal, "(time.Time).") {
					break
				}
				x = Arg(tc, 0)
			}
			r.Check(isNow && !moved, rule, name, "PutRecoverExpiry(now)", posf(c, call), "outside the issuing request the deadline is only moved to the present (token spent)", "the recovery deadline is written outside the issuing request with a value other than the present moment ("+SafeString(v)+"): the mailed link can stay valid beyond issue time + RecoverTokenDuration")
		}
	}
	r.Extra["recover_expiry_writers_outside_issue"] = n
	if n == 0 {
		r.Unknown(rule, "-", "PutRecoverExpiry", "-", "no writer of the recovery deadline found outside StartPost (reference: EndPost retires the used token)")
	}
}

// stampSurvives (C09): the idle clock of a new session is started by
// expire's After handlers on the login events. A handler that deletes the
// whole session (or the stamp) after it fired that event takes the stamp out
// again: the session it then issues has no deadline.
func (c *Ctx) stampSurvives(rule string) {
	r := c.R
	last := c.P.ConstString("", "SessionLastAction")
	evs := map[int64]string{c.Event("EventAuth"): "EventAuth", c.Event("EventOAuth2"): "EventOAuth2", c.Event("EventRegister"): "EventRegister"}
	n := 0
	for _, fn := range c.P.Funcs {
		if strings.HasSuffix(pkgOf(fn), "/mocks") || fn.Blocks == nil {
			continue
		}
		for _, f := range Fires(fn) {
			en, ok := evs[f.Event]
			if f.Before || !ok {
				continue
			}
			n++
			bad, at := "", posf(c, f.Call)
			for _, op := range c.StateOps(fn) {
				if op.Store != "session" {
					continue
				}
				if op.Op == "delall" || (op.Op == "del" && op.Const && op.Key == last) {
					if Reaches(f.Call.(ssa.Instruction), op.Call.(ssa.Instruction)) {
						bad, at = op.String(), posf(c, op.Call)
					}
				}
			}
			r.Check(bad == "", rule, FuncName(fn), "FireAfter("+en+") stamp kept", at, "nothing after the event deletes the stamp its handlers wrote", "after FireAfter("+en+") the handler queues "+bad+": the last_action stamp expire's handler has just written is deleted again and the session issued has no idle deadline")
		}
	}
	if n == 0 {
		r.Unknown(rule, "-", "FireAfter(login events)", "-", "no fire of EventAuth/EventOAuth2/EventRegister found")
	}
}

// middlewareFailClosed (C18): the blocking middlewares (lock, confirm) hand
// the request on only when nothing they asked for failed: an error result
// obtained on the way to next.ServeHTTP is known to be nil there.
func (c *Ctx) middlewareFailClosed(rule string) {
	r := c.R
	n := 0
	for _, fn := range c.P.Funcs {
		p := pkgOf(fn)
		if (p != "ab/lock" && p != "ab/confirm") || fn.Blocks == nil {
			continue
		}
		var serves []ssa.CallInstruction
		for _, call := range Calls(fn) {
			cc := call.Common()
			if cc.IsInvoke() && cc.Method.Name() == "ServeHTTP" {
				serves = append(serves, call)
			}
		}
		if len(serves) == 0 {
			continue
		}
		n++
		name := FuncName(fn)
		bad, at := "", "-"
		for _, call := range Calls(fn) {
			e := ErrResult(call)
			if e == nil {
				continue
			}
			for _, s := range serves {
				if s == call || !Reaches(call.(ssa.Instruction), s.(ssa.Instruction)) {
					continue
				}
				if !ErrNilAt(s.(ssa.Instruction), e) {
					bad, at = Callee(call), posf(c, s)
				}
			}
		}
		r.Check(bad == "", rule, name, "next.ServeHTTP only without error", at, "no error obtained on the way is pending when the request is handed on", "the request is handed to the wrapped handler although "+bad+" may have failed: a storage failure opens the gate the middleware is there to keep shut")
	}
	r.Extra["blocking_middlewares"] = n
	if n < 2 {
		// the bodies may live in a shared package (C03.middleware locates and
		// decides them there); this add-on rule then has nothing of its own to say
		r.Info(rule, "-", "lock/confirm middleware", "-", sprintf("%d middleware bodies in the lock and confirm packages themselves (reference: 2)", n))
	}
}

// cookieReaderTotal (C07): the issuer puts no bound on the identifier inside
// a remember cookie, so the reader must accept every length the transport
// can carry. A refusal by length below what a browser stores for one cookie
// (4096 bytes, RFC 6265 §6.1) makes accounts with long identifiers (OAuth2
// PIDs) unable to use the cookie they were given.
func (c *Ctx) cookieReaderTotal(rule string) {
	r := c.R
	fn := c.P.FuncOpt("ab/remember.Authenticate")
	if fn == nil {
		return
	}
	name := FuncName(fn)
	bad, at := "", "-"
	for _, b := range fn.Blocks {
		for _, in := range b.Instrs {
			bo, ok := in.(*ssa.BinOp)
			if !ok {
				continue
			}
			switch bo.Op {
			case token.LSS, token.LEQ, token.GTR, token.GEQ, token.EQL, token.NEQ:
			default:
				continue
			}
			for _, pr := range [][2]ssa.Value{{bo.X, bo.Y}, {bo.Y, bo.X}} {
				x := StrLenValue(pr[0])
				k, isK := pr[1].(*ssa.Const)
				if x == nil || !isK || k.Value == nil || k.Value.Kind() != constant.Int {
					continue
				}
				kv, _ := constant.Int64Val(k.Value)
				if kv <= 0 || kv >= 4096 {
					continue
				}
				fromCookie := HasOrigin(c.rawOrigins(x), func(o Origin) bool { return o.Kind == "call" && strings.Contains(o.Name, "GetCookie#") })
				if fromCookie && isStringType(x.Type()) {
					bad, at = sprintf("len(cookie) %s %d", bo.Op, kv), posf(c, in)
				}
			}
		}
	}
	r.Check(bad == "", rule, name, "no length refusal below 4096", at, "the reader puts no bound on the cookie the issuer does not put on the identifier", "the cookie is judged by its length ("+bad+") although issuance puts no bound on the identifier: an account with a long identifier is given a cookie that never logs it in")
}

func isStringType(t interface{ String() string }) bool { return t.String() == "string" }

func stripConv18(v ssa.Value) ssa.Value {
	for i := 0; i < 4; i++ {
		switch x := v.(type) {
		case *ssa.ChangeType:
			v = x.X
		case *ssa.Convert:
			v = x.X
		default:
			return v
		}
	}
	return v
}

// totpNormalised (C12): the replay guard is about the code that is validated.
// totp.Validate (pquerna/otp: hotp.ValidateCustom) trims surrounding white
// space from the passcode before comparing; where the library does that, the
// value compared with and recorded as the last code must have been trimmed
// the same way, or a used code is accepted again with a space appended.
func (c *Ctx) totpNormalised(rule string) {
	r := c.R
	trims, how := true, "assumed (body of hotp.ValidateCustom not loaded; v1.4.0 trims)"
	var lib *ssa.Function
	if c.P.SSA != nil {
		if lp := c.P.SSA.ImportedPackage("github.com/pquerna/otp/hotp"); lp != nil {
			lib = lp.Func("ValidateCustom")
		}
	}
	if lib != nil && lib.Blocks != nil && len(lib.Params) > 0 {
		trims, how = false, "hotp.ValidateCustom compares the passcode as given"
		for _, call := range Calls(lib) {
			if Callee(call) == "strings.TrimSpace" && Arg(call, 0) == ssa.Value(lib.Params[0]) {
				trims, how = true, "hotp.ValidateCustom applies strings.TrimSpace to the passcode ("+c.P.InstrPos(call)+")"
			}
		}
	}
	r.Extra["totp_validator_trims"] = how
	n := 0
	for _, fn := range c.P.Funcs {
		if pkgOf(fn) != "ab/otp/twofactor/totp2fa" || fn.Blocks == nil {
			continue
		}
		vals := CallsTo(fn, fnTOTPValidate, fnTOTPValidateCustom)
		puts := c.userCalls(fn, "PutTOTPLastCode")
		if len(vals) == 0 || len(puts) == 0 {
			continue
		}
		name := FuncName(fn)
		for _, tv := range vals {
			n++
			if !trims {
				r.Ok(rule, name, "replay subject = validated code", posf(c, tv), how)
				continue
			}
			trimmed := func(v ssa.Value) bool {
				if call, _ := CallOf(stripConv18(v)); call != nil && Callee(call) == "strings.TrimSpace" {
					return true
				}
				// through a local struct field, a cell or a helper's parameter
				isTrim := func(o Origin) bool { return o.Kind == "call" && strings.HasPrefix(o.Name, "strings.TrimSpace#") }
				os := c.rawOrigins(v)
				if !HasOrigin(os, isTrim) {
					return false
				}
				// and nothing untrimmed joins it: every submitted-code origin is behind the trim
				for _, o := range os {
					if o.Kind == "call" && strings.Contains(o.Name, ".GetCode#") {
						return false
					}
				}
				return true
			}
			ok := trimmed(Arg(tv, 0))
			for _, pc := range puts {
				if !trimmed(Arg(pc, 0)) {
					ok = false
				}
			}
			r.Check(ok, rule, name, "replay subject = validated code", posf(c, tv), "the code is trimmed once and that value is compared, recorded and validated", "the validator trims the passcode ("+how+") but the code recorded/compared for the replay guard is the raw input: a code that was just accepted is accepted again with white space added")
		}
	}
	if n == 0 {
		r.Unknown(rule, "-", "totp.Validate with replay guard", "-", "no function of totp2fa both validates a code and records it (reference: validate, PostConfirm)")
	}
}

// typeOnlyArgs: the elements of a printf-style call's variadic argument that
// the constant format prints with %T only (the dynamic type's name, never the
// value). Returns the set of element values to leave out of the taint check.
func typeOnlyArgs(call ssa.CallInstruction) (map[ssa.Value]bool, []ssa.Value) {
	out := map[ssa.Value]bool{}
	var elems []ssa.Value
	args := call.Common().Args
	if len(args) < 2 {
		return out, nil
	}
	// the format is the last constant string before the variadic slice
	var format string
	fi := -1
	for i, a := range args[:len(args)-1] {
		if k, ok := a.(*ssa.Const); ok && k.Value != nil && k.Value.Kind() == constant.String {
			format, fi = constant.StringVal(k.Value), i
		}
	}
	sl, ok := args[len(args)-1].(*ssa.Slice)
	if fi < 0 || !ok {
		return out, nil
	}
	alloc, ok := sl.X.(*ssa.Alloc)
	if !ok {
		return out, nil
	}
	// verbs in order
	var verbs []byte
	for i := 0; i < len(format); i++ {
		if format[i] != '%' {
			continue
		}
		i++
		for i < len(format) && strings.IndexByte("+-# 0123456789.", format[i]) >= 0 {
			i++
		}
		if i < len(format) && format[i] != '%' {
			if format[i] == '*' || format[i] == '[' {
				return map[ssa.Value]bool{}, nil // explicit indices / star widths: give up
			}
			verbs = append(verbs, format[i])
		}
	}
	for _, ref := range *alloc.Referrers() {
		ia, ok := ref.(*ssa.IndexAddr)
		if !ok {
			continue
		}
		k, ok := ia.Index.(*ssa.Const)
		if !ok || k.Value == nil {
			continue
		}
		idx, _ := constant.Int64Val(k.Value)
		for _, r2 := range *ia.Referrers() {
			if st, ok := r2.(*ssa.Store); ok && st.Addr == ssa.Value(ia) {
				elems = append(elems, st.Val)
				if int(idx) < len(verbs) && verbs[idx] == 'T' {
					out[st.Val] = true
				}
			}
		}
	}
	return out, elems
}

// lastCodeNotRecovery (C17): the replay guard stores the submitted TOTP code
// in clear by design (a spent 30-second value; C17's exception table). That
// exception is about a value that is only ever a TOTP code: once the same
// submitted value is also tried as a recovery code, a long-lived secret sits
// in the last-code column verbatim.
func (c *Ctx) lastCodeNotRecovery(rule string) {
	r := c.R
	n := 0
	for _, fn := range c.P.Funcs {
		if !strings.HasPrefix(pkgOf(fn), "ab/otp/twofactor") || fn.Blocks == nil {
			continue
		}
		puts := c.userCalls(fn, "PutTOTPLastCode")
		if len(puts) == 0 {
			continue
		}
		n++
		stored := map[ssa.Value]bool{}
		for _, pc := range puts {
			for _, o := range c.rawOrigins(Arg(pc, 0)) {
				if o.Kind == "call" {
					stored[o.V] = true
				}
			}
		}
		bad, at := "", "-"
		// the recovery comparison here or in a helper this function hands the value to
		var visit func(f *ssa.Function, args map[ssa.Value]bool, depth int)
		visit = func(f *ssa.Function, tainted map[ssa.Value]bool, depth int) {
			for _, call := range Calls(f) {
				cc := call.Common()
				if Callee(call) == fnUseRecoveryCode && len(cc.Args) >= 2 {
					for _, o := range c.rawOrigins(cc.Args[1]) {
						if (o.Kind == "call" && stored[o.V]) || tainted[o.V] {
							bad, at = "the value recorded with PutTOTPLastCode is also tried as a recovery code", posf(c, call)
						}
					}
					continue
				}
				g := StaticCallee(call)
				if g == nil || g.Blocks == nil || depth >= 2 || !strings.HasPrefix(pkgOf(g), "ab/otp/twofactor") {
					continue
				}
				sub := map[ssa.Value]bool{}
				for i, a := range cc.Args {
					hit := false
					for _, o := range c.rawOrigins(a) {
						if (o.Kind == "call" && stored[o.V]) || tainted[o.V] {
							hit = true
						}
					}
					if hit && i < len(g.Params) {
						sub[g.Params[i]] = true
					}
				}
				if len(sub) > 0 {
					visit(g, sub, depth+1)
				}
			}
		}
		visit(fn, map[ssa.Value]bool{}, 0)
		r.Check(bad == "", rule, FuncName(fn), "last code is never a recovery code", at, "the value stored in clear is used as a TOTP code only", bad+": a recovery code typed there is stored verbatim next to the bcrypt hashes of the others")
	}
	if n == 0 {
		r.Unknown(rule, "-", "PutTOTPLastCode", "-", "no writer of the TOTP last code found (reference: validate, PostConfirm)")
	}
}

// slotPairing (C20): a shared component that admits requests through a
// counting channel (a buffered `chan struct{}` field used as a semaphore)
// serves independent requests only while every slot taken is given back. On
// every path from a send into such a field to a return of the function there
// is a receive from the same field, or the receive is deferred. Today's tree
// has no such construct (reference: 0 sends on channel fields); the rule is
// armed for the day one is added.
func (c *Ctx) slotPairing(rule string) {
	r := c.R
	chanField := func(v ssa.Value) string {
		if u, ok := v.(*ssa.UnOp); ok && u.Op == token.MUL {
			if fa, ok := u.X.(*ssa.FieldAddr); ok {
				return FieldOf(fa)
			}
		}
		if f, ok := v.(*ssa.Field); ok {
			return FieldOf(f)
		}
		return ""
	}
	n := 0
	for _, fn := range c.P.Funcs {
		if strings.HasSuffix(pkgOf(fn), "/mocks") || fn.Blocks == nil {
			continue
		}
		for _, b := range fn.Blocks {
			for _, in := range b.Instrs {
				snd, ok := in.(*ssa.Send)
				if !ok {
					continue
				}
				fld := chanField(snd.Chan)
				if fld == "" {
					continue
				}
				n++
				isRecv := func(i ssa.Instruction) bool {
					if u, ok := i.(*ssa.UnOp); ok && u.Op == token.ARROW && chanField(u.X) == fld {
						return true
					}
					if d, ok := i.(*ssa.Defer); ok {
						if g := StaticCallee(d); g != nil && g.Blocks != nil {
							for _, gb := range g.Blocks {
								for _, gi := range gb.Instrs {
									if u, ok := gi.(*ssa.UnOp); ok && u.Op == token.ARROW {
										return true
									}
								}
							}
						}
					}
					return false
				}
				// a defer before the send covers every exit
				deferred := false
				for _, b2 := range fn.Blocks {
					for _, i2 := range b2.Instrs {
						if _, isD := i2.(*ssa.Defer); isD && isRecv(i2) && InstrDominates(i2, snd) {
							deferred = true
						}
					}
				}
				q := PathQuery{From: snd, Cut: isRecv, Goal: func(i ssa.Instruction) bool { _, ok := i.(*ssa.Return); return ok }}
				var p []ssa.Instruction
				if !deferred {
					p = q.Find()
				}
				if p != nil {
					r.Bad(rule, FuncName(fn), "slot of "+fld+" given back on every exit", posf(c, snd), "a slot taken from the instance-wide limiter "+fld+" is not released on a path to a return: after as many such exits as there are slots every client's request blocks", c.P.DescribePath(p)...)
				} else {
					r.Ok(rule, FuncName(fn), "slot of "+fld+" given back on every exit", posf(c, snd), "every exit releases the slot")
				}
			}
		}
	}
	r.Extra["channel_field_sends"] = n
	if n == 0 {
		r.Info(rule, "-", "sends on channel fields", "-", "no shared component takes slots from a channel field (reference: 0)")
	}
}

// rotatedBeforeAuthenticated (C07): the cookie login is complete — the
// caller's request is marked as authenticated — only after the replacement
// token was stored. Marking it earlier leaves, when minting or storing the
// new token fails, an authenticated request whose cookie was consumed but
// not rotated (the middleware only logs that error and serves the request).
func (c *Ctx) rotatedBeforeAuthenticated(rule string) {
	r := c.R
	fn := c.P.FuncOpt("ab/remember.Authenticate")
	if fn == nil || len(fn.Params) < 3 {
		return
	}
	name := FuncName(fn)
	adds := CallsTo(fn, fnAddRemember)
	if len(adds) == 0 {
		r.Unknown(rule, name, "AddRememberToken", "-", "no AddRememberToken call in Authenticate")
		return
	}
	n := 0
	for _, b := range fn.Blocks {
		for _, in := range b.Instrs {
			st, ok := in.(*ssa.Store)
			if !ok || st.Addr != ssa.Value(fn.Params[2]) {
				continue
			}
			n++
			ok2 := false
			for _, a := range adds {
				if e := ErrResult(a); e != nil && ErrNilAt(st, e) {
					ok2 = true
				}
			}
			r.Check(ok2, rule, name, "AddRememberToken==nil≺*req=authenticated", posf(c, st), "the request is marked authenticated only after the rotated token was stored", "the caller's request is replaced (marked as authenticated) on a path where the replacement token may not have been stored: a failure of minting or storing leaves an authenticated request and a consumed, unrotated cookie")
		}
	}
	if n == 0 {
		r.Unknown(rule, name, "*req = …", "-", "Authenticate never replaces the caller's request (reference: once, after the rotation)")
	}
}
