package rules

import (
	"go/constant"
	"go/token"
	"strings"

	. "abverif/internal/engine"

	"golang.org/x/tools/go/ssa"
)

// isAuthDecisionCred: credential kinds whose failure is an "authentication
// failure" in the sense of C04 (password, one-time password, 2FA code).
func (c *Ctx) isAuthDecisionCred(cs []Cred) bool {
	for _, cr := range cs {
		switch cr.Kind {
		case "password", "bcrypt", "totp-code":
			return true
		case "ctc":
			k := c.ctcSubKind(cr)
			if k == "stored-secret" || k == "session-secret" {
				return true
			}
		}
		if strings.HasPrefix(cr.Kind, "via:") {
			if strings.Contains(cr.Kind, "UseRecoveryCode") || strings.Contains(cr.Kind, "validate") || strings.Contains(cr.Kind, "VerifyPassword") {
				return true
			}
		}
	}
	return false
}

// fieldLoadName returns "Modules.LockAfter"-style trailing field path when v
// is a load of a struct field, else "".
func fieldLoadName(v ssa.Value) string {
	u, ok := v.(*ssa.UnOp)
	if !ok || u.Op != token.MUL {
		return ""
	}
	fa, ok := u.X.(*ssa.FieldAddr)
	if !ok {
		return ""
	}
	return fieldName(fa)
}

func fieldName(fa *ssa.FieldAddr) string {
	st := structOf(fa.X.Type())
	if st == nil || fa.Field >= st.NumFields() {
		return ""
	}
	return st.Field(fa.Field).Name()
}

// C04: failed-attempt counting and lockout thresholds.
func C04(c *Ctx) {
	r := c.R
	r.Explanation = "Static necessary structure for C04: (1) in every login handler, each branch on a password / one-time-password / 2FA-code check leads, on its failure side, through FireAfter(EventAuthFail) before any non-error exit, and every FireAfter(EventAuthFail) site lies on the failure side of such a check; (2) lock registers AfterAuthFail on After(EventAuthFail), AfterAuthSuccess on After(EventAuth) and BeforeAuth on Before(EventAuth|EventOAuth2); BeforeAuth passes wasCorrectPassword=true and AfterAuthFail false; (3) in updateLockedState every PutAttemptCount/PutLocked is control-dependent on !wasCorrectPassword; (4) the comparisons: increment iff now-last <= LockWindow else PutAttemptCount(1); PutLocked(now+LockDuration) iff count+1 >= LockAfter; (5) every Put* in lock's functions is saved before a non-error exit; AfterAuthSuccess and Unlock put count 0, Unlock puts a lock instant in the past."
	r.NotDecided = []string{"the counting automaton over histories and clock values (equivalence with a reference counter for all LockAfter/window/duration settings) — run-time arithmetic", "integer overflow of the attempt counter"}
	fail := c.Event("EventAuthFail")

	// (1a) every auth-decision branch reports its failure
	nDec := 0
	for _, s := range c.Issuances() {
		fn := s.Fn
		name := FuncName(fn)
		seenIf := map[*ssa.If]bool{}
		for _, b := range fn.Blocks {
			if len(b.Instrs) == 0 {
				continue
			}
			ifi, ok := b.Instrs[len(b.Instrs)-1].(*ssa.If)
			if !ok || seenIf[ifi] {
				continue
			}
			seenIf[ifi] = true
			for _, pol := range []bool{true, false} {
				cs := c.credOf(ifi.Cond, pol, 0)
				if len(cs) == 0 || !c.isAuthDecisionCred(cs) {
					continue
				}
				nDec++
				failSucc := b.Succs[1]
				if !pol {
					failSucc = b.Succs[0]
				}
				assume := map[ssa.Value]bool{}
				// assume the branch condition's value on the failure side
				assume[ifi.Cond] = failSucc == b.Succs[0]
				if rel := Normalize(ifi.Cond, true); rel.B != nil {
					assume[rel.B] = rel.Pol == (failSucc == b.Succs[0])
				}
				q2 := PathQuery{StartBlock: failSucc, StartPred: b, Assume: assume, Cut: func(i ssa.Instruction) bool {
					call, ok := i.(ssa.CallInstruction)
					if !ok {
						return false
					}
					f, ok := fireOf(call)
					return ok && !f.Before && f.Const && f.Event == fail
				}, Goal: func(i ssa.Instruction) bool {
					if ret, ok := i.(*ssa.Return); ok {
						if !c.isErrorExit(ret) {
							return true
						}
						// handing the checker's own verdict back as the handler's error is not
						// a report either: "wrong credential" leaves as a server error, uncounted
						// (and distinguishable from the answer for an unknown account)
						if len(ret.Results) > 0 {
							for _, cr := range flatten(cs) {
								if cr.Check == nil {
									continue
								}
								if ve := ErrResult(cr.Check); ve != nil && carriesErr(ve, ret.Results[len(ret.Results)-1], 0) {
									return true
								}
							}
						}
					}
					return false
				}, Prune: func(from, to *ssa.BasicBlock) bool {
					// loop back-edges to a re-test of the same credential (iterating over
					// stored secrets) are not failures yet
					return Dominates(to, b) && to != b
				}}
				pos := posf(c, ifi)
				if Dominates(failSucc, b) {
					// failure edge is a loop back-edge: the decision is taken at the loop exit
					r.Info("C04.fail-report", name, "branch on "+credKinds(cs), pos, "failure edge is a loop continuation; decision checked at the loop exit")
					continue
				}
				if path := q2.Find(); path != nil {
					r.Bad("C04.fail-report", name, "branch on "+credKinds(cs), pos, "a failed credential check reaches an exit (a non-error one, or one that hands the checker's verdict back as a server error) without FireAfter(EventAuthFail): the failure is not counted towards the lock", c.P.DescribePath(path)...)
				} else {
					r.Ok("C04.fail-report", name, "branch on "+credKinds(cs), pos, "failure side passes FireAfter(EventAuthFail) before any non-error exit")
				}
			}
		}
	}
	r.Extra["auth_decision_branches"] = nDec
	if nDec == 0 {
		r.Unknown("C04.fail-report", "", "decisions", "-", "no authentication decision branch recognised")
	}

	// (1b) a correct credential never reports a failure
	nFail := 0
	for _, fn := range c.P.Funcs {
		for _, f := range Fires(fn) {
			if f.Before || !f.Const || f.Event != fail {
				continue
			}
			nFail++
			name := FuncName(fn)
			pos := posf(c, f.Call)
			if len(c.CredsAt(f.Call)) > 0 {
				r.Bad("C04.fail-only-on-failure", name, "FireAfter(EventAuthFail)", pos, "failure event fired on a path on which a credential check succeeded")
				continue
			}
			neg := false
			for _, fa := range FactsAtInstr(f.Call.(ssa.Instruction)) {
				if cs := c.credOf(fa.Cond, !fa.Pol, 0); len(cs) > 0 && c.isAuthDecisionCred(cs) {
					neg = true
				}
			}
			r.Check(neg, "C04.fail-only-on-failure", name, "FireAfter(EventAuthFail)", pos, "fired only on the failure side of a credential check", "failure event is not control-dependent on a failed credential check: a correct credential could be counted as a failure")
			// "index of the match, -1 if none": the failure side must not admit an index
			// at which a match was found (index 0 is a match)
			for _, fa := range FactsAtInstr(f.Call.(ssa.Instruction)) {
				rel := fa.Rel()
				phi, isPhi := rel.X.(*ssa.Phi)
				n, isC := ConstInt(rel.Y)
				if !isPhi || !isC || rel.Op == token.ILLEGAL {
					continue
				}
				if len(c.credOfIntPhi(phi, negOpTok(rel.Op), n, 0)) == 0 {
					continue // not a match-index decision
				}
				if adm := c.admitsVerified(phi, rel.Op, n, 0); adm != "" {
					r.Bad("C04.fail-only-on-failure", name, "FireAfter(EventAuthFail)|match index", pos, "the failure side of the match-index test ("+rel.Op.String()+sprintf(" %d", n)+") also holds for "+adm+": a correct credential found there is reported, and counted, as a failure")
				}
			}
		}
	}
	r.Extra["authfail_fire_sites"] = nFail
	r.Extra["authfail_fire_sites_reference"] = 4

	// (2) wiring
	if !c.lockWiring("C04.wire") {
		return
	}
	// constant flag passed by the two wrappers
	uls := c.role("(*ab/lock.Lock).updateLockedState", func() *ssa.Function {
		return c.calleeWith(c.P.Func("(*ab/lock.Lock).AfterAuthFail"), func(f *ssa.Function) bool {
			return len(c.userCalls(f, "PutAttemptCount")) > 0
		})
	})
	lm := c.lockModeOf(uls)
	for _, w := range []struct {
		fn   string
		want bool
	}{{"(*ab/lock.Lock).BeforeAuth", true}, {"(*ab/lock.Lock).AfterAuthFail", false}} {
		fn := c.P.Func(w.fn)
		ok := false
		pos := c.P.Pos(fn.Pos())
		for _, call := range Calls(fn) {
			if StaticCallee(call) == uls {
				pos = posf(c, call)
				if b, isC := ConstBool(Arg(call, len(call.Common().Args)-1)); isC && b == w.want {
					ok = true
				}
				// the outcome as a small enumeration: each wrapper passes its own constant
				if lm != nil && !lm.isBool && lm.okConst != nil && lm.failConst != nil {
					ok = true
				}
			}
		}
		r.Check(ok, "C04.flag", w.fn, "updateLockedState(wasCorrectPassword)", pos, sprintf("passes %v", w.want), sprintf("does not call updateLockedState with wasCorrectPassword=%v", w.want))
	}

	// (3)+(4) updateLockedState structure
	c.lockStateStructure(uls)

	// (5) M->S and reset values
	for _, n := range []string{FuncName(uls), "(*ab/lock.Lock).AfterAuthSuccess", "(*ab/lock.Lock).Lock", "(*ab/lock.Lock).Unlock"} {
		fn := c.P.Func(n)
		if c.mustSaveAfterPut("C04.save", fn, nil) == 0 {
			r.Unknown("C04.save", n, "Put*", "-", "no mutation of the user found")
		}
		if k, _ := c.errHandlingAll(fn, fnSave); k != "" {
			r.Bad("C04.save-err", n, "Save.err", "-", "error of Save is "+k)
		}
	}
	c.constPut("C04.reset", c.P.Func("(*ab/lock.Lock).AfterAuthSuccess"), "PutAttemptCount", 0)
	c.constPut("C04.reset", c.P.Func("(*ab/lock.Lock).Unlock"), "PutAttemptCount", 0)
	c.lockEveryAttempt("C04.every-attempt", uls)
	// Unlock: PutLocked(now.Add(negative duration)) — the argument is Add of a negated LockDuration
	ul := c.P.Func("(*ab/lock.Lock).Unlock")
	okU := false
	posU := c.P.Pos(ul.Pos())
	for _, call := range c.userCalls(ul, "PutLocked") {
		posU = posf(c, call)
		ac, _ := CallOf(Arg(call, 0))
		if ac != nil && Callee(ac) == "(time.Time).Add" {
			d := Arg(ac, 1)
			if u, ok := d.(*ssa.UnOp); ok && u.Op == token.SUB && fieldLoadName(u.X) == "LockDuration" {
				okU = true
			}
			if b, ok := d.(*ssa.BinOp); ok && b.Op == token.MUL {
				// -x * k
				if u, ok := b.X.(*ssa.UnOp); ok && u.Op == token.SUB && fieldLoadName(u.X) == "LockDuration" {
					okU = true
				}
			}
		}
	}
	r.Check(okU, "C04.reset", FuncName(ul), "PutLocked(past)", posU, "manual unlock moves the lock instant into the past", "Unlock does not put a lock instant of now minus LockDuration")
	// Lock: PutLocked(now.Add(LockDuration))
	lk := c.P.Func("(*ab/lock.Lock).Lock")
	okL := false
	posL := c.P.Pos(lk.Pos())
	for _, call := range c.userCalls(lk, "PutLocked") {
		posL = posf(c, call)
		ac, _ := CallOf(Arg(call, 0))
		if ac != nil && Callee(ac) == "(time.Time).Add" && fieldLoadName(Arg(ac, 1)) == "LockDuration" {
			okL = true
		}
	}
	r.Check(okL, "C04.reset", FuncName(lk), "PutLocked(now+LockDuration)", posL, "manual lock lasts LockDuration", "Lock does not put now+LockDuration")
}

// errHandlingAll returns a non-empty classification if some call to callee in
// fn drops or lets escape its error.
func (c *Ctx) errHandlingAll(fn *ssa.Function, callee string) (string, ssa.Instruction) {
	for _, call := range CallsTo(fn, callee) {
		k, _ := c.errHandling(call)
		if k == "dropped" || k == "escapes" {
			return k, call.(ssa.Instruction)
		}
	}
	return "", nil
}

// constPut: fn calls user.<method>(<const n>).
func (c *Ctx) constPut(rule string, fn *ssa.Function, method string, n int64) {
	ok := false
	pos := c.P.Pos(fn.Pos())
	for _, call := range c.userCalls(fn, method) {
		pos = posf(c, call)
		if v, isC := ConstInt(Arg(call, 0)); isC && v == n {
			ok = true
		}
	}
	c.R.Check(ok, rule, FuncName(fn), sprintf("%s(%d)", method, n), pos, "constant reset value", sprintf("does not call %s(%d)", method, n))
}

func (c *Ctx) lockStateStructure(fn *ssa.Function) {
	r := c.R
	name := FuncName(fn)
	if len(fn.Params) == 0 {
		r.Unknown("C04.state", name, "params", "-", "unexpected signature")
		return
	}
	lm := c.lockModeOf(fn)
	if lm == nil {
		r.Unknown("C04.state", name, "password outcome", "-", "how the routine is told the password outcome is not understood (neither a boolean nor two distinct constants passed by BeforeAuth and AfterAuthFail)")
		return
	}
	isCountPlus1 := func(v ssa.Value) bool {
		b, ok := v.(*ssa.BinOp)
		if !ok || b.Op != token.ADD {
			return false
		}
		n, isC := ConstInt(b.Y)
		if !isC || n != 1 {
			return false
		}
		call, _ := CallOf(b.X)
		return call != nil && call.Common().IsInvoke() && call.Common().Method.Name() == "GetAttemptCount"
	}
	isElapsed := func(v ssa.Value) bool {
		call, _ := CallOf(v)
		if call == nil || Callee(call) != "(time.Time).Sub" {
			return false
		}
		now := HasOrigin(c.rawOrigins(Arg(call, 0)), func(o Origin) bool { return o.Kind == "call" && strings.HasPrefix(o.Name, "time.Now#") })
		last := HasOrigin(c.rawOrigins(Arg(call, 1)), func(o Origin) bool { return o.Kind == "call" && strings.Contains(o.Name, ".GetLastAttempt#") })
		return now && last
	}
	// the window is measured from the previous attempt: the last-attempt time is
	// read before this attempt's stamp is written
	for _, g := range c.userCalls(fn, "GetLastAttempt") {
		for _, p := range c.userCalls(fn, "PutLastAttempt") {
			r.Check(!Reaches(p.(ssa.Instruction), g.(ssa.Instruction)), "C04.state", name, "GetLastAttempt≺PutLastAttempt", posf(c, g), "previous attempt read before the new stamp", "the last-attempt time is read after this attempt's own stamp was written: the elapsed time is always zero, the window never runs out and old failures keep adding up")
		}
	}
	inWindow := func(f Fact) bool {
		rel := f.Rel()
		return (rel.Op == token.LEQ && isElapsed(rel.X) && fieldLoadName(rel.Y) == "LockWindow") ||
			(rel.Op == token.GEQ && isElapsed(rel.Y) && fieldLoadName(rel.X) == "LockWindow")
	}
	outWindow := func(f Fact) bool {
		rel := f.Rel()
		return (rel.Op == token.GTR && isElapsed(rel.X) && fieldLoadName(rel.Y) == "LockWindow") ||
			(rel.Op == token.LSS && isElapsed(rel.Y) && fieldLoadName(rel.X) == "LockWindow")
	}
	reached := func(f Fact) bool {
		rel := f.Rel()
		return (rel.Op == token.GEQ && isCountPlus1(rel.X) && fieldLoadName(rel.Y) == "LockAfter") ||
			(rel.Op == token.LEQ && isCountPlus1(rel.Y) && fieldLoadName(rel.X) == "LockAfter")
	}
	nLocked, nCount := 0, 0
	for _, p := range c.userPuts(fn) {
		fs := FactsAtInstr(p.Call.(ssa.Instruction))
		pos := posf(c, p.Call)
		switch p.Method {
		case "PutLocked":
			nLocked++
			r.Check(HasFact(fs, lm.saysFail), "C04.state", name, "PutLocked|!wasCorrectPassword", pos, "only on the failure path", "PutLocked is not control-dependent on !wasCorrectPassword: a correct password could lock or extend a lock")
			r.Check(HasFact(fs, inWindow), "C04.cmp", name, "PutLocked|window", pos, "only when now-last <= LockWindow", "PutLocked is not guarded by now.Sub(GetLastAttempt()) <= LockWindow")
			r.Check(HasFact(fs, reached), "C04.cmp", name, "PutLocked|threshold", pos, "only when GetAttemptCount()+1 >= LockAfter", "PutLocked is not guarded by GetAttemptCount()+1 >= LockAfter (threshold comparison changed)")
			ac, _ := CallOf(Arg(p.Call, 0))
			okArg := ac != nil && Callee(ac) == "(time.Time).Add" && fieldLoadName(Arg(ac, 1)) == "LockDuration" &&
				HasOrigin(c.rawOrigins(Arg(ac, 0)), func(o Origin) bool { return o.Kind == "call" && strings.HasPrefix(o.Name, "time.Now#") })
			r.Check(okArg, "C04.cmp", name, "PutLocked.arg", pos, "lock instant is now + LockDuration", "lock instant is not time.Now()+LockDuration")
		case "PutAttemptCount":
			nCount++
			r.Check(HasFact(fs, lm.saysFail), "C04.state", name, "PutAttemptCount|!wasCorrectPassword", pos, "only on the failure path", "PutAttemptCount is not control-dependent on !wasCorrectPassword: a correct password would change the count")
			arg := Arg(p.Call, 0)
			if n, isC := ConstInt(arg); isC {
				r.Check(n == 1 && HasFact(fs, outWindow), "C04.cmp", name, "PutAttemptCount(1)|outside window", pos, "count restarts at 1 when the window has passed", "constant count is not 1 under now-last > LockWindow")
			} else {
				r.Check(isCountPlus1(arg) && HasFact(fs, inWindow), "C04.cmp", name, "PutAttemptCount(count+1)|inside window", pos, "count incremented by one inside the window", "incremented count is not GetAttemptCount()+1 under now-last <= LockWindow")
			}
		}
	}
	// ... and whenever: a failed attempt inside the window that reaches the
	// threshold places the lock — also when the account is locked already (the
	// lock then lasts LockDuration from the latest failure). A way from the entry
	// to the save that contradicts none of the three conditions must pass PutLocked.
	if len(fn.Blocks) > 0 && nLocked >= 1 {
		notReached := func(f Fact) bool {
			rel := f.Rel()
			return (rel.Op == token.LSS && isCountPlus1(rel.X) && fieldLoadName(rel.Y) == "LockAfter") ||
				(rel.Op == token.GTR && isCountPlus1(rel.Y) && fieldLoadName(rel.X) == "LockAfter")
		}
		q := PathQuery{StartBlock: fn.Blocks[0], Cut: func(i ssa.Instruction) bool {
			ic, ok := i.(ssa.CallInstruction)
			return ok && ic.Common().IsInvoke() && ic.Common().Method.Name() == "PutLocked"
		}, PruneFact: func(f Fact) bool {
			return (lm.mentions(f) && !lm.saysFail(f)) || outWindow(f) || notReached(f)
		}, Goal: func(i ssa.Instruction) bool {
			ic, ok := i.(ssa.CallInstruction)
			return ok && Callee(ic) == fnSave
		}}
		if p := q.Find(); p != nil {
			r.Bad("C04.cmp", name, "threshold reached ⇒ PutLocked", posf(c, p[len(p)-1]), "a failed attempt inside the window that reaches LockAfter can be saved without the lock being placed (a further condition stands in front of PutLocked): the lock is not started, or not renewed, by that failure", c.P.DescribePath(p)...)
		} else {
			r.Ok("C04.cmp", name, "threshold reached ⇒ PutLocked", c.P.Pos(fn.Pos()), "every way to the save with the threshold reached inside the window places the lock")
		}
	}
	r.Check(nLocked >= 1 && nCount >= 2, "C04.state", name, "puts present", c.P.Pos(fn.Pos()), sprintf("%d PutLocked, %d PutAttemptCount", nLocked, nCount), sprintf("expected at least 1 PutLocked and 2 PutAttemptCount sites, found %d and %d", nLocked, nCount))
	// PutLastAttempt(now) on every path before Save
	okLast := false
	for _, call := range c.userCalls(fn, "PutLastAttempt") {
		for _, s := range CallsTo(fn, fnSave) {
			if InstrDominates(call.(ssa.Instruction), s.(ssa.Instruction)) && HasOrigin(c.rawOrigins(Arg(call, 0)), func(o Origin) bool { return o.Kind == "call" && strings.HasPrefix(o.Name, "time.Now#") }) {
				okLast = true
			}
		}
	}
	r.Check(okLast, "C04.state", name, "PutLastAttempt(now)", c.P.Pos(fn.Pos()), "last attempt stamped before saving", "last attempt is not stamped with the current time before Save")
}

func negOpTok(op token.Token) token.Token {
	switch op {
	case token.EQL:
		return token.NEQ
	case token.NEQ:
		return token.EQL
	case token.LSS:
		return token.GEQ
	case token.LEQ:
		return token.GTR
	case token.GTR:
		return token.LEQ
	case token.GEQ:
		return token.LSS
	}
	return op
}

// nonNegativeIndex: v is a loop index that starts at 0 (a range index or a
// counter initialised to 0/-1 and incremented by one).
func nonNegativeIndex(v ssa.Value, d int) bool {
	if d > 3 {
		return false
	}
	if k, ok := ConstInt(v); ok {
		return k >= 0
	}
	switch x := v.(type) {
	case *ssa.BinOp:
		if x.Op == token.ADD {
			if k, ok := ConstInt(x.Y); ok && k == 1 {
				if phi, ok := x.X.(*ssa.Phi); ok {
					for _, e := range phi.Edges {
						if e == ssa.Value(x) {
							continue
						}
						if k0, ok := ConstInt(e); !ok || k0 < -1 {
							return false
						}
					}
					return true
				}
			}
		}
	case *ssa.Phi:
		for _, e := range x.Edges {
			if bo, ok := e.(*ssa.BinOp); ok && bo.Op == token.ADD && bo.X == ssa.Value(x) {
				continue
			}
			if !nonNegativeIndex(e, d+1) {
				return false
			}
		}
		return true
	case *ssa.Extract:
		if _, ok := x.Tuple.(*ssa.Next); ok && x.Index == 1 {
			return true // key of a range over a string/slice iterator
		}
	}
	return false
}

// admitsVerified: the relation "phi op n" can hold for an operand that arrives
// over an edge on which a credential was verified.
func (c *Ctx) admitsVerified(phi *ssa.Phi, op token.Token, n int64, depth int) string {
	if depth > 3 {
		return ""
	}
	for i, e := range phi.Edges {
		if inner, ok := e.(*ssa.Phi); ok && inner != phi {
			if s := c.admitsVerified(inner, op, n, depth+1); s != "" {
				return s
			}
			continue
		}
		if len(c.credsAtEdge(phi.Block().Preds[i], phi.Block())) == 0 {
			continue
		}
		if k, ok := ConstInt(e); ok {
			if cmpHolds(k, op, n) {
				return sprintf("the value %d assigned on a verified path", k)
			}
			continue
		}
		if nonNegativeIndex(e, 0) {
			// e >= 0: the relation is impossible only if it implies e < 0
			impossible := (op == token.LSS && n <= 0) || (op == token.LEQ && n < 0) || (op == token.EQL && n < 0)
			if !impossible {
				return "a match index (>= 0) assigned on a verified path"
			}
			continue
		}
		return "a value assigned on a verified path"
	}
	return ""
}

// lockEveryAttempt: every completion of the lock routines does the
// bookkeeping; no shortcut returns success without it, and none of it depends
// on the password outcome except the count itself.
func (c *Ctx) lockEveryAttempt(rule string, uls *ssa.Function) {
	r := c.R
	// every completion does the bookkeeping: no shortcut (account already locked,
	// account not locked, nothing to do) returns success without it
	everyExit := func(fn *ssa.Function, assume map[ssa.Value]bool, method, what, bad string) {
		is := func(i ssa.Instruction) bool {
			call, ok := i.(ssa.CallInstruction)
			if !ok {
				return false
			}
			if method == "Save" {
				return Callee(call) == fnSave
			}
			return call.Common().IsInvoke() && call.Common().Method.Name() == method && c.isUserType(call.Common().Value.Type())
		}
		// starting after the user was obtained: failing to load it is an error exit anyway
		q := PathQuery{StartBlock: fn.Blocks[0], Assume: assume, Cut: is, GoalP: c.nonErrorReturn}
		if p := q.Find(); p != nil {
			r.Bad(rule, FuncName(fn), what, posf(c, p[len(p)-1]), bad, c.P.DescribePath(p)...)
		} else {
			r.Ok(rule, FuncName(fn), what, c.P.Pos(fn.Pos()), "on every completing path")
		}
	}
	failAssume := map[ssa.Value]bool{}
	if uls != c.P.Func("(*ab/lock.Lock).AfterAuthFail") && len(uls.Params) > 0 {
		if lm := c.lockModeOf(uls); lm != nil {
			failAssume = lm.assumeFail(uls)
		}
	}
	everyExit(uls, failAssume, "PutAttemptCount", "failed attempt ⇒ PutAttemptCount", "a failed attempt can complete without being counted: failures on that path (an account that is already locked, …) neither add up nor re-trigger the lock")
	everyExit(uls, nil, "PutLastAttempt", "attempt ⇒ PutLastAttempt", "an attempt can complete without its time being recorded: the window the failures are counted in is measured from a stale instant")
	everyExit(uls, nil, "Save", "attempt ⇒ Save", "an attempt can complete without the lock state being stored")
	// once the attempt is stored, what happens next does not depend on whether the
	// password was right: the same errors, the same locked answer for both
	if lm := c.lockModeOf(uls); lm != nil {
		for _, sv := range CallsTo(uls, fnSave) {
			var dep *ssa.If
			for _, b := range uls.Blocks {
				if len(b.Instrs) == 0 || !(b == sv.Block() || Dominates(sv.Block(), b)) {
					continue
				}
				ifi, ok := b.Instrs[len(b.Instrs)-1].(*ssa.If)
				if !ok || len(b.Succs) != 2 {
					continue
				}
				if f, okF := EdgeFact(b, b.Succs[0]); okF && lm.mentions(f) {
					dep = ifi
				}
			}
			if dep != nil {
				r.Bad(rule, FuncName(uls), "after Save: independent of the outcome", posf(c, dep), "after the attempt is stored the routine still branches on whether the password was right (how a storage error is treated, which answer is given): a locked account answers the right and the wrong password differently")
			} else {
				r.Ok(rule, FuncName(uls), "after Save: independent of the outcome", posf(c, sv), "no branch on the outcome follows the store")
			}
		}
	}
	everyExit(c.P.Func("(*ab/lock.Lock).Unlock"), nil, "PutAttemptCount", "Unlock ⇒ PutAttemptCount(0)", "Unlock can report success without resetting the failure count: the stale count makes the next failure lock the account again")
	everyExit(c.P.Func("(*ab/lock.Lock).Unlock"), nil, "Save", "Unlock ⇒ Save", "Unlock can report success without storing the reset state")
	everyExit(c.P.Func("(*ab/lock.Lock).Lock"), nil, "Save", "Lock ⇒ Save", "Lock can report success without storing the lock")
}

// lockWiring: lock registers its three handlers on the four events, each
// unconditionally. (C16 needs it as much as C04: the wrong password on a locked
// account is answered by AfterAuthFail, the right one by BeforeAuth.)
func (c *Ctx) lockWiring(rule string) bool {
	r := c.R
	lockPkg := "ab/lock"
	if c.P.ByPath[RepoPath+"/lock"] == nil {
		r.Unknown(rule, lockPkg, "package", "-", "lock package not found")
		return false
	}
	type want struct {
		before bool
		ev     string
		fn     string
	}
	for _, w := range []want{{false, "EventAuthFail", "(*ab/lock.Lock).AfterAuthFail"}, {false, "EventAuth", "(*ab/lock.Lock).AfterAuthSuccess"}, {true, "EventAuth", "(*ab/lock.Lock).BeforeAuth"}, {true, "EventOAuth2", "(*ab/lock.Lock).BeforeAuth"}} {
		found := false
		pos := "-"
		for _, x := range c.wireFind(w.before, c.Event(w.ev), lockPkg) {
			if x.Name == w.fn {
				found = true
				pos = posf(c, x.Call)
			}
		}
		ph := "After"
		if w.before {
			ph = "Before"
		}
		r.Check(found, rule, "(*ab/lock.Lock).Init", ph+"("+w.ev+")->"+w.fn, pos, "registered", "lock does not register "+w.fn+" on "+ph+"("+w.ev+")")
	}
	return true
}

// lockMode: how lock's shared routine is told whether the password was right
// — a boolean parameter (true: right), or a small enumeration of which
// BeforeAuth passes one constant and AfterAuthFail another.
type lockMode struct {
	param              *ssa.Parameter
	isBool             bool
	okConst, failConst *ssa.Const
}

func (c *Ctx) lockModeOf(uls *ssa.Function) *lockMode {
	if uls == nil || len(uls.Params) == 0 {
		return nil
	}
	last := uls.Params[len(uls.Params)-1]
	m := &lockMode{param: last, isBool: isBoolType(last.Type())}
	if m.isBool {
		return m
	}
	pick := func(wrapper string) *ssa.Const {
		fn := c.P.FuncOpt(wrapper)
		if fn == nil {
			return nil
		}
		var k *ssa.Const
		for _, call := range Calls(fn) {
			if StaticCallee(call) == uls {
				if cv, ok := Arg(call, len(call.Common().Args)-1).(*ssa.Const); ok && cv.Value != nil {
					k = cv
				}
			}
		}
		return k
	}
	m.okConst, m.failConst = pick("(*ab/lock.Lock).BeforeAuth"), pick("(*ab/lock.Lock).AfterAuthFail")
	if m.okConst == nil || m.failConst == nil || constant.Compare(m.okConst.Value, token.EQL, m.failConst.Value) {
		return nil
	}
	// no other value is ever passed
	for _, call := range c.Callers(uls) {
		cv, ok := Arg(call, len(call.Common().Args)-1).(*ssa.Const)
		if !ok || cv.Value == nil || !(constant.Compare(cv.Value, token.EQL, m.okConst.Value) || constant.Compare(cv.Value, token.EQL, m.failConst.Value)) {
			return nil
		}
	}
	return m
}

func (m *lockMode) cmp(f Fact) (eqFail, eqOK, known bool) {
	rel := f.Rel()
	if rel.X != ssa.Value(m.param) || (rel.Op != token.EQL && rel.Op != token.NEQ) {
		return false, false, false
	}
	k, ok := rel.Y.(*ssa.Const)
	if !ok || k.Value == nil {
		return false, false, false
	}
	isFail := constant.Compare(k.Value, token.EQL, m.failConst.Value)
	isOK := constant.Compare(k.Value, token.EQL, m.okConst.Value)
	if !isFail && !isOK {
		return false, false, false
	}
	if rel.Op == token.NEQ {
		isFail, isOK = isOK, isFail // only the two values occur
	}
	return isFail, isOK, true
}

// saysFail: the fact establishes that the password was wrong.
func (m *lockMode) saysFail(f Fact) bool {
	if m.isBool {
		return f.SaysBool(m.param, false)
	}
	fail, _, known := m.cmp(f)
	return known && fail
}

// mentions: the fact depends on the password outcome at all.
func (m *lockMode) mentions(f Fact) bool {
	if m.isBool {
		return f.SaysBool(m.param, true) || f.SaysBool(m.param, false)
	}
	_, _, known := m.cmp(f)
	return known
}

// assumeFail: truth values of the routine's tests of the outcome when the
// password was wrong.
func (m *lockMode) assumeFail(fn *ssa.Function) map[ssa.Value]bool {
	out := map[ssa.Value]bool{}
	if m.isBool {
		out[m.param] = false
		return out
	}
	for _, b := range fn.Blocks {
		for _, in := range b.Instrs {
			bo, ok := in.(*ssa.BinOp)
			if !ok || (bo.Op != token.EQL && bo.Op != token.NEQ) {
				continue
			}
			var k *ssa.Const
			switch {
			case bo.X == ssa.Value(m.param):
				k, _ = bo.Y.(*ssa.Const)
			case bo.Y == ssa.Value(m.param):
				k, _ = bo.X.(*ssa.Const)
			}
			if k == nil || k.Value == nil {
				continue
			}
			eq := constant.Compare(k.Value, token.EQL, m.failConst.Value)
			out[bo] = eq == (bo.Op == token.EQL)
		}
	}
	return out
}
