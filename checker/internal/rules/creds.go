package rules

import (
	"fmt"
	"go/token"
	"strings"

	. "abverif/internal/engine"

	"golang.org/x/tools/go/ssa"
)

// Cred is one proven credential check: "at this point, call Check is known
// to have succeeded".
type Cred struct {
	Kind  string              // password, bcrypt, ctc, remember, register, oauth2, totp-code, via:<callee>:<kind>
	Check ssa.CallInstruction // the checking call in the function under analysis
	Inner []Cred              // for via: the creds inside the callee
}

func (c Cred) String() string {
	if c.Check == nil {
		return c.Kind
	}
	return fmt.Sprintf("%s[%s]", c.Kind, Callee(c.Check))
}

// error-returning checks: nil error = success
var errChecks = map[string]string{
	fnHashCompare:  "password",
	fnBcryptCmp:    "bcrypt",
	fnUseRemember:  "remember",
	fnCreate:       "register",
	fnExchangerVar: "oauth2",
	fnExchange:     "oauth2",
}

// bool-returning checks: true = success
var boolChecks = map[string]string{
	fnTOTPValidate: "totp-code", fnTOTPValidateCustom: "totp-code",
}

const maxCredDepth = 6

// credsOfFacts returns the credentials implied by a set of facts.
func (c *Ctx) credsOfFacts(fs []Fact) []Cred {
	var out []Cred
	for _, f := range fs {
		out = append(out, c.credOf(f.Cond, f.Pol, 0)...)
	}
	if len(out) == 0 {
		out = c.credsOfRows(fs)
	}
	return out
}

// credsOfRows: a phase helper that hands back `(done bool, err error)` leaves,
// once inlined, a join block with one phi per result; the caller goes on under
// `!done && err == nil`. Neither test proves anything alone (some failing
// return also says done == false, another says err == nil), together they
// select the rows — the ways of arriving at the join — that can produce both
// values. If every such row is itself reached only past a credential check,
// the check is proven where the caller goes on.
func (c *Ctx) credsOfRows(fs []Fact) []Cred {
	type test struct {
		phi    *ssa.Phi
		isBool bool
		pol    bool // bool: value tested for; error: true = tested nil
	}
	byBlock := map[*ssa.BasicBlock][]test{}
	for _, f := range fs {
		rel := Normalize(f.Cond, f.Pol)
		if rel.Op == token.ILLEGAL {
			if phi, ok := rel.B.(*ssa.Phi); ok {
				byBlock[phi.Block()] = append(byBlock[phi.Block()], test{phi, true, rel.Pol})
			}
			continue
		}
		if (rel.Op == token.EQL || rel.Op == token.NEQ) && IsNilConst(rel.Y) && IsErrorType(rel.X.Type()) {
			if phi, ok := rel.X.(*ssa.Phi); ok {
				byBlock[phi.Block()] = append(byBlock[phi.Block()], test{phi, false, rel.Op == token.EQL})
			}
		}
	}
	for J, tests := range byBlock {
		if len(tests) < 2 || len(J.Preds) < 2 {
			continue
		}
		var all []Cred
		proven, rows := true, 0
		for i, pred := range J.Preds {
			consistent := true
			for _, t := range tests {
				if i >= len(t.phi.Edges) {
					consistent = false
					break
				}
				e := t.phi.Edges[i]
				if t.isBool {
					if b, isC := ConstBool(e); isC && b != t.pol {
						consistent = false
					}
					continue
				}
				isNil := IsNilConst(e)
				if t.pol && !isNil {
					// tested nil: an operand known non-nil on this edge cannot be it
					if HasFact(FactsAtEdge(pred, J), func(f Fact) bool { return f.SaysNotNil(e) }) || HasFact(FactsAt(pred), func(f Fact) bool { return f.SaysNotNil(e) }) {
						consistent = false
					}
				}
				if !t.pol && isNil {
					consistent = false
				}
			}
			if !consistent {
				continue
			}
			rows++
			cs := c.credsAtEdge(pred, J)
			if len(cs) == 0 {
				proven = false
				break
			}
			all = append(all, cs...)
		}
		if proven && rows > 0 {
			return all
		}
	}
	return nil
}

// CredsAt returns the credentials proven whenever control is at instruction
// at. If none is proven inside the function and the function is only reached
// through static calls inside the repository, the obligation is lifted: every
// caller's call site must prove one (depth-limited).
func (c *Ctx) CredsAt(at ssa.Instruction) []Cred { return c.credsAtDepth(at, 0) }

func (c *Ctx) credsAtDepth(at ssa.Instruction, depth int) []Cred {
	cs := c.credsOfFacts(FactsAtInstr(at))
	if len(cs) > 0 {
		return cs
	}
	maxLift := 1
	if c.Tier == "thorough" {
		maxLift = 3
	}
	if depth >= maxLift {
		return nil
	}
	fn := at.Parent()
	callers := c.Callers(fn)
	if len(callers) == 0 || c.isEntry(fn) {
		return nil
	}
	var all []Cred
	for _, call := range callers {
		cc := c.credsAtDepth(call, depth+1)
		if len(cc) == 0 {
			return nil
		}
		all = append(all, cc...)
	}
	return all
}

// isEntry reports whether fn can be invoked from outside the repository's
// static call structure: exported functions/methods and functions whose
// address is taken (handlers, closures).
func (c *Ctx) isEntry(fn *ssa.Function) bool {
	if fn.Parent() != nil {
		return true // closure: invoked through a function value
	}
	if o := fn.Object(); o != nil && o.Exported() {
		return true
	}
	// address taken? (method value / function value used other than as callee)
	if refs := fn.Referrers(); refs != nil {
		for _, r := range *refs {
			if call, ok := r.(ssa.CallInstruction); ok && call.Common().Value == fn {
				continue
			}
			return true
		}
	}
	return false
}

// credsAtEdge returns the credentials proven when edge from->to is taken.
func (c *Ctx) credsAtEdge(from, to *ssa.BasicBlock) []Cred {
	// a flag accumulated in a loop refers to itself through its own back edge:
	// an edge already under evaluation proves nothing further
	key := [2]*ssa.BasicBlock{from, to}
	if c.edgeBusy[key] {
		return nil
	}
	if c.edgeBusy == nil {
		c.edgeBusy = map[[2]*ssa.BasicBlock]bool{}
	}
	c.edgeBusy[key] = true
	defer delete(c.edgeBusy, key)
	return c.credsOfFacts(FactsAtEdge(from, to))
}

// credOf returns the credentials implied by "cond has value pol".
func (c *Ctx) credOf(cond ssa.Value, pol bool, depth int) []Cred {
	if depth > maxCredDepth {
		return nil
	}
	r := Normalize(cond, pol)
	if r.Op == token.ILLEGAL {
		return c.credOfBool(r.B, r.Pol, depth)
	}
	// comparison X op Y
	// (1) int result of ConstantTimeCompare compared with a constant
	if call, idx := CallOf(r.X); call != nil && idx == 0 && Callee(call) == fnCTC {
		if n, ok := ConstInt(r.Y); ok {
			if (r.Op == token.EQL && n == 1) || (r.Op == token.NEQ && n == 0) || (r.Op == token.GTR && n == 0) || (r.Op == token.GEQ && n == 1) {
				return []Cred{{Kind: "ctc", Check: call}}
			}
		}
		return nil
	}
	// (2) error == nil
	if r.Op == token.EQL && IsNilConst(r.Y) && IsErrorType(r.X.Type()) {
		return c.credOfNilErr(r.X, depth)
	}
	// (3) integer phi against a constant (the "index of match, -1 if none" idiom)
	if phi, ok := r.X.(*ssa.Phi); ok {
		if n, ok := ConstInt(r.Y); ok {
			return c.credOfIntPhi(phi, r.Op, n, depth)
		}
	}
	// (3b) the index found by slices.IndexFunc(list, pred): a non-negative index
	// means pred returned true for an element
	if call, _ := CallOf(r.X); call != nil && strings.HasPrefix(Callee(call), "slices.IndexFunc") && len(call.Common().Args) == 2 {
		if n, ok := ConstInt(r.Y); ok && ((r.Op == token.GEQ && n == 0) || (r.Op == token.GTR && n == -1) || (r.Op == token.NEQ && n == -1)) {
			if f, _ := c.resolveFuncValue(Arg(call, 1)); f != nil && c.inRepo(f) {
				if inner := c.boolSummary(f, 0, depth); len(inner) > 0 {
					return []Cred{{Kind: "via:" + FuncName(f) + ":" + inner[0].Kind, Check: call, Inner: inner}}
				}
			}
		}
		return nil
	}
	// (4) success token: result of a repository function equals a token expression
	if r.Op == token.EQL {
		if cs := c.credOfToken(r.X, r.Y, depth); cs != nil {
			return cs
		}
		if cs := c.credOfToken(r.Y, r.X, depth); cs != nil {
			return cs
		}
	}
	return nil
}

func (c *Ctx) credOfNilErr(err ssa.Value, depth int) []Cred {
	switch e := err.(type) {
	case *ssa.Phi:
		// every non-nil-constant operand must itself be a nil-proving check... an
		// error phi being nil proves nothing about which operand was taken
		return nil
	default:
		_ = e
	}
	call, idx := CallOf(err)
	if call == nil {
		return nil
	}
	sig := call.Common().Signature()
	if idx != sig.Results().Len()-1 {
		return nil
	}
	name := Callee(call)
	if k, ok := errChecks[name]; ok {
		return []Cred{{Kind: k, Check: call}}
	}
	// repository wrapper that tail-calls a check (VerifyPassword)
	if f := StaticCallee(call); f != nil && c.inRepo(f) && sig.Results().Len() == 1 {
		var inner []Cred
		ok := true
		for _, b := range f.Blocks {
			for _, in := range b.Instrs {
				ret, isRet := in.(*ssa.Return)
				if !isRet {
					continue
				}
				ic, _ := CallOf(ret.Results[0])
				if ic == nil {
					ok = false
					continue
				}
				if k, is := errChecks[Callee(ic)]; is {
					inner = append(inner, Cred{Kind: k, Check: ic})
				} else {
					ok = false
				}
			}
		}
		if ok && len(inner) > 0 {
			return []Cred{{Kind: "via:" + name + ":" + inner[0].Kind, Check: call, Inner: inner}}
		}
	}
	return nil
}

func (c *Ctx) inRepo(f *ssa.Function) bool {
	return f != nil && f.Pkg != nil && c.P.ByPath[f.Pkg.Pkg.Path()] != nil && f.Blocks != nil
}

func (c *Ctx) credOfBool(b ssa.Value, pol bool, depth int) []Cred {
	switch v := b.(type) {
	case *ssa.Phi:
		// A boolean flag decides a credential only if it distinguishes outcomes:
		// some operand must be the opposite constant (the "not verified" assignment)
		// or be a credential check's own result. A phi all of whose operands merely
		// arrive downstream of a check is not the decision (the check's branch is).
		var all []Cred
		excluded, direct := false, false
		for i, e := range v.Edges {
			if cb, ok := ConstBool(e); ok {
				if cb != pol {
					// the flag separates outcomes only if this "other" assignment is
					// not itself made on a verified path
					if len(c.credsAtEdge(v.Block().Preds[i], v.Block())) == 0 {
						excluded = true
					}
					continue // this operand cannot produce the tested value
				}
				// a constant that produces the tested value: the edge itself must be verified
				cs := c.credsAtEdge(v.Block().Preds[i], v.Block())
				if len(cs) == 0 {
					return nil
				}
				all = append(all, cs...)
				continue
			}
			cs := c.credOf(e, pol, depth+1)
			if len(cs) > 0 {
				direct = true
			} else {
				cs = c.credsAtEdge(v.Block().Preds[i], v.Block())
			}
			if len(cs) == 0 {
				return nil
			}
			all = append(all, cs...)
		}
		if !excluded && !direct {
			return nil
		}
		return all
	case *ssa.BinOp:
		if v.Op == token.EQL || v.Op == token.NEQ || v.Op == token.LSS || v.Op == token.LEQ || v.Op == token.GTR || v.Op == token.GEQ {
			return c.credOf(v, pol, depth+1)
		}
		return nil
	case *ssa.UnOp:
		if v.Op == token.NOT {
			return c.credOf(v, pol, depth+1)
		}
		return nil
	}
	if !pol {
		return nil
	}
	call, idx := CallOf(b)
	if call == nil {
		return nil
	}
	name := Callee(call)
	if k, ok := boolChecks[name]; ok && idx == 0 {
		return []Cred{{Kind: k, Check: call}}
	}
	if f := StaticCallee(call); f != nil && c.inRepo(f) {
		inner := c.boolSummary(f, idx, depth)
		if len(inner) > 0 {
			return []Cred{{Kind: "via:" + name + ":" + inner[0].Kind, Check: call, Inner: inner}}
		}
	}
	return nil
}

// boolSummary: function f returns true in result idx only on verified paths.
func (c *Ctx) boolSummary(f *ssa.Function, idx int, depth int) []Cred {
	key := fmt.Sprintf("%s#%d", FuncName(f), idx)
	if done, ok := c.boolSumOK[key]; ok {
		if done {
			return c.boolSum[key]
		}
		return nil
	}
	c.boolSumOK[key] = false // recursion guard
	var all []Cred
	ok := true
	for _, b := range f.Blocks {
		for _, in := range b.Instrs {
			ret, isRet := in.(*ssa.Return)
			if !isRet || idx >= len(ret.Results) {
				continue
			}
			v := ret.Results[idx]
			if cb, isC := ConstBool(v); isC && !cb {
				continue
			}
			cs := c.credsOfFacts(FactsAtInstr(ret))
			if len(cs) == 0 {
				if _, isC := ConstBool(v); !isC {
					cs = c.credOf(v, true, depth+1)
				}
			}
			if len(cs) == 0 {
				ok = false
			}
			all = append(all, cs...)
		}
	}
	if ok && len(all) > 0 {
		c.boolSumOK[key] = true
		c.boolSum[key] = all
		return all
	}
	return nil
}

func cmpHolds(k int64, op token.Token, n int64) bool {
	switch op {
	case token.EQL:
		return k == n
	case token.NEQ:
		return k != n
	case token.LSS:
		return k < n
	case token.LEQ:
		return k <= n
	case token.GTR:
		return k > n
	case token.GEQ:
		return k >= n
	}
	return true
}

// credOfIntPhi: "phi op n" holds. Constant operands for which the relation
// is false are excluded; every other operand must arrive over a verified edge.
func (c *Ctx) credOfIntPhi(phi *ssa.Phi, op token.Token, n int64, depth int) []Cred {
	var all []Cred
	seen := false
	excluded := false
	for i, e := range phi.Edges {
		if k, ok := ConstInt(e); ok && !cmpHolds(k, op, n) {
			if len(c.credsAtEdge(phi.Block().Preds[i], phi.Block())) == 0 {
				excluded = true
			}
			continue
		}
		// nested phi of the same shape (loop-carried): recurse
		if inner, ok := e.(*ssa.Phi); ok && inner != phi {
			cs := c.credOfIntPhi(inner, op, n, depth+1)
			if len(cs) == 0 {
				cs = c.credsAtEdge(phi.Block().Preds[i], phi.Block())
			}
			if len(cs) == 0 {
				return nil
			}
			all = append(all, cs...)
			seen = true
			continue
		}
		cs := c.credsAtEdge(phi.Block().Preds[i], phi.Block())
		if len(cs) == 0 {
			return nil
		}
		all = append(all, cs...)
		seen = true
	}
	if !seen || !excluded {
		return nil
	}
	return all
}

// tokenKey recognises a "success token" expression: a call of Localizef whose
// key argument is a direct load of a package-level LocalizationKey. It
// returns the key's global.
func tokenKey(v ssa.Value) *ssa.Global {
	call, idx := CallOf(v)
	if call == nil || idx != 0 || Callee(call) != fnLocalizef {
		return nil
	}
	return loadOfGlobal(Arg(call, 2))
}

// credOfToken: res == tok where res is result idx of a repository function f
// and tok a token expression. Every return of f whose result idx may equal the
// token must be verified; returns yielding a different token or a constant are
// excluded (assumption: distinct localisation keys render to distinct,
// non-empty strings).
func (c *Ctx) credOfToken(res, tok ssa.Value, depth int) []Cred {
	want := tokenKey(tok)
	if want == nil {
		return nil
	}
	call, idx := CallOf(res)
	if call == nil {
		return nil
	}
	f := StaticCallee(call)
	if f == nil || !c.inRepo(f) {
		return nil
	}
	var all []Cred
	matched := false
	// one alternative = one value the result may take, with the facts under which it is taken
	type alt struct {
		v  ssa.Value
		fs func() []Cred
	}
	var alts []alt
	var expand func(v ssa.Value, creds func() []Cred, d int)
	expand = func(v ssa.Value, creds func() []Cred, d int) {
		if phi, ok := v.(*ssa.Phi); ok && d < 4 {
			for i, e := range phi.Edges {
				i := i
				expand(e, func() []Cred {
					cs := c.credsAtEdge(phi.Block().Preds[i], phi.Block())
					if len(cs) == 0 {
						cs = creds()
					}
					return cs
				}, d+1)
			}
			return
		}
		alts = append(alts, alt{v, creds})
	}
	for _, b := range f.Blocks {
		for _, in := range b.Instrs {
			ret, isRet := in.(*ssa.Return)
			if !isRet || idx >= len(ret.Results) {
				continue
			}
			ret2 := ret
			expand(ret.Results[idx], func() []Cred { return c.credsOfFacts(FactsAtInstr(ret2)) }, 0)
		}
	}
	for _, a := range alts {
		v := a.v
		if _, isC := v.(*ssa.Const); isC {
			continue
		}
		if g := tokenKey(v); g != nil {
			if g != want {
				continue
			}
			matched = true
			cs := a.fs()
			if len(cs) == 0 {
				return nil
			}
			all = append(all, cs...)
			continue
		}
		// Localizef(<phi of keys>): the success key may be selected only over verified edges
		if lc, li := CallOf(v); lc != nil && li == 0 && Callee(lc) == fnLocalizef {
			if phi, ok := Arg(lc, 2).(*ssa.Phi); ok {
				okPhi := true
				for i, e := range phi.Edges {
					g := loadOfGlobal(e)
					if g == nil {
						okPhi = false
						break
					}
					if g != want {
						continue
					}
					matched = true
					cs := c.credsAtEdge(phi.Block().Preds[i], phi.Block())
					if len(cs) == 0 {
						cs = a.fs()
					}
					if len(cs) == 0 {
						return nil
					}
					all = append(all, cs...)
				}
				if okPhi {
					continue
				}
			}
		}
		return nil // a result value the rule does not understand
	}
	if !matched {
		return nil
	}
	return []Cred{{Kind: "via:" + Callee(call) + ":" + all[0].Kind, Check: call, Inner: all}}
}

// flatten returns the primitive credentials (inner ones for via:).
func flatten(cs []Cred) []Cred {
	var out []Cred
	for _, c := range cs {
		if len(c.Inner) > 0 {
			out = append(out, flatten(c.Inner)...)
		} else {
			out = append(out, c)
		}
	}
	return out
}

func credKinds(cs []Cred) string {
	set := map[string]bool{}
	for _, c := range cs {
		set[c.String()] = true
	}
	return strings.Join(sortedKeys(set), ", ")
}

// hasKind reports whether any (flattened) credential is of one of the kinds.
func hasKind(cs []Cred, kinds ...string) bool {
	for _, c := range flatten(cs) {
		for _, k := range kinds {
			if c.Kind == k {
				return true
			}
		}
	}
	return false
}

// checkOperands returns the operand values of a check call (receiver of an
// invoke excluded).
func checkOperands(call ssa.CallInstruction) []ssa.Value {
	return call.Common().Args
}

// subjectIdentities: the user identities (user-source calls, user-typed
// parameters) from which the operands of the credential's check derive.
func (c *Ctx) subjectIdentities(cr Cred) []Origin {
	var out []Origin
	for _, a := range checkOperands(cr.Check) {
		out = append(out, c.identityOrigins(c.Origins(a))...)
	}
	return out
}
