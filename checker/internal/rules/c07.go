package rules

import (
	"fmt"
	"go/token"
	"go/types"
	"sort"
	"strings"

	. "abverif/internal/engine"

	"golang.org/x/tools/go/ssa"
)

// Linear is c0 + sum(coef_i * len(x_i)).
type Linear struct {
	K    int64
	Lens map[ssa.Value]int64
}

func (l Linear) String() string {
	var parts []string
	for v, k := range l.Lens {
		parts = append(parts, fmt.Sprintf("%d*len(%s)", k, v.Name()))
	}
	sort.Strings(parts)
	return fmt.Sprintf("%s%+d", strings.Join(parts, "+"), l.K)
}

// linearOf evaluates an integer SSA value as a linear form over lengths.
func linearOf(v ssa.Value, depth int) (Linear, bool) {
	if depth > 8 {
		return Linear{}, false
	}
	if n, ok := ConstInt(v); ok {
		return Linear{K: n, Lens: map[ssa.Value]int64{}}, true
	}
	if x := StrLenValue(v); x != nil {
		return Linear{Lens: map[ssa.Value]int64{stripConv(x): 1}}, true
	}
	switch b := v.(type) {
	case *ssa.BinOp:
		if b.Op != token.ADD && b.Op != token.SUB {
			return Linear{}, false
		}
		l, ok1 := linearOf(b.X, depth+1)
		r, ok2 := linearOf(b.Y, depth+1)
		if !ok1 || !ok2 {
			return Linear{}, false
		}
		sign := int64(1)
		if b.Op == token.SUB {
			sign = -1
		}
		out := Linear{K: l.K + sign*r.K, Lens: map[ssa.Value]int64{}}
		for k, c := range l.Lens {
			out.Lens[k] += c
		}
		for k, c := range r.Lens {
			out.Lens[k] += sign * c
		}
		for k, c := range out.Lens {
			if c == 0 {
				delete(out.Lens, k)
			}
		}
		return out, true
	case *ssa.Convert:
		return linearOf(b.X, depth+1)
	}
	return Linear{}, false
}

func stripConv(v ssa.Value) ssa.Value { return stripConvD(v, 0) }

func stripConvD(v ssa.Value, depth int) ssa.Value {
	for d := 0; d < 12; d++ {
		switch x := v.(type) {
		case *ssa.Convert:
			v = x.X
		case *ssa.ChangeType:
			v = x.X
		case *ssa.Phi:
			// what a `(buf, err)` helper leaves once inlined: nil on its error
			// returns, the buffer otherwise
			if depth > 3 {
				return v
			}
			var one ssa.Value
			for _, e := range x.Edges {
				if IsNilConst(e) || e == ssa.Value(x) {
					continue
				}
				s := stripConvD(e, depth+1)
				if one != nil && one != s {
					return v
				}
				one = s
			}
			if one == nil {
				return v
			}
			v = one
		default:
			return v
		}
	}
	return v
}

// C07: remember-me cookies: single use, one user, half-auth only.
func C07(c *Ctx) {
	r := c.R
	r.Explanation = "Static necessary conditions for C07: (1) RememberAfterAuth stores a token and issues the cookie only under GetShouldRemember()==true of a RememberValuer taken from the request's values; what it stores is the hash (result #0) and what it sends is the token (result #1) of one GenerateToken(pid) call; (2) Authenticate: UseRememberToken succeeded, then GenerateToken/AddRememberToken succeeded, dominate the writes of session[uid], session[halfauth]=\"true\" and the new cookie; uid is never written without halfauth; the PID used, re-tokenised and written is one value; the store receives the hash, the client the token; (3) every nil-error return after a cookie was found either issued the session or deleted the cookie; (4) the middleware authenticates only when no user is logged in; (5) codec: the reader's split offset equals the writer's separator offset as linear forms over len() (pid‖';'‖nonce[nNonceSize]) and the byte there is tested against the separator the writer stores; (6) remember listens on After(EventAuth) and After(EventOAuth2); (7) oauth2.Start resets the pass-along parameters (which carry the remember request) for every new flow."
	r.NotDecided = []string{"atomicity of UseRememberToken when one cookie races from two browsers (integrator's storer)", "unpredictability of the nonce (crypto/rand)"}
	if c.P.ByPath[RepoPath+"/remember"] == nil {
		r.Unknown("C07", "ab/remember", "package", "-", "remember package not found")
		return
	}
	rm := c.P.ConstString("", "CookieRemember")
	uid := c.P.ConstString("", "SessionKey")
	half := c.P.ConstString("", "SessionHalfAuthKey")
	genName := "ab/remember.GenerateToken"

	// (1) issue only on request
	raa := c.P.Func("(*ab/remember.Remember).RememberAfterAuth")
	rn := FuncName(raa)
	shouldRemember := func(at ssa.Instruction) bool {
		return HasFact(FactsAtInstr(at), func(f Fact) bool {
			rel := f.Rel()
			if rel.B == nil || !rel.Pol {
				return false
			}
			call, _ := CallOf(rel.B)
			if call == nil || !call.Common().IsInvoke() || call.Common().Method.Name() != "GetShouldRemember" {
				return false
			}
			// receiver comes from ctx.Value(CTXKeyValues)
			return HasOrigin(c.rawOrigins(call.Common().Value), func(o Origin) bool {
				if o.Kind != "call" || !strings.HasPrefix(o.Name, fnCtxValue+"#") {
					return false
				}
				k, isC := ConstStr(ctxKeyArg(o.V.(ssa.CallInstruction)))
				return isC && k == "values"
			})
		})
	}
	nEff := 0
	for _, call := range CallsTo(raa, fnAddRemember) {
		nEff++
		r.Check(shouldRemember(call.(ssa.Instruction)), "C07.on-request", rn, "AddRememberToken", posf(c, call), "only under GetShouldRemember()==true of the request's values", "a remember token is stored without the request having asked to be remembered")
		c.tokenHalves(rn, call, nil, genName)
		okPid, names := c.ctxUserOnly(Arg(call, 1))
		r.Check(okPid, "C07.one-user", rn, "AddRememberToken.pid", posf(c, call), "the token is stored for the user the login handler put into the request", "the PID the token is stored for is not (only) the user the login handler just authenticated (origins: "+names+"): at After(EventAuth) the session still names whoever used this browser before, and the cookie would re-authenticate that account")
		r.Check(pidVerbatim(Arg(call, 1), 0), "C07.one-user", rn, "AddRememberToken.pid verbatim", posf(c, call), "the user's PID as the user object reports it", "the PID the token is stored under is a transformed spelling of the user's PID (trimmed, case-folded, …): in a store that compares PIDs byte-wise it names a different account, and the revocation that asks for the real PID does not find the row")
		for _, g := range CallsTo(raa, genName) {
			r.Check(pidVerbatim(Arg(g, 0), 0), "C07.one-user", rn, "GenerateToken.pid verbatim", posf(c, g), "the user's PID as the user object reports it", "the PID encoded in the cookie is a transformed spelling of the user's PID: the session the cookie later opens names a different account")
			okG, namesG := c.ctxUserOnly(Arg(g, 0))
			r.Check(okG, "C07.one-user", rn, "GenerateToken.pid", posf(c, g), "the cookie names the user the login handler put into the request", "the PID encoded in the cookie is not (only) the just-authenticated user (origins: "+namesG+")")
		}
	}
	for _, op := range c.StateOps(raa) {
		if op.Op == "put" && op.Store == "cookie" {
			nEff++
			r.Check(shouldRemember(op.Call.(ssa.Instruction)), "C07.on-request", rn, "PutCookie("+op.Key+")", posf(c, op.Call), "only under GetShouldRemember()==true", "a remember cookie is issued without the request having asked to be remembered")
			c.tokenHalves(rn, nil, &op, genName)
		}
	}
	if nEff < 2 {
		r.Unknown("C07.on-request", rn, "effects", "-", "expected AddRememberToken and PutCookie in RememberAfterAuth")
	}

	// (2) Authenticate
	au := c.P.Func("ab/remember.Authenticate")
	an := FuncName(au)
	uses := CallsTo(au, fnUseRemember)
	adds := CallsTo(au, fnAddRemember)
	if len(uses) != 1 || len(adds) != 1 {
		r.Unknown("C07.order", an, "Use/Add", "-", sprintf("expected one UseRememberToken and one AddRememberToken, found %d/%d", len(uses), len(adds)))
	} else {
		use, add := uses[0], adds[0]
		ue, ae := ErrResult(use), ErrResult(add)
		r.Check(ue != nil && ErrNilAt(add.(ssa.Instruction), ue), "C07.order", an, "UseRememberToken<AddRememberToken", posf(c, add), "new token minted only after the old one was used successfully", "AddRememberToken is not dominated by UseRememberToken succeeding")
		c.tokenHalves(an, add, nil, genName)
		pid := Arg(use, 1)
		r.Check(Arg(add, 1) == pid || sameNames(c.Origins(Arg(add, 1)), c.Origins(pid)), "C07.one-user", an, "AddRememberToken.pid", posf(c, add), "same PID as the token that was used", "the new token is stored for a different PID than the one whose token was used")
		var uidPut, halfPut, cookiePut *StateOp
		ops := c.StateOps(au)
		for i := range ops {
			op := ops[i]
			switch {
			case op.Op == "put" && op.Store == "session" && op.Key == uid:
				uidPut = &ops[i]
			case op.Op == "put" && op.Store == "session" && op.Key == half:
				halfPut = &ops[i]
			case op.Op == "put" && op.Store == "cookie" && op.Key == rm:
				cookiePut = &ops[i]
			}
		}
		for _, x := range []struct {
			op   *StateOp
			what string
		}{{uidPut, "PutSession(uid)"}, {halfPut, "PutSession(halfauth)"}, {cookiePut, "PutCookie(rm)"}} {
			if x.op == nil {
				r.Bad("C07.order", an, x.what, "-", "Authenticate does not perform "+x.what)
				continue
			}
			at := x.op.Call.(ssa.Instruction)
			r.Check(ue != nil && ae != nil && ErrNilAt(at, ue) && ErrNilAt(at, ae), "C07.order", an, x.what, posf(c, x.op.Call), "after UseRememberToken and AddRememberToken both succeeded", x.what+" is not dominated by both UseRememberToken and AddRememberToken succeeding")
		}
		if halfPut != nil {
			v, isC := ConstStr(halfPut.Val)
			r.Check(isC && v == "true", "C07.half-auth", an, "PutSession(halfauth).value", posf(c, halfPut.Call), `marks the session "true"`, "half-auth mark is not the constant \"true\"")
		}
		if uidPut != nil && halfPut != nil {
			// every path through the uid write also writes halfauth
			q := PathQuery{From: uidPut.Call.(ssa.Instruction), Cut: c.isStateOp("put", "session", half), Goal: Or(IsReturn, IsPanic)}
			okPair := q.Find() == nil || InstrDominates(halfPut.Call.(ssa.Instruction), uidPut.Call.(ssa.Instruction))
			// and nothing deletes it afterwards
			for _, op := range ops {
				if op.Op == "del" && op.Store == "session" && op.Key == half && Reaches(halfPut.Call.(ssa.Instruction), op.Call.(ssa.Instruction)) {
					okPair = false
				}
			}
			r.Check(okPair, "C07.half-auth", an, "uid=>halfauth", posf(c, uidPut.Call), "a cookie login never yields a session without the half-auth mark", "session[uid] can be written from a remember cookie without session[halfauth]")
			r.Check(uidPut.Val == pid || sameNames(c.Origins(uidPut.Val), c.Origins(pid)), "C07.one-user", an, "PutSession(uid).value", posf(c, uidPut.Call), "identity written is the PID whose token was used", "identity written differs from the PID whose token was used")
		}
		if cookiePut != nil {
			c.tokenHalves(an, nil, cookiePut, genName)
			// the token generated is for the same pid
			if gc, _ := CallOf(cookiePut.Val); gc != nil && Callee(gc) == genName {
				r.Check(Arg(gc, 0) == pid || sameNames(c.Origins(Arg(gc, 0)), c.Origins(pid)), "C07.one-user", an, "GenerateToken.pid", posf(c, gc), "rotated cookie is for the same PID", "rotated cookie is generated for a different PID")
			}
		}
	}

	// (3) unusable cookies are deleted
	gets := CallsTo(au, fnGetCookie)
	for _, g := range gets {
		okv := ResultValue(g, 1)
		assume := map[ssa.Value]bool{}
		if okv != nil {
			assume[okv] = true
		}
		q := PathQuery{From: g.(ssa.Instruction), Assume: assume, Cut: Or(c.isStateOp("del", "cookie", rm), c.isStateOp("put", "session", uid)), GoalP: c.nonErrorReturn}
		if p := q.Find(); p != nil {
			r.Bad("C07.delete-unusable", an, "return nil", posf(c, p[len(p)-1]), "a cookie was presented, nobody was authenticated, no error is reported, and the cookie is not deleted from the client", c.P.DescribePath(p)...)
		} else {
			r.Ok("C07.delete-unusable", an, "return nil", posf(c, g), "every nil-error return after a cookie was found either issued the session or deleted the cookie")
		}
	}
	if len(gets) == 0 {
		r.Unknown("C07.delete-unusable", an, "GetCookie", "-", "Authenticate does not read the cookie")
	}

	// (4) middleware only when nobody is logged in: every request-time caller of Authenticate
	{
		n := 0
		for _, f := range c.P.Funcs {
			if pkgOf(f) != "ab/remember" {
				continue
			}
			for _, call := range Calls(f) {
				if StaticCallee(call) != au {
					continue
				}
				n++
				ok := HasFact(FactsAtInstr(call.(ssa.Instruction)), func(fa Fact) bool {
					rel := fa.Rel()
					x := StrLenValue(rel.X)
					if x == nil {
						x = rel.X
					}
					if !fa.SaysEmpty(x) {
						return false
					}
					ic, _ := CallOf(x)
					return ic != nil && Callee(ic) == fnCurrentUserID
				})
				r.Check(ok, "C07.middleware", "ab/remember.middleware", "Authenticate", posf(c, call), "only when CurrentUserID is empty", "the middleware runs cookie authentication although a user may be logged in: the cookie's account would replace the session's")
			}
		}
		if n == 0 {
			r.Unknown("C07.middleware", "ab/remember", "Authenticate", "-", "no middleware calls Authenticate")
		}
	}

	// (5) codec
	c.rememberCodec(au)

	// (6) wiring
	for _, ev := range []string{"EventAuth", "EventOAuth2"} {
		found := false
		pos := "-"
		for _, w := range c.wireFind(false, c.Event(ev), "ab/remember") {
			if w.Handler == raa {
				found = true
				pos = posf(c, w.Call)
			}
		}
		r.Check(found, "C07.wire", "(*ab/remember.Remember).Init", "After("+ev+")->RememberAfterAuth", pos, "registered", "remember does not register RememberAfterAuth on After("+ev+")")
	}

	c.oauthParamsReset("C07.params-reset")
}

// tokenHalves: the store gets result #0 (hash) and the client result #1
// (token) of GenerateToken.
func (c *Ctx) tokenHalves(fn string, add ssa.CallInstruction, cookie *StateOp, genName string) {
	r := c.R
	// half reports whether v is result #idx of GenerateToken, possibly handed
	// out of a helper (a phi whose other operands are empty-string constants
	// returned on the helper's error paths)
	var half func(v ssa.Value, idx, d int) bool
	half = func(v ssa.Value, idx, d int) bool {
		if d > 4 {
			return false
		}
		if gc, i := CallOf(v); gc != nil && Callee(gc) == genName && i == idx {
			return true
		}
		// the generator's body inlined where the token is used (a helper that hands
		// both forms back in a struct): the hash is StdEncoding(sha512(raw)), the
		// token URLEncoding(raw) of the same raw buffer
		if ec, _ := CallOf(v); ec != nil && Callee(ec) == fnB64Encode {
			if in, isI := ec.(ssa.Instruction); isI && in.Parent() != nil {
				for _, sc := range CallsTo(in.Parent(), fnSum512) {
					raw := stripConv(Arg(sc, 0))
					// … a buffer this function filled from the entropy source (the hash of
					// the cookie that came in is computed the same way and is not it)
					fresh := false
					for _, rc := range Calls(in.Parent()) {
						switch Callee(rc) {
						case "io.ReadFull", "io.ReadAtLeast":
							if entropyBufRoot(Arg(rc, 1)) == entropyBufRoot(raw) {
								fresh = true
							}
						}
					}
					if !fresh {
						continue
					}
					switch idx {
					case 0:
						if encodingOf(ec) == gStdEncoding && derivesFromValue(Arg(ec, 1), sc.Value(), 0) {
							return true
						}
					case 1:
						if encodingOf(ec) == gURLEncoding && stripConv(Arg(ec, 1)) == raw {
							return true
						}
					}
				}
			}
		}
		if phi, ok := v.(*ssa.Phi); ok {
			n := 0
			for _, e := range phi.Edges {
				if s, isC := ConstStr(e); isC && s == "" {
					continue
				}
				if !half(e, idx, d+1) {
					return false
				}
				n++
			}
			return n > 0
		}
		return false
	}
	if add != nil {
		r.Check(half(Arg(add, 2), 0, 0), "C07.hash-stored", fn, "AddRememberToken.token", posf(c, add), "stores the hash (result #0 of GenerateToken)", "value stored in the token table is not the hash returned by GenerateToken (it would be the cookie value itself or something else)")
	}
	if cookie != nil {
		r.Check(half(cookie.Val, 1, 0), "C07.hash-stored", fn, "PutCookie.value", posf(c, cookie.Call), "sends the token (result #1 of GenerateToken)", "cookie value is not the token returned by GenerateToken")
	}
}

func (c *Ctx) rememberCodec(au *ssa.Function) {
	r := c.R
	gen := c.P.Func("ab/remember.GenerateToken")
	gn := FuncName(gen)
	// the nonce length: the package constant when it still has its name, else
	// whatever the writer's layout implies (checked below to be a real nonce)
	nonce := int64(-1)
	if sp := c.P.ByPath[RepoPath+"/remember"]; sp != nil {
		if nc, ok := sp.Members["nNonceSize"].(*ssa.NamedConst); ok {
			if v, isC := ConstInt(nc.Value); isC {
				nonce = v
			}
		}
	}
	// writer: raw := make([]byte, L); raw[S] = sep
	var total Linear
	okTotal := false
	var raw ssa.Value
	for _, b := range gen.Blocks {
		for _, in := range b.Instrs {
			if ms, ok := in.(*ssa.MakeSlice); ok {
				if l, ok := linearOf(ms.Len, 0); ok {
					total, okTotal, raw = l, true, ms
				}
			}
		}
	}
	if !okTotal {
		// the raw token carved out of a larger allocation: buf[:n:n]
		for _, b := range gen.Blocks {
			for _, in := range b.Instrs {
				sl, ok := in.(*ssa.Slice)
				if !ok || sl.Low != nil || sl.High == nil || sl.Referrers() == nil {
					continue
				}
				l, ok := linearOf(sl.High, 0)
				if !ok {
					continue
				}
				// it is the token buffer if a constant byte (the separator) is stored into it
				for _, ref := range *sl.Referrers() {
					ia, isIA := ref.(*ssa.IndexAddr)
					if !isIA || ia.Referrers() == nil {
						continue
					}
					for _, rr := range *ia.Referrers() {
						if st, isSt := rr.(*ssa.Store); isSt {
							if _, isC := ConstInt(st.Val); isC {
								total, okTotal, raw = l, true, sl
							}
						}
					}
				}
			}
		}
	}
	var sepAt Linear
	var sepByte int64 = -1
	okSep := false
	// the raw token assembled piece by piece (append chain, bytes.Buffer writes):
	// its layout is the sequence of the pieces
	if t, sAt, sb, ok := c.tokenConcatLayout(gen); ok {
		total, okTotal, sepAt, sepByte, okSep = t, true, sAt, sb, true
		raw = nil
	}
	if !okTotal {
		r.Unknown("C07.codec", gn, "make([]byte, n)", "-", "token buffer length is not a linear form over len(pid)")
		return
	}
	for _, b := range gen.Blocks {
		if okSep {
			break
		}
		for _, in := range b.Instrs {
			st, ok := in.(*ssa.Store)
			if !ok {
				continue
			}
			ia, ok := st.Addr.(*ssa.IndexAddr)
			if !ok || ia.X != raw {
				continue
			}
			if v, isC := ConstInt(st.Val); isC {
				if l, ok := linearOf(ia.Index, 0); ok {
					sepAt, sepByte, okSep = l, v, true
				}
			}
		}
	}
	if !okSep {
		r.Unknown("C07.codec", gn, "raw[i] = sep", "-", "separator store not found in GenerateToken")
		return
	}
	// offset of the separator from the END of the token: total - sepAt must be a constant
	diff := Linear{K: total.K - sepAt.K, Lens: map[ssa.Value]int64{}}
	for k, v := range total.Lens {
		diff.Lens[k] += v
	}
	for k, v := range sepAt.Lens {
		diff.Lens[k] -= v
	}
	constTail := true
	for _, v := range diff.Lens {
		if v != 0 {
			constTail = false
		}
	}
	if nonce < 0 {
		nonce = diff.K - 1
	}
	r.Check(constTail && diff.K == nonce+1 && nonce >= 16, "C07.codec", gn, "layout", c.P.Pos(gen.Pos()), sprintf("pid‖sep(%d)‖nonce[%d]: separator sits %d bytes before the end", sepByte, nonce, diff.K), sprintf("writer layout is not pid‖sep‖nonce[nNonceSize] (total %s, separator at %s)", total, sepAt))
	// the hash covers the whole raw token and the token is its URL encoding
	// reader
	an := FuncName(au)
	var split *ssa.Slice
	for _, b := range au.Blocks {
		for _, in := range b.Instrs {
			sl, ok := in.(*ssa.Slice)
			if !ok || sl.High == nil || sl.Low != nil {
				continue
			}
			// the slice that becomes the pid: converted to string and used as UseRememberToken's pid
			for _, u := range CallsTo(au, fnUseRemember) {
				if HasOrigin(c.rawOrigins(Arg(u, 1)), func(o Origin) bool { return false }) {
				}
				if derivesFromValue(Arg(u, 1), sl, 0) {
					split = sl
				}
			}
		}
	}
	if split == nil {
		r.Bad("C07.codec", an, "pid := raw[:i]", "-", "the PID handed to UseRememberToken is not a prefix slice raw[:i] of the decoded cookie")
		return
	}
	l, ok := linearOf(split.High, 0)
	pos := posf(c, split)
	if !ok {
		r.Bad("C07.codec", an, "split offset", pos, "the reader's split offset is not a positional (linear in len(raw)) expression — e.g. it is found by searching for the separator, which is only correct for PIDs that do not contain it, and the library's own OAuth2 PIDs (oauth2;;provider;;uid) do: "+split.High.String())
		return
	}
	okOff := l.K == -(diff.K) && len(l.Lens) == 1
	for k, v := range l.Lens {
		if v != 1 || stripConv(k) != stripConv(split.X) {
			okOff = false
		}
	}
	r.Check(okOff, "C07.codec", an, "split offset", pos, sprintf("splits at len(raw)%+d, where the writer put the separator", l.K), sprintf("reader splits at %s but the writer's separator is at len(raw)-%d", l, diff.K))
	// separator byte tested at that offset, and offset >= 0
	fs := FactsAtInstr(split)
	sepTested := HasFact(fs, func(f Fact) bool {
		rel := f.Rel()
		if rel.Op != token.EQL {
			return false
		}
		n, isC := ConstInt(rel.Y)
		if !isC || n != sepByte {
			return false
		}
		u, isU := rel.X.(*ssa.UnOp)
		if !isU {
			return false
		}
		ia, isIA := u.X.(*ssa.IndexAddr)
		if !isIA {
			return false
		}
		li, ok := linearOf(ia.Index, 0)
		return ok && li.K == l.K && len(li.Lens) == len(l.Lens)
	})
	r.Check(sepTested, "C07.codec", an, "separator test", pos, "byte at the split offset is tested against the writer's separator", "the byte at the split offset is not compared with the separator the writer stores")
	nonNeg := HasFact(fs, func(f Fact) bool {
		rel := f.Rel()
		n, isC := ConstInt(rel.Y)
		if !isC {
			return false
		}
		li, ok := linearOf(rel.X, 0)
		if !ok || li.K != l.K {
			return false
		}
		return (rel.Op == token.GEQ && n == 0) || (rel.Op == token.GTR && n == -1)
	})
	r.Check(nonNeg, "C07.codec", an, "offset>=0", pos, "short cookies are rejected before slicing", "split offset is not checked to be non-negative: a short cookie panics")
	// decode/encode objects agree
	for _, call := range CallsTo(au, fnB64Decode) {
		if HasOrigin(c.rawOrigins(Arg(call, 1)), func(o Origin) bool { return o.Kind == "call" && strings.HasPrefix(o.Name, fnGetCookie+"#") }) {
			r.Check(encodingOf(call) == gURLEncoding, "C07.codec", an, "decode(cookie)", posf(c, call), "cookie decoded with base64.URLEncoding", "cookie decoded with "+encodingOf(call)+" but encoded with URLEncoding")
		}
	}
	// hash = StdEncoding(sha512(whole raw token)) on both sides
	for _, fn := range []*ssa.Function{gen, au} {
		okH := false
		for _, call := range CallsTo(fn, fnB64Encode) {
			if encodingOf(call) != gStdEncoding {
				continue
			}
			if HasOrigin(c.rawOrigins(Arg(call, 1)), func(o Origin) bool { return false }) {
			}
			// argument derives from Sum512 of the full raw token
			var sum ssa.CallInstruction
			for _, sc := range CallsTo(fn, fnSum512) {
				if derivesFromValue(Arg(call, 1), sc.Value(), 0) {
					sum = sc
				}
			}
			if sum != nil {
				if sv, sliced := stripConv(Arg(sum, 0)).(*ssa.Slice); !sliced || ssa.Value(sv) == raw {
					okH = true // (the token buffer itself may be a slice of a larger allocation)
				}
			}
		}
		r.Check(okH, "C07.codec", FuncName(fn), "hash", c.P.Pos(fn.Pos()), "token-table value is base64.StdEncoding(sha512(whole raw token))", "hash is not StdEncoding(sha512(raw token)) over the whole token")
	}
}

// derivesFromValue: v is computed from target through loads of local allocs,
// conversions, slices.
func derivesFromValue(v, target ssa.Value, d int) bool {
	if v == target {
		return true
	}
	if d > 10 || v == nil {
		return false
	}
	switch x := v.(type) {
	case *ssa.Convert:
		return derivesFromValue(x.X, target, d+1)
	case *ssa.ChangeType:
		return derivesFromValue(x.X, target, d+1)
	case *ssa.Slice:
		return derivesFromValue(x.X, target, d+1)
	case *ssa.UnOp:
		return derivesFromValue(x.X, target, d+1)
	case *ssa.Alloc:
		if x.Referrers() != nil {
			for _, r := range *x.Referrers() {
				if st, ok := r.(*ssa.Store); ok && st.Addr == x && derivesFromValue(st.Val, target, d+1) {
					return true
				}
			}
		}
	case *ssa.Phi:
		for _, e := range x.Edges {
			if derivesFromValue(e, target, d+1) {
				return true
			}
		}
	case *ssa.Extract:
		return derivesFromValue(x.Tuple, target, d+1)
	}
	return false
}

// oauthParamsReset: every started OAuth2 flow overwrites or deletes the
// pass-along parameters an earlier, abandoned flow left in the session (they
// carry the remember-me wish and the return target).
func (c *Ctx) oauthParamsReset(rule string) {
	r := c.R
	// (7) oauth2 pass-along reset
	if st := c.P.FuncOpt("(*ab/oauth2.OAuth2).Start"); st != nil {
		stateKey := c.P.ConstString("", "SessionOAuth2State")
		paramsKey := c.P.ConstString("", "SessionOAuth2Params")
		n := 0
		for _, op := range c.StateOps(st) {
			if op.Op == "put" && op.Store == "session" && op.Key == stateKey {
				n++
				q := PathQuery{From: op.Call.(ssa.Instruction), Cut: Or(c.isStateOp("put", "session", paramsKey), c.isStateOp("del", "session", paramsKey)), GoalP: c.nonErrorReturn}
				if p := q.Find(); p != nil {
					r.Bad(rule, FuncName(st), "PutSession(oauth2_state)=>Put|Del(oauth2_params)", posf(c, op.Call), "a new OAuth2 flow can start without overwriting or deleting the pass-along parameters of an earlier flow: a stale rm=true would issue a remember cookie nobody asked for", c.P.DescribePath(p)...)
				} else {
					r.Ok(rule, FuncName(st), "PutSession(oauth2_state)=>Put|Del(oauth2_params)", posf(c, op.Call), "every started flow overwrites or deletes the pass-along parameters")
				}
			}
		}
		if n == 0 {
			r.Unknown(rule, FuncName(st), "PutSession(oauth2_state)", "-", "Start does not store a state")
		}
	}
}

// tokenConcatLayout reads the layout of the raw remember token when the
// writer assembles it from pieces: the value hashed by Sum512 is an append
// chain or the Bytes() of a buffer written piece by piece. Returns the total
// length and the separator's offset as linear forms, and the separator byte.
func (c *Ctx) tokenConcatLayout(gen *ssa.Function) (total, sepAt Linear, sepByte int64, ok bool) {
	sums := CallsTo(gen, fnSum512)
	if len(sums) != 1 {
		return
	}
	type part struct {
		lin   Linear
		konst int64
		isSep bool
	}
	lenOf := func(v ssa.Value) (part, bool) {
		v = stripConv(v)
		if sl, isSl := v.(*ssa.Slice); isSl {
			root := stripConv(sl.X)
			if pt, isP := root.Type().Underlying().(*types.Pointer); isP {
				if at, isA := pt.Elem().Underlying().(*types.Array); isA && sl.Low == nil && sl.High == nil {
					// a one-byte varargs array holding a constant: the separator
					if al, isAl := root.(*ssa.Alloc); isAl && at.Len() == 1 && al.Referrers() != nil {
						for _, ref := range *al.Referrers() {
							if ia, isIA := ref.(*ssa.IndexAddr); isIA && ia.Referrers() != nil {
								for _, rr := range *ia.Referrers() {
									if st, isSt := rr.(*ssa.Store); isSt {
										if k, isC := ConstInt(st.Val); isC {
											return part{lin: Linear{K: 1, Lens: map[ssa.Value]int64{}}, konst: k, isSep: true}, true
										}
									}
								}
							}
						}
					}
					return part{lin: Linear{K: at.Len(), Lens: map[ssa.Value]int64{}}}, true
				}
			}
			return part{}, false
		}
		if ms, isMS := v.(*ssa.MakeSlice); isMS {
			if n, isC := ConstInt(ms.Len); isC {
				return part{lin: Linear{K: n, Lens: map[ssa.Value]int64{}}}, true
			}
			return part{}, false
		}
		switch v.(type) {
		case *ssa.Parameter:
			return part{lin: Linear{Lens: map[ssa.Value]int64{v: 1}}}, true
		}
		return part{}, false
	}
	var parts []part
	var walk func(v ssa.Value, d int) bool
	walk = func(v ssa.Value, d int) bool {
		v = stripConv(v)
		if d > 12 {
			return false
		}
		switch x := v.(type) {
		case *ssa.Call:
			if bi, isB := x.Call.Value.(*ssa.Builtin); isB && bi.Name() == "append" && len(x.Call.Args) == 2 {
				if !walk(x.Call.Args[0], d+1) {
					return false
				}
				p, okP := lenOf(x.Call.Args[1])
				if !okP {
					return false
				}
				parts = append(parts, p)
				return true
			}
			if strings.HasSuffix(Callee(x), "bytes.Buffer).Bytes") && len(x.Call.Args) == 1 {
				buf := x.Call.Args[0]
				var writes []*ssa.Call
				if buf.Referrers() == nil {
					return false
				}
				for _, ref := range *buf.Referrers() {
					call, isC := ref.(*ssa.Call)
					if !isC || call == x {
						continue
					}
					switch {
					case strings.HasSuffix(Callee(call), "bytes.Buffer).WriteString"), strings.HasSuffix(Callee(call), "bytes.Buffer).WriteByte"), strings.HasSuffix(Callee(call), "bytes.Buffer).Write"):
						writes = append(writes, call)
					case strings.HasSuffix(Callee(call), "bytes.Buffer).Grow"), strings.HasSuffix(Callee(call), "bytes.Buffer).Reset"), strings.HasSuffix(Callee(call), "bytes.Buffer).Len"):
					default:
						if f := call.Call.StaticCallee(); f != nil && c.inRepo(f) && isPutHelper(f) {
							continue
						}
						return false
					}
				}
				sort.SliceStable(writes, func(i, j int) bool { return InstrDominates(writes[i], writes[j]) })
				for i := 0; i+1 < len(writes); i++ {
					if !InstrDominates(writes[i], writes[i+1]) {
						return false
					}
				}
				for _, w := range writes {
					if !InstrDominates(w, x) {
						return false
					}
					a := w.Call.Args[1]
					if strings.HasSuffix(Callee(w), "WriteByte") {
						k, isC := ConstInt(a)
						if !isC {
							return false
						}
						parts = append(parts, part{lin: Linear{K: 1, Lens: map[ssa.Value]int64{}}, konst: k, isSep: true})
						continue
					}
					p, okP := lenOf(a)
					if !okP {
						return false
					}
					parts = append(parts, p)
				}
				return true
			}
			return false
		case *ssa.MakeSlice:
			n, isC := ConstInt(x.Len)
			return isC && n == 0
		case *ssa.Slice:
			// buf[:0]
			if x.High != nil {
				if n, isC := ConstInt(x.High); isC && n == 0 {
					return true
				}
			}
			return false
		case *ssa.Const:
			return x.Value == nil
		}
		return false
	}
	if !walk(Arg(sums[0], 0), 0) || len(parts) < 3 {
		return
	}
	total = Linear{Lens: map[ssa.Value]int64{}}
	nSep := 0
	for _, p := range parts {
		if p.isSep {
			nSep++
			sepAt = Linear{K: total.K, Lens: map[ssa.Value]int64{}}
			for k, v := range total.Lens {
				sepAt.Lens[k] = v
			}
			sepByte = p.konst
		}
		total.K += p.lin.K
		for k, v := range p.lin.Lens {
			total.Lens[k] += v
		}
	}
	if nSep != 1 {
		return Linear{}, Linear{}, -1, false
	}
	return total, sepAt, sepByte, true
}

// pidVerbatim: v is what a GetPID() call returned (or a parameter), merged
// at most with other such values — not the result of a string transformation.
func pidVerbatim(v ssa.Value, d int) bool {
	v = stripConv(v)
	if d > 4 {
		return false
	}
	switch x := v.(type) {
	case *ssa.Parameter, *ssa.FreeVar:
		return true
	case *ssa.Phi:
		for _, e := range x.Edges {
			if !pidVerbatim(e, d+1) {
				return false
			}
		}
		return true
	case *ssa.Call:
		return x.Call.IsInvoke() && x.Call.Method.Name() == "GetPID"
	case *ssa.UnOp:
		// a captured or spilled local holding the PID
		if al, ok := x.X.(*ssa.Alloc); ok && al.Referrers() != nil {
			for _, ref := range *al.Referrers() {
				if st, isSt := ref.(*ssa.Store); isSt && st.Addr == ssa.Value(al) && !pidVerbatim(st.Val, d+1) {
					return false
				}
			}
			return true
		}
		_, isFV := x.X.(*ssa.FreeVar)
		return isFV
	}
	return false
}
